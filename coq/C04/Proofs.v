(* C04 — proofs about C04/Model.v. *)
From Coq Require Import List NArith ZArith Bool Arith Lia.
From DV Require Import C04.Model.
Import ListNotations.

(* ---------- small list facts ---------- *)
Lemma fold_left_ext_in {A B} (f g : A -> B -> A) (l : list B) : forall a,
  (forall acc x, In x l -> f acc x = g acc x) -> fold_left f l a = fold_left g l a.
Proof. induction l as [|x r IH]; intros a H; [reflexivity|]. cbn [fold_left].
  rewrite (H a x (or_introl eq_refl)). apply IH. intros acc y Hy. apply H. right. exact Hy. Qed.

Lemma mem_In n l : mem n l = true -> In n l.
Proof. unfold mem. intros H. apply existsb_exists in H. destruct H as [x [Hx E]]. apply N.eqb_eq in E. subst. exact Hx. Qed.

Lemma In_mem n l : In n l -> mem n l = true.
Proof. intros H. unfold mem. apply existsb_exists. exists n. split; [exact H | apply N.eqb_refl]. Qed.

(* ---------- acyclicity ---------- *)
Inductive Topo (G : graph) : list N -> Prop :=
| Topo_nil : Topo G []
| Topo_snoc o id : Topo G o -> ~ In id o ->
    (forall r, In r (refs G id) -> In r o \/ find r G = None) -> Topo G (o ++ [id]).

Lemma topo_aux_Topo G : forall order seen, Topo G seen -> topo_aux G seen order = true -> Topo G (seen ++ order).
Proof. induction order as [|id r IH]; intros seen HT H; [rewrite app_nil_r; exact HT|].
  cbn [topo_aux] in H. apply andb_true_iff in H. destruct H as [H H3]. apply andb_true_iff in H. destruct H as [H1 H2].
  replace (seen ++ id :: r) with ((seen ++ [id]) ++ r) by (rewrite <- app_assoc; reflexivity).
  apply IH; [|exact H3]. constructor; [exact HT | |].
  - intro Hin. apply In_mem in Hin. rewrite Hin in H1. discriminate.
  - intros x Hx. rewrite forallb_forall in H2. specialize (H2 x Hx). apply orb_true_iff in H2. destruct H2 as [H2|H2].
    + left. apply mem_In. exact H2.
    + right. destruct (find x G); [discriminate | reflexivity]. Qed.

Lemma topo_ok_Topo G order : topo_ok G order = true -> Topo G order.
Proof. intros H. apply (topo_aux_Topo G order [] (Topo_nil G) H). Qed.

Lemma Topo_refs G o : Topo G o -> forall id, In id o -> forall r, In r (refs G id) -> In r o \/ find r G = None.
Proof. induction 1 as [|o id HT IH Hn Hr]; intros id' Hin r Hrin; [destruct Hin|].
  apply in_app_or in Hin. destruct Hin as [Hin|[<-|[]]].
  - destruct (IH id' Hin r Hrin) as [H|H]; [left; apply in_or_app; left; exact H | right; exact H].
  - destruct (Hr r Hrin) as [H|H]; [left; apply in_or_app; left; exact H | right; exact H]. Qed.

Section WiringProofs.
Variable eval : (N -> env -> value) -> env -> expr -> value.
(* the one thing assumed of the expression evaluator: it uses the service call-back extensionally *)
Hypothesis eval_ext_svc : forall s1 s2 sc e, (forall i x, s1 i x = s2 i x) -> eval s1 sc e = eval s2 sc e.

Lemma svc_call_ext G rec1 rec2 callable :
  (forall sid, In sid callable -> forall inp out, rec1 KSvc sid inp out = rec2 KSvc sid inp out) ->
  forall i x, svc_call G rec1 callable i x = svc_call G rec2 callable i x.
Proof. intros H i x. unfold svc_call. destruct (mem i callable) eqn:E; [|reflexivity].
  destruct (find i G) as [[| | |name ins indecs encs outs]|]; try reflexivity. rewrite (H i (mem_In _ _ E)). reflexivity. Qed.

(* a closure invocation depends on the registry only at the requirements of its node *)
Lemma body_ext fixed G rec1 rec2 k id inp out :
  (forall r, In r (refs G id) -> forall k inp out, rec1 k r inp out = rec2 k r inp out) ->
  body eval fixed G rec1 k id inp out = body eval fixed G rec2 k id inp out.
Proof. intros H. unfold body. unfold refs in H.
  destruct (find id G) as [[name|name logic rk rd ri callable|name ps b rk callable|name ins indecs encs outs]|]; destruct k; try reflexivity; cbv zeta.
  - assert (E1 : fold_left (fun acc b => rec1 KBkm b inp acc) rk [] = fold_left (fun acc b => rec2 KBkm b inp acc) rk []).
    { apply fold_left_ext_in. intros acc x Hx. apply H. apply in_or_app. left. exact Hx. }
    rewrite E1.
    assert (E3 : forall a, fold_left (fun acc d => rec1 KDec d inp acc) rd a = fold_left (fun acc d => rec2 KDec d inp acc) rd a).
    { intros a. apply fold_left_ext_in. intros acc x Hx. apply H. apply in_or_app. right. apply in_or_app. left. exact Hx. }
    rewrite E3. f_equal. apply eval_ext_svc. apply svc_call_ext. intros sid Hs inp' out'. apply H. apply in_or_app. right. apply in_or_app. right. exact Hs.
  - f_equal. apply fold_left_ext_in. intros acc x Hx.
    assert (Hx' : In x (rk ++ callable)) by (apply in_or_app; left; exact Hx).
    rewrite (H x Hx' KBkm inp acc). destruct fixed; [reflexivity|]. apply H. exact Hx'.
  - set (e3 := inputs_into G ins inp _).
    assert (E2 : fold_left (fun acc d => rec1 KDec d e3 acc) encs [] = fold_left (fun acc d => rec2 KDec d e3 acc) encs []).
    { apply fold_left_ext_in. intros acc x Hx. apply H. apply in_or_app. left. exact Hx. }
    rewrite E2.
    assert (E3 : forall a, fold_left (fun acc d => rec1 KDec d e3 acc) outs a = fold_left (fun acc d => rec2 KDec d e3 acc) outs a).
    { intros a. apply fold_left_ext_in. intros acc x Hx. apply H. apply in_or_app. right. exact Hx. }
    rewrite E3. reflexivity. Qed.

(* ---------- the table ---------- *)
Lemma build_snoc fixed G o id :
  build eval fixed G (o ++ [id]) = build eval fixed G o ++ [(id, fun k inp out => body eval fixed G (tstep (build eval fixed G o)) k id inp out)].
Proof. unfold build. rewrite fold_left_app. reflexivity. Qed.

Lemma keys_build fixed G o : map fst (build eval fixed G o) = o.
Proof. induction o as [|id o IH] using rev_ind; [reflexivity|]. rewrite build_snoc, map_app, IH. reflexivity. Qed.

Lemma tfind_app_in id (t t' : list (N * stepfn)) : In id (map fst t) -> tfind id (t ++ t') = tfind id t.
Proof. induction t as [|[k s] r IH]; intros H; [destruct H|]. cbn [app tfind]. destruct (N.eqb id k) eqn:E; [reflexivity|].
  apply IH. cbn [map fst In] in H. destruct H as [H|H]; [subst; rewrite N.eqb_refl in E; discriminate | exact H]. Qed.

Lemma tfind_notin id (t : list (N * stepfn)) : ~ In id (map fst t) -> tfind id t = None.
Proof. induction t as [|[k s] r IH]; intros H; [reflexivity|]. cbn [tfind]. cbn [map fst In] in H.
  destruct (N.eqb id k) eqn:E; [apply N.eqb_eq in E; subst; exfalso; apply H; left; reflexivity|].
  apply IH. intro Hin. apply H. right. exact Hin. Qed.

Lemma tfind_app_new id s (t : list (N * stepfn)) : ~ In id (map fst t) -> tfind id (t ++ [(id, s)]) = Some s.
Proof. induction t as [|[k s0] r IH]; intros H; cbn [app tfind]; [rewrite N.eqb_refl; reflexivity|]. cbn [map fst In] in H.
  destruct (N.eqb id k) eqn:E; [apply N.eqb_eq in E; subst; exfalso; apply H; left; reflexivity|].
  apply IH. intro Hin. apply H. right. exact Hin. Qed.

Lemma run_missing fixed G f k id inp out : find id G = None -> run eval fixed G f k id inp out = out.
Proof. intros H. destruct f; [reflexivity|]. cbn [run]. unfold body. rewrite H. reflexivity. Qed.

(* ---------- the recursive closures compute the tabulated semantics ---------- *)
Lemma refines_Topo fixed G o : Topo G o -> forall id, In id o -> forall f, length o <= f ->
  forall k inp out, run eval fixed G f k id inp out = tstep (build eval fixed G o) k id inp out.
Proof. induction 1 as [|o id HT IH Hn Hr]; intros id' Hin f Hf k inp out; [destruct Hin|].
  rewrite app_length in Hf. cbn [length] in Hf. rewrite build_snoc. unfold tstep at 1.
  apply in_app_or in Hin. destruct Hin as [Hin|[<-|[]]].
  - rewrite tfind_app_in; [|rewrite keys_build; exact Hin]. apply IH; [exact Hin | lia].
  - rewrite tfind_app_new; [|rewrite keys_build; exact Hn]. destruct f as [|f']; [lia|]. cbn [run]. apply body_ext.
    intros r Hrin k' inp' out'. destruct (in_dec N.eq_dec r o) as [Hino|Hnot].
    + apply IH; [exact Hino | lia].
    + destruct (Hr r Hrin) as [Hino|Hnone]; [contradiction|]. rewrite run_missing; [|exact Hnone].
      unfold tstep. rewrite tfind_notin; [reflexivity | rewrite keys_build; exact Hnot]. Qed.

Theorem refines fixed G order id f k inp out : topo_ok G order = true -> In id order -> length order <= f ->
  run eval fixed G f k id inp out = spec_step eval fixed G order k id inp out.
Proof. intros HT Hin Hf. apply refines_Topo; [apply topo_ok_Topo; exact HT | exact Hin | exact Hf]. Qed.

Theorem fuel_sufficient fixed G order id f1 f2 k inp out : topo_ok G order = true -> In id order ->
  length order <= f1 -> length order <= f2 -> run eval fixed G f1 k id inp out = run eval fixed G f2 k id inp out.
Proof. intros HT Hin H1 H2. rewrite (refines fixed G order id f1 k inp out HT Hin H1), (refines fixed G order id f2 k inp out HT Hin H2). reflexivity. Qed.

Theorem invoke_refines fixed G order id f inp : topo_ok G order = true -> In id order -> length order <= f ->
  impl_invoke eval fixed G f id inp = spec_invoke eval fixed G order id inp.
Proof. intros HT Hin Hf. unfold impl_invoke, spec_invoke, invoke.
  pose proof (fun k inp out => refines fixed G order id f k inp out HT Hin Hf) as R.
  destruct (find id G) as [[name|name logic rk rd ri callable|name ps b rk callable|name ins indecs encs outs]|] eqn:E; try reflexivity.
  - rewrite R. reflexivity.
  - rewrite R. destruct (lookup name _) as [[| | | | |ps' b'|]|]; try reflexivity. apply eval_ext_svc. apply svc_call_ext.
    intros sid Hs inp' out'.
    assert (Hrefs : In sid (refs G id)) by (unfold refs; rewrite E; apply in_or_app; right; exact Hs).
    destruct (Topo_refs G order (topo_ok_Topo _ _ HT) id Hin sid Hrefs) as [Hino|Hnone].
    + apply refines; assumption.
    + rewrite run_missing; [|exact Hnone]. destruct (in_dec N.eq_dec sid order) as [Hi|Hni].
      * symmetry. change (spec_step eval fixed G order KSvc sid inp' out' = out').
        rewrite <- (refines fixed G order sid f KSvc inp' out' HT Hi Hf). apply run_missing. exact Hnone.
      * unfold spec_step, tstep. rewrite tfind_notin; [reflexivity | rewrite keys_build; exact Hni].
  - rewrite R. reflexivity. Qed.

Lemma build_entry fixed G o id : In id o ->
  exists t0, tfind id (build eval fixed G o) = Some (fun k inp out => body eval fixed G (tstep t0) k id inp out).
Proof. induction o as [|x o IH] using rev_ind; intros Hin; [destruct Hin|]. rewrite build_snoc.
  destruct (in_dec N.eq_dec id o) as [Hi|Hni].
  - destruct (IH Hi) as [t0 E]. exists t0. rewrite tfind_app_in; [exact E | rewrite keys_build; exact Hi].
  - apply in_app_or in Hin. destruct Hin as [Hin|[<-|[]]]; [contradiction|]. exists (build eval fixed G o).
    apply tfind_app_new. rewrite keys_build. exact Hni. Qed.

Lemma lookup_set_same n v e : lookup n (set n v e) = Some v.
Proof. induction e as [|[k x] r IH]; cbn [set lookup]; [rewrite N.eqb_refl; reflexivity|].
  destruct (N.eqb n k) eqn:E; cbn [lookup]; rewrite E; [reflexivity | exact IH]. Qed.

(* a shared requirement (diamond) has the same value on every path: whoever asks, into whatever context, with whatever sufficient fuel *)
Theorem diamond_agree fixed G order shared f1 f2 inp out1 out2 name logic rk rd ri callable :
  topo_ok G order = true -> In shared order -> length order <= f1 -> length order <= f2 ->
  find shared G = Some (NDec name logic rk rd ri callable) ->
  lookup name (run eval fixed G f1 KDec shared inp out1) = lookup name (run eval fixed G f2 KDec shared inp out2).
Proof. intros HT Hin H1 H2 E.
  rewrite (refines fixed G order shared f1 KDec inp out1 HT Hin H1), (refines fixed G order shared f2 KDec inp out2 HT Hin H2).
  unfold spec_step, tstep. destruct (build_entry fixed G order shared Hin) as [t0 Et]. rewrite Et.
  unfold body. rewrite E. cbv zeta. rewrite !lookup_set_same. reflexivity. Qed.

(* ---------- inputs outside the requirement closure have no influence ---------- *)
Definition agree (l : list N) (a b : env) : Prop := forall n, In n l -> lookup n a = lookup n b.

Lemma agree_incl l l' a b : incl l l' -> agree l' a b -> agree l a b.
Proof. intros Hi H n Hn. apply H. apply Hi. exact Hn. Qed.

Lemma keys_set n v e : incl (map fst (set n v e)) (n :: map fst e).
Proof. induction e as [|[k x] r IH]; cbn [set]; [intros y Hy; exact Hy|].
  destruct (N.eqb n k); cbn [map fst]; intros y [Hy|Hy].
  - right. left. exact Hy.
  - right. right. exact Hy.
  - right. left. exact Hy.
  - destruct (IH y Hy) as [H|H]; [left; exact H | right; right; exact H]. Qed.

Lemma keys_svc_fn G s acc CL : (forall name ins indecs encs outs, find s G = Some (NSvc name ins indecs encs outs) -> In name CL) ->
  incl (map fst (svc_fn G s acc)) (map fst acc ++ CL).
Proof. intros H. unfold svc_fn. destruct (find s G) as [[| | |name ins indecs encs outs]|]; try (apply incl_appl, incl_refl).
  intros y Hy. apply keys_set in Hy. destruct Hy as [<-|Hy]; apply in_or_app; [right; apply (H name ins indecs encs outs eq_refl) | left; exact Hy]. Qed.

Lemma incl_app_keep (a b c : list N) : incl a (b ++ c) -> incl (a ++ c) (b ++ c).
Proof. intros H y Hy. apply in_app_or in Hy. destruct Hy as [Hy|Hy]; [apply H; exact Hy | apply in_or_app; right; exact Hy]. Qed.

Lemma fold_keys {A} (step : env -> A -> env) (l : list A) (CL : list N) : forall acc,
  (forall a x, In x l -> incl (map fst (step a x)) (map fst a ++ CL)) ->
  incl (map fst (fold_left step l acc)) (map fst acc ++ CL).
Proof. induction l as [|x r IH]; intros acc H; [apply incl_appl, incl_refl|]. cbn [fold_left].
  eapply incl_tran; [apply IH; intros a y Hy; apply H; right; exact Hy|].
  apply incl_app_keep. apply H. left. reflexivity. Qed.

Lemma overwrite_agree k inp1 inp2 : agree (map fst k) inp1 inp2 -> overwrite k inp1 = overwrite k inp2.
Proof. intros H. unfold overwrite. apply map_ext_in. intros [n v] Hin. cbn [fst].
  rewrite (H n); [reflexivity|]. apply in_map_iff. exists (n, v). split; [reflexivity | exact Hin]. Qed.

Lemma inputs_into_agree G ids inp1 inp2 acc : agree (input_names G ids) inp1 inp2 -> inputs_into G ids inp1 acc = inputs_into G ids inp2 acc.
Proof. intros H. unfold inputs_into. apply fold_left_ext_in. intros a nm Hin. unfold input_value, getv. rewrite (H nm Hin). reflexivity. Qed.

Section Closure.
Variables (fixed : bool) (G : graph) (id : N) (CL : list N).
Variable rec : kind -> N -> env -> env -> env.
Hypothesis own_in : incl (own_names G id) CL.
Hypothesis rec_keys : forall r, In r (refs G id) -> forall k inp out, incl (map fst (rec k r inp out)) (map fst out ++ CL).
Hypothesis svc_names : forall r, In r (refs G id) -> forall name ins indecs encs outs, find r G = Some (NSvc name ins indecs encs outs) -> In name CL.

Lemma body_keys k inp out : incl (map fst (body eval fixed G rec k id inp out)) (map fst out ++ CL).
Proof. unfold body. unfold refs in rec_keys, svc_names. unfold own_names in own_in.
  destruct (find id G) as [[name|name logic rk rd ri callable|name ps b rk callable|name ins indecs encs outs]|]; destruct k; try (apply incl_appl, incl_refl); cbv zeta.
  - intros y Hy. apply keys_set in Hy. apply in_or_app. destruct Hy as [<-|Hy]; [right; apply own_in; left; reflexivity | left; exact Hy].
  - intros y Hy. apply keys_set in Hy. destruct Hy as [<-|Hy]; [apply in_or_app; right; apply own_in; left; reflexivity|].
    revert y Hy. apply fold_keys. intros a x Hx.
    assert (Hx' : In x (rk ++ callable)) by (apply in_or_app; left; exact Hx).
    destruct fixed.
    + eapply incl_tran; [apply keys_svc_fn; intros; eapply (svc_names x Hx'); eassumption|]. apply incl_app_keep. apply rec_keys. exact Hx'.
    + eapply incl_tran; [apply rec_keys; exact Hx'|]. apply incl_app_keep. apply rec_keys. exact Hx'.
  - assert (Hn : In name CL) by (apply own_in; left; reflexivity).
    destruct (dec_names G outs) as [|n [|n2 l]].
    + intros y Hy. apply keys_set in Hy. apply in_or_app. destruct Hy as [<-|Hy]; [right; exact Hn | left; exact Hy].
    + destruct (lookup n _); [|apply incl_appl, incl_refl].
      intros y Hy. apply keys_set in Hy. apply in_or_app. destruct Hy as [<-|Hy]; [right; exact Hn | left; exact Hy].
    + intros y Hy. apply keys_set in Hy. apply in_or_app. destruct Hy as [<-|Hy]; [right; exact Hn | left; exact Hy]. Qed.

Variables inp1 inp2 : env.
Hypothesis inputs_agree : agree CL inp1 inp2.
Hypothesis rec_irrel : forall r, In r (refs G id) -> forall k out, rec k r inp1 out = rec k r inp2 out.

Lemma body_irrel k out : body eval fixed G rec k id inp1 out = body eval fixed G rec k id inp2 out.
Proof. unfold body. unfold refs in rec_keys, svc_names, rec_irrel. unfold own_names in own_in.
  destruct (find id G) as [[name|name logic rk rd ri callable|name ps b rk callable|name ins indecs encs outs]|]; destruct k; try reflexivity; cbv zeta.
  - assert (E1 : fold_left (fun acc b => rec KBkm b inp1 acc) rk [] = fold_left (fun acc b => rec KBkm b inp2 acc) rk []).
    { apply fold_left_ext_in. intros acc x Hx. apply rec_irrel. apply in_or_app. left. exact Hx. }
    rewrite E1.
    assert (E3 : forall a, fold_left (fun acc d => rec KDec d inp1 acc) rd a = fold_left (fun acc d => rec KDec d inp2 acc) rd a).
    { intros a. apply fold_left_ext_in. intros acc x Hx. apply rec_irrel. apply in_or_app. right. apply in_or_app. left. exact Hx. }
    rewrite E3.
    set (k3 := fold_left (fun acc d => rec KDec d inp2 acc) rd _).
    assert (K3 : incl (map fst k3) CL).
    { unfold k3. eapply incl_tran; [apply fold_keys; intros a x Hx; apply rec_keys; apply in_or_app; right; apply in_or_app; left; exact Hx|].
      intros y Hy. apply in_app_or in Hy. destruct Hy as [Hy|Hy]; [|exact Hy]. revert y Hy.
      eapply incl_tran; [apply fold_keys; intros a x Hx; apply keys_svc_fn; intros; eapply (svc_names x); [apply in_or_app; left; exact Hx | eassumption]|].
      intros y Hy. apply in_app_or in Hy. destruct Hy as [Hy|Hy]; [|exact Hy]. revert y Hy.
      eapply incl_tran; [apply fold_keys; intros a x Hx; apply rec_keys; apply in_or_app; left; exact Hx|]. cbn [map app]. apply incl_refl. }
    rewrite (overwrite_agree k3 inp1 inp2 (agree_incl _ _ _ _ K3 inputs_agree)).
    rewrite (inputs_into_agree G ri inp1 inp2); [reflexivity|].
    apply (agree_incl _ CL); [|exact inputs_agree]. intros y Hy. apply own_in. right. exact Hy.
  - f_equal. apply fold_left_ext_in. intros acc x Hx.
    assert (Hx' : In x (rk ++ callable)) by (apply in_or_app; left; exact Hx).
    rewrite (rec_irrel x Hx' KBkm acc). destruct fixed; [reflexivity|]. apply rec_irrel. exact Hx'.
  - assert (E2 : forall a, fold_left (fun acc nm => set nm (getv nm inp1) acc) (dec_names G indecs) a = fold_left (fun acc nm => set nm (getv nm inp2) acc) (dec_names G indecs) a).
    { intros a. apply fold_left_ext_in. intros acc nm Hnm. unfold getv. rewrite (inputs_agree nm); [reflexivity|].
      apply own_in. right. apply in_or_app. right. exact Hnm. }
    rewrite E2.
    rewrite (inputs_into_agree G ins inp1 inp2); [reflexivity|].
    apply (agree_incl _ CL); [|exact inputs_agree]. intros y Hy. apply own_in. right. apply in_or_app. left. exact Hy. Qed.
End Closure.

(* the table of names *)
Lemma closure_snoc G o id :
  closure_table G (o ++ [id]) = closure_table G o ++ [(id, own_names G id ++ flat_map (fun r => nfind r (closure_table G o)) (refs G id))].
Proof. unfold closure_table. rewrite fold_left_app. reflexivity. Qed.

Lemma keys_closure G o : map fst (closure_table G o) = o.
Proof. induction o as [|id o IH] using rev_ind; [reflexivity|]. rewrite closure_snoc, map_app, IH. reflexivity. Qed.

Lemma nfind_app_in id (t t' : list (N * list N)) : In id (map fst t) -> nfind id (t ++ t') = nfind id t.
Proof. induction t as [|[k s] r IH]; intros H; [destruct H|]. cbn [app nfind]. destruct (N.eqb id k) eqn:E; [reflexivity|].
  apply IH. cbn [map fst In] in H. destruct H as [H|H]; [subst; rewrite N.eqb_refl in E; discriminate | exact H]. Qed.

Lemma nfind_app_new id l (t : list (N * list N)) : ~ In id (map fst t) -> nfind id (t ++ [(id, l)]) = l.
Proof. induction t as [|[k s0] r IH]; intros H; cbn [app nfind]; [rewrite N.eqb_refl; reflexivity|]. cbn [map fst In] in H.
  destruct (N.eqb id k) eqn:E; [apply N.eqb_eq in E; subst; exfalso; apply H; left; reflexivity|].
  apply IH. intro Hin. apply H. right. exact Hin. Qed.

Lemma own_in_closure G o : forall id, In id o -> incl (own_names G id) (nfind id (closure_table G o)).
Proof. induction o as [|x o IH] using rev_ind; intros id Hin; [destruct Hin|]. rewrite closure_snoc.
  destruct (in_dec N.eq_dec id o) as [Hi|Hni].
  - rewrite nfind_app_in; [apply IH; exact Hi | rewrite keys_closure; exact Hi].
  - apply in_app_or in Hin. destruct Hin as [Hin|[<-|[]]]; [contradiction|]. rewrite nfind_app_new; [|rewrite keys_closure; exact Hni].
    apply incl_appl, incl_refl. Qed.

Lemma irrelevant_Topo fixed G o : Topo G o -> forall id, In id o ->
  (forall k inp out, incl (map fst (tstep (build eval fixed G o) k id inp out)) (map fst out ++ nfind id (closure_table G o))) /\
  (forall inp1 inp2, agree (nfind id (closure_table G o)) inp1 inp2 ->
     forall k out, tstep (build eval fixed G o) k id inp1 out = tstep (build eval fixed G o) k id inp2 out).
Proof. induction 1 as [|o id HT IH Hn Hr]; intros id' Hin; [destruct Hin|].
  rewrite build_snoc, closure_snoc. destruct (in_dec N.eq_dec id' o) as [Hi|Hni].
  - unfold tstep. rewrite tfind_app_in; [|rewrite keys_build; exact Hi]. rewrite nfind_app_in; [|rewrite keys_closure; exact Hi].
    exact (IH id' Hi).
  - apply in_app_or in Hin. destruct Hin as [Hin|[<-|[]]]; [contradiction|].
    rewrite nfind_app_new; [|rewrite keys_closure; exact Hn].
    assert (Et : forall k inp out, tstep (build eval fixed G o ++ [(id, fun k inp out => body eval fixed G (tstep (build eval fixed G o)) k id inp out)]) k id inp out =
                 body eval fixed G (tstep (build eval fixed G o)) k id inp out).
    { intros k inp out. unfold tstep at 1. rewrite tfind_app_new; [reflexivity | rewrite keys_build; exact Hn]. }
    set (CL := own_names G id ++ flat_map (fun r => nfind r (closure_table G o)) (refs G id)).
    assert (Hsub : forall r, In r (refs G id) -> incl (nfind r (closure_table G o)) CL).
    { intros r Hrin y Hy. unfold CL. apply in_or_app. right. apply in_flat_map. exists r. split; assumption. }
    assert (Hown : incl (own_names G id) CL) by (apply incl_appl, incl_refl).
    assert (Hkeys : forall r, In r (refs G id) -> forall k inp out, incl (map fst (tstep (build eval fixed G o) k r inp out)) (map fst out ++ CL)).
    { intros r Hrin k inp out. destruct (in_dec N.eq_dec r o) as [Hro|Hrn].
      - destruct (IH r Hro) as [K _]. eapply incl_tran; [apply K|]. apply incl_app; [apply incl_appl, incl_refl | apply incl_appr, Hsub; exact Hrin].
      - unfold tstep. rewrite tfind_notin; [apply incl_appl, incl_refl | rewrite keys_build; exact Hrn]. }
    assert (Hsvc : forall r, In r (refs G id) -> forall name ins indecs encs outs, find r G = Some (NSvc name ins indecs encs outs) -> In name CL).
    { intros r Hrin name ins indecs encs outs E. destruct (Hr r Hrin) as [Hro|Hnone]; [|rewrite Hnone in E; discriminate].
      apply (Hsub r Hrin). apply (own_in_closure G o r Hro). unfold own_names. rewrite E. left. reflexivity. }
    split.
    + intros k inp out. rewrite Et. apply body_keys; assumption.
    + intros inp1 inp2 Hag k out. rewrite !Et. apply (body_irrel fixed G id CL); try assumption.
      intros r Hrin k' out'. destruct (in_dec N.eq_dec r o) as [Hro|Hrn].
      * destruct (IH r Hro) as [_ I]. apply I. apply (agree_incl _ CL); [apply Hsub; exact Hrin | exact Hag].
      * unfold tstep. rewrite tfind_notin; [reflexivity | rewrite keys_build; exact Hrn]. Qed.

Theorem irrelevant_inputs_step fixed G order id k inp1 inp2 out : topo_ok G order = true -> In id order ->
  agree (closure_names G order id) inp1 inp2 ->
  spec_step eval fixed G order k id inp1 out = spec_step eval fixed G order k id inp2 out.
Proof. intros HT Hin Hag. destruct (irrelevant_Topo fixed G order (topo_ok_Topo _ _ HT) id Hin) as [_ I]. apply I. exact Hag. Qed.

(* the property's second sentence, for the implementation model: invoking any element with two input contexts that agree
   on the names of its requirement closure gives the same result *)
Theorem irrelevant_inputs fixed G order id f inp1 inp2 : topo_ok G order = true -> In id order -> length order <= f ->
  agree (closure_names G order id) inp1 inp2 ->
  impl_invoke eval fixed G f id inp1 = impl_invoke eval fixed G f id inp2.
Proof. intros HT Hin Hf Hag. rewrite !(invoke_refines fixed G order id f _ HT Hin Hf).
  unfold spec_invoke, invoke.
  pose proof (fun k out => irrelevant_inputs_step fixed G order id k inp1 inp2 out HT Hin Hag) as R.
  destruct (find id G) as [[name|name logic rk rd ri callable|name ps b rk callable|name ins indecs encs outs]|] eqn:E; try reflexivity.
  - rewrite R. reflexivity.
  - rewrite R. destruct (lookup name _) as [[| | | | |ps' b'|]|] eqn:El; try reflexivity.
    (* the parameters are taken from the input context by name; they are among the closure names *)
    assert (Hps : fold_left (fun acc p => match lookup p inp1 with Some v => set p v acc | None => acc end) ps' [] =
                  fold_left (fun acc p => match lookup p inp2 with Some v => set p v acc | None => acc end) ps' []).
    { (* the entry under `name` is the function value the knowledge model closure stored: its parameters are ps *)
      assert (Eps : ps' = ps).
      { unfold spec_step, tstep in El. destruct (build_entry fixed G order id Hin) as [t0 Et]. rewrite Et in El.
        unfold body in El. rewrite E in El. cbv zeta in El. rewrite lookup_set_same in El. injection El as <- _. reflexivity. }
      subst ps'. apply fold_left_ext_in. intros acc p Hp. rewrite (Hag p); [reflexivity|].
      unfold closure_names. apply (own_in_closure G order id Hin). unfold own_names. rewrite E. right. exact Hp. }
    rewrite Hps. reflexivity.
  - rewrite R. reflexivity. Qed.

(* ---------- the Spec is a fixed point of the closure body ---------- *)
Theorem table_fixpoint fixed G order id k inp out : topo_ok G order = true -> In id order ->
  spec_step eval fixed G order k id inp out = body eval fixed G (spec_step eval fixed G order) k id inp out.
Proof. intros HT Hin.
  rewrite <- (refines fixed G order id (S (length order)) k inp out HT Hin (Nat.le_succ_diag_r _)). cbn [run]. apply body_ext.
  intros r Hr k' inp' out'. destruct (in_dec N.eq_dec r order) as [Hi|Hni].
  - apply refines; [exact HT | exact Hi | apply le_n].
  - destruct (Topo_refs G order (topo_ok_Topo _ _ HT) id Hin r Hr) as [Hi|Hnone]; [contradiction|].
    rewrite run_missing; [|exact Hnone]. unfold spec_step, tstep. rewrite tfind_notin; [reflexivity | rewrite keys_build; exact Hni]. Qed.

(* ---------- what the logic of a decision sees (the first sentence of the property) ---------- *)
Lemma lookup_set n k v e : lookup n (set k v e) = if N.eqb n k then Some v else lookup n e.
Proof. induction e as [|[k' x] r IH]; cbn [set lookup]; [reflexivity|].
  destruct (N.eqb k k') eqn:E; cbn [lookup].
  - apply N.eqb_eq in E. subst k'. destruct (N.eqb n k); reflexivity.
  - rewrite IH. destruct (N.eqb n k') eqn:E2; [|reflexivity]. apply N.eqb_eq in E2. subst k'.
    destruct (N.eqb n k) eqn:E3; [|reflexivity]. apply N.eqb_eq in E3. subst k. rewrite N.eqb_refl in E. discriminate. Qed.

(* zip: the last binding of a name in `other` wins, else self's *)
Lemma lookup_zip n : forall other self,
  lookup n (zip self other) = match lookup n (rev other) with Some v => Some v | None => lookup n self end.
Proof. unfold zip. induction other as [|[k v] r IH] using rev_ind; intros self; [reflexivity|].
  rewrite fold_left_app, rev_app_distr. cbn [fold_left rev app lookup fst snd]. rewrite lookup_set.
  destruct (N.eqb n k); [reflexivity | apply IH]. Qed.

Lemma lookup_overwrite n self other :
  lookup n (overwrite self other) =
  match lookup n self with
  | Some v => Some (match lookup n other with Some v' => v' | None => v end)
  | None => None
  end.
Proof. unfold overwrite. induction self as [|[k v] r IH]; [reflexivity|]. cbn [map fst lookup].
  destruct (lookup k other) as [v'|] eqn:E; cbn [lookup fst]; destruct (N.eqb n k) eqn:E2; try exact IH.
  - apply N.eqb_eq in E2. subst k. rewrite E. reflexivity.
  - apply N.eqb_eq in E2. subst k. rewrite E. reflexivity. Qed.

Lemma lookup_inputs_into G ids inp n :
  lookup n (inputs_into G ids inp []) = if mem n (input_names G ids) then Some (input_value n inp) else None.
Proof. unfold inputs_into. generalize (input_names G ids). intros l.
  assert (H : forall acc, lookup n (fold_left (fun a nm => set nm (input_value nm inp) a) l acc) = if mem n l then Some (input_value n inp) else lookup n acc).
  { induction l as [|x r IH]; intros acc; [reflexivity|]. cbn [fold_left]. rewrite IH. unfold mem. cbn [existsb].
    fold (mem n r). destruct (mem n r); [rewrite orb_true_r; reflexivity|]. rewrite orb_false_r, lookup_set.
    destruct (N.eqb n x) eqn:E; [apply N.eqb_eq in E; subst; reflexivity | reflexivity]. }
  rewrite H. reflexivity. Qed.

(* the bindings contributed by the required decisions: each decision's variable bound to that decision's own value *)
Definition dec_binds (G : graph) (step : kind -> N -> env -> env -> env) (rd : list N) (inp : env) : env :=
  flat_map (fun d => match find d G with
                     | Some (NDec dn _ _ _ _ _) => [(dn, getv dn (step KDec d inp []))]
                     | _ => [] end) rd.
(* the knowledge context: the function values of the required knowledge models (and theirs), then of the required services *)
Definition knowledge_ctx (G : graph) (step : kind -> N -> env -> env -> env) (rk : list N) (inp : env) : env :=
  fold_left (fun acc s => svc_fn G s acc) rk (fold_left (fun acc b => step KBkm b inp acc) rk []).

Lemma fold_decisions fixed G order rd inp : topo_ok G order = true ->
  (forall d, In d rd -> In d order \/ find d G = None) -> forall acc,
  fold_left (fun a d => spec_step eval fixed G order KDec d inp a) rd acc = zip acc (dec_binds G (spec_step eval fixed G order) rd inp).
Proof. intros HT H. induction rd as [|d r IH]; intros acc; [reflexivity|]. cbn [fold_left]. rewrite IH; [|intros x Hx; apply H; right; exact Hx].
  unfold dec_binds at 2. cbn [flat_map]. fold (dec_binds G (spec_step eval fixed G order) r inp). unfold zip at 2. rewrite fold_left_app.
  fold (zip (fold_left (fun acc0 kv => set (fst kv) (snd kv) acc0)
     match find d G with Some (NDec dn _ _ _ _ _) => [(dn, getv dn (spec_step eval fixed G order KDec d inp []))] | _ => [] end acc)
     (dec_binds G (spec_step eval fixed G order) r inp)).
  f_equal. destruct (in_dec N.eq_dec d order) as [Hi|Hni].
  - rewrite (table_fixpoint fixed G order d KDec inp acc HT Hi), (table_fixpoint fixed G order d KDec inp [] HT Hi). unfold body.
    destruct (find d G) as [[name|name logic rk rd' ri callable|name ps b rk callable|name ins indecs encs outs]|]; try reflexivity.
    cbv zeta. unfold getv. rewrite lookup_set_same. reflexivity.
  - destruct (H d (or_introl eq_refl)) as [Hi|Hnone]; [contradiction|]. rewrite Hnone.
    unfold spec_step, tstep. rewrite tfind_notin; [reflexivity | rewrite keys_build; exact Hni]. Qed.

(* The scope in which the logic of a decision is evaluated: its required inputs, overlaid with the knowledge context overlaid
   with the required decisions' own values, where an input entry of the same name replaces a knowledge / decision binding. *)
Theorem decision_scope fixed G order id name logic rk rd ri callable inp out : topo_ok G order = true -> In id order ->
  find id G = Some (NDec name logic rk rd ri callable) ->
  let step := spec_step eval fixed G order in
  step KDec id inp out =
  set name (eval (svc_call G step callable)
                 (zip (inputs_into G ri inp []) (overwrite (zip (knowledge_ctx G step rk inp) (dec_binds G step rd inp)) inp)) logic) out.
Proof. intros HT Hin E step. unfold step. rewrite (table_fixpoint fixed G order id KDec inp out HT Hin). unfold body at 1. rewrite E. cbv zeta.
  rewrite (fold_decisions fixed G order rd inp HT); [reflexivity|].
  intros d Hd. apply (Topo_refs G order (topo_ok_Topo _ _ HT) id Hin). unfold refs. rewrite E. apply in_or_app. right. apply in_or_app. left. exact Hd. Qed.

(* A decision service returns its output decisions' values: the encapsulated and output decisions are evaluated on the
   input context the service builds (its input data, and its input decisions as parameters taken from the caller's input). *)
Definition service_input (G : graph) (step : kind -> N -> env -> env -> env) (ins indecs : list N) (inp : env) : env :=
  let idn := dec_names G indecs in
  let e2 := fold_left (fun acc nm => set nm (getv nm inp) acc) idn [] in
  inputs_into G ins inp e2.

Theorem service_outputs fixed G order id name ins indecs encs outs inp out : topo_ok G order = true -> In id order ->
  find id G = Some (NSvc name ins indecs encs outs) ->
  let step := spec_step eval fixed G order in
  let e3 := service_input G step ins indecs inp in
  let results := zip (zip [] (dec_binds G step encs e3)) (dec_binds G step outs e3) in
  step KSvc id inp out =
  match dec_names G outs with
  | [n] => match lookup n results with Some v => set name v out | None => out end
  | ons => set name (VCtx (fold_left (fun acc n => match lookup n results with Some v => set n v acc | None => acc end) ons [])) out
  end.
Proof. intros HT Hin E step e3 results. unfold step. rewrite (table_fixpoint fixed G order id KSvc inp out HT Hin). unfold body at 1. rewrite E. cbv zeta.
  fold (service_input G (spec_step eval fixed G order) ins indecs inp). fold step. fold e3.
  assert (Hr : forall l, incl l (encs ++ outs) -> forall d, In d l -> In d order \/ find d G = None).
  { intros l Hl d Hd. apply (Topo_refs G order (topo_ok_Topo _ _ HT) id Hin). unfold refs. rewrite E. apply Hl. exact Hd. }
  unfold step. rewrite (fold_decisions fixed G order encs e3 HT); [|apply Hr; apply incl_appl, incl_refl].
  rewrite (fold_decisions fixed G order outs e3 HT); [|apply Hr; apply incl_appr, incl_refl].
  reflexivity. Qed.

(* contexts built by set_entry have distinct names *)
Lemma nodup_set k v e : NoDup (map fst e) -> NoDup (map fst (set k v e)).
Proof. induction e as [|[k' x] r IH]; intros H; cbn [set]; [constructor; [intros []|constructor]|].
  destruct (N.eqb k k') eqn:E; [exact H|]. cbn [map fst] in *. inversion H as [|? ? Hn Hr]; subst. constructor; [|apply IH; exact Hr].
  intro Hin. apply keys_set in Hin. destruct Hin as [<-|Hin]; [rewrite N.eqb_refl in E; discriminate | contradiction]. Qed.

Lemma nodup_fold {A} (step : env -> A -> env) (l : list A) : (forall a x, In x l -> NoDup (map fst a) -> NoDup (map fst (step a x))) ->
  forall acc, NoDup (map fst acc) -> NoDup (map fst (fold_left step l acc)).
Proof. induction l as [|x r IH]; intros H acc Ha; [exact Ha|]. cbn [fold_left]. apply IH; [intros a y Hy; apply H; right; exact Hy|].
  apply H; [left; reflexivity | exact Ha]. Qed.

Lemma nodup_zip a b : NoDup (map fst a) -> NoDup (map fst (zip a b)).
Proof. unfold zip. apply nodup_fold. intros acc x _. apply nodup_set. Qed.

Lemma keys_overwrite a b : map fst (overwrite a b) = map fst a.
Proof. unfold overwrite. rewrite map_map. apply map_ext. intros [k v]. cbn [fst]. destruct (lookup k b); reflexivity. Qed.

Lemma nodup_svc_fn G s acc : NoDup (map fst acc) -> NoDup (map fst (svc_fn G s acc)).
Proof. unfold svc_fn. destruct (find s G) as [[| | |]|]; try (intros H; exact H). apply nodup_set. Qed.

Lemma body_nodup fixed G rec k id inp out :
  (forall r, In r (refs G id) -> forall k inp out, NoDup (map fst out) -> NoDup (map fst (rec k r inp out))) ->
  NoDup (map fst out) -> NoDup (map fst (body eval fixed G rec k id inp out)).
Proof. intros H Ho. unfold body. unfold refs in H.
  destruct (find id G) as [[name|name logic rk rd ri callable|name ps b rk callable|name ins indecs encs outs]|]; destruct k; try exact Ho; cbv zeta.
  - apply nodup_set. exact Ho.
  - apply nodup_set. apply nodup_fold; [|exact Ho]. intros a x Hx Ha.
    assert (Hx' : In x (rk ++ callable)) by (apply in_or_app; left; exact Hx).
    destruct fixed; [apply nodup_svc_fn | apply H; [exact Hx'|]]; apply H; assumption.
  - destruct (dec_names G outs) as [|n [|n2 l]]; try (apply nodup_set; exact Ho). destruct (lookup n _); [apply nodup_set|]; exact Ho. Qed.

Lemma nodup_Topo fixed G o : Topo G o -> forall id k inp out, NoDup (map fst out) -> NoDup (map fst (tstep (build eval fixed G o) k id inp out)).
Proof. induction 1 as [|o id HT IH Hn Hr]; intros id' k inp out Ho; [exact Ho|]. rewrite build_snoc.
  destruct (in_dec N.eq_dec id' o) as [Hi|Hni].
  - unfold tstep. rewrite tfind_app_in; [|rewrite keys_build; exact Hi]. apply IH. exact Ho.
  - destruct (N.eq_dec id' id) as [->|Hne].
    + unfold tstep at 1. rewrite tfind_app_new; [|rewrite keys_build; exact Hn]. apply body_nodup; [|exact Ho]. intros r _ k' inp' out'. apply IH.
    + unfold tstep. rewrite tfind_notin; [exact Ho|]. rewrite map_app, keys_build. cbn [map fst]. intro Hin. apply in_app_or in Hin.
      destruct Hin as [Hin|[Hin|[]]]; [contradiction | apply Hne; symmetry; exact Hin]. Qed.

Lemma lookup_app n a b : lookup n (a ++ b) = match lookup n a with Some v => Some v | None => lookup n b end.
Proof. induction a as [|[k v] r IH]; [reflexivity|]. cbn [app lookup]. destruct (N.eqb n k); [reflexivity | exact IH]. Qed.

Lemma lookup_notin n e : ~ In n (map fst e) -> lookup n e = None.
Proof. induction e as [|[k v] r IH]; intros H; [reflexivity|]. cbn [lookup]. cbn [map fst In] in H.
  destruct (N.eqb n k) eqn:E; [apply N.eqb_eq in E; subst; exfalso; apply H; left; reflexivity|]. apply IH. intro Hin. apply H. right. exact Hin. Qed.

Lemma lookup_rev_nodup n e : NoDup (map fst e) -> lookup n (rev e) = lookup n e.
Proof. induction e as [|[k v] r IH]; intros H; [reflexivity|]. cbn [rev map fst] in *. inversion H as [|? ? Hn Hr]; subst.
  rewrite lookup_app, (IH Hr). cbn [lookup]. destruct (N.eqb n k) eqn:E; [|destruct (lookup n r); reflexivity].
  apply N.eqb_eq in E. subst k. rewrite (lookup_notin n r Hn). reflexivity. Qed.

(* ... read name by name *)
Theorem decision_sees fixed G order rk rd ri inp n : topo_ok G order = true ->
  let step := spec_step eval fixed G order in
  let kd := zip (knowledge_ctx G step rk inp) (dec_binds G step rd inp) in
  lookup n (zip (inputs_into G ri inp []) (overwrite kd inp)) =
  match (match lookup n (rev (dec_binds G step rd inp)) with Some v => Some v | None => lookup n (knowledge_ctx G step rk inp) end) with
  | Some v => Some (match lookup n inp with Some v' => v' | None => v end)      (* a required decision's own value / a function value, unless the input context binds the name *)
  | None => if mem n (input_names G ri) then Some (input_value n inp) else None (* a required input: the supplied (number) value; anything else: unbound *)
  end.
Proof. intros HT step kd.
  assert (Hkd : NoDup (map fst (overwrite kd inp))).
  { rewrite keys_overwrite. unfold kd. apply nodup_zip. unfold knowledge_ctx. apply nodup_fold; [intros a x _; apply nodup_svc_fn|].
    apply nodup_fold; [|constructor]. intros a x _ Ha. unfold step, spec_step. apply nodup_Topo; [apply topo_ok_Topo; exact HT | exact Ha]. }
  rewrite lookup_zip, (lookup_rev_nodup n _ Hkd), lookup_overwrite. unfold kd at 1. rewrite lookup_zip.
  destruct (match lookup n (rev (dec_binds G step rd inp)) with Some v => Some v | None => lookup n (knowledge_ctx G step rk inp) end); [reflexivity|].
  apply lookup_inputs_into. Qed.

End WiringProofs.

(* ---------- the tiny evaluator meets the assumption ---------- *)
Section TevExt.
Variables (ev1 ev2 : env -> expr -> value * env) (s1 s2 : N -> env -> value) (leaky : bool).
Hypothesis Hev : forall sc e, ev1 sc e = ev2 sc e.
Hypothesis Hs : forall i x, s1 i x = s2 i x.

Lemma evs_ext : forall l sc, evs ev1 sc l = evs ev2 sc l.
Proof. induction l as [|x r IH]; intros sc; [reflexivity|]. cbn [evs]. rewrite Hev. destruct (ev2 sc x) as [v sc1]. rewrite IH. reflexivity. Qed.

Lemma ctx_go_ext : forall l sc acc, ctx_go ev1 sc acc l = ctx_go ev2 sc acc l.
Proof. induction l as [|[k x] r IH]; intros sc acc; [reflexivity|]. cbn [ctx_go]. rewrite Hev. destruct (ev2 sc x) as [v sc1]. apply IH. Qed.

Lemma rel_go_ext cols : forall rows sc, rel_go ev1 cols sc rows = rel_go ev2 cols sc rows.
Proof. induction rows as [|row r IH]; intros sc; [reflexivity|]. cbn [rel_go]. rewrite evs_ext. destruct (evs ev2 sc row) as [vs sc1].
  rewrite IH. reflexivity. Qed.

Lemma apply_fn_ext fv pc sc : apply_fn ev1 s1 fv pc sc = apply_fn ev2 s2 fv pc sc.
Proof. unfold apply_fn. destruct pc as [pc|]; [|reflexivity]. destruct fv; try reflexivity; [rewrite Hev | rewrite Hs]; reflexivity. Qed.

Lemma tev_step_ext sc e : tev_step ev1 s1 leaky sc e = tev_step ev2 s2 leaky sc e.
Proof. destruct e as [|z|s|n|a b|a b|fn args|fn binds|es res|cols rows]; cbn [tev_step]; try reflexivity.
  - rewrite Hev. destruct (ev2 sc a) as [x sc1]. rewrite Hev. reflexivity.
  - rewrite Hev. destruct (ev2 sc a) as [x sc1]. rewrite Hev. reflexivity.
  - rewrite evs_ext. destruct (evs ev2 sc args) as [vs sc1]. destruct (getv fn sc); try reflexivity; rewrite apply_fn_ext; reflexivity.
  - rewrite evs_ext. destruct (evs ev2 sc (map snd binds)) as [vs sc1]. rewrite apply_fn_ext. reflexivity.
  - rewrite ctx_go_ext. destruct (ctx_go ev2 sc [] es) as [acc sc1]. destruct res as [r|]; [rewrite Hev|]; reflexivity.
  - rewrite rel_go_ext. reflexivity. Qed.
End TevExt.

Lemma tev_ext leaky s1 s2 : (forall i x, s1 i x = s2 i x) -> forall f sc e, tev leaky f s1 sc e = tev leaky f s2 sc e.
Proof. intros Hs. induction f as [|f IH]; intros sc e; [reflexivity|]. cbn [tev]. apply tev_step_ext; [exact IH | exact Hs]. Qed.

Theorem teval_ext_svc : forall s1 s2 sc e, (forall i x, s1 i x = s2 i x) -> teval s1 sc e = teval s2 sc e.
Proof. intros s1 s2 sc e Hs. unfold teval. rewrite (tev_ext false s1 s2 Hs). reflexivity. Qed.

(* ---------- the two deviations of the pinned commit ---------- *)
(* the entry leak of boxed contexts: {inner: {secret: 42}, probe: secret} *)
Definition leak_logic : expr :=
  ECtx [(2001%N, ECtx [(2002%N, enum 42)] None); (2003%N, EVar 2002%N)] None.

Theorem context_leak_orig_refuted :
  teval_orig (fun _ _ => VNull) [] leak_logic = VCtx [(2001%N, VCtx [(2002%N, vnum 42)]); (2003%N, vnum 42)] /\
  teval (fun _ _ => VNull) [] leak_logic = VCtx [(2001%N, VCtx [(2002%N, vnum 42)]); (2003%N, VNull)].
Proof. vm_compute. auto. Qed.

(* a knowledge model requiring a decision service: input x (1), decision A = x + 1 (2), service S -> A (3),
   knowledge model f(p) = S(p) * 10 requiring S (4), decision B = f(x) requiring f (5) *)
Definition G_ks : graph :=
  [(1%N, NInput 1%N);
   (2%N, NDec 2%N (EAdd (EVar 1%N) (enum 1)) [] [] [1%N] []);
   (3%N, NSvc 3%N [1%N] [] [] [2%N]);
   (4%N, NBkm 4%N [1001%N] (EMul (ECall 3%N [EVar 1001%N]) (enum 10)) [3%N] [3%N]);
   (5%N, NDec 5%N (ECall 4%N [EVar 1%N]) [4%N] [] [1%N] [3%N])].
Definition O_ks : list N := [1%N; 2%N; 3%N; 4%N; 5%N].

Theorem knowledge_service_orig_refuted :
  topo_ok G_ks O_ks = true /\ callable_ok G_ks = true /\
  impl_invoke teval true G_ks 6 5%N [(1%N, vnum 1)] = vnum 20 /\
  impl_invoke teval false G_ks 6 5%N [(1%N, vnum 1)] = VNull.
Proof. vm_compute. auto. Qed.

(* non-vacuity: a diamond (3 required by 4 and 5, both required by 6), a knowledge model requiring a knowledge model,
   a service with an input decision, a decision calling the service and invoking the knowledge model in a boxed context *)
Definition G_ex : graph :=
  [(1%N, NInput 1%N); (2%N, NInput 2%N);
   (3%N, NDec 3%N (EAdd (EVar 1%N) (EVar 2%N)) [] [] [1%N; 2%N] []);
   (4%N, NDec 4%N (EMul (EVar 3%N) (EVar 1%N)) [] [3%N] [1%N] []);
   (5%N, NDec 5%N (EAdd (EVar 3%N) (EVar 2%N)) [] [3%N] [2%N] []);
   (6%N, NDec 6%N (EAdd (EVar 4%N) (EVar 5%N)) [] [4%N; 5%N] [] []);
   (7%N, NBkm 7%N [1001%N] (EAdd (EVar 1001%N) (enum 1)) [] []);
   (8%N, NBkm 8%N [1001%N; 1002%N] (EMul (ECall 7%N [EVar 1001%N]) (EVar 1002%N)) [7%N] []);
   (9%N, NSvc 9%N [1%N] [3%N] [4%N] [6%N; 4%N]);
   (10%N, NDec 10%N (ECtx [(2001%N, EInvoke 8%N [(1002%N, EVar 6%N); (1001%N, EVar 1%N)]); (2002%N, ECall 9%N [EVar 1%N; EVar 6%N])] None)
                 [8%N; 9%N] [6%N] [1%N] [9%N])].
Definition O_ex : list N := [1%N; 2%N; 3%N; 4%N; 5%N; 6%N; 7%N; 8%N; 9%N; 10%N].

Example nonvacuous :
  topo_ok G_ex O_ex = true /\ callable_ok G_ex = true /\
  impl_invoke teval true G_ex 11 6%N [(1%N, vnum 2); (2%N, vnum 3)] = vnum 18 /\
  impl_invoke teval true G_ex 11 10%N [(1%N, vnum 2); (2%N, vnum 3); (3001%N, vnum 9)] =
    VCtx [(2001%N, vnum 54); (2002%N, VCtx [(6%N, VNull); (4%N, vnum 36)])] /\
  closure_names G_ex O_ex 6%N = [6; 4; 1; 3; 1; 2; 5; 2; 3; 1; 2]%N.
Proof. vm_compute. auto. Qed.
