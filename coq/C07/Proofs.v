(* C07 — proofs about coq/C07/Model.v. *)
From Coq Require Import String ZArith NArith Bool List Ascii Lia.
From DV Require Import Base.Dec C07.Model.
Import ListNotations.
Open Scope char_scope.
Open Scope Z_scope.

(* the function at the pinned commit: a negative number written with E- notation, and a zero with a positive exponent *)
Lemma print_orig_refuted :
  (exists d s, print_orig d = Some s /\ is_plain s = false) /\
  (exists d s, print_orig d = Some s /\ is_plain s = true /\ is_json s = false).
Proof.
  split.
  - exists (mkdec true 15 (-8)). eexists. split; [vm_compute; reflexivity | vm_compute; reflexivity].
  - exists (mkdec false 0 3). eexists. split; [vm_compute; reflexivity | split; vm_compute; reflexivity].
Qed.

Lemma print_nontrivial :
  print (mkdec true 15 (-8)) = Some (rd "-0.00000015"%string) /\
  print (mkdec false 1230 2) = Some (rd "123000"%string) /\
  print (mkdec true 12345 (-2)) = Some (rd "-123.45"%string) /\
  print (mkdec false 0 3) = Some (rd "0"%string).
Proof. vm_compute. repeat split. Qed.
