(* C06 — finite theorems on the regenerated LALR tables (re-checked against feel-parser/src/lalr.rs on every run):
   on every ordered pair and triple of operators the tables build the tree the Spec parser dictates.
   Owner: builder-parse. *)
From Coq Require Import List NArith ZArith Bool Arith.
From DV Require Import C06.Model C06.Lr.
Import ListNotations.

Lemma binop_eqb_eq : forall a b, binop_eqb a b = true -> a = b.
Proof. destruct a, b; simpl; intro H; try reflexivity; discriminate H. Qed.

Lemma tree_eqb_eq : forall a b, tree_eqb a b = true -> a = b.
Proof.
  induction a as [x|o l IHl r IHr|x IHx|x IHx lo IHlo hi IHhi|x IHx ty|x IHx n|x IHx i IHi|f IHf x IHx];
    destruct b; simpl; intro H; try discriminate H;
    repeat match goal with
           | H : _ && _ = true |- _ => apply andb_true_iff in H; destruct H
           end;
    repeat match goal with
           | H : N.eqb _ _ = true |- _ => apply N.eqb_eq in H; subst
           | H : binop_eqb _ _ = true |- _ => apply binop_eqb_eq in H; subst
           end;
    f_equal; auto.
Qed.

Lemma otree_eqb_eq : forall a b, otree_eqb a b = true -> a = b.
Proof.
  destruct a, b; simpl; intro H; try discriminate H; try reflexivity.
  f_equal. apply tree_eqb_eq; exact H.
Qed.

Lemma agree_eq : forall ts, agree ts = true -> tables_tree ts = parse_tokens ts.
Proof. intros ts H. unfold agree in H. apply otree_eqb_eq. exact H. Qed.

Lemma all_items_complete : forall i : item, List.In i all_items.
Proof.
  destruct i as [o neg|neg| | | |]; try destruct o; try destruct neg; vm_compute; tauto.
Qed.

Lemma forallb_items2 : forall P : bool -> item -> item -> bool,
  forallb (fun n => forallb (fun i => forallb (fun j => P n i j) all_items) all_items) [false; true] = true ->
  forall n i j, P n i j = true.
Proof.
  intros P H n i j.
  rewrite forallb_forall in H. assert (Hn : List.In n [false; true]) by (destruct n; simpl; tauto).
  specialize (H n Hn). rewrite forallb_forall in H. specialize (H i (all_items_complete i)).
  rewrite forallb_forall in H. exact (H j (all_items_complete j)).
Qed.

Lemma forallb_items3 : forall P : bool -> item -> item -> item -> bool,
  forallb (fun n => forallb (fun i => forallb (fun j => forallb (fun k => P n i j k) all_items) all_items) all_items) [false; true] = true ->
  forall n i j k, P n i j k = true.
Proof.
  intros P H n i j k.
  rewrite forallb_forall in H. assert (Hn : List.In n [false; true]) by (destruct n; simpl; tauto).
  specialize (H n Hn). rewrite forallb_forall in H. specialize (H i (all_items_complete i)).
  rewrite forallb_forall in H. specialize (H j (all_items_complete j)).
  rewrite forallb_forall in H. exact (H k (all_items_complete k)).
Qed.

Lemma pairs_agree_true :
  forallb (fun n => forallb (fun i => forallb (fun j => agree (chain n [i; j])) all_items) all_items) [false; true] = true.
Proof. vm_cast_no_check (eq_refl true). Qed.

Lemma triples_agree_true :
  forallb (fun n => forallb (fun i => forallb (fun j => forallb (fun k => agree (chain n [i; j; k])) all_items) all_items) all_items) [false; true] = true.
Proof. vm_cast_no_check (eq_refl true). Qed.

(* bound: chains  [-] a  op1 [-] b  op2 [-] c  over the 34 operator items (14 binary operators and `between .. and`,
   each followed by a plain or negated operand; instance of, path, filter, invocation), 2 * 34^2 token lists *)
Lemma tables_pairs : forall (n : bool) (i j : item),
  tables_tree (chain n [i; j]) = parse_tokens (chain n [i; j]).
Proof.
  intros n i j. apply agree_eq.
  exact (forallb_items2 (fun n i j => agree (chain n [i; j])) pairs_agree_true n i j).
Qed.

(* bound: 2 * 34^3 token lists *)
Lemma tables_triples : forall (n : bool) (i j k : item),
  tables_tree (chain n [i; j; k]) = parse_tokens (chain n [i; j; k]).
Proof.
  intros n i j k. apply agree_eq.
  exact (forallb_items3 (fun n i j k => agree (chain n [i; j; k])) triples_agree_true n i j k).
Qed.
