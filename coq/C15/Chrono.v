(* C15/Chrono.v — second layer of the C15 model (definitions only; the proofs are in C15/ChronoProofs.v).
   Why: in C15/Model.v the comparison of date-times is written as "the instant, under a guard" and validity as the Spec's
   own `valid` under a guard.  Here
   (1) the calendar Spec is stated a second time WITHOUT arithmetic: as a relation (table of month lengths + the leap
       rule as the property states it) and as the successor function on dates (next_date), which pins the day number and
       the weekday independently of any closed formula;
   (2) the code is transliterated in ITS OWN formulation:
       - feel/src/temporal/date.rs is_leap_year (Rust `%` truncates: Z.rem), last_day_of_month (match on the month,
         None otherwise), is_valid_date (chrono conversion first, then the fallback);
       - the chrono 0.4.45 path of temporal/mod.rs compare / subtract: NaiveDate as (year, ordinal), from_ymd_opt,
         pred_opt / succ_opt with their range ends, NaiveTime::overflowing_sub_offset (seconds of the day minus the offset,
         div_euclid / rem_euclid by 86400), NaiveDateTime::checked_sub_offset, the derived lexicographic Ord of
         NaiveDateTime, NaiveDate::signed_duration_since (400-year cycles, the YEAR_DELTAS table copied from
         chrono-0.4.45/src/naive/date/mod.rs), NaiveTime::signed_duration_since, TimeDelta::num_nanoseconds
         (num_seconds / subsec_nanos with the sign adjustment, checked_mul, checked_add on i64).
       Not transliterated: chrono's month/day tables behind from_ymd_opt (MDL_TO_OL, YEAR_TO_FLAGS): from_ymd_opt is
       "the calendar's validity inside the year range, ordinal = day of the year" (tied by the correspondence check).
   (3) named zones: an ABSTRACT zone-rule function (Section variable) gives the offset of a local date-time. *)
From Coq Require Import ZArith NArith Bool List.
From DV Require Import Base.Calendar C15.Model.
Import ListNotations.
Open Scope Z_scope.

(* ================= Spec: the calendar as a relation ================= *)
Definition Leap (y : Z) : Prop := y mod 4 = 0 /\ (y mod 100 <> 0 \/ y mod 400 = 0).
Definition MonthLength (y m n : Z) : Prop :=
  ((m = 1 \/ m = 3 \/ m = 5 \/ m = 7 \/ m = 8 \/ m = 10 \/ m = 12) /\ n = 31) \/
  ((m = 4 \/ m = 6 \/ m = 9 \/ m = 11) /\ n = 30) \/
  (m = 2 /\ Leap y /\ n = 29) \/
  (m = 2 /\ ~ Leap y /\ n = 28).
Definition ValidDate (y m d : Z) : Prop := 1 <= m <= 12 /\ exists n, MonthLength y m n /\ 1 <= d <= n.

(* the day after a date: the next day of the month, else the first of the next month, else the first of January *)
Definition next_date (a : date) : date :=
  let '(y, m, d) := a in
  if d <? last_day y m then (y, m, d + 1) else if m <? 12 then (y, m + 1, 1) else (y + 1, 1, 1).

Definition weekday3 (a : date) : Z := let '(y, m, d) := a in weekday y m d.
Definition epoch : date := (1970, 1, 1).

(* ================= the code's own formulation of validity (date.rs) ================= *)
Definition is_leap_year_code (y : Z) : bool :=
  (Z.rem y 4 =? 0) && (negb (Z.rem y 100 =? 0) || (Z.rem y 400 =? 0)).
Definition last_day_of_month_code (y m : Z) : option Z :=
  match m with
  | 1 | 3 | 5 | 7 | 8 | 10 | 12 => Some 31
  | 4 | 6 | 9 | 11 => Some 30
  | 2 => Some (if is_leap_year_code y then 29 else 28)
  | _ => None
  end.

(* ================= chrono 0.4.45 ================= *)
Definition ndate := (Z * Z)%type.                 (* NaiveDate: year, ordinal (day of the year, 1 ..) *)
Definition ndt := (ndate * Z * Z)%type.           (* NaiveDateTime: date, second of the day, nanosecond *)

(* NaiveDate::from_ymd_opt (MIN_YEAR = -262143, MAX_YEAR = 262142) *)
Definition nd_from_ymd (y m d : Z) : option ndate :=
  if chrono_year y && valid y m d then Some (y, before_month y m + d) else None.
(* succ_opt: the next ordinal while it exists in the year, else from_yo_opt(year + 1, 1) *)
Definition nd_succ (a : ndate) : option ndate :=
  let '(y, o) := a in
  if o + 1 <=? year_len y then Some (y, o + 1) else if chrono_year (y + 1) then Some (y + 1, 1) else None.
(* pred_opt: the previous ordinal while it is positive, else from_ymd_opt(year - 1, 12, 31) *)
Definition nd_pred (a : ndate) : option ndate :=
  let '(y, o) := a in
  if 0 <? o - 1 then Some (y, o - 1) else nd_from_ymd (y - 1) 12 31.
(* derived Ord on the packed (year << 13 | ordinal << 4 | flags): year first, then ordinal *)
Definition nd_cmp (a b : ndate) : comparison :=
  match fst a ?= fst b with Eq => snd a ?= snd b | c => c end.

(* YEAR_DELTAS of chrono-0.4.45/src/naive/date/mod.rs: leap days before year i of a 400-year cycle, 401 entries *)
Definition YEAR_DELTAS : list Z :=
  [
   0; 1; 1; 1; 1; 2; 2; 2; 2; 3; 3; 3; 3; 4; 4; 4; 4; 5; 5; 5; 5; 6; 6; 6; 6;
   7; 7; 7; 7; 8; 8; 8; 8; 9; 9; 9; 9; 10; 10; 10; 10; 11; 11; 11; 11; 12; 12; 12; 12; 13;
   13; 13; 13; 14; 14; 14; 14; 15; 15; 15; 15; 16; 16; 16; 16; 17; 17; 17; 17; 18; 18; 18; 18; 19; 19;
   19; 19; 20; 20; 20; 20; 21; 21; 21; 21; 22; 22; 22; 22; 23; 23; 23; 23; 24; 24; 24; 24; 25; 25; 25;
   25; 25; 25; 25; 25; 26; 26; 26; 26; 27; 27; 27; 27; 28; 28; 28; 28; 29; 29; 29; 29; 30; 30; 30; 30;
   31; 31; 31; 31; 32; 32; 32; 32; 33; 33; 33; 33; 34; 34; 34; 34; 35; 35; 35; 35; 36; 36; 36; 36; 37;
   37; 37; 37; 38; 38; 38; 38; 39; 39; 39; 39; 40; 40; 40; 40; 41; 41; 41; 41; 42; 42; 42; 42; 43; 43;
   43; 43; 44; 44; 44; 44; 45; 45; 45; 45; 46; 46; 46; 46; 47; 47; 47; 47; 48; 48; 48; 48; 49; 49; 49;
   49; 49; 49; 49; 49; 50; 50; 50; 50; 51; 51; 51; 51; 52; 52; 52; 52; 53; 53; 53; 53; 54; 54; 54; 54;
   55; 55; 55; 55; 56; 56; 56; 56; 57; 57; 57; 57; 58; 58; 58; 58; 59; 59; 59; 59; 60; 60; 60; 60; 61;
   61; 61; 61; 62; 62; 62; 62; 63; 63; 63; 63; 64; 64; 64; 64; 65; 65; 65; 65; 66; 66; 66; 66; 67; 67;
   67; 67; 68; 68; 68; 68; 69; 69; 69; 69; 70; 70; 70; 70; 71; 71; 71; 71; 72; 72; 72; 72; 73; 73; 73;
   73; 73; 73; 73; 73; 74; 74; 74; 74; 75; 75; 75; 75; 76; 76; 76; 76; 77; 77; 77; 77; 78; 78; 78; 78;
   79; 79; 79; 79; 80; 80; 80; 80; 81; 81; 81; 81; 82; 82; 82; 82; 83; 83; 83; 83; 84; 84; 84; 84; 85;
   85; 85; 85; 86; 86; 86; 86; 87; 87; 87; 87; 88; 88; 88; 88; 89; 89; 89; 89; 90; 90; 90; 90; 91; 91;
   91; 91; 92; 92; 92; 92; 93; 93; 93; 93; 94; 94; 94; 94; 95; 95; 95; 95; 96; 96; 96; 96; 97; 97; 97;
   97
  ].
Definition yo_to_cycle (ym400 o : Z) : Z := ym400 * 365 + nth (Z.to_nat ym400) YEAR_DELTAS 0 + o - 1.
(* NaiveDate::signed_duration_since, in days (div_mod_floor = div_euclid / rem_euclid by 400) *)
Definition nd_days_since (a b : ndate) : Z :=
  let '(y1, o1) := a in let '(y2, o2) := b in
  (y1 / 400 - y2 / 400) * 146097 + (yo_to_cycle (y1 mod 400) o1 - yo_to_cycle (y2 mod 400) o2).

(* date_time_offset (temporal/mod.rs) = FixedOffset::east(off).ymd_opt(..).and_hms_nano_opt(..): the local date and
   time must exist, then TimeZone::from_local_datetime = NaiveDateTime::checked_sub_offset:
   the UTC naive date-time, None when pred_opt / succ_opt leave chrono's range *)
Definition chrono_utc (x : dtime) : option ndt :=
  let '(y, m, d) := dt_date x in
  match nd_from_ymd y m d with
  | None => None
  | Some nd =>
      if valid_tod x && (-86400 <? dt_off x) && (dt_off x <? 86400) then
        let secs := dt_h x * 3600 + dt_mi x * 60 + dt_s x - dt_off x in
        let days := secs / 86400 in
        let secs' := secs mod 86400 in
        match (match days with -1 => nd_pred nd | 1 => nd_succ nd | _ => Some nd end) with
        | Some nd' => Some (nd', secs', dt_ns x)
        | None => None
        end
      else None
  end.

(* derived Ord of NaiveDateTime { date, time: { secs, frac } } *)
Definition ndt_cmp (a b : ndt) : comparison :=
  let '(d1, s1, f1) := a in let '(d2, s2, f2) := b in
  match nd_cmp d1 d2 with
  | Eq => match s1 ?= s2 with Eq => f1 ?= f2 | c => c end
  | c => c
  end.

(* temporal::compare with the offsets resolved *)
Definition dt_compare_code (a b : dtime) : option comparison :=
  match chrono_utc a, chrono_utc b with
  | Some u, Some v => Some (ndt_cmp u v)
  | _, _ => None
  end.

(* NaiveDateTime::signed_duration_since: TimeDelta { secs (floor), nanos 0 .. 10^9 - 1 } =
   TimeDelta::days(..) + NaiveTime::signed_duration_since (no leap second representation occurs: frac < 10^9) *)
Definition ndt_since (a b : ndt) : Z * Z :=
  let '(d1, s1, f1) := a in let '(d2, s2, f2) := b in
  let frac := f1 - f2 in
  (nd_days_since d1 d2 * 86400 + ((s1 - s2) + frac / NS), frac mod NS).

(* TimeDelta::num_nanoseconds *)
Definition num_nanoseconds (t : Z * Z) : option Z :=
  let '(secs, nanos) := t in
  let adjust := (secs <? 0) && (0 <? nanos) in
  let num_seconds := if adjust then secs + 1 else secs in
  let subsec_nanos := if adjust then nanos - NS else nanos in
  let secs_part := num_seconds * NS in
  if fits_i64 secs_part then
    (if fits_i64 (secs_part + subsec_nanos) then Some (secs_part + subsec_nanos) else None)
  else None.

(* temporal::subtract with the offsets resolved *)
Definition dt_subtract_code (a b : dtime) : option Z :=
  match chrono_utc a, chrono_utc b with
  | Some u, Some v => num_nanoseconds (ndt_since u v)
  | _, _ => None
  end.

(* date.rs is_valid_date as the code computes it: DateTime::try_from(FeelDate) = the date at 00:00:00 UTC through
   date_time_offset, then the fallback with the code's own leap rule and month table *)
Definition midnight_utc (a : date) : dtime := {| dt_date := a; dt_h := 0; dt_mi := 0; dt_s := 0; dt_ns := 0; dt_off := 0 |}.
Definition is_some {A} (o : option A) : bool := match o with Some _ => true | None => false end.
Definition is_valid_date_code (y m d : Z) : bool :=
  is_some (chrono_utc (midnight_utc (y, m, d))) ||
  ((-999999999 <=? y) && (y <=? 999999999) &&
   match last_day_of_month_code y m with Some l => (1 <=? d) && (d <=? l) | None => false end).

(* ================= Spec of comparison and subtraction: the UTC time line, no guard ================= *)
(* utc_ns = instant of C15/Model.v: days * 86400 * 10^9 + local time of day - offset, in nanoseconds since 1970-01-01T00:00:00Z *)
Definition utc_ns (x : dtime) : Z := instant x.
Definition dt_compare_spec (a b : dtime) : comparison := utc_ns a ?= utc_ns b.
(* the set on which the code answers: both operands representable by chrono, locally and in UTC *)
Definition chrono_representable (x : dtime) : Prop :=
  (let '(y, m, d) := dt_date x in -262143 <= y <= 262142 /\ ValidDate y m d) /\
  (0 <= dt_h x < 24 /\ 0 <= dt_mi x < 60 /\ 0 <= dt_s x < 60 /\ 0 <= dt_ns x < NS) /\
  -86400 < dt_off x < 86400 /\
  days_from_civil (-262143) 1 1 * DAY_NS <= utc_ns x < (days_from_civil 262142 12 31 + 1) * DAY_NS.

(* ================= zones ================= *)
Inductive zone := ZUtc | ZOffset (off : Z) | ZNamed (id : N).
Record zdtime := { z_date : date; z_h : Z; z_mi : Z; z_s : Z; z_ns : Z; z_zone : zone }.
Definition with_offset (x : zdtime) (off : Z) : dtime :=
  {| dt_date := z_date x; dt_h := z_h x; dt_mi := z_mi x; dt_s := z_s x; dt_ns := z_ns x; dt_off := off |}.

Section Zones.
(* the rules of the named zones (chrono-tz / the local zone of the machine): zone id, local date, local time of day in
   nanoseconds -> seconds east of UTC; None: no such zone, or the local time is skipped there.  Abstract. *)
Variable zone_rule : N -> date -> Z -> option Z.

(* Spec: the offset of a date-time value, for every date *)
Definition zone_offset_spec (x : zdtime) : option Z :=
  match z_zone x with
  | ZUtc => Some 0
  | ZOffset o => Some o
  | ZNamed id => zone_rule id (z_date x) (tod_ns (with_offset x 0))
  end.
(* the instant of a zoned value: None only when the zone rule gives no offset *)
Definition utc_ns_z (x : zdtime) : option Z := option_map (fun o => utc_ns (with_offset x o)) (zone_offset_spec x).

(* get_zone_offset: the rule is consulted only when the local date-time is representable by chrono at UTC *)
Definition zone_offset_code (x : zdtime) : option Z :=
  match z_zone x with
  | ZUtc => Some 0
  | ZOffset o => Some o
  | ZNamed id => if is_some (chrono_utc (with_offset x 0)) then zone_rule id (z_date x) (tod_ns (with_offset x 0)) else None
  end.
Definition z_compare_code (a b : zdtime) : option comparison :=
  match zone_offset_code a, zone_offset_code b with
  | Some oa, Some ob => dt_compare_code (with_offset a oa) (with_offset b ob)
  | _, _ => None
  end.
Definition z_subtract_code (a b : zdtime) : option Z :=
  match zone_offset_code a, zone_offset_code b with
  | Some oa, Some ob => dt_subtract_code (with_offset a oa) (with_offset b ob)
  | _, _ => None
  end.
End Zones.
