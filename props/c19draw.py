"""Drawing of decision tables as Unicode box text (used by props/c19.py and, for the text path, props/c03.py).
A drawing is a grid of cells with merged regions, single and double separator lines, an optional information item name box.
`draw(spec)` returns the text together with what a recogniser must report for it (every text is the exact block of
characters inside the region's frame, as recognizer/src/canvas.rs text_from_rect reads it).  (owner: builder-dt)"""


class Grid:
    def __init__(self, nrows, ncols):
        self.nrows, self.ncols = nrows, ncols
        self.region = [[None] * ncols for _ in range(nrows)]
        self.rects = []          # (r0, c0, r1, c1, lines, align)
        self.vsep = ['s'] * (ncols + 1)
        self.hsep = ['s'] * (nrows + 1)

    def add(self, r0, c0, r1, c1, text, align='c'):
        rid = len(self.rects)
        for r in range(r0, r1):
            for c in range(c0, c1):
                assert self.region[r][c] is None, 'overlapping regions'
                self.region[r][c] = rid
        self.rects.append((r0, c0, r1, c1, text.split('\n'), align))
        return rid

    def layout(self, rng=None, pad=1):
        """column widths and row heights that fit every region's text (random extra width/height if rng is given)"""
        w = [1] * self.ncols
        h = [1] * self.nrows
        for (r0, c0, r1, c1, lines, _) in sorted(self.rects, key=lambda x: (x[3] - x[1], x[2] - x[0])):
            need_w = max(len(l) for l in lines) + 2 * pad
            have_w = sum(w[c0:c1]) + (c1 - c0 - 1)
            if need_w > have_w:
                w[c1 - 1] += need_w - have_w
            need_h = len(lines)
            have_h = sum(h[r0:r1]) + (r1 - r0 - 1)
            if need_h > have_h:
                h[r1 - 1] += need_h - have_h
        if rng is not None:
            for c in range(self.ncols):
                if rng.random() < 0.3:
                    w[c] += rng.randint(1, 4)
            for r in range(self.nrows):
                if rng.random() < 0.1:
                    h[r] += 1
        self.w, self.h = w, h
        self.X = [0]
        for c in range(self.ncols):
            self.X.append(self.X[-1] + w[c] + 1)
        self.Y = [0]
        for r in range(self.nrows):
            self.Y.append(self.Y[-1] + h[r] + 1)

    def _vseg(self, j, i):
        """is the piece of vertical separator j along grid row i drawn"""
        if i < 0 or i >= self.nrows:
            return False
        if j == 0 or j == self.ncols:
            return True
        return self.region[i][j - 1] != self.region[i][j]

    def _hseg(self, i, j):
        if j < 0 or j >= self.ncols:
            return False
        if i == 0 or i == self.nrows:
            return True
        return self.region[i - 1][j] != self.region[i][j]

    JUNCTION = {
        # (up, down, left, right, vkind, hkind) -> char ; kinds matter only for the arms that exist
        ('s', 's'): {(0, 1, 0, 1): '┌', (0, 1, 1, 0): '┐', (1, 0, 0, 1): '└', (1, 0, 1, 0): '┘', (1, 1, 0, 1): '├', (1, 1, 1, 0): '┤',
                     (0, 1, 1, 1): '┬', (1, 0, 1, 1): '┴', (1, 1, 1, 1): '┼'},
        ('s', 'd'): {(1, 1, 0, 1): '╞', (1, 1, 1, 0): '╡', (0, 1, 1, 1): '╤', (1, 0, 1, 1): '╧', (1, 1, 1, 1): '╪'},
        ('d', 's'): {(0, 1, 1, 1): '╥', (1, 0, 1, 1): '╨', (1, 1, 0, 1): '╟', (1, 1, 1, 0): '╢', (1, 1, 1, 1): '╫'},
        ('d', 'd'): {(1, 1, 1, 1): '╬'},
    }

    def render(self):
        W, H = self.X[-1] + 1, self.Y[-1] + 1
        cv = [[' '] * W for _ in range(H)]
        for j in range(self.ncols + 1):
            ch = '│' if self.vsep[j] == 's' else '║'
            for i in range(self.nrows):
                if self._vseg(j, i):
                    for y in range(self.Y[i] + 1, self.Y[i + 1]):
                        cv[y][self.X[j]] = ch
        for i in range(self.nrows + 1):
            ch = '─' if self.hsep[i] == 's' else '═'
            for j in range(self.ncols):
                if self._hseg(i, j):
                    for x in range(self.X[j] + 1, self.X[j + 1]):
                        cv[self.Y[i]][x] = ch
        for i in range(self.nrows + 1):
            for j in range(self.ncols + 1):
                arms = (int(self._vseg(j, i - 1)), int(self._vseg(j, i)), int(self._hseg(i, j - 1)), int(self._hseg(i, j)))
                vk, hk = self.vsep[j], self.hsep[i]
                if arms == (0, 0, 0, 0):
                    ch = ' '
                elif arms[2:] == (0, 0):
                    ch = '│' if vk == 's' else '║'
                elif arms[:2] == (0, 0):
                    ch = '─' if hk == 's' else '═'
                else:
                    ch = self.JUNCTION[(vk, hk)].get(arms)
                    if ch is None:
                        raise ValueError('no box character for junction %r %s %s' % (arms, vk, hk))
                cv[self.Y[i]][self.X[j]] = ch
        expected = {}
        for rid, (r0, c0, r1, c1, lines, align) in enumerate(self.rects):
            x0, x1 = self.X[c0] + 1, self.X[c1]          # inner columns [x0, x1)
            y0, y1 = self.Y[r0] + 1, self.Y[r1]
            iw, ih = x1 - x0, y1 - y0
            top = (ih - len(lines)) // 2 if align != 't' else 0
            for k, l in enumerate(lines):
                off = {'c': (iw - len(l)) // 2, 'l': 1, 'r': iw - len(l) - 1, 't': 1}[align]
                off = max(0, min(off, iw - len(l)))
                for q, chx in enumerate(l):
                    cv[y0 + top + k][x0 + off + q] = chx
            expected[rid] = '\n'.join(''.join(cv[y][x0:x1]) for y in range(y0, y1))
        return cv, expected


def add_info_box(cv, name, rng=None, width=None):
    """Puts the information item name box on top of the body; returns (canvas, expected text or None if it cannot be placed)."""
    W = len(cv[0])
    lines = name.split('\n')
    need = max(len(l) for l in lines) + 2
    # right edge: a position on the top border that is a plain line, a single T, or the right corner
    cands = [x for x in range(need + 1, W) if cv[0][x] in '─┬' or x == W - 1]
    if not cands:
        return None, None
    xr = rng.choice(cands) if rng is not None else cands[-1]
    if width is not None and width in cands:
        xr = width
    top = ['┌'] + ['─'] * (xr - 1) + ['┐'] + [' '] * (W - xr - 1)
    rows = [top]
    for l in lines:
        rows.append(['│'] + list((' ' + l).ljust(xr - 1)) + ['│'] + [' '] * (W - xr - 1))
    border = list(cv[0])
    border[0] = '├'
    border[xr] = {'─': '┴', '┬': '┼', '┐': '┤'}[border[xr]]
    expected = '\n'.join(''.join(r[1:xr]) for r in rows[1:])
    return rows + [border] + [list(r) for r in cv[1:]], expected


def to_text(cv, indent='  '):
    return '\n'.join(indent + ''.join(r).rstrip() for r in cv) + '\n'


def draw(spec, rng=None):
    """spec: dict(orientation='row'|'column', hp=marker, info=None|text, label=None|text (several outputs) / text (single output),
                  inputs=[(expr, values|None)], outputs=[(name|None, values|None)], annotations=[name], values=bool,
                  rules=[([in entries], [out entries], [annotation entries])], merge=[(input index, first rule, last rule)])
    returns (text, expected) where expected has the fields dv recognize reports (texts exactly as framed)."""
    n_in, n_out, n_ann, n_rules = len(spec['inputs']), len(spec['outputs']), len(spec['annotations']), len(spec['rules'])
    values = spec['values']
    multi = n_out > 1
    label_row = multi and spec['label'] is not None
    hdr = 1 + (1 if label_row else 0) + (1 if values else 0)          # header rows (horizontal) / header columns (vertical)
    merged = {}                                                       # (input index, rule) -> (first, last)
    for (i, a, b) in spec.get('merge', []):
        for r in range(a, b + 1):
            merged[(i, r)] = (a, b)
    horizontal = spec['orientation'] == 'row'
    # logical layout in "horizontal" coordinates: rows = hdr header rows + rules, columns = [hp] inputs | outputs | annotations
    ncols = 1 + n_in + n_out + n_ann
    nrows = hdr + n_rules

    def mk(r0, c0, r1, c1):
        return (r0, c0, r1, c1) if horizontal else (c0, r0, c1, r1)

    if horizontal:
        g = Grid(nrows, ncols)
        g.vsep[1 + n_in] = 'd'
        if n_ann:
            g.vsep[1 + n_in + n_out] = 'd'
        g.hsep[hdr] = 'd'
    else:
        # vertical: transpose, and the hit-policy/rule-number line moves to the last row
        g = Grid(ncols, nrows)
        g.hsep[n_in] = 'd'
        if n_ann:
            g.hsep[n_in + n_out] = 'd'
        g.vsep[hdr] = 'd'
    ids = {}

    def put(key, r0, c0, r1, c1, text, align='c'):
        """coordinates in horizontal convention where column 0 is the hit policy / rule number line"""
        if horizontal:
            ids[key] = g.add(r0, c0, r1, c1, text, align)
        else:
            # column c (>=1) becomes row c-1; the hp line (column 0) becomes the last row
            def row_of(c):
                return ncols - 1 if c == 0 else c - 1
            if c0 == 0:
                ids[key] = g.add(ncols - 1, r0, ncols, r1, text, align)
            else:
                ids[key] = g.add(c0 - 1, r0, c1 - 1, r1, text, align)

    al = (lambda: rng.choice('clr')) if rng is not None else (lambda: 'c')
    split = values and spec.get('split_values_cells', False)
    put('hp', 0, 0, hdr - (1 if split else 0), 1, spec['hp'])
    if split:
        put('hp_blank', hdr - 1, 0, hdr, 1, '')
    name_row = 1 if label_row else 0
    val_row = hdr - 1
    for i, (expr, vals) in enumerate(spec['inputs']):
        put(('ie', i), 0, 1 + i, hdr - (1 if values else 0), 2 + i, expr, al())
        if values:
            put(('iv', i), val_row, 1 + i, val_row + 1, 2 + i, vals, al())
    oc0 = 1 + n_in
    if multi:
        if label_row:
            put('label', 0, oc0, 1, oc0 + n_out, spec['label'], al())
        for k, (name, vals) in enumerate(spec['outputs']):
            put(('on', k), name_row, oc0 + k, name_row + 1, oc0 + k + 1, name, al())
            if values:
                put(('ov', k), val_row, oc0 + k, val_row + 1, oc0 + k + 1, vals, al())
    else:
        put('label', 0, oc0, hdr - (1 if values else 0), oc0 + 1, spec['label'] if spec['label'] is not None else '', al())
        if values:
            put(('ov', 0), val_row, oc0, val_row + 1, oc0 + 1, spec['outputs'][0][1], al())
    ac0 = oc0 + n_out
    for k, name in enumerate(spec['annotations']):
        put(('an', k), 0, ac0 + k, hdr - (1 if split else 0), ac0 + k + 1, name, al())
        if split:
            put(('an_blank', k), hdr - 1, ac0 + k, hdr, ac0 + k + 1, '')
    for r, (ins, outs, anns) in enumerate(spec['rules']):
        put(('rn', r), hdr + r, 0, hdr + r + 1, 1, str(r + 1))
        for i, e in enumerate(ins):
            if (i, r) in merged:
                a, b = merged[(i, r)]
                if r == a:
                    put(('in', i, r), hdr + a, 1 + i, hdr + b + 1, 2 + i, e, al())
                else:
                    ids[('in', i, r)] = ids[('in', i, a)]
            else:
                put(('in', i, r), hdr + r, 1 + i, hdr + r + 1, 2 + i, e, al())
        for k, e in enumerate(outs):
            put(('out', k, r), hdr + r, oc0 + k, hdr + r + 1, oc0 + k + 1, e, al())
        for k, e in enumerate(anns):
            put(('ann', k, r), hdr + r, ac0 + k, hdr + r + 1, ac0 + k + 1, e, al())
    assert all(x is not None for row in g.region for x in row), 'unassigned grid cell'
    g.layout(rng)
    cv, exp = g.render()
    info_exp = None
    if spec.get('info') is not None:
        cv2, info_exp = add_info_box(cv, spec['info'], rng)
        if cv2 is None:
            return None, None
        cv = cv2
    T = lambda key: exp[ids[key]]
    expected = {
        'information_item_name': info_exp,
        'hit_policy': spec['hp'],
        'orientation': spec['orientation'],
        'output_label': T('label') if 'label' in ids else None,
        'inputs': [[T(('ie', i)), T(('iv', i)) if values else None] for i in range(n_in)],
        'outputs': [[T(('on', k)) if multi else None, T(('ov', k)) if values else None, None] for k in range(n_out)],
        'annotations': [T(('an', k)) for k in range(n_ann)],
        'rules': [[[T(('in', i, r)) for i in range(n_in)], [T(('out', k, r)) for k in range(n_out)], [T(('ann', k, r)) for k in range(n_ann)]]
                  for r in range(n_rules)],
    }
    return to_text(cv), expected
