(* C16 — the fuel-free reading of the relations (audit problems 6 and 12).
   1. Fuel adequacy: once the fuel covers the two types, more fuel changes nothing, and the saturated
      functions [equivalent] / [conformant] of the model are the common value.  Below that bound the
      transliterations answer [false] although the types may conform ([fuel_needed]).
   2. [Conf]: conformance as an inductive relation that mentions no fuel (Null bottom, Any top, equal simple
      types, list / range covariant, context: every entry the target requires is present and conforms,
      function: arguments contravariant, result covariant).  [conformant a b = true <-> Conf a b] for types with
      unique context keys; reflexivity, transitivity and the variance sentences restated for [Conf].
   3. [coerced_spec]: the first candidate among  v, [v], (x when v = [x])  whose type conforms to the target,
      else null — written without looking at the model's [coerced]; [coerced T v = coerced_spec T v].
   Owner: ext-fuel.  Definitions of this file are specifications (no transliteration of code). *)
From Coq Require Import List NArith Bool Arith Lia.
From DV Require Import C16.Model C16.Proofs.
Import ListNotations.

(* ---------- 1. fuel adequacy ---------- *)
Theorem equiv_fuel_add f k a b : size a + size b <= f -> equiv (f + k) a b = equiv f a b.
Proof. intros H. apply equiv_fuel; lia. Qed.

Theorem conf_fuel_add f k a b : S (size a + size b) <= f -> conf (f + k) a b = conf f a b.
Proof. intros H. apply conf_fuel; lia. Qed.

Theorem teqb_fuel : forall f f' a b, size a + size b <= f -> size a + size b <= f' -> teqb f a b = teqb f' a b.
Proof. induction f as [|f IH]; intros f' a b H H'; [pose proof (size_pos a); lia|].
  destruct f' as [|f']; [pose proof (size_pos a); lia|].
  cbn [teqb]. destruct a as [sa|ta|ta|ea|pa ra], b as [sb|tb|tb|eb|pb rb]; try reflexivity; cbn [size] in H, H'.
  - apply IH; lia.
  - apply IH; lia.
  - revert eb H H'. induction ea as [|[k t] ea IHe]; intros [|[k' t'] eb] H H'; cbn [all2e]; try reflexivity.
    cbn [fold_right snd] in H, H'. rewrite (IH f' t t') by lia. rewrite IHe by (cbn [fold_right snd]; lia). reflexivity.
  - f_equal; [f_equal|].
    + apply all2_ext_in. intros x y Hx Hy. pose proof (sum_in_ps x pa Hx). pose proof (sum_in_ps y pb Hy). apply IH; lia.
    + apply IH; lia.
Qed.

Theorem teqb_fuel_add f k a b : size a + size b <= f -> teqb (f + k) a b = teqb f a b.
Proof. intros H. apply teqb_fuel; lia. Qed.

Theorem equivalent_saturated f a b : size a + size b <= f -> equiv f a b = equivalent a b.
Proof. intros H. symmetry. apply equivalent_f. exact H. Qed.

Theorem conformant_saturated f a b : S (size a + size b) <= f -> conf f a b = conformant a b.
Proof. intros H. symmetry. apply conformant_f. exact H. Qed.

(* below the bound the fuelled functions answer false for types that do conform / are equivalent *)
Example fuel_needed :
  let t := TList (TList (TS SNumber)) in
  conformant t t = true /\ equivalent t t = true /\ conf 2 t t = false /\ equiv 2 t t = false /\
  size t + size t = 6 /\ conf 7 t t = true /\ equiv 6 t t = true.
Proof. vm_compute. repeat split; reflexivity. Qed.

(* ---------- 2. conformance without fuel ---------- *)
Inductive Conf : ftype -> ftype -> Prop :=
| CNull b : Conf (TS SNull) b
| CAny a : Conf a (TS SAny)
| CSimple s : Conf (TS s) (TS s)
| CList a b : Conf a b -> Conf (TList a) (TList b)
| CRange a b : Conf a b -> Conf (TRange a) (TRange b)
| CCtx ea eb : (forall k tb, In (k, tb) eb -> exists ta, lookup k ea = Some ta /\ Conf ta tb) -> Conf (TCtx ea) (TCtx eb)
| CFun pa ra pb rb : Forall2 Conf pb pa -> Conf ra rb -> Conf (TFun pa ra) (TFun pb rb).

Lemma all2_Forall2 (g : ftype -> ftype -> bool) (R : ftype -> ftype -> Prop) : forall a b, length a = length b ->
  (forall x y, In x a -> In y b -> g x y = true -> R x y) -> all2 g a b = true -> Forall2 R a b.
Proof. induction a as [|x a IH]; intros [|y b] Hl H Ha; cbn [length] in Hl; try discriminate; [constructor|].
  cbn [all2] in Ha. apply andb_true_iff in Ha as [H1 H2]. constructor.
  - apply H; [left; reflexivity | left; reflexivity | exact H1].
  - apply IH; [lia | | exact H2]. intros x' y' Hx Hy. apply H; right; assumption. Qed.

Lemma Forall2_all2 (g : ftype -> ftype -> bool) (R : ftype -> ftype -> Prop) : forall a b,
  (forall x y, In x a -> In y b -> R x y -> g x y = true) -> Forall2 R a b -> length a = length b /\ all2 g a b = true.
Proof. intros a b H F. induction F as [|x y a b Hxy F IH]; [split; reflexivity|].
  destruct IH as [IH1 IH2]; [intros x' y' Hx Hy; apply H; right; assumption|].
  split; [cbn [length]; lia|]. cbn [all2]. rewrite IH2, (H x y (or_introl eq_refl) (or_introl eq_refl) Hxy). reflexivity. Qed.

Lemma conf'_Conf : forall f a b, conf' f a b = true -> Conf a b.
Proof. induction f as [|f IH]; intros a b H; [discriminate|]. cbn [conf'] in H.
  destruct a as [[]|ta|ta|ea|pa ra], b as [[]|tb|tb|eb|pb rb]; try discriminate; try constructor.
  - apply IH. exact H.
  - apply IH. exact H.
  - intros k tb Hin. rewrite forallb_forall in H. specialize (H (k, tb) Hin). cbn [fst snd] in H.
    destruct (lookup k ea) as [ta|]; [|discriminate]. exists ta. split; [reflexivity | apply IH; exact H].
  - apply andb_true_iff in H as [H _]. apply andb_true_iff in H as [Hl Hp]. apply Nat.eqb_eq in Hl.
    apply (all2_Forall2 (conf' f)); [lia | | exact Hp]. intros x y _ _. apply IH.
  - apply andb_true_iff in H as [_ H]. apply IH. exact H. Qed.

Lemma conf'_simple f s : 1 <= f -> conf' f (TS s) (TS s) = true.
Proof. destruct f; [lia|]. destruct s; reflexivity. Qed.

Lemma Conf_conf' : forall f a b, size a + size b <= f -> Conf a b -> conf' f a b = true.
Proof. induction f as [|f IH]; intros a b Hs H; [pose proof (size_pos a); lia|].
  inversion H as [b0|a0|s|a0 b0 H0|a0 b0 H0|ea eb H0|pa ra pb rb Hp Hr]; subst.
  - apply conf'_null. lia.
  - apply conf'_any. lia.
  - apply conf'_simple. lia.
  - cbn [conf']. cbn [size] in Hs. apply IH; [lia | exact H0].
  - cbn [conf']. cbn [size] in Hs. apply IH; [lia | exact H0].
  - cbn [conf']. cbn [size] in Hs. apply forallb_forall. intros [k tb] Hin. cbn [fst snd].
    destruct (H0 k tb Hin) as [ta [Hl Hc]]. rewrite Hl.
    pose proof (sum_in_es (k, tb) eb Hin) as S1. pose proof (lookup_size _ _ _ Hl) as S2. cbn [snd] in S1.
    apply IH; [lia | exact Hc].
  - cbn [conf']. cbn [size] in Hs.
    destruct (Forall2_all2 (conf' f) Conf pb pa) as [Hl Ha]; [|exact Hp|].
    { intros x y Hx Hy Hxy. pose proof (sum_in_ps x pb Hx). pose proof (sum_in_ps y pa Hy). apply IH; [lia | exact Hxy]. }
    rewrite Ha. replace (Nat.eqb (length pa) (length pb)) with true by (symmetry; apply Nat.eqb_eq; lia).
    cbn [andb]. apply IH; [lia | exact Hr]. Qed.

Theorem conformant'_iff_Conf a b : conformant' a b = true <-> Conf a b.
Proof. split; [apply conf'_Conf | apply Conf_conf'; lia]. Qed.

(* the implementation's relation (equivalence shortcut, early returns, fuel) is the relation without fuel *)
Theorem conformant_iff_Conf a b : wf a = true -> wf b = true -> (conformant a b = true <-> Conf a b).
Proof. intros Ha Hb. rewrite conformant_structural by assumption. apply conformant'_iff_Conf. Qed.

(* every sufficient fuel decides [Conf] *)
Theorem conf_decides_Conf f a b : wf a = true -> wf b = true -> S (size a + size b) <= f -> (conf f a b = true <-> Conf a b).
Proof. intros Ha Hb Hf. rewrite conformant_saturated by exact Hf. apply conformant_iff_Conf; assumption. Qed.

Theorem Conf_refl t : wf t = true -> Conf t t.
Proof. intros H. apply (conformant_iff_Conf t t H H). apply conformant_refl. exact H. Qed.

Theorem Conf_trans a b c : Conf a b -> Conf b c -> Conf a c.
Proof. intros H1 H2. apply conformant'_iff_Conf. set (f := size a + size b + size c).
  rewrite (conformant'_f f) by (unfold f; lia). apply (conf'_trans_f f a b c); [unfold f; lia | |].
  - apply Conf_conf'; [unfold f; lia | exact H1].
  - apply Conf_conf'; [unfold f; lia | exact H2]. Qed.

Theorem Conf_list a b : Conf (TList a) (TList b) <-> Conf a b.
Proof. split; [intros H; inversion H; assumption | apply CList]. Qed.

Theorem Conf_range a b : Conf (TRange a) (TRange b) <-> Conf a b.
Proof. split; [intros H; inversion H; assumption | apply CRange]. Qed.

Theorem Conf_context ea eb :
  Conf (TCtx ea) (TCtx eb) <-> (forall k tb, In (k, tb) eb -> exists ta, lookup k ea = Some ta /\ Conf ta tb).
Proof. split; [intros H; inversion H; assumption | apply CCtx]. Qed.

Theorem Conf_function pa ra pb rb : Conf (TFun pa ra) (TFun pb rb) <-> Forall2 Conf pb pa /\ Conf ra rb.
Proof. split; [intros H; inversion H; split; assumption | intros [H1 H2]; apply CFun; assumption]. Qed.

(* equivalent types conform to each other (in the relation without fuel) *)
Theorem equivalent_Conf a b : wf a = true -> wf b = true -> equivalent a b = true -> Conf a b /\ Conf b a.
Proof. intros Ha Hb H. destruct (equivalent_conformant a b Ha Hb H) as [H1 H2].
  split; [apply (conformant_iff_Conf a b Ha Hb) | apply (conformant_iff_Conf b a Hb Ha)]; assumption. Qed.

Example Conf_nonvacuous :
  let a := TFun [TS SAny; TCtx [(1%N, TS SNumber)]] (TList (TS SNull)) in
  let b := TFun [TS SNumber; TCtx [(1%N, TS SNumber); (2%N, TS SString)]] (TList (TS SDate)) in
  Conf a b /\ ~ Conf b a.
Proof. intros a b.
  assert (Ha : wf a = true) by reflexivity. assert (Hb : wf b = true) by reflexivity. split.
  - apply (conformant_iff_Conf a b Ha Hb). vm_compute. reflexivity.
  - intro H. apply (conformant_iff_Conf b a Hb Ha) in H. vm_compute in H. discriminate. Qed.

(* ---------- 3. coercion: one equation, decision procedure written independently of [coerced] ---------- *)
(* what a value can be turned into: itself, the singleton list of it, its only item when it is a singleton list *)
Definition candidates (v : value) : list value :=
  v :: VList [v] :: match v with VList [x] => [x] | _ => [] end.

Definition coerced_spec (target : ftype) (v : value) : value :=
  match find (fun c => conformant (type_of c) target) (candidates v) with Some c => c | None => VNull end.

(* a singleton list conforms to a target that is not a list type only when the target is Any or the item itself is...
   precisely: [TList t] conforms to T iff T is Any or T = TList item with t conforming to item *)
Lemma list_conformant_inv t T : wf t = true -> wf T = true -> conformant (TList t) T = true ->
  T = TS SAny \/ exists item, T = TList item /\ conformant t item = true.
Proof. intros Ht HT H. rewrite conformant_structural in H by assumption. unfold conformant' in H.
  destruct T as [[]|item|r|es|ps r]; cbn [size Nat.add conf'] in H; try discriminate; [left; reflexivity|].
  right. exists item. split; [reflexivity|]. rewrite conformant_structural by assumption.
  rewrite (conformant'_f (size t + size item)) by lia. rewrite <- H. apply conf'_fuel; lia. Qed.

Theorem coerced_is_spec T v : wf T = true -> wfv v = true -> coerced T v = coerced_spec T v.
Proof. intros HT Hv. unfold coerced, coerced_spec, candidates. cbn [find].
  destruct (conformant (type_of v) T) eqn:E1; [reflexivity|].
  rewrite type_of_singleton.
  destruct (conformant (TList (type_of v)) T) eqn:E2.
  - destruct (list_conformant_inv _ _ (wf_type_of v Hv) HT E2) as [->|[item [-> Hi]]].
    + rewrite conformant_any in E1. discriminate.
    + rewrite Hi. reflexivity.
  - assert (Hw : match T with TList item => if conformant (type_of v) item then Some (VList [v]) else None | _ => None end = None).
    { destruct T as [s|item|r|es|ps r]; try reflexivity. destruct (conformant (type_of v) item) eqn:Ei; [|reflexivity].
      rewrite list_covariant in E2; [congruence | apply wf_type_of; exact Hv | exact HT]. }
    rewrite Hw. destruct v as [|s p|[|x [|y vs]]|es|lo hi|ps r]; try reflexivity.
    cbn [find]. destruct (conformant (type_of x) T); reflexivity. Qed.

(* the three sentences of the property read off the equation *)
Theorem coerced_spec_cases T v : wf T = true -> wfv v = true ->
  (conformant (type_of v) T = true -> coerced T v = v) /\
  (conformant (type_of v) T = false -> conformant (type_of (VList [v])) T = true -> coerced T v = VList [v]) /\
  (forall x, v = VList [x] -> conformant (type_of v) T = false -> conformant (type_of (VList [v])) T = false ->
     conformant (type_of x) T = true -> coerced T v = x) /\
  ((forall c, In c (candidates v) -> conformant (type_of c) T = false) -> coerced T v = VNull).
Proof. intros HT Hv. rewrite (coerced_is_spec T v HT Hv). unfold coerced_spec, candidates. repeat split.
  - intros H. cbn [find]. rewrite H. reflexivity.
  - intros H1 H2. cbn [find]. rewrite H1, H2. reflexivity.
  - intros x -> H1 H2 H3. cbn [find]. rewrite H1, H2, H3. reflexivity.
  - intros H. destruct (find _ _) as [c|] eqn:E; [|reflexivity]. apply find_some in E as [E1 E2].
    rewrite (H c E1) in E2. discriminate. Qed.

Example coerced_spec_nonvacuous :
  let n := VAtom SNumber 1%N in
  coerced_spec (TS SNumber) n = n /\ coerced_spec (TList (TS SNumber)) n = VList [n] /\
  coerced_spec (TS SNumber) (VList [n]) = n /\ coerced_spec (TS SString) n = VNull /\
  (* wrap is tried before unwrap *)
  coerced_spec (TList (TList (TList (TS SNumber)))) (VList [VList [n]]) = VList [VList [VList [n]]].
Proof. vm_compute. repeat split; reflexivity. Qed.
