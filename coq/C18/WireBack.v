(* C18 — reading the answer of /tck/evaluate back (the client side of the TCK round trip): the decoded JSON tree of a
   ValueDto, with the three members simple / components / list in the order serde writes them (absent ones null), back to
   the DTO in normal form.  Spec side (what a client that follows dto.rs reads); no proofs in this file. *)
From Coq Require Import List NArith Bool.
From DV Require Import C18.Model C18.Service C18.Dto C18.Wire.
Import ListNotations.
Open Scope N_scope.

Definition text_opt (v : value) : option (option text) :=
  match v with VNull => Some None | VStr s => Some (Some s) | _ => None end.

Fixpoint value_dto (v : value) : option dto :=
  match v with
  | VCtx [(k1, a); (k2, b); (k3, c)] =>
    if text_eqb k1 k_simple && text_eqb k2 k_components && text_eqb k3 k_list then
      match a, b, c with
      | VCtx [(t1, ty); (t2, tx); (t3, VBool isn)], VNull, VNull =>
        if text_eqb t1 k_type && text_eqb t2 k_text && text_eqb t3 k_isnil then
          match text_opt ty, text_opt tx with
          | Some ty', Some tx' => Some (DSimple ty' tx' isn)
          | _, _ => None
          end
        else None
      | VNull, VList cs, VNull =>
        match traverse (fun cv : value =>
                 match cv with
                 | VCtx [(n1, nmv); (n2, vv); (n3, VBool isn)] =>
                   if text_eqb n1 k_name && text_eqb n2 k_value && text_eqb n3 k_isnil then
                     match text_opt nmv with
                     | Some nm' =>
                       match vv with
                       | VNull => Some (nm', None, isn)
                       | _ => match value_dto vv with Some d => Some (nm', Some d, isn) | None => None end
                       end
                     | None => None
                     end
                   else None
                 | _ => None
                 end) cs with
        | Some l => Some (DComponents l)
        | None => None
        end
      | VNull, VNull, VCtx [(i1, VList items); (i2, VBool isn)] =>
        if text_eqb i1 k_items && text_eqb i2 k_isnil then
          match traverse value_dto items with Some l => Some (DList l isn) | None => None end
        else None
      | VNull, VNull, VNull => Some DNone
      | _, _, _ => None
      end
    else None
  | _ => None
  end.

(* the answer of /tck/evaluate read back: the document decoded strictly, the data / value members followed, the DTO read,
   the value rebuilt by the conversion the service applies to its inputs *)
Definition read_tck_answer (body : text) : option value :=
  match json_decode body with
  | Some (VCtx [(kd, VCtx [(kv, w)])]) =>
    if text_eqb kd k_data && text_eqb kv k_value then
      match value_dto w with Some d => from_dto0 d | None => None end
    else None
  | _ => None
  end.
