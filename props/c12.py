"""C12 — loading any model text yields a usable model or an error, never a crash.  (owner: builder-total)

Proof: coq/Props/C12.v over coq/C12/Model.v (decision tables with every vector index of decision_table.rs as a bounds test; requirement and
type-reference graph; outcomes Ok | Err | Panic | Diverge).  Correspondence = fault injection through `dv guard .. model` (parse -> ModelEvaluator::new ->
evaluate_invocable for every invocable, each request in a fresh 8 MiB-stack thread under catch_unwind and a wall-clock limit, process
death observed), in the debug and the release build:
  (0) a generated family of decision tables (all hit policies x numbers of clauses x entries per rule x match patterns): outcome class of the
      build and value of every evaluation of the Coq model (table_build / table_eval) against the real code;
  (1) generated models whose outcome class the model predicts (requirement graphs with and without cycles between decisions, knowledge
      models and item definitions; tables whose rules disagree with their clauses);
  (2) every example model of /repo/examples/src unchanged, and with single structural faults (delete / duplicate / empty / swap an element;
      delete / empty / garble an attribute or a text node; retarget an href to a missing element, to its own element, to an ancestor);
  (3) random byte-level corruption (totality only: the XML parser is not modelled).
"""
import json

from vlib import core
from vlib.coqterm import App
from props import c12gen as G

HEADER = 'From Coq Require Import List Arith.\nFrom DV Require Import C12.Model C12.Relation.\nImport ListNotations.\n'
LIMIT_MS = 30000
GUARD = 'guard %d 8 model'


def verdict(r):
    """None when the answer is a model / an error / values; otherwise a text saying what crashed"""
    if not isinstance(r, dict):
        return 'garbled answer'
    for k in ('crash', 'timeout', 'panic', 'garbled'):
        if k in r:
            return '%s: %s' % (k, str(r[k])[:200])
    if r.get('parse') == 'panic':
        return 'panic while parsing: %s' % r.get('parse_msg', '')[:200]
    if r.get('build') == 'panic':
        return 'panic while building the model evaluator: %s' % r.get('build_msg', '')[:200]
    for i, x in enumerate(r.get('results', [])):
        if 'panic' in x:
            return 'panic while evaluating invocable #%d: %s' % (i, x['panic'][:200])
    if 'parse' not in r:
        return 'garbled answer'
    return None


def settle(ctx, req, r, rel):
    """a timeout / process death may be an effect of machine load: run the request again alone with a longer limit;
    after three confirmed failures the rest is taken as it is"""
    if isinstance(r, dict) and ('timeout' in r or 'garbled' in r or ('crash' in r and 'overflowed' not in str(r['crash']))):
        st = ctx.__dict__.setdefault('_settle', {'confirmed': 0})
        if st['confirmed'] >= 3 or len(ctx.violations) >= 20:
            return r
        r2 = ctx.run_impl(GUARD % (3 * LIMIT_MS), [req], release=rel, shards=1)[0]
        if verdict(r2) is None:
            ctx.notes.append('a timeout / process death under load was not reproduced when the request ran alone')
        else:
            st['confirmed'] += 1
        return r2
    return r


def nat_list(xs):
    return '[' + '; '.join(str(x) for x in xs) + ']'


def relation_cases():
    """boxed relations with their children in every document order, as XML and as the term coq/C12/Relation.v is asked about (load: Ok | Err)"""
    import itertools
    out = []
    inp = '  <inputData name="i0" id="_i0"><variable name="i0" typeRef="number"/></inputData>\n'
    lit = lambda k: '<literalExpression><text>i0 + %d</text></literalExpression>' % k
    for n_col in (0, 1, 2, 3):
        for widths in ([], [n_col], [max(0, n_col - 1)], [n_col + 1], [n_col, n_col], [n_col, n_col + 1], [0]):
            kids = [('c', j) for j in range(n_col)] + [('r', w) for w in widths]
            orders = sorted(set(itertools.permutations(range(len(kids))))) if len(kids) <= 4 else [tuple(range(len(kids))), tuple(reversed(range(len(kids))))]
            for oi, order in enumerate(orders):
                rel = '    <relation>' + ''.join('<column name="c%d"/>' % kids[k][1] if kids[k][0] == 'c' else '<row>' + ''.join(lit(q) for q in range(kids[k][1])) + '</row>'
                                                 for k in order) + '</relation>\n'
                term = 'load [%s]' % '; '.join('CCol' if kids[k][0] == 'c' else 'CRow %d' % kids[k][1] for k in order)
                out.append(('relation-model-cols%d-rows%s-order%d' % (n_col, '.'.join(map(str, widths)) or 'none', oi),
                            G.HDR + inp + G.gen_decision(0, [('i', 0)], '', table=rel) + '</definitions>\n', term))
    return out


def predicted_cases():
    """generated models with the abstract definitions the Coq model is asked about"""
    out = []
    graphs = {
        'chain3': {0: [1], 1: [2], 2: []}, 'diamond': {0: [1, 2], 1: [3], 2: [3], 3: []}, 'self': {0: [0]}, 'cycle2': {0: [1], 1: [0]}, 'cycle3': {0: [1], 1: [2], 2: [0]},
        'tail-into-cycle': {0: [1], 1: [2], 2: [1]}, 'two-cycles': {0: [1, 2], 1: [0], 2: [0]}, 'chain40': {i: ([i + 1] if i < 39 else []) for i in range(40)},
        'dangling': {0: [1, 9], 1: []},
        'isolated-cycle': {0: [], 1: [2], 2: [1]}, 'doubled-edge': {0: [1, 1], 1: []}, 'doubled-edge-cycle': {0: [1, 1], 1: [2], 2: [2, 0, 0]},
    }
    inp = '  <inputData name="i0" id="_i0"><variable name="i0" typeRef="number"/></inputData>\n'
    for name, g in graphs.items():
        gterm = '[' + '; '.join('(%d, %s)' % (i, nat_list(js)) for i, js in g.items()) + ']'
        body = ''.join(G.gen_decision(i, [('d', j) for j in js] + [('i', 0)], ' + '.join(['i0'] + ['d%d' % j for j in js if j in g])) for i, js in g.items())
        out.append(('decisions-' + name, G.HDR + inp + body + '</definitions>\n', ['d%d' % i for i in list(g)[:3]], ['i0'], 'build 1000 (mk_defs [] %s)' % gterm, name == 'dangling'))
        if name != 'dangling':
            body = ''.join(G.gen_bkm(i, js, ' + '.join(['x'] + ['b%d(x)' % j for j in js])) for i, js in g.items())
            body += G.gen_decision(0, [('b', 0), ('i', 0)], 'b0(i0)')
            # node 100 = the decision that requires b0
            out.append(('knowledge-' + name, G.HDR + inp + body + '</definitions>\n', ['d0'] + ['b%d' % i for i in list(g)[:2]], ['i0'],
                        'build 1000 (mk_defs [] ((100, [0]) :: %s))' % gterm, False))
    for n_in in (1, 2, 3):
        for n_out in (1, 2):
            for rule in [(n_in, n_out), (n_in - 1, n_out), (n_in + 1, n_out), (n_in, n_out - 1), (n_in, n_out + 1), (0, 0)]:
                body = G.gen_decision(0, [('i', 0)], '', table=G.gen_table(n_in, n_out, [(n_in, n_out), rule]))
                tt = G.table_term(dict(policy=3, n_in=n_in, outs=[(n_out > 1, [], None)] * n_out, rules=[(n_in, '-', [1] * n_out), (rule[0], '-', [1] * rule[1])]))
                out.append(('table-in%d-out%d-rule%d/%d' % (n_in, n_out, rule[0], rule[1]), G.HDR + inp + body + '</definitions>\n', ['d0'], ['i0'],
                            'build 1000 (mk_defs [%s] [(0, [])])' % tt, False))
    for name, g in G.long_cycle_graphs().items():
        gterm = '[' + '; '.join('(%d, %s)' % (i, nat_list(js)) for i, js in sorted(g.items())) + ']'
        body = ''.join(G.gen_decision(i, [('d', j) for j in js] + [('i', 0)], ' + '.join(['i0'] + ['d%d' % j for j in js])) for i, js in sorted(g.items()))
        out.append(('decisions-' + name, G.HDR + inp + body + '</definitions>\n', ['d%d' % i for i in sorted(g)[:3]], ['i0'], 'build 1000 (mk_defs [] %s)' % gterm, False))
        body = ''.join(G.gen_bkm(i, js, ' + '.join(['x'] + ['b%d(x)' % j for j in js])) for i, js in sorted(g.items()))
        body += G.gen_decision(0, [('b', max(g)), ('i', 0)], 'b%d(i0)' % max(g))
        out.append(('knowledge-' + name, G.HDR + inp + body + '</definitions>\n', ['d0'] + ['b%d' % i for i in sorted(g)[:2]], ['i0'],
                    'build 1000 (mk_defs [] ((100, [%d]) :: %s))' % (max(g), gterm), False))
    for label, xml, inv, inputs, gterm, _ in G.nested_item_models():
        out.append((label, xml, inv, inputs, 'build 1000 (mk_defs [] %s)' % gterm, False))
    shapes = {
        'self-ref': ([('tA', 'tA', [])], '[(0, [0])]'), 'ref-cycle2': ([('tA', 'tB', []), ('tB', 'tA', [])], '[(0, [1]); (1, [0])]'),
        'component-cycle': ([('tA', None, [('c', 'tA')])], '[(0, [0])]'), 'component-cycle2': ([('tA', None, [('c', 'tB')]), ('tB', None, [('c', 'tA')])], '[(0, [1]); (1, [0])]'),
        'ok-ref': ([('tA', 'number', []), ('tB', 'tA', [])], '[(0, [9]); (1, [0])]'),
    }
    for name, (shape, gterm) in shapes.items():
        body = G.gen_item_defs(shape) + '  <inputData name="i1" id="_i1"><variable name="i1" typeRef="tA"/></inputData>\n'
        body += '  <decision name="d0" id="_d0"><variable name="d0" typeRef="tA"/><informationRequirement id="_r"><requiredInput href="#_i1"/></informationRequirement><literalExpression><text>i1</text></literalExpression></decision>\n'
        out.append(('items-' + name, G.HDR + body + '</definitions>\n', ['d0'], ['i1'], 'build 1000 (mk_defs [] %s)' % gterm, False))
    return out


def table_compare(ctx, c, r, build, hist):
    """decision table family: outcome of the Coq model (table_build; table_eval under the three contexts) against the real builder / evaluator"""
    mb, mev = c['model']
    mb = mb.name
    want = {'Ok': 'ok', 'Err': 'err'}.get(mb, 'panic')
    case = {'model_xml': c['label'], 'build': build}
    if r['parse'] != 'ok' or r['build'] != want:
        ctx.corr_broken('decision table: outcome of build_decision_table_evaluator', case, {'parse': r['parse'], 'build': r['build'], 'msg': r.get('build_msg', '')[:200]}, mb)
        return
    hist['build ' + want] = hist.get('build ' + want, 0) + 1
    if want != 'ok':
        return
    pol = G.POLICIES[c['table']['policy']][2]
    for i, (me, x) in enumerate(zip(mev, r['results'])):
        exp = G.table_expected(me, c['table'])
        obs = G.table_observed(x.get('v'))
        kind = 'null' if exp is None else exp[0]
        k = '%s: %s' % (pol, kind)
        hist[k] = hist.get(k, 0) + 1
        ctx.corr_checked += 1
        if exp != obs:
            ctx.corr_broken('decision table: value of the evaluation', dict(case, context=G.TABLE_CONTEXTS[i]), x, str(me))


def run(ctx):
    ctx.proof_gate()
    ctx.build_harness()
    ctx.build_harness(release=True)
    rng = ctx.rng
    pc = predicted_cases()
    model = ctx.run_model(HEADER, [c[4] for c in pc], shard_size=max(8, len(pc) // 16 + 1), tag='p')
    rc = relation_cases()
    rel_model = ctx.run_model(HEADER, [c[2] for c in rc], shard_size=max(8, len(rc) // 8 + 1), tag='r')
    fam = G.table_family(rng, ctx.pick(600, None), ctx.pick(400, 5000))
    fam_model = ctx.run_model(HEADER, [c[2] for c in fam], shard_size=max(8, len(fam) // 16 + 1), tag='t')
    files = G.example_files(core.REPO)
    stats = {'tables': {}, 'n_sites': 0, 'n_faults': 0, 'fault_hist': {}, 'classes': {}, 'first_fault': None}

    def produce():
        for (label, xml, inv, inputs, _, lenient), m in zip(pc, model):
            yield {'tag': 'predicted', 'label': label, 'xml': xml, 'calls': [[n, c] for n in inv for c in G.ctx_texts(inputs)], 'model': m.name if isinstance(m, App) else str(m), 'lenient': lenient}
        for (label, xml, term), m in zip(rc, rel_model):
            yield {'tag': 'relation', 'label': label, 'xml': xml, 'calls': [['d0', c] for c in G.ctx_texts(['i0'])], 'model': m.name if isinstance(m, App) else str(m), 'term': term}
        for (label, xml, _, t), m in zip(fam, fam_model):
            yield {'tag': 'table', 'label': label, 'xml': xml, 'calls': [['d0', c] for c in G.TABLE_CONTEXTS], 'model': m, 'table': t}
        for label, xml, inv, inputs in G.generated_models():
            yield {'tag': 'generated', 'label': label, 'xml': xml, 'calls': [[n, c] for n in inv for c in G.ctx_texts(inputs)]}
        allsites, trees = [], {}
        for f in files:
            text = open(f, encoding='utf-8', errors='replace').read()
            pr = G.parse(text)
            inv, inputs = G.invocables(pr[0]) if pr else ([], [])
            yield {'tag': 'example', 'label': f[len(core.REPO):], 'xml': text, 'calls': [[n, c] for n in inv for c in G.ctx_texts(inputs)]}
            if pr is None:
                continue
            trees[f] = pr
            for s in G.positions(pr[0]):
                for fl in G.faults_of(s):
                    allsites.append((f, s, fl))
        stats['n_sites'] = len(allsites)
        budget = ctx.pick(6000, 10 ** 9)
        chosen = allsites if len(allsites) <= budget else rng.sample(allsites, budget)
        for f, s, fl in chosen:
            root, ns = trees[f]
            r = G.apply_fault(root, s, fl)
            if r is None:
                continue
            inv, inputs = G.invocables(r)
            key = '%s:%s' % (s[0], fl)
            stats['fault_hist'][key] = stats['fault_hist'].get(key, 0) + 1
            stats['n_faults'] += 1
            label = '%s %s at node %d%s of %s' % (fl, s[0], s[1], (' ' + s[2]) if len(s) > 2 else '', f[len(core.REPO):])
            stats['first_fault'] = stats['first_fault'] or label
            yield {'tag': 'fault', 'label': label, 'xml': G.serialize(r, ns), 'calls': [[n, c] for n in inv[:6] for c in G.ctx_texts(inputs)[:2]]}
        if not ctx.quick:
            for _ in range(20000):     # pairs of faults
                f = rng.choice(list(trees))
                root, ns = trees[f]
                sites = G.positions(root)
                s1 = rng.choice(sites)
                r = G.apply_fault(root, s1, rng.choice(G.faults_of(s1)))
                if r is None:
                    continue
                sites2 = G.positions(r)
                if not sites2:
                    continue
                s2 = rng.choice(sites2)
                r2 = G.apply_fault(r, s2, rng.choice(G.faults_of(s2)))
                if r2 is None:
                    continue
                inv, inputs = G.invocables(r2)
                yield {'tag': 'fault-pair', 'label': 'two faults in %s' % f[len(core.REPO):], 'xml': G.serialize(r2, ns), 'calls': [[n, c] for n in inv[:6] for c in G.ctx_texts(inputs)[:2]]}
        for _ in range(ctx.pick(3000, 60000)):
            f = rng.choice(files)
            text = open(f, encoding='utf-8', errors='replace').read()
            pr = trees.get(f)
            inv = G.invocables(pr[0])[0] if pr else []
            yield {'tag': 'bytes', 'label': 'byte corruption of %s' % f[len(core.REPO):], 'xml': G.corrupt_bytes(rng, text), 'calls': [[n, '{}'] for n in inv[:4]]}

    def process(cases):
        classes = stats['classes']
        reqs = [{'xml': c['xml'], 'calls': c['calls']} for c in cases]
        for rel in (False, True):
            impl = ctx.run_impl(GUARD % LIMIT_MS, reqs, release=rel, shards=8)
            if len(impl) != len(cases):
                ctx.broken.append('fault injection: %d answers for %d requests' % (len(impl), len(cases)))
            for c, rq, r in zip(cases, reqs, impl):
                ctx.evaluations += 1
                r = settle(ctx, rq, r, rel)
                bad = verdict(r)
                build = 'release' if rel else 'debug'
                if bad:
                    ctx.violation('%s (%s build): %s — %s' % (c['tag'], build, c['label'], bad), {'xml': c['xml'], 'calls': c['calls'], 'build': build, 'what': c['label']}, impl=r)
                    continue
                ctx.corr_checked += 1
                k = '%s: parse %s, build %s' % (c['tag'], r['parse'], r['build'])
                classes[k] = classes.get(k, 0) + 1
                if r['build'] == 'ok' and c['tag'] != 'example':
                    ctx.nontrivial.add(c['label'])
                if c['tag'] == 'table':
                    table_compare(ctx, c, r, build, stats['tables'])
                if c['tag'] == 'relation':
                    # coq/C12/Relation.v: accepted exactly when every row is as wide as the relation has columns, wherever the columns stand
                    got = 'Ok' if (r['parse'] == 'ok' and r['build'] == 'ok') else 'Err'
                    if got != c['model']:
                        ctx.corr_broken('loading a relation (C12/Relation.v load)', {'model_xml': c['label'], 'term': c['term'], 'build': build},
                                        {'parse': r['parse'], 'build': r['build']}, c['model'])
                if c['tag'] == 'predicted' and r['parse'] == 'ok':
                    want = {'Ok': 'ok', 'Err': 'err'}.get(c['model'])
                    if want is None:
                        ctx.broken.append('model predicts %s for %s' % (c['model'], c['label']))
                    elif r['build'] != want and not (c['lenient'] and r['build'] == 'err'):
                        ctx.corr_broken('outcome class of ModelEvaluator::new', {'model_xml': c['label'], 'build': build}, {'build': r['build'], 'msg': r.get('build_msg', '')[:200]}, c['model'])

    batch = []
    for c in produce():
        batch.append(c)
        if len(batch) >= 5000:
            process(batch)
            batch = []
            if len(ctx.violations) >= 20:
                ctx.notes.append('stopped after 20 failing inputs')
                break
    if batch:
        process(batch)
    n_sites, fault_hist, classes = stats['n_sites'], stats['fault_hist'], stats['classes']
    ctx.sample({'predicted': pc[3][0], 'model_term': pc[3][4]})
    ctx.sample({'fault': stats['first_fault']})
    ctx.sample({'table': fam[-1][0], 'model_term': fam[-1][2][:300]})
    return ctx.finish(
        rule='decision table family against the Coq model of decision_table.rs (table_build / table_eval: outcome class of the build and the value of every evaluation): all 11 hit policies '
             '(UNIQUE, ANY, PRIORITY, FIRST, RULE ORDER, OUTPUT ORDER, COLLECT list / COUNT / SUM / MIN / MAX) x {0,1} input clauses x {0,1,2} output clauses x one rule with {0,1,2} output entries '
             'that matches or not (exhaustive); two rules with every combination of {0,1,2} output entries and 4 match kinds (sampled in quick, all in thorough); random tables with 1..4 rules, '
             '0..2 input and 0..3 output clauses, names on all / some / no clauses, output values (priorities), default output entries, rules with an entry less or more; each under 3 input contexts.  '
             'generated models with a predicted outcome (requirement graphs: chains, diamond, self loop, 2- and 3-cycles, tail into a cycle, a cycle nothing else refers to, doubled requirements, dangling reference — between decisions and between '
             'knowledge models; rings of length 1..5 entered directly, through tails and with exits; item definition cycles through components nested 1..4 deep, through collections and references; tables whose second rule has one entry less / more than the input or output clauses; item definitions referring to themselves directly, mutually and through '
             'components); every .dmn under examples/src unchanged; single structural faults at sampled (quick) or all (thorough) positions: delete / duplicate / empty / swap of every element, '
             'delete / empty / garble of every attribute and text node, every href retargeted to a missing element, its own element, an ancestor, or stripped of #; pairs of faults (thorough); '
             'random byte corruption.  Every invocable of the (faulted) model is evaluated with an empty context and with all inputs bound.  non-trivial = the faulted model still builds',
        extra_cov={'exhaustive': False, 'builds': ['debug', 'release'], 'decision_tables_in_family': len(fam), 'decision_table_outcomes(both builds)': stats['tables'], 'example_files': len(files), 'fault_sites_x_faults_available': n_sites, 'faults_run_per_build': stats['n_faults'],
                   'fault_histogram': fault_hist, 'outcome_classes(both builds)': classes, 'per_request': '8 MiB stack thread, catch_unwind per phase, %d ms limit, process death observed' % LIMIT_MS},
        assumptions=['the stack holds more frames of the builder recursion than the requirement graph has rows (length (deps d) < fuel); no numbering is assumed any more: a model that passes the check has one (C12_passed_check_numbering)',
                     'the recursion of the builders and evaluators follows only references that are edges of the graph check_cyclic_dependencies collects'],
        trusted=['PARTIAL: roxmltree, the real stack size, FEEL parsing/evaluation of the texts inside a model are not modelled; observed by the fault-injection run only',
                 'the cycle search (depth-first, explicit stack) is proved exact for every graph (C12_cycle_check_exact); its tie to check_cyclic_dependencies, and the tie of the collected graph to the references the builders '
                 'and evaluators really follow, is the predicted-outcome run (the gap found in round 3 - input decisions of a decision service - is closed by 6a3e4f8, NOTES-C12.md)',
                 'the decision table model (table_build / table_eval) is hand-transliterated from decision_table.rs; its tie is the table family run: outcome class and value (null / number / context / list) agree on every generated table',
                 'harness dv guard + dv model (owner builder-dt)'])


def replay(ctx, path):
    obj = json.load(open(path))
    if 'case' not in obj:
        print(json.dumps(obj, indent=1)[:3000])
        return 1
    c = obj['case']
    rel = c.get('build') == 'release'
    ctx.build_harness(release=rel)
    r = ctx.run_impl(GUARD % LIMIT_MS, [{'xml': c['xml'], 'calls': c['calls']}], release=rel, shards=1)[0]
    bad = verdict(r)
    print('what: %s\nbuild: %s\ncalls: %s\nmodel text (%d bytes) is in the replay file under case.xml\nanswer now: %s' % (c.get('what'), c.get('build'), c['calls'][:4], len(c['xml']), json.dumps(r)[:600]))
    print('-> %s' % (bad if bad else 'a model or an error now'))
    return 1 if bad else 0


MANIFEST = dict(
    technique='Coq proof over an abstract Definitions model with explicit Panic/Diverge outcomes (decision tables: every vector index of decision_table.rs as a bounds test; requirement and type-reference graph, '
              'depth-first cycle search); the table model is run against the real builder/evaluator on a generated table family (outcome class and value); '
              'fault injection through the real loader/builder/evaluator in guarded threads / child processes, debug and release builds',
    text="PARTIAL. Proved (coq/Props/C12.v, closed under the global context). Decision tables: the model transliterates parse_decision_table and the evaluation closure of builders/decision_table.rs over an abstract table "
         "(hit policy, clauses with name / output values / default entry, per rule the number of input entries and the output entry values, which rules match) with a Panic arm at every vector index "
         "(rule.input_entries[i], rule.output_entries[i], component_names[i], default_output_values[0], matching_rules[0], output_entry_values[0]); proved: the build is Ok or Err for every table and Ok exactly when every rule "
         "has as many entries as the table has clauses (C12_table_build_total, _ok_iff); the evaluation reaches no Panic arm for every table, hit policy and pattern of matching rules (C12_table_eval_total, no hypothesis needed); "
         "both statements are false of the earlier code: witnesses C12_table_build_orig_refuted, C12_table_eval_orig_refuted, and C12_table_eval_orig2_panic_iff says exactly when the code before d6b0858 panicked "
         "(COLLECT with SUM/MIN/MAX, at most one named output clause, a matching rule without output entry). What is NOT in these theorems: FEEL values, the texts of the entries, the XML reader. "
         "Boxed relations (coq/C12/Relation.v: <column> / <row> children in any document order, rows of any width; parse_optional_relation and build_relation_evaluator): loading never panics "
         "(C12_relation_total), a relation is accepted exactly when every row is as wide as the relation has columns (C12_relation_ok_iff), where the columns stand among the rows is irrelevant "
         "(C12_relation_order_irrelevant); the two-site variant of a seeded change (rows compared with the columns read so far + elements indexed per column) cannot panic through either site alone "
         "and does through both (C12_relation_single_site_safe, C12_relation_two_sites_refuted); the check compares load with the real loader on ~420 relations in both builds. "
         "Requirements: the cycle search of check_cyclic_dependencies (depth-first, explicit stack; model dfs_loop/dfs_all) is EXACT on every graph of any size (C12_cycle_check_exact: it ends within its fuel, reports a cycle iff some node of the collected graph is on a cycle, "
         "otherwise returns; duplicate rows and targets, self references, dangling targets and any order of rows included); hence, with no numbering assumed (C12_total): "
         "every model with a cycle is rejected with an error before any recursion, and every other model builds to Ok/Err (decided by its tables alone). C12_built_model_evaluates / C12_evaluate_total say: for a built model the recursion over the requirements of an "
         "invocable ends within a stack of more frames than the graph has rows (recursion depth) and no table of the model reaches a Panic arm under any match patterns; they say nothing about the values or the input context beyond that. "
         "On EVERY cyclic graph the recursion of the builders cannot end for any stack size, so the pinned code aborts on every cyclic model; item definitions are trees of any depth: the collected type references are exactly the references occurring anywhere "
         "in the tree, so a self reference through components of ANY depth is a cycle of the searched graph and is found. Defect witnesses about whole models (4): C12_orig_refuted_short_rule, _no_output, _cycle (pinned commit) and "
         "C12_orig2_refuted_no_output_aggregate (left by the first table repair, found by the audit); 4 fix commits in /repo (tables 012211c and d6b0858, cycles 285ae4c, service input decisions 6a3e4f8 - the last has no Coq witness). "
         "Not modelled, only observed: roxmltree, the real stack, the FEEL texts inside models, and which references the builders/evaluators follow (the model takes them to be the edges the check collects). "
         "Correspondence: ~1300 (quick) / ~10k (thorough) generated decision tables, model outcome and value against the real code under 3 contexts, both builds. "
         "Fault injection: every example model plus ~6000 (quick) / all ~169k (thorough) single structural faults, pairs of faults, byte corruption; parse -> ModelEvaluator::new -> every invocable, both builds.",
    note='Trusted: Coq kernel + vm_compute, hand-written abstract model (tied by the decision table family and the predicted-outcome models), harness dv guard/dv model, Python fault injector (xml.etree). '
         'A panic, abort, stack overflow or hang at parse, build or evaluation of any faulted model is a VIOLATION with the model text as replay.')
