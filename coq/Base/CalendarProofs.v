(* Base/CalendarProofs.v — owner: builder-time.  Theorems about Base/Calendar.v, for every year. *)
From Coq Require Import ZArith Bool List Lia.
From DV Require Import Base.Calendar.
Import ListNotations.
Open Scope Z_scope.

Ltac divlia := Z.div_mod_to_equations; lia.

(* ---------------- leap years and year lengths ---------------- *)
Lemma leap_period : forall y k, leap (y + 400 * k) = leap y.
Proof.
  intros y k. unfold leap.
  replace ((y + 400 * k) mod 4) with (y mod 4) by divlia.
  replace ((y + 400 * k) mod 100) with (y mod 100) by divlia.
  replace ((y + 400 * k) mod 400) with (y mod 400) by divlia.
  reflexivity.
Qed.

Lemma leap_iff : forall y, leap y = true <-> (y mod 4 = 0 /\ (y mod 100 <> 0 \/ y mod 400 = 0)).
Proof.
  intros y. unfold leap.
  destruct (Z.eqb_spec (y mod 4) 0) as [H4|H4];
  destruct (Z.eqb_spec (y mod 100) 0) as [H100|H100];
  destruct (Z.eqb_spec (y mod 400) 0) as [H400|H400]; cbn; intuition congruence.
Qed.

Lemma before_year_succ : forall y, before_year (y + 1) = before_year y + year_len y.
Proof.
  intros y. unfold before_year, year_len, leap.
  destruct (Z.eqb_spec (y mod 4) 0) as [H4|H4];
  destruct (Z.eqb_spec (y mod 100) 0) as [H100|H100];
  destruct (Z.eqb_spec (y mod 400) 0) as [H400|H400]; cbn [andb orb negb]; divlia.
Qed.

Lemma before_year_period : forall y k, before_year (y + 400 * k) = before_year y + 146097 * k.
Proof. intros y k. unfold before_year. divlia. Qed.

Lemma year_len_pos : forall y, 365 <= year_len y <= 366.
Proof. intros y. unfold year_len. destruct (leap y); lia. Qed.

Lemma before_year_mono : forall y1 y2, y1 < y2 -> before_year y1 + year_len y1 <= before_year y2.
Proof.
  intros y1 y2 H.
  assert (G : forall n, 0 <= n -> before_year y1 + year_len y1 <= before_year (y1 + 1 + n)).
  { intros n Hn. pattern n. apply natlike_ind; [ | | exact Hn].
    - rewrite Z.add_0_r, before_year_succ. lia.
    - intros x Hx IH. replace (y1 + 1 + Z.succ x) with ((y1 + 1 + x) + 1) by lia.
      rewrite before_year_succ. pose proof (year_len_pos (y1 + 1 + x)). lia. }
  replace y2 with (y1 + 1 + (y2 - y1 - 1)) by lia. apply G. lia.
Qed.

(* ---------------- months ---------------- *)
Lemma month_cases : forall m, 1 <= m <= 12 ->
  m = 1 \/ m = 2 \/ m = 3 \/ m = 4 \/ m = 5 \/ m = 6 \/ m = 7 \/ m = 8 \/ m = 9 \/ m = 10 \/ m = 11 \/ m = 12.
Proof. intros m H. lia. Qed.

Ltac month_split m H :=
  let C := fresh "C" in
  pose proof (month_cases m H) as C;
  repeat (destruct C as [C|C]; [subst m | ]); [ .. | subst m].

Lemma last_day_range : forall y m, 1 <= m <= 12 -> 28 <= last_day y m <= 31.
Proof. intros y m H. month_split m H; cbn; try lia; destruct (leap y); lia. Qed.

Lemma last_day_not_month : forall y m, ~ (1 <= m <= 12) -> last_day y m = 0.
Proof.
  intros y m H. unfold last_day.
  destruct m as [|p|p]; try reflexivity.
  do 4 (destruct p as [p|p|]; try reflexivity; try (exfalso; lia)).
Qed.

Lemma before_month_succ : forall y m, 1 <= m <= 11 ->
  before_month y (m + 1) = before_month y m + last_day y m.
Proof.
  intros y m H. assert (H' : 1 <= m <= 12) by lia.
  month_split m H'; try lia; unfold before_month; cbn; destruct (leap y); cbn; lia.
Qed.

Lemma before_month_year : forall y, before_month y 12 + last_day y 12 = year_len y.
Proof. intros y. unfold before_month, year_len. cbn. destruct (leap y); cbn; lia. Qed.

Lemma before_month_mono : forall y m1 m2, 1 <= m1 -> m1 < m2 -> m2 <= 12 ->
  before_month y m1 + last_day y m1 <= before_month y m2.
Proof.
  intros y m1 m2 H1 H12 H2.
  assert (G : forall n, 0 <= n -> m1 + 1 + n <= 12 -> before_month y m1 + last_day y m1 <= before_month y (m1 + 1 + n)).
  { intros n Hn. pattern n. apply natlike_ind; [ | | exact Hn].
    - intros _. rewrite Z.add_0_r, before_month_succ by lia. lia.
    - intros x Hx IH Hb. replace (m1 + 1 + Z.succ x) with ((m1 + 1 + x) + 1) by lia.
      rewrite before_month_succ by lia.
      pose proof (last_day_range y (m1 + 1 + x)). lia. }
  replace m2 with (m1 + 1 + (m2 - m1 - 1)) by lia. apply G; lia.
Qed.

Lemma valid_iff : forall y m d,
  valid y m d = true <-> (1 <= m <= 12 /\ 1 <= d <= last_day y m).
Proof. intros y m d. unfold valid. rewrite !andb_true_iff, !Z.leb_le. lia. Qed.

Lemma before_month_nonneg : forall y m, 1 <= m <= 12 -> 0 <= before_month y m.
Proof. intros y m H. month_split m H; unfold before_month; cbn; destruct (leap y); cbn; lia. Qed.

(* day of the year of a valid date lies inside the year *)
Lemma doy_range : forall y m d, valid y m d = true ->
  0 <= before_month y m + (d - 1) < year_len y.
Proof.
  intros y m d H. apply valid_iff in H. destruct H as [Hm Hd].
  pose proof (before_month_nonneg y m Hm).
  assert (before_month y m + last_day y m <= year_len y).
  { destruct (Z.eq_dec m 12) as [->|Hne]; [rewrite before_month_year; lia|].
    pose proof (before_month_mono y m 12). pose proof (before_month_year y).
    pose proof (last_day_range y 12). lia. }
  lia.
Qed.

(* ---------------- ordering ---------------- *)
Theorem days_monotone : forall a b, valid3 a = true -> valid3 b = true ->
  cmp3 a b = (days3 a ?= days3 b).
Proof.
  intros [[y1 m1] d1] [[y2 m2] d2] Ha Hb. cbn [valid3] in Ha, Hb. cbn [cmp3 days3].
  pose proof (doy_range _ _ _ Ha) as Ra. pose proof (doy_range _ _ _ Hb) as Rb.
  apply valid_iff in Ha. apply valid_iff in Hb. unfold days_from_civil.
  destruct (Z.compare_spec y1 y2) as [Hy|Hy|Hy].
  - subst y2. destruct (Z.compare_spec m1 m2) as [Hm|Hm|Hm].
    + subst m2. destruct (Z.compare_spec d1 d2) as [Hd|Hd|Hd]; symmetry;
        [apply Z.compare_eq_iff | apply Z.compare_lt_iff | apply Z.compare_gt_iff]; lia.
    + pose proof (before_month_mono y1 m1 m2). symmetry. apply Z.compare_lt_iff. lia.
    + pose proof (before_month_mono y1 m2 m1). symmetry. apply Z.compare_gt_iff. lia.
  - pose proof (before_year_mono y1 y2 Hy). symmetry. apply Z.compare_lt_iff. lia.
  - pose proof (before_year_mono y2 y1 Hy). symmetry. apply Z.compare_gt_iff. lia.
Qed.

Lemma cmp3_eq : forall a b, cmp3 a b = Eq -> a = b.
Proof.
  intros [[y1 m1] d1] [[y2 m2] d2]. cbn [cmp3].
  destruct (Z.compare_spec y1 y2); try discriminate.
  destruct (Z.compare_spec m1 m2); try discriminate.
  destruct (Z.compare_spec d1 d2); try discriminate. congruence.
Qed.

Theorem days_injective : forall a b, valid3 a = true -> valid3 b = true -> days3 a = days3 b -> a = b.
Proof.
  intros a b Ha Hb H. apply cmp3_eq. rewrite (days_monotone a b Ha Hb). apply Z.compare_eq_iff. exact H.
Qed.

(* ---------------- the inverse ---------------- *)
Lemma zrange_In : forall n s k, In k (zrange s n) <-> s <= k < s + Z.of_nat n.
Proof.
  induction n as [|n IH]; intros s k; cbn [zrange In].
  - lia.
  - rewrite IH. lia.
Qed.

Definition era_check (doe : Z) : bool :=
  let '(y0, m, d) := civil_of_doe doe in
  valid y0 m d && (days_from_civil y0 m d =? doe - 719468).

(* finite: the 146097 days of one 400-year era *)
Lemma era_sweep : forallb era_check (zrange 0 (Z.to_nat 146097)) = true.
Proof. vm_compute. reflexivity. Qed.

Lemma era_check_all : forall doe, 0 <= doe < 146097 -> era_check doe = true.
Proof.
  intros doe H. pose proof era_sweep as S. rewrite forallb_forall in S. apply S.
  apply zrange_In. lia.
Qed.

Lemma valid_period : forall y m d k, valid (y + 400 * k) m d = valid y m d.
Proof.
  intros y m d k. unfold valid, last_day. rewrite leap_period. reflexivity.
Qed.

Lemma days_period : forall y m d k, days_from_civil (y + 400 * k) m d = days_from_civil y m d + 146097 * k.
Proof.
  intros y m d k. unfold days_from_civil, before_month. rewrite before_year_period, leap_period. lia.
Qed.

Theorem civil_from_days_correct : forall z,
  valid3 (civil_from_days z) = true /\ days3 (civil_from_days z) = z.
Proof.
  intros z. unfold civil_from_days.
  assert (R : 0 <= (z + 719468) mod 146097 < 146097) by (apply Z.mod_pos_bound; lia).
  pose proof (era_check_all _ R) as E. unfold era_check in E.
  destruct (civil_of_doe ((z + 719468) mod 146097)) as [[y0 m] d].
  apply andb_true_iff in E. destruct E as [Ev Ed]. apply Z.eqb_eq in Ed.
  cbn [valid3 days3]. rewrite valid_period, days_period. split; [exact Ev|].
  rewrite Ed. pose proof (Z.div_mod (z + 719468) 146097). lia.
Qed.

Theorem civil_roundtrip : forall y m d, valid y m d = true ->
  civil_from_days (days_from_civil y m d) = (y, m, d).
Proof.
  intros y m d H. destruct (civil_from_days_correct (days_from_civil y m d)) as [V D].
  apply days_injective; [exact V | exact H | exact D].
Qed.

Theorem days_roundtrip : forall z, days3 (civil_from_days z) = z.
Proof. intros z. apply civil_from_days_correct. Qed.

(* ---------------- consecutive days ---------------- *)
Theorem next_day_in_month : forall y m d, valid y m d = true -> valid y m (d + 1) = true ->
  days_from_civil y m (d + 1) = days_from_civil y m d + 1.
Proof. intros. unfold days_from_civil. lia. Qed.

Theorem next_day_next_month : forall y m, 1 <= m <= 11 ->
  days_from_civil y (m + 1) 1 = days_from_civil y m (last_day y m) + 1.
Proof. intros y m H. unfold days_from_civil. rewrite before_month_succ by exact H. lia. Qed.

Theorem next_day_next_year : forall y, days_from_civil (y + 1) 1 1 = days_from_civil y 12 31 + 1.
Proof.
  intros y. unfold days_from_civil. rewrite before_year_succ.
  pose proof (before_month_year y) as H. cbn [last_day] in H.
  assert (B : before_month (y + 1) 1 = 0) by (unfold before_month; cbn; reflexivity).
  rewrite B. lia.
Qed.

Theorem year_length : forall y,
  days_from_civil (y + 1) 1 1 = days_from_civil y 1 1 + (if leap y then 366 else 365) /\
  days_from_civil (y + 1) 1 1 = days_from_civil y 12 31 + 1.
Proof.
  intros y. split; [|exact (next_day_next_year y)].
  unfold days_from_civil. rewrite before_year_succ. unfold year_len.
  assert (B : forall x, before_month x 1 = 0) by (intros x; unfold before_month; cbn; reflexivity).
  rewrite !B. lia.
Qed.

Theorem weekday_spec_all : forall z,
  1 <= weekday_of_days z <= 7 /\ weekday_of_days (z + 1) = weekday_of_days z mod 7 + 1 /\
  weekday 1970 1 1 = 4.
Proof.
  intros z. split; [unfold weekday_of_days; divlia|]. split; [unfold weekday_of_days; divlia|]. vm_compute. reflexivity.
Qed.

(* ---------------- weekday ---------------- *)
Theorem weekday_range : forall z, 1 <= weekday_of_days z <= 7.
Proof. intros z. unfold weekday_of_days. divlia. Qed.

Theorem weekday_next : forall z, weekday_of_days (z + 1) = weekday_of_days z mod 7 + 1.
Proof. intros z. unfold weekday_of_days. divlia. Qed.

Theorem weekday_epoch : weekday 1970 1 1 = 4 /\ days_from_civil 1970 1 1 = 0.
Proof. vm_compute. split; reflexivity. Qed.

Theorem weekday_week : forall z, weekday_of_days (z + 7) = weekday_of_days z.
Proof. intros z. unfold weekday_of_days. divlia. Qed.
