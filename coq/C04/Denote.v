(* C04/Denote.v — the independent Spec of C04: what an element of a decision requirement graph DENOTES.
   (Definitions only; the proofs are in C04/DenoteProofs.v.)

   Why this file exists: [spec_step] of C04/Model.v tabulates the very closure [body] that the ImplModel [run] iterates,
   so "run = spec_step" only says that the recursion scheme does not matter (it holds verbatim for the defective pinned
   variant fixed = false).  [denote] below does not use [body], [run], [zip], [overwrite] or [inputs_into]:
     - it is a function to VALUES (not a transformer of output contexts), by recursion over the acyclic graph
       (fuel = number of nodes + 1; C04/DenoteProofs.v denote_fuel_irrelevant: any larger fuel gives the same);
     - the environment in which a logic is evaluated is written as a PRIORITY LIST read by [lookup] (the first binding of
       a name is the visible one), i.e. it states WHO WINS instead of replaying the order of set_entry / zip / overwrite:
         1. a supplied input entry whose name is bound by a required decision or a knowledge function   (the override;
            interpretive choice recorded in NOTES-C04.md: this is how a service hands its input decisions down)
         2. required decisions: the variable of each bound to what that decision DENOTES on the same inputs
            (of two required decisions with one name the later requirement)
         3. required decision services as function values, 4. the function values of the required knowledge models and,
            transitively, of their knowledge requirements (function bodies are dynamically scoped in FEEL, so the body of
            a knowledge model finds its own required functions in the scope of its caller)
         5. required inputs: the supplied value (number-typed in this model: anything else is null), null when absent
       and nothing else: a name that is not required is unbound, whatever the input context holds;
     - a decision service denotes the value(s) of its output decisions on the context {input data: supplied value,
       input decisions: supplied value} — its input decisions are parameters, never evaluated (after /repo 6a3e4f8);
     - the service call-back handed to the evaluator invokes what the service denotes.
   Shared with C04/Model.v: the data types, [find], [lookup] / [getv], the name projections [dec_names] / [input_names] /
   [svc_params], [input_value] (the typing of input data) and [zip []] as the constructor of a context value. *)
From Coq Require Import List NArith ZArith Bool Arith.
From DV Require Import C04.Model.
Import ListNotations.

(* ---------------- knowledge: function values, in the order they are brought into scope (a later binding of a name shadows an earlier one) ---------------- *)
Definition svc_fun (G : graph) (s : N) : env :=
  match find s G with
  | Some (NSvc name ins indecs _ _) => [(name, VSvc s (svc_params G ins indecs))]
  | _ => []
  end.
(* a knowledge model brings, for each of its knowledge requirements, what that one brings (a knowledge model) or the function
   value of the service, and then itself *)
Fixpoint know_bkm (f : nat) (G : graph) (id : N) : env :=
  match f with
  | O => []
  | S f' =>
      match find id G with
      | Some (NBkm name ps b rk _) => flat_map (fun r => know_bkm f' G r ++ svc_fun G r) rk ++ [(name, VBkm ps b)]
      | _ => []
      end
  end.
(* a decision: all its knowledge models first, then its required services *)
Definition know_dec (f : nat) (G : graph) (rk : list N) : env := flat_map (know_bkm f G) rk ++ flat_map (svc_fun G) rk.

(* ---------------- bindings ---------------- *)
Definition req_inputs (G : graph) (ri : list N) (inp : env) : env :=
  map (fun n => (n, input_value n inp)) (input_names G ri).
Definition req_decisions (G : graph) (dv : N -> env -> value) (rd : list N) (inp : env) : env :=
  flat_map (fun d => match find d G with Some (NDec dn _ _ _ _ _) => [(dn, dv d inp)] | _ => [] end) rd.
(* the supplied entries whose names are bound in [bound] *)
Definition supplied_over (inp bound : env) : env := filter (fun kv => mem (fst kv) (map fst bound)) inp.

(* the environment of a decision's logic; [kb]: knowledge bindings (binding order), [dv]: what decisions denote *)
Definition dec_scope (G : graph) (kb : env) (dv : N -> env -> value) (rd ri : list N) (inp : env) : env :=
  let bound := rev (req_decisions G dv rd inp) ++ rev kb in
  supplied_over inp bound ++ bound ++ req_inputs G ri inp.

(* the input context a decision service hands to its encapsulated and output decisions *)
Definition svc_input (G : graph) (ins indecs : list N) (inp : env) : env :=
  req_inputs G ins inp ++ map (fun n => (n, getv n inp)) (dec_names G indecs).

Section Denote.
Variable eval : (N -> env -> value) -> env -> expr -> value.
Variable G : graph.
Variable kf : nat.                                   (* fuel of the knowledge closure *)

(* the service call-back of a logic: the services it may call, each invoking what the service denotes *)
Definition callback (sv : N -> env -> value) (callable : list N) : N -> env -> value :=
  fun sid x => if mem sid callable then sv sid x else VNull.

(* one unfolding of the semantic equations, over what the requirements denote *)
Definition dec_sem (dv sv : N -> env -> value) (id : N) (inp : env) : value :=
  match find id G with
  | Some (NDec _ logic rk rd ri callable) =>
      eval (callback sv callable) (dec_scope G (know_dec kf G rk) dv rd ri inp) logic
  | _ => VNull
  end.
Definition svc_sem (dv : N -> env -> value) (id : N) (inp : env) : value :=
  match find id G with
  | Some (NSvc _ ins indecs _ outs) =>
      let results := rev (req_decisions G dv outs (svc_input G ins indecs inp)) in
      match dec_names G outs with
      | [n] => getv n results                                                          (* one output decision: its value *)
      | ons => VCtx (zip [] (map (fun n => (n, getv n results)) ons))                 (* several: the context of their values *)
      end
  | _ => VNull
  end.
(* invoking a knowledge model with its parameters taken from the input context: the parameters are the outermost layer *)
Definition bkm_sem (sv : N -> env -> value) (id : N) (inp : env) : value :=
  match find id G with
  | Some (NBkm _ ps b _ callable) =>
      eval (callback sv callable)
           (rev (know_bkm kf G id) ++ flat_map (fun p => match lookup p inp with Some v => [(p, v)] | None => [] end) ps) b
  | _ => VNull
  end.

Fixpoint dval (f : nat) : N -> env -> value :=
  match f with
  | O => fun _ _ => VNull
  | S f' => dec_sem (dval f') (svc_sem (dval f'))
  end.
End Denote.

Definition dfuel (G : graph) : nat := S (length G).
Definition denote_dec (eval : (N -> env -> value) -> env -> expr -> value) (G : graph) : N -> env -> value :=
  dval eval G (dfuel G) (dfuel G).
Definition denote_svc (eval : (N -> env -> value) -> env -> expr -> value) (G : graph) : N -> env -> value :=
  svc_sem G (denote_dec eval G).
Definition denote_bkm (eval : (N -> env -> value) -> env -> expr -> value) (G : graph) : N -> env -> value :=
  bkm_sem eval G (dfuel G) (denote_svc eval G).

(* what ModelEvaluator::evaluate_invocable returns for the element id on the input context inp *)
Definition denote (eval : (N -> env -> value) -> env -> expr -> value) (G : graph) (id : N) (inp : env) : value :=
  match find id G with
  | Some (NDec _ _ _ _ _ _) => denote_dec eval G id inp
  | Some (NSvc _ _ _ _ _) => denote_svc eval G id inp
  | Some (NBkm _ _ _ _ _) => denote_bkm eval G id inp
  | _ => VNull
  end.

(* two environments that bind every name alike *)
Definition env_eq (a b : env) : Prop := forall n, lookup n a = lookup n b.

(* the two assumptions the theorems make on an abstract expression evaluator *)
Definition extensional (eval : (N -> env -> value) -> env -> expr -> value) : Prop :=
  forall s1 s2 sc e, (forall i x, s1 i x = s2 i x) -> eval s1 sc e = eval s2 sc e.
Definition reads_by_lookup (eval : (N -> env -> value) -> env -> expr -> value) : Prop :=
  forall s sc1 sc2 e, env_eq sc1 sc2 -> eval s sc1 e = eval s sc2 e.

(* ---------------- fuel of the evaluators with the answer at exhaustion as a parameter ----------------
   [run] answers `out` and [tev] answers null when the fuel is used up.  To state that such an answer never reaches the
   result, both are generalised over WHAT is answered at fuel 0: a result that does not depend on it is no artefact. *)
Section Exhaustion.
Variable eval : (N -> env -> value) -> env -> expr -> value.
Fixpoint run_d (dflt : kind -> N -> env -> env -> env) (fixed : bool) (G : graph) (f : nat) (k : kind) (id : N) (inp out : env) {struct f} : env :=
  match f with O => dflt k id inp out | S f' => body eval fixed G (run_d dflt fixed G f') k id inp out end.
End Exhaustion.

Fixpoint tev_d (dflt : env -> expr -> value * env) (leaky : bool) (f : nat) (svc : N -> env -> value) (sc : env) (e : expr) {struct f} : value * env :=
  match f with O => dflt sc e | S f' => tev_step (tev_d dflt leaky f' svc) svc leaky sc e end.

(* ---------------- a static bound for the fuel of the tiny evaluator ----------------
   FN: the names that may hold function values; lv: their levels.  A scope is ranked when function values sit only under
   names of FN, the body of the function under n calls functions of lower level only, has nesting depth <= dmax, binds no
   name of FN and reads no name of FN as a plain variable; every other name holds a first-order value. *)
Fixpoint edepth (e : expr) : nat :=
  match e with
  | ENull | ENum _ | EStr _ | EVar _ => 1
  | EAdd a b | EMul a b => S (Nat.max (edepth a) (edepth b))
  | ECall _ args => S (fold_right (fun x n => Nat.max (edepth x) n) 0 args)
  | EInvoke _ binds => S (fold_right (fun kx n => Nat.max (edepth (snd kx)) n) 0 binds)
  | ECtx es res => S (Nat.max (fold_right (fun kx n => Nat.max (edepth (snd kx)) n) 0 es) (match res with Some r => edepth r | None => 0 end))
  | ERel _ rows => S (fold_right (fun row n => Nat.max (fold_right (fun x m => Nat.max (edepth x) m) 0 row) n) 0 rows)
  end.

Section Ranked.
Variable FN : N -> bool.
Variable lv : N -> nat.

(* the highest level + 1 of a function name in call position, 0 when there is none *)
Fixpoint clevel (e : expr) : nat :=
  match e with
  | ENull | ENum _ | EStr _ | EVar _ => 0
  | EAdd a b | EMul a b => Nat.max (clevel a) (clevel b)
  | ECall fn args => Nat.max (if FN fn then S (lv fn) else 0) (fold_right (fun x n => Nat.max (clevel x) n) 0 args)
  | EInvoke fn binds => Nat.max (if FN fn then S (lv fn) else 0) (fold_right (fun kx n => Nat.max (clevel (snd kx)) n) 0 binds)
  | ECtx es res => Nat.max (fold_right (fun kx n => Nat.max (clevel (snd kx)) n) 0 es) (match res with Some r => clevel r | None => 0 end)
  | ERel _ rows => fold_right (fun row n => Nat.max (fold_right (fun x m => Nat.max (clevel x) m) 0 row) n) 0 rows
  end.
(* binders are not function names, plain variables are not function names *)
Fixpoint first_order (e : expr) : bool :=
  match e with
  | ENull | ENum _ | EStr _ => true
  | EVar n => negb (FN n)
  | EAdd a b | EMul a b => first_order a && first_order b
  | ECall _ args => forallb first_order args
  | EInvoke _ binds => forallb (fun kx => negb (FN (fst kx)) && first_order (snd kx)) binds
  | ECtx es res => forallb (fun kx => negb (FN (fst kx)) && first_order (snd kx)) es && match res with Some r => first_order r | None => true end
  | ERel _ rows => forallb (forallb first_order) rows
  end.
Definition is_fun (v : value) : bool := match v with VBkm _ _ | VSvc _ _ => true | _ => false end.
Definition ranked_binding (dmax : nat) (kv : N * value) : bool :=
  match snd kv with
  | VBkm ps b => FN (fst kv) && forallb (fun p => negb (FN p)) ps && first_order b && (edepth b <=? dmax) && (clevel b <=? lv (fst kv))
  | VSvc _ ps => FN (fst kv) && forallb (fun p => negb (FN p)) ps
  | _ => true
  end.
Definition ranked (dmax : nat) (sc : env) : bool := forallb (ranked_binding dmax) sc.
(* the fuel that suffices for e in a ranked scope *)
Definition need (dmax : nat) (e : expr) : nat := edepth e + clevel e * dmax.
End Ranked.

(* ---------------- the bound for a whole graph ----------------
   The function names of a graph are the names of its knowledge models and decision services; lv assigns levels, dmax bounds
   the nesting of the function bodies.  graph_fuel_ok is decided by evaluation (the correspondence check evaluates it for
   every generated graph); C04/DenoteProofs.v graph_fuel_sufficient: for such a graph and first-order input values the
   answer of the tiny evaluator at fuel exhaustion never reaches what an element denotes. *)
Definition teval_d (dflt : env -> expr -> value * env) (svc : N -> env -> value) (sc : env) (e : expr) : value :=
  fst (tev_d dflt false TFUEL svc sc e).
Definition fn_name (G : graph) (n : N) : bool :=
  existsb (fun e => match snd e with NBkm nm _ _ _ _ | NSvc nm _ _ _ _ => N.eqb n nm | _ => false end) G.
Definition node_fuel_ok (lv : N -> nat) (dmax : nat) (G : graph) (x : node) : bool :=
  match x with
  | NInput _ => true
  | NDec _ logic _ _ _ _ => first_order (fn_name G) logic && (need (fn_name G) lv dmax logic <=? TFUEL)
  | NBkm nm ps b _ _ =>
      fn_name G nm && forallb (fun p => negb (fn_name G p)) ps && first_order (fn_name G) b && (edepth b <=? dmax) &&
      (clevel (fn_name G) lv b <=? lv nm) && (need (fn_name G) lv dmax b <=? TFUEL)
  | NSvc nm ins indecs _ _ => fn_name G nm && forallb (fun p => negb (fn_name G p)) (svc_params G ins indecs)
  end.
Definition graph_fuel_ok (lv : N -> nat) (dmax : nat) (G : graph) : bool := forallb (fun e => node_fuel_ok lv dmax G (snd e)) G.
Definition first_order_env (e : env) : bool := forallb (fun kv => negb (is_fun (snd kv))) e.

(* levels from a table (name, level), 0 for a name that is not listed *)
Fixpoint level_of (t : list (N * nat)) (n : N) : nat :=
  match t with [] => O | (k, l) :: r => if N.eqb n k then l else level_of r n end.

(* a level table and a depth bound computed from the graph itself (any lv / dmax may be used in graph_fuel_ok: the theorem is
   for all of them; these are the ones the correspondence check passes): along the order, the level of a knowledge model is one
   more than the highest level among the function names its body calls *)
Definition auto_levels (G : graph) (order : list N) : list (N * nat) :=
  fold_left (fun t id => match find id G with
                         | Some (NBkm nm _ b _ _) => (nm, clevel (fn_name G) (level_of t) b) :: t
                         | _ => t end) order [].
Definition auto_dmax (G : graph) : nat :=
  fold_right (fun e n => match snd e with NBkm _ _ b _ _ => Nat.max (edepth b) n | _ => n end) 0 G.
Definition graph_fuel_auto (G : graph) (order : list N) : bool :=
  graph_fuel_ok (level_of (auto_levels G order)) (auto_dmax G) G.
