//! Verification harness: runs the working tree of /repo on cases written by the /verif checks.
mod canon;
mod cmd_feel;
mod cmd_model;
mod cmd_recognize;
mod cmd_num;
mod cmd_types;
mod cmd_ws;
mod guard;

fn main() {
  std::panic::set_hook(Box::new(|_| {}));
  let cmd = std::env::args().nth(1).unwrap_or_default();
  match cmd.as_str() {
    "feel" => cmd_feel::main(),
    "ws" => cmd_ws::main(),
    "guard" => guard::main(),
    "model" => cmd_model::main(),
    "recognize" => cmd_recognize::main(),
    "num" => cmd_num::main(),
    "types" => cmd_types::main(),
    _ => {
      eprintln!("usage: dv feel|ws|types");
      std::process::exit(2);
    }
  }
}
