(* C20 — the lock program of one evaluation call, built from the code regions regenerated into Gen/SyncSites.v
   (invocable_open .. closure_close: acquisitions and releases with the nesting the brace structure of the source gives).
   evaluate_invocable [ evaluate_decision [ decision closure [ decision closure [ ... ] ] ] ]: the closure re-enters itself once
   per level of required decisions, each level runs its own decision logic (LStep) while all guards of the outer levels are held.
   Definitions only; no proofs in this file. *)
From Coq Require Import List Arith Bool.
From DV Require Import C20.Conc C20.Sites C20.Inv Gen.SyncSites.
Import ListNotations.

(* operations only: the regions nested n levels deep *)
Fixpoint nest_ops (n : nat) : list lockop :=
  match n with O => [] | S k => closure_open ++ nest_ops k ++ closure_close end.
Definition deep_ops (n : nat) : list lockop :=
  invocable_open ++ decision_open ++ nest_ops n ++ decision_close ++ invocable_close.

(* everything the theorems need to know about the regenerated regions, decided by computation:
   every operation is an evaluation-phase acquisition of the inventory (or the release of its guard),
   the closure region and the two outer regions are bracketed, the decision logic runs once per level,
   and the acquisitions of two levels are the regenerated call path *)
Definition regions_ok : bool :=
  forallb (op_from_inv sites) (invocable_open ++ invocable_close ++ decision_open ++ decision_close ++ closure_open ++ closure_close) &&
  owell_bracketed (closure_open ++ closure_close) &&
  owell_bracketed ((invocable_open ++ decision_open) ++ (decision_close ++ invocable_close)) &&
  Nat.eqb (count_steps (closure_open ++ closure_close)) 1 &&
  Nat.eqb (count_steps (invocable_open ++ invocable_close ++ decision_open ++ decision_close)) 0.

Section Code.
Context {Sg Pv : Type}.

(* fs k = the decision logic of level k *)
Fixpoint nest_closure (cs : list nat) (fs : nat -> stepfn Sg Pv) (n : nat) : list (xinstr Sg Pv) :=
  match n with
  | O => []
  | S k => prog_of_ops cs (fs k) closure_open ++ nest_closure cs fs k ++ prog_of_ops cs (fs k) closure_close
  end.

(* one evaluation call whose required decisions are n levels deep; its steps may touch exactly the shared mutable cells
   of the current inventory (none when C20_sites_ok holds) *)
Definition code_prog (n : nat) (fs : nat -> stepfn Sg Pv) : list (xinstr Sg Pv) :=
  let cs := mut_cells sites in
  (prog_of_ops cs (fs 0) invocable_open ++ prog_of_ops cs (fs 0) decision_open) ++ nest_closure cs fs n ++
  (prog_of_ops cs (fs 0) decision_close ++ prog_of_ops cs (fs 0) invocable_close).

(* a call: depth, decision logic per level, private state (inputs and intermediate results) *)
Definition call := (nat * (nat -> stepfn Sg Pv) * Pv)%type.
Definition code_thread (c : call) : xthread Sg Pv :=
  {| xprog := code_prog (fst (fst c)) (snd (fst c)); xpriv := snd c |}.
Definition code_threads (calls : list call) : list (xthread Sg Pv) := map code_thread calls.
End Code.
