(* C06 — extended expression language: the Spec parser gives every tree back from its fully parenthesised rendering.
   Owner: prover-C06. *)
From Coq Require Import List NArith Bool Arith Lia.
From DV Require Import C06.Model C06.ModelExt C06.ExtBase C06.ExtRound.
Import ListNotations.

Definition epar (x : etree) : list etok := if bare x then rfull x else XLp :: rfull x ++ [XRp].
Definition kvf (q : N * etree) : list etok := match q with (k, e) => XKey k :: epar e end.
Definition qdf (q : N * etree) : list etok := match q with (v, e) => XBind v :: epar e end.
Definition fdf (q : N * etree * option etree) : list etok :=
  match q with
  | (v, e, Some e2) => XBind v :: epar e ++ XEll :: epar e2
  | (v, e, None) => XBind v :: epar e
  end.

Lemma rfull_eq : forall t, rfull t =
  match t with
  | EAtom a => [XAtom a]
  | EBin o l r => epar l ++ XOp o :: epar r
  | ENeg x => XOp Sub :: epar x
  | EBtw x lo hi => epar x ++ XBetween :: epar lo ++ XBand :: epar hi
  | EInst x ty => epar x ++ [XInst ty]
  | EPath x n => epar x ++ [XDot n]
  | EFilt x i => epar x ++ XLb :: epar i ++ [XRb]
  | ECall g args => epar g ++ XLp :: sepc (map epar args) ++ [XRp]
  | ECallN g a args => epar g ++ XLp :: sepc (map kvf (a :: args)) ++ [XRp]
  | EIf c a b => XIf :: epar c ++ XThen :: epar a ++ XElse :: epar b
  | EFor d ds b => XFor :: sepc (map fdf (d :: ds)) ++ XReturn :: epar b
  | EQuant q d ds b => quant_tok q :: sepc (map qdf (d :: ds)) ++ XSatisfies :: epar b
  | EFun ps b => XFun :: XLp :: sepc (map par_tok ps) ++ XRp :: epar b
  | EList l => XLb :: sepc (map epar l) ++ [XRb]
  | ECtx l => XLc :: sepc (map kvf l) ++ [XRc]
  | ERange o a b c => [ropen_tok o; XAtom a; XEll; XAtom b; rclose_tok c]
  end.
Proof. destruct t; reflexivity. Qed.

(* ------------------------------------------------------------------ how the full rendering begins *)

Lemma epar_start_of : forall x, (forall rest, not_ell rest -> good_start (rfull x ++ rest) = true) ->
  forall rest, not_ell rest -> good_start (epar x ++ rest) = true.
Proof. intros x H rest Hn. unfold epar. destruct (bare x); [apply H; exact Hn|reflexivity]. Qed.

Lemma rfull_start : forall t rest, not_ell rest -> good_start (rfull t ++ rest) = true.
Proof.
  induction t using etree_ind'; intros rest Hn; rewrite rfull_eq; norm_app;
    try reflexivity;
    try (apply epar_start_of; [assumption|exact I]).
  - destruct rest as [|t r]; [reflexivity|]. destruct t; try reflexivity. destruct Hn.
  - destruct q; reflexivity.
  - destruct o; reflexivity.
Qed.

(* ------------------------------------------------------------------ the full rendering parses back *)

Definition F (t : etree) : Prop :=
  (forall rest, eclosing rest -> not_atom rest -> Parses 0 (rfull t ++ rest) (t, rest)) /\
  (bare t = true -> forall rest, not_atom rest -> Prefixes (rfull t ++ rest) (t, rest)).

(* an operand of the full rendering, in any operand position *)
Lemma par_operand : forall x, F x -> forall m rest r, not_atom rest -> Loops m 0 x rest r -> Parses m (epar x ++ rest) r.
Proof.
  intros x [F1 F2] m rest r Ha HL. unfold epar. destruct (bare x) eqn:Eb.
  - eapply Parses_of_prefix; [apply F2; [reflexivity|exact Ha]|exact HL].
  - cbn [app]. rewrite <- app_assoc. cbn [app].
    eapply Parses_of_prefix; [|exact HL]. apply prefix_paren.
    + apply good_start_range_head. apply rfull_start. exact I.
    + apply F1; [reflexivity|exact I].
Qed.

(* ... followed by a token that ends it *)
Lemma par_closed : forall x, F x -> forall m rest, eclosing rest -> not_atom rest -> Parses m (epar x ++ rest) (x, rest).
Proof. intros x Fx m rest Hc Ha. apply par_operand; [exact Fx|exact Ha|]. apply Loops_stop. apply eclosing_stops. exact Hc. Qed.

Lemma F_of_prefix : forall t, bare t = true -> (forall rest, not_atom rest -> Prefixes (rfull t ++ rest) (t, rest)) -> F t.
Proof.
  intros t Hb H. split; [|intros _; exact H].
  intros rest Hc Ha. eapply Parses_of_prefix; [apply H; exact Ha|]. apply Loops_stop. apply eclosing_stops. exact Hc.
Qed.

Lemma F_of_parses : forall t, bare t = false -> (forall rest, eclosing rest -> not_atom rest -> Parses 0 (rfull t ++ rest) (t, rest)) -> F t.
Proof. intros t Hb H. split; [exact H|]. intros Hb'. congruence. Qed.

Lemma fitems_expr : forall xs, Forall F xs ->
  Forall (fun y => forall rest', eclosing rest' -> not_ell rest' -> not_atom rest' -> Items it_expr (epar y ++ rest') (y, rest')) xs.
Proof.
  intros xs H. induction H as [|x xs Hx _ IH]; constructor; [|exact IH].
  intros rest' Hc _ Ha. apply Items_expr. apply par_closed; assumption.
Qed.

Lemma fitems_kv : forall xs, Forall (Pkv F) xs ->
  Forall (fun y => forall rest', eclosing rest' -> not_ell rest' -> not_atom rest' -> Items it_kv (kvf y ++ rest') (y, rest')) xs.
Proof.
  intros xs H. induction H as [|x xs Hx _ IH]; constructor; [|exact IH].
  intros rest' Hc _ Ha. destruct x as [k e]. cbn [kvf app]. apply Items_kv. apply par_closed; assumption.
Qed.

Lemma fitems_qdom : forall xs, Forall (Pkv F) xs ->
  Forall (fun y => forall rest', eclosing rest' -> not_ell rest' -> not_atom rest' -> Items it_qdom (qdf y ++ rest') (y, rest')) xs.
Proof.
  intros xs H. induction H as [|x xs Hx _ IH]; constructor; [|exact IH].
  intros rest' Hc _ Ha. destruct x as [k e]. cbn [qdf app]. apply Items_qdom. apply par_closed; assumption.
Qed.

Lemma fitems_fdom : forall xs, Forall (Pfd F) xs ->
  Forall (fun y => forall rest', eclosing rest' -> not_ell rest' -> not_atom rest' -> Items it_fdom (fdf y ++ rest') (y, rest')) xs.
Proof.
  intros xs H. induction H as [|x xs Hx _ IH]; constructor; [|exact IH].
  intros rest' Hc Hn Ha. destruct x as [[v e] [e2|]]; destruct Hx as [He He2]; cbn [fst snd] in *; cbn [fdf app].
  - rewrite <- app_assoc. cbn [app]. eapply Items_fdom2.
    + apply par_closed; [exact He|reflexivity|exact I].
    + apply par_closed; assumption.
  - apply Items_fdom1; [|exact Hn]. apply par_closed; assumption.
Qed.

Ltac stop_here Hc := apply Loops_stop; apply eclosing_stops; exact Hc.

Theorem full_parse : forall t, F t.
Proof.
  induction t using etree_ind'.
  - (* atom *)
    apply F_of_prefix; [reflexivity|]. intros rest _. rewrite rfull_eq. apply prefix_atom.
  - (* binary operator *)
    apply F_of_parses; [reflexivity|]. intros rest Hc Ha. rewrite rfull_eq. norm_app.
    apply par_operand; [exact IHt1|exact I|].
    eapply Loops_op with (x := t2) (rest := rest).
    + lia.
    + rewrite Nat.eqb_sym. destruct o; reflexivity.
    + apply par_closed; assumption.
    + stop_here Hc.
  - (* unary minus *)
    apply F_of_parses; [reflexivity|]. intros rest Hc Ha. rewrite rfull_eq. norm_app.
    eapply Parses_of_prefix; [apply prefix_neg; apply par_closed; eassumption|stop_here Hc].
  - (* between *)
    apply F_of_parses; [reflexivity|]. intros rest Hc Ha. rewrite rfull_eq. norm_app.
    apply par_operand; [exact IHt1|exact I|].
    eapply Loops_between with (lo := t2) (hi := t3) (rest := rest).
    + lia.
    + apply par_closed; [exact IHt2|reflexivity|exact I].
    + apply par_closed; assumption.
    + stop_here Hc.
  - (* instance of *)
    apply F_of_parses; [reflexivity|]. intros rest Hc Ha. rewrite rfull_eq. norm_app.
    apply par_operand; [exact IHt|exact I|]. apply Loops_inst; [lia|stop_here Hc].
  - (* path *)
    apply F_of_parses; [reflexivity|]. intros rest Hc Ha. rewrite rfull_eq. norm_app.
    apply par_operand; [exact IHt|exact I|]. apply Loops_dot; [lia|stop_here Hc].
  - (* filter *)
    apply F_of_parses; [reflexivity|]. intros rest Hc Ha. rewrite rfull_eq. norm_app.
    apply par_operand; [exact IHt1|exact I|].
    eapply Loops_filter with (i := t2) (rest := rest); [lia| |stop_here Hc].
    apply par_closed; [exact IHt2|reflexivity|exact I].
  - (* invocation, positional arguments *)
    apply F_of_parses; [reflexivity|]. intros rest Hc Ha. rewrite rfull_eq. norm_app.
    apply par_operand; [exact IHt|exact I|].
    destruct args as [|a args].
    + cbn [map sepc app]. apply Loops_call0; [lia|stop_here Hc].
    + eapply Loops_call with (rest := rest); [lia| | |stop_here Hc].
      * apply good_start_arg. rewrite sepc_head. inversion H; subst. apply epar_start_of; [intros; apply rfull_start; assumption|].
        destruct args; exact I.
      * apply seq_gen; [exact it_expr_mono|apply fitems_expr; exact H|reflexivity|exact I|exact I|exact I].
  - (* invocation, named arguments *)
    apply F_of_parses; [reflexivity|]. intros rest Hc Ha. rewrite rfull_eq. norm_app.
    apply par_operand; [exact IHt|exact I|].
    assert (HS : Seqs it_kv (sepc (map kvf (a :: args)) ++ XRp :: rest) (a, args, XRp :: rest)).
    { apply seq_gen; [exact it_kv_mono|apply fitems_kv; constructor; assumption|reflexivity|exact I|exact I|exact I]. }
    destruct a as [k e].
    assert (E : exists ts, sepc (map kvf ((k, e) :: args)) ++ XRp :: rest = XKey k :: ts).
    { rewrite sepc_head. cbn [kvf app]. eexists; reflexivity. }
    destruct E as [ts E]. rewrite E in *.
    eapply Loops_calln; [lia|exact HS|stop_here Hc].
  - (* if *)
    apply F_of_parses; [reflexivity|]. intros rest Hc Ha. rewrite rfull_eq. norm_app.
    eapply Parses_of_prefix; [|stop_here Hc]. eapply prefix_if.
    + apply par_closed; [exact IHt1|reflexivity|exact I].
    + apply par_closed; [exact IHt2|reflexivity|exact I].
    + apply par_closed; assumption.
  - (* for *)
    apply F_of_parses; [reflexivity|]. intros rest Hc Ha. rewrite rfull_eq. norm_app.
    eapply Parses_of_prefix; [|stop_here Hc]. eapply prefix_for.
    + apply seq_gen; [exact it_fdom_mono|apply fitems_fdom; constructor; assumption|reflexivity|exact I|exact I|exact I].
    + apply par_closed; assumption.
  - (* some / every *)
    apply F_of_parses; [reflexivity|]. intros rest Hc Ha. rewrite rfull_eq. norm_app.
    eapply Parses_of_prefix; [|stop_here Hc]. eapply prefix_quant.
    + apply seq_gen; [exact it_qdom_mono|apply fitems_qdom; constructor; assumption|reflexivity|exact I|exact I|exact I].
    + apply par_closed; assumption.
  - (* function definition *)
    apply F_of_parses; [reflexivity|]. intros rest Hc Ha. rewrite rfull_eq. norm_app.
    assert (Hb : Parses 0 (epar t ++ rest) (t, rest)) by (apply par_closed; assumption).
    eapply Parses_of_prefix; [|stop_here Hc].
    destruct ps as [|p ps].
    + cbn [map sepc app]. apply prefix_fun0. exact Hb.
    + assert (HS : Seqs it_par_c (sepc (map par_tok (p :: ps)) ++ XRp :: epar t ++ rest) (p, ps, XRp :: epar t ++ rest)).
      { apply seq_gen; [exact it_par_mono|apply items_par|reflexivity|exact I|exact I|exact I]. }
      destruct p as [n ty].
      assert (E : exists ts, sepc (map par_tok ((n, ty) :: ps)) ++ XRp :: epar t ++ rest = XPar n ty :: ts).
      { rewrite sepc_head. cbn [par_tok fst snd app]. eexists; reflexivity. }
      destruct E as [ts E]. rewrite E in *.
      eapply prefix_fun; [exact HS|exact Hb].
  - (* list *)
    apply F_of_prefix; [reflexivity|]. intros rest Ha. rewrite rfull_eq. norm_app.
    destruct l as [|x xs].
    + cbn [map sepc app]. apply prefix_list0. apply not_atom_range_start. exact Ha.
    + assert (Hg : good_start (sepc (map epar (x :: xs)) ++ XRb :: rest) = true).
      { rewrite sepc_head. apply epar_start_of; [intros; apply rfull_start; assumption|]. destruct xs; exact I. }
      apply prefix_list; [apply good_start_range_head; exact Hg|apply good_start_item; exact Hg|].
      apply seq_gen; [exact it_expr_mono|apply fitems_expr; exact H|reflexivity|exact I|exact I|exact I].
  - (* context *)
    apply F_of_prefix; [reflexivity|]. intros rest Ha. rewrite rfull_eq. norm_app.
    destruct l as [|x xs].
    + cbn [map sepc app]. apply prefix_ctx0.
    + assert (HS : Seqs it_kv (sepc (map kvf (x :: xs)) ++ XRc :: rest) (x, xs, XRc :: rest)).
      { apply seq_gen; [exact it_kv_mono|apply fitems_kv; exact H|reflexivity|exact I|exact I|exact I]. }
      destruct x as [k e].
      assert (E : exists ts, sepc (map kvf ((k, e) :: xs)) ++ XRc :: rest = XKey k :: ts).
      { rewrite sepc_head. cbn [kvf app]. eexists; reflexivity. }
      destruct E as [ts E]. rewrite E in *.
      apply prefix_ctx. exact HS.
  - (* range *)
    apply F_of_prefix; [reflexivity|]. intros rest _. rewrite rfull_eq. apply prefix_range.
Qed.

Theorem eroundtrip_full : forall t, exists f0, forall f, f0 <= f -> eparse_fuel f (erender_full t) = Some t.
Proof.
  intro t. destruct (full_parse t) as [F1 _]. destruct (F1 [] I I) as [f0 H]. rewrite app_nil_r in H.
  exists f0. intros f Hf. unfold eparse_fuel, erender_full. rewrite (eparse_expr_mono f0 f _ _ _ Hf H). reflexivity.
Qed.
