(* C18 — executable model of the JSON rendering of FEEL values (feel/src/values.rs Jsonify for Value and
   Values, feel/src/context.rs Jsonify for FeelContext, feel/src/strings.rs json_escape, feel-number number.rs
   jsonify = plain decimal text) and a strict RFC 8259 parser with a decoder back to values.
   Texts are lists of Unicode scalar values (N).  No proofs in this file. *)
From Coq Require Import List NArith Bool.
Import ListNotations.
Open Scope N_scope.

Definition text := list N.

(* ---------------- values ---------------- *)
(* a number as its plain decimal text: sign, integer digits, fraction digits (digit values 0..9) *)
Record num := { nneg : bool; nint : list N; nfrac : list N }.

Inductive value :=
| VNull
| VBool (b : bool)
| VNum (n : num)
| VStr (s : text)
| VList (l : list value)
| VCtx (es : list (text * value))
| VOther (k : N) (display : text).   (* any other kind, as its Display text; k: 1 date, 2 time, 3 date and time,
                                          4 years and months duration, 5 days and time duration, 0 range, function, ... *)

(* ---------------- rendering (ImplModel) ---------------- *)
Definition hexd (d : N) : N := if d <? 10 then 48 + d else 87 + d.   (* lower case, as format!("{:04x}") *)

(* feel/src/strings.rs json_escape, one character *)
Definition esc_char (c : N) : text :=
  if c =? 34 then [92; 34] else
  if c =? 92 then [92; 92] else
  if c =? 10 then [92; 110] else
  if c =? 13 then [92; 114] else
  if c =? 9 then [92; 116] else
  if c =? 8 then [92; 98] else
  if c =? 12 then [92; 102] else
  if c <? 32 then [92; 117; 48; 48; hexd (c / 16); hexd (c mod 16)] else [c].

Definition escape (s : text) : text := flat_map esc_char s.
Definition quote (s : text) : text := 34 :: escape s ++ [34].
(* the renderer as it was at the pinned commit: format!("\"{}\"", s) *)
Definition quote_orig (s : text) : text := 34 :: s ++ [34].

Definition dchar (d : N) : N := 48 + d.
Definition render_frac (fp : list N) : text := match fp with [] => [] | _ => 46 :: map dchar fp end.
Definition render_num (n : num) : text :=
  (if nneg n then [45] else []) ++ map dchar (nint n) ++ render_frac (nfrac n).

Fixpoint join (sep : text) (l : list text) : text :=
  match l with
  | [] => []
  | [x] => x
  | x :: r => x ++ sep ++ join sep r
  end.

Definition t_null : text := [110; 117; 108; 108].
Definition t_true : text := [116; 114; 117; 101].
Definition t_false : text := [102; 97; 108; 115; 101].

Section Render.
(* sp = the white space written after ',' and ':' — [32] for Jsonify (", " and ": "), [] for serde_json *)
Variable sp : text.
Variable q : text -> text.          (* how a string / key is quoted *)
Variable other : text -> text.      (* how a value of another kind is written *)
Fixpoint render (v : value) : text :=
  match v with
  | VNull => t_null
  | VBool true => t_true
  | VBool false => t_false
  | VNum n => render_num n
  | VStr s => q s
  | VList l => 91 :: join (44 :: sp) (map render l) ++ [93]
  | VCtx es => 123 :: join (44 :: sp) (map (fun kv => q (fst kv) ++ 58 :: sp ++ render (snd kv)) es) ++ [125]
  | VOther _ d => other d
  end.
End Render.

(* Value::jsonify after the fix: commits *)
Definition jsonify : value -> text := render [32] quote quote.
(* serde_json::to_string of the same tree (DTO and error bodies) *)
Definition compact : value -> text := render [] quote quote.
(* Value::jsonify at the pinned commit: no escaping, other kinds as "jsonify not implemented for: ..." *)
Definition not_impl : text :=
  [106;115;111;110;105;102;121;32;110;111;116;32;105;109;112;108;101;109;101;110;116;101;100;32;102;111;114;58;32].
Definition jsonify_orig : value -> text := render [32] quote_orig (fun d => not_impl ++ d).

(* ---------------- JSON documents and the strict parser (Spec side) ---------------- *)
Inductive json :=
| JNull
| JBool (b : bool)
| JNum (neg : bool) (ip fp : list N) (ex : option (bool * list N))   (* digit values; fp = [] when there is no fraction *)
| JStr (s : text)
| JArr (l : list json)
| JObj (l : list (text * json)).

Definition is_ws (c : N) : bool := (c =? 32) || (c =? 9) || (c =? 10) || (c =? 13).
Fixpoint skip_ws (s : text) : text :=
  match s with
  | c :: r => if is_ws c then skip_ws r else s
  | [] => []
  end.

Definition is_digit (c : N) : bool := (48 <=? c) && (c <=? 57).
Fixpoint take_digits (s : text) : list N * text :=
  match s with
  | c :: r => if is_digit c then let (ds, r') := take_digits r in ((c - 48) :: ds, r') else ([], s)
  | [] => ([], [])
  end.

Definition hexv (c : N) : option N :=
  if is_digit c then Some (c - 48) else
  if (97 <=? c) && (c <=? 102) then Some (c - 87) else
  if (65 <=? c) && (c <=? 70) then Some (c - 55) else None.
Definition hex4 (a b c d : N) : option N :=
  match hexv a, hexv b, hexv c, hexv d with
  | Some x, Some y, Some z, Some w => Some (x * 4096 + y * 256 + z * 16 + w)
  | _, _, _, _ => None
  end.
Definition is_high (u : N) : bool := (55296 <=? u) && (u <=? 56319).
Definition is_low (u : N) : bool := (56320 <=? u) && (u <=? 57343).
(* a Unicode scalar value: what a Rust char / a strictly decoded UTF-8 text can contain *)
Definition scalar (c : N) : bool := (c <=? 1114111) && negb ((55296 <=? c) && (c <=? 57343)).

Definition simple_escape (e : N) : option N :=
  if e =? 34 then Some 34 else if e =? 92 then Some 92 else if e =? 47 then Some 47 else
  if e =? 98 then Some 8 else if e =? 102 then Some 12 else if e =? 110 then Some 10 else
  if e =? 114 then Some 13 else if e =? 116 then Some 9 else None.

Definition consc (c : N) (r : option (text * text)) : option (text * text) :=
  match r with Some (s, rest) => Some (c :: s, rest) | None => None end.

(* the characters after the opening quotation mark, up to and including the closing one *)
Fixpoint parse_str (s : text) : option (text * text) :=
  match s with
  | [] => None
  | c :: r =>
    if c =? 34 then Some ([], r) else
    if c =? 92 then
      match r with
      | [] => None
      | e :: r1 =>
        if e =? 117 then
          match r1 with
          | h1 :: h2 :: h3 :: h4 :: r2 =>
            match hex4 h1 h2 h3 h4 with
            | None => None
            | Some u =>
              if is_high u then
                match r2 with
                | b :: e2 :: l1 :: l2 :: l3 :: l4 :: r3 =>
                  if (b =? 92) && (e2 =? 117) then
                    match hex4 l1 l2 l3 l4 with
                    | Some lo => if is_low lo then consc (65536 + (u - 55296) * 1024 + (lo - 56320)) (parse_str r3) else None
                    | None => None
                    end
                  else None
                | _ => None
                end
              else if is_low u then None
              else consc u (parse_str r2)
            end
          | _ => None
          end
        else
          match simple_escape e with
          | Some ch => consc ch (parse_str r1)
          | None => None
          end
      end
    else if c <? 32 then None
    else if scalar c then consc c (parse_str r) else None
  end.

Definition is_nil {A} (l : list A) : bool := match l with [] => true | _ => false end.

Definition parse_sign (s : text) : bool * text :=
  match s with c :: r => if c =? 45 then (true, r) else (false, s) | [] => (false, s) end.
Definition bad_int (ip : list N) : bool :=
  match ip with [] => true | d :: ds => (d =? 0) && negb (is_nil ds) end.
Definition parse_frac (s : text) : option (list N) * text :=
  match s with
  | c :: r => if c =? 46 then let (f, r') := take_digits r in (Some f, r') else (None, s)
  | [] => (None, s)
  end.
(* None = malformed exponent *)
Definition parse_exp (s : text) : option (option (bool * list N) * text) :=
  match s with
  | c :: r =>
    if (c =? 101) || (c =? 69) then
      let '(eneg, r1) := match r with
                         | c2 :: r' => if c2 =? 45 then (true, r') else if c2 =? 43 then (false, r') else (false, r)
                         | [] => (false, r)
                         end in
      let '(ed, r2) := take_digits r1 in
      match ed with [] => None | _ => Some (Some (eneg, ed), r2) end
    else Some (None, s)
  | [] => Some (None, s)
  end.

(* number = [ minus ] int [ frac ] [ exp ];  int = zero / ( digit1-9 *DIGIT ) *)
Definition parse_number (s : text) : option (json * text) :=
  let '(neg, s1) := parse_sign s in
  let '(ip, s2) := take_digits s1 in
  if bad_int ip then None else
  let '(fp, s3) := parse_frac s2 in
  match fp with
  | Some [] => None
  | _ =>
    match parse_exp s3 with
    | None => None
    | Some (ex, r) => Some (JNum neg ip (match fp with Some f => f | None => [] end) ex, r)
    end
  end.

Section Seq.
Variable pv : text -> option (json * text).     (* parser of one value (skips leading white space itself) *)
(* elements after '[' when the array is not empty: value (',' value)* ']' *)
Fixpoint parse_elems (n : nat) (s : text) : option (list json * text) :=
  match n with
  | O => None
  | S n' =>
    match pv s with
    | None => None
    | Some (v, r) =>
      match skip_ws r with
      | c :: r' =>
        if c =? 44 then
          match parse_elems n' r' with Some (vs, r'') => Some (v :: vs, r'') | None => None end
        else if c =? 93 then Some ([v], r') else None
      | [] => None
      end
    end
  end.
(* members after '{' when the object is not empty: string ':' value (',' string ':' value)* '}' *)
Fixpoint parse_members (n : nat) (s : text) : option (list (text * json) * text) :=
  match n with
  | O => None
  | S n' =>
    match skip_ws s with
    | c :: r =>
      if c =? 34 then
        match parse_str r with
        | None => None
        | Some (k, r1) =>
          match skip_ws r1 with
          | c1 :: r2 =>
            if c1 =? 58 then
              match pv r2 with
              | None => None
              | Some (v, r3) =>
                match skip_ws r3 with
                | c3 :: r4 =>
                  if c3 =? 44 then
                    match parse_members n' r4 with Some (ms, r5) => Some ((k, v) :: ms, r5) | None => None end
                  else if c3 =? 125 then Some ([(k, v)], r4) else None
                | [] => None
                end
              end
            else None
          | [] => None
          end
        end
      else None
    | [] => None
    end
  end.
End Seq.

Definition lit (l : text) (j : json) (s : text) : option (json * text) :=
  (fix go (l s : text) : option (json * text) :=
     match l with
     | [] => Some (j, s)
     | a :: l' => match s with c :: s' => if c =? a then go l' s' else None | [] => None end
     end) l s.

(* fuel bounds the nesting depth only; the number of elements is bounded by the length of the remaining input *)
Fixpoint parse_value (fuel : nat) (s : text) : option (json * text) :=
  match fuel with
  | O => None
  | S f =>
    match skip_ws s with
    | [] => None
    | c :: r =>
      if c =? 110 then lit t_null JNull (c :: r) else
      if c =? 116 then lit t_true (JBool true) (c :: r) else
      if c =? 102 then lit t_false (JBool false) (c :: r) else
      if c =? 34 then match parse_str r with Some (str, r') => Some (JStr str, r') | None => None end else
      if c =? 91 then
        match skip_ws r with
        | [] => None
        | c1 :: r1 =>
          if c1 =? 93 then Some (JArr [], r1) else
          match parse_elems (parse_value f) (length r) (c1 :: r1) with
          | Some (l, r') => Some (JArr l, r')
          | None => None
          end
        end
      else if c =? 123 then
        match skip_ws r with
        | [] => None
        | c1 :: r1 =>
          if c1 =? 125 then Some (JObj [], r1) else
          match parse_members (parse_value f) (length r) (c1 :: r1) with
          | Some (l, r') => Some (JObj l, r')
          | None => None
          end
        end
      else if (c =? 45) || is_digit c then parse_number (c :: r)
      else None
    end
  end.

(* a JSON text: one value surrounded by optional white space, nothing else *)
Definition json_parse (s : text) : option json :=
  match parse_value (S (length s)) s with
  | Some (j, r) => if is_nil (skip_ws r) then Some j else None
  | None => None
  end.

(* ---------------- decoding a document to a value ---------------- *)
Definition traverse {A B} (f : A -> option B) : list A -> option (list B) :=
  fix go l := match l with
              | [] => Some []
              | x :: r => match f x, go r with Some y, Some ys => Some (y :: ys) | _, _ => None end
              end.

Fixpoint decode (j : json) : option value :=
  match j with
  | JNull => Some VNull
  | JBool b => Some (VBool b)
  | JNum neg ip fp None => Some (VNum {| nneg := neg; nint := ip; nfrac := fp |})
  | JNum _ _ _ (Some _) => None         (* values are rendered in plain notation, never with an exponent *)
  | JStr s => Some (VStr s)
  | JArr l => match traverse decode l with Some vs => Some (VList vs) | None => None end
  | JObj l => match traverse (fun kv => match decode (snd kv) with Some v => Some (fst kv, v) | None => None end) l with
              | Some es => Some (VCtx es)
              | None => None
              end
  end.

Definition json_decode (s : text) : option value :=
  match json_parse s with Some j => decode j | None => None end.

(* the document a value denotes *)
Fixpoint to_json (v : value) : json :=
  match v with
  | VNull => JNull
  | VBool b => JBool b
  | VNum n => JNum (nneg n) (nint n) (nfrac n) None
  | VStr s => JStr s
  | VList l => JArr (map to_json l)
  | VCtx es => JObj (map (fun kv => (fst kv, to_json (snd kv))) es)
  | VOther _ d => JStr d
  end.

(* other kinds arrive as their text *)
Fixpoint strip (v : value) : value :=
  match v with
  | VList l => VList (map strip l)
  | VCtx es => VCtx (map (fun kv => (fst kv, strip (snd kv))) es)
  | VOther _ d => VStr d
  | _ => v
  end.

(* ---------------- well-formedness of values ---------------- *)
Definition wf_text (s : text) : bool := forallb scalar s.
Definition wf_num (n : num) : bool :=
  forallb (fun d => d <? 10) (nint n) && forallb (fun d => d <? 10) (nfrac n) &&
  match nint n with [] => false | d :: ds => negb ((d =? 0) && negb (is_nil ds)) end.

Fixpoint wf (v : value) : bool :=
  match v with
  | VNull | VBool _ => true
  | VNum n => wf_num n
  | VStr s => wf_text s
  | VList l => forallb wf l
  | VCtx es => forallb (fun kv => wf_text (fst kv) && wf (snd kv)) es
  | VOther _ d => wf_text d
  end.

(* only the kinds JSON has: null, boolean, number, string, list, context *)
Fixpoint plain (v : value) : bool :=
  match v with
  | VList l => forallb plain l
  | VCtx es => forallb (fun kv => plain (snd kv)) es
  | VOther _ _ => false
  | _ => true
  end.

Fixpoint depth (v : value) : nat :=
  match v with
  | VList l => S (fold_right (fun x a => Nat.max (depth x) a) O l)
  | VCtx es => S (fold_right (fun kv a => Nat.max (depth (snd kv)) a) O es)
  | _ => O
  end.
