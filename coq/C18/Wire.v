(* C18 — the TCK DTO on the wire: the JSON tree serde_json writes for OutputNodeDto / ValueDto (server/src/dto.rs), the concrete
   type names and leaf readers, and the body of a /tck/evaluate answer.  No proofs in this file. *)
From Coq Require Import List NArith Bool.
From DV Require Import C18.Model C18.Service C18.Dto.
Import ListNotations.
Open Scope N_scope.

Definition k_simple : text := [115; 105; 109; 112; 108; 101].
Definition k_components : text := [99; 111; 109; 112; 111; 110; 101; 110; 116; 115].
Definition k_list : text := [108; 105; 115; 116].
Definition k_type : text := [116; 121; 112; 101].
Definition k_text : text := [116; 101; 120; 116].
Definition k_isnil : text := [105; 115; 78; 105; 108].
Definition k_value : text := [118; 97; 108; 117; 101].
Definition k_items : text := [105; 116; 101; 109; 115].
Definition ty_string : text := [120; 115; 100; 58; 115; 116; 114; 105; 110; 103].
Definition ty_decimal : text := [120; 115; 100; 58; 100; 101; 99; 105; 109; 97; 108].
Definition ty_boolean : text := [120; 115; 100; 58; 98; 111; 111; 108; 101; 97; 110].
Definition ty_date : text := [120; 115; 100; 58; 100; 97; 116; 101].
Definition ty_time : text := [120; 115; 100; 58; 116; 105; 109; 101].
Definition ty_datetime : text := [120; 115; 100; 58; 100; 97; 116; 101; 84; 105; 109; 101].
Definition ty_duration : text := [120; 115; 100; 58; 100; 117; 114; 97; 116; 105; 111; 110].
Definition ty_integer : text := [120; 115; 100; 58; 105; 110; 116; 101; 103; 101; 114].
Definition ty_double : text := [120; 115; 100; 58; 100; 111; 117; 98; 108; 101].

Definition tyname0 (t : N) : text :=
  if t =? 1 then ty_string else if t =? 2 then ty_decimal else if t =? 3 then ty_boolean else if t =? 4 then ty_date else
  if t =? 5 then ty_time else if t =? 6 then ty_datetime else ty_duration.

Fixpoint text_eqb (a b : text) : bool :=
  match a, b with
  | [], [] => true
  | x :: a', y :: b' => (x =? y) && text_eqb a' b'
  | _, _ => false
  end.

(* a duration text with a day or time part is a days and time duration, otherwise a years and months duration
   (Value::try_from_xsd_duration tries the years and months reader first) *)
Definition is_dt (tx : text) : bool := existsb (fun c => (c =? 68) || (c =? 84)) tx.

(* xsd:decimal / xsd:integer / xsd:double text -> number, for texts in plain notation (the notation Display writes) *)
Definition read_decimal (tx : text) : option value :=
  match parse_number tx with
  | Some (JNum neg ip fp None, []) => Some (VNum {| nneg := neg; nint := ip; nfrac := fp |})
  | _ => None
  end.

(* Value::try_from_xsd_* selected by the type name; temporal leaves keep their text (their lexical forms are the subject of C14) *)
Definition parse_simple0 (ty tx : text) : option value :=
  if text_eqb ty ty_string then Some (VStr tx) else
  if text_eqb ty ty_decimal || text_eqb ty ty_integer || text_eqb ty ty_double then read_decimal tx else
  if text_eqb ty ty_boolean then
    (if text_eqb tx t_true || text_eqb tx [49] then Some (VBool true) else
     if text_eqb tx t_false || text_eqb tx [48] then Some (VBool false) else None) else
  if text_eqb ty ty_date then Some (VOther 1 tx) else
  if text_eqb ty ty_time then Some (VOther 2 tx) else
  if text_eqb ty ty_datetime then Some (VOther 3 tx) else
  if text_eqb ty ty_duration then Some (VOther (if is_dt tx then 5 else 4) tx) else None.

(* keys that are already normalised FEEL names are kept by parse_longest_name *)
Definition parse_name0 (k : text) : option text := Some k.

Definition to_dto0 : value -> dto := to_dto tyname0.
Definition from_dto0 : dto -> option value := from_dto parse_simple0 parse_name0.

(* the JSON tree of a ValueDto: all three members are always written, absent ones as null *)
Definition opt_text (o : option text) : value := match o with Some t => VStr t | None => VNull end.
Definition vdto (a b c : value) : value := VCtx [(k_simple, a); (k_components, b); (k_list, c)].
Fixpoint dto_value (d : dto) : value :=
  match d with
  | DSimple ty tx isnil => vdto (VCtx [(k_type, opt_text ty); (k_text, opt_text tx); (k_isnil, VBool isnil)]) VNull VNull
  | DComponents cs =>
    vdto VNull (VList (map (fun c : option text * option dto * bool =>
                              let '(nm, v, isnil) := c in
                              VCtx [(k_name, opt_text nm); (k_value, match v with Some d' => dto_value d' | None => VNull end); (k_isnil, VBool isnil)]) cs)) VNull
  | DList items isnil => vdto VNull VNull (VCtx [(k_items, VList (map dto_value items)); (k_isnil, VBool isnil)])
  | DNone => vdto VNull VNull VNull
  end.

(* the body of the answer of /tck/evaluate for a result value: ResultDto { data: OutputNodeDto { value: ValueDto } } *)
Definition tck_body (v : value) : text := compact (VCtx [(k_data, VCtx [(k_value, dto_value (to_dto0 v))])]).

(* the leaves whose lexical form the concrete readers read back *)
Definition leaf_ok (v : value) : bool :=
  match v with
  | VNum n => wf_num n
  | VOther k d => if k =? 4 then negb (is_dt d) else if k =? 5 then is_dt d else true
  | _ => true
  end.
