(* C06 — the lexer model reads back what the printer writes: per-token lemmas ("the lexer consumes exactly this token's text
   and stops at the following space") and the theorem lex_unlex by induction on the token list.  Owner: ext-lexer. *)
From Coq Require Import List NArith Bool Arith Lia.
From DV Require Import C06.Model C06.Lexer C06.LayoutProofs C06.StrProofs.
From DV Require C10.Model C10.Layout C10.Shape C10.Trim.
Import ListNotations.

Local Open Scope N_scope.

(* ------------------------------------------------------------------ character facts *)

Lemma name_part_ranges : forall c, NM.is_name_part c = true ->
  (48 <= c <= 57) \/ c = 63 \/ (65 <= c <= 90) \/ c = 95 \/ (97 <= c <= 122) \/ 183 <= c.
Proof.
  intros c H. apply C10.Shape.name_part_is_orig in H. unfold NM.is_name_part_orig, NM.is_name_start_orig, NM.is_digit, NM.between in H.
  rewrite ?orb_true_iff, ?andb_true_iff, ?N.leb_le, ?N.eqb_eq in H. lia.
Qed.

Lemma name_start_ranges : forall c, NM.is_name_start c = true ->
  c = 63 \/ (65 <= c <= 90) \/ c = 95 \/ (97 <= c <= 122) \/ 192 <= c.
Proof.
  intros c H. unfold NM.is_name_start in H. apply andb_true_iff in H. destruct H as [H _]. unfold NM.is_name_start_orig, NM.between in H.
  rewrite ?orb_true_iff, ?andb_true_iff, ?N.leb_le, ?N.eqb_eq in H. lia.
Qed.

Lemma name_start_part : forall c, NM.is_name_start c = true -> NM.is_name_part c = true.
Proof. intros c H. unfold NM.is_name_part. rewrite H. reflexivity. Qed.

Lemma digit_range : forall c, NM.is_digit c = true -> 48 <= c <= 57.
Proof. intros c H. unfold NM.is_digit, NM.between in H. rewrite andb_true_iff, !N.leb_le in H. exact H. Qed.

Lemma ws_values : forall c, is_ws c = true ->
  (9 <= c <= 13) \/ c = 32 \/ c = 133 \/ c = 160 \/ c = 5760 \/ c = 6158 \/ (8192 <= c <= 8203) \/ c = 8232 \/ c = 8233 \/ c = 8239 \/
  c = 8287 \/ c = 12288 \/ c = 65279.
Proof.
  intros c H. unfold is_ws, vertical_space, in_range in H.
  rewrite ?orb_true_iff, ?andb_true_iff, ?N.leb_le, ?N.eqb_eq in H. lia.
Qed.

Ltac neq_by R := apply N.eqb_neq; pose proof R; lia.

Lemma eqb_false_of : forall c k, c <> k -> (c =? k) = false.
Proof. intros. apply N.eqb_neq. assumption. Qed.

Lemma is_sep_false : forall c, c <> 32 -> c <> 61 -> c <> 33 -> c <> 60 -> c <> 62 -> c <> 43 -> c <> 45 -> c <> 42 -> c <> 47 -> c <> 37 ->
  c <> 46 -> c <> 44 -> c <> 41 -> c <> 91 -> c <> 93 -> c <> 125 -> is_sep c = false.
Proof. intros. unfold is_sep. rewrite !eqb_false_of by assumption. reflexivity. Qed.

Lemma name_part_not_sep : forall c, NM.is_name_part c = true -> is_sep c = false.
Proof. intros c H. pose proof (name_part_ranges c H). apply is_sep_false; lia. Qed.

Lemma name_part_not_sym : forall c, NM.is_name_part c = true -> NM.is_add_sym c = false.
Proof.
  intros c H. pose proof (name_part_ranges c H). unfold NM.is_add_sym. rewrite !eqb_false_of by lia. reflexivity.
Qed.

Lemma sym1_none : forall c, c <> 46 -> c <> 44 -> c <> 58 -> c <> 43 -> c <> 45 -> c <> 42 -> c <> 47 -> c <> 61 -> c <> 60 -> c <> 62 -> c <> 40 ->
  c <> 41 -> c <> 91 -> c <> 93 -> c <> 123 -> c <> 125 -> c <> 64 -> sym1 c = None.
Proof. intros. unfold sym1. rewrite !eqb_false_of by assumption. reflexivity. Qed.

Lemma sym2_none : forall c r, c <> 46 -> c <> 42 -> c <> 33 -> c <> 60 -> c <> 62 -> c <> 45 -> sym2 (c :: r) = None.
Proof.
  intros. unfold sym2. destruct r as [|d r]; [reflexivity|].
  repeat match goal with H : ?x <> ?k |- context [(?x =? ?k)] => rewrite (eqb_false_of x k H) end. reflexivity.
Qed.

(* the first letters of the keywords: s e f i b c r n l t a o *)
Definition kw_first (c : N) : bool := existsb (N.eqb c) [115; 101; 102; 105; 98; 99; 114; 110; 108; 116; 97; 111].

Lemma strip_first : forall x w c r, (c =? x) = false -> strip (x :: w) (c :: r) = None.
Proof. intros. cbn [strip]. rewrite H. reflexivity. Qed.

Lemma kw_scan_all_none : forall tbl un cs, Forall (fun e => strip (fst (fst e)) cs = None) tbl -> kw_scan tbl un cs = None.
Proof.
  induction tbl as [|[[w tm] o] tbl IH]; intros un cs H; [reflexivity|].
  inversion H as [|? ? H1 H2]; subst. cbn [fst] in H1. cbn [kw_scan]. rewrite H1. apply IH. exact H2.
Qed.

Lemma kw_scan_first : forall un c r, kw_first c = false -> kw_scan kwtable un (c :: r) = None.
Proof.
  intros un c r H. unfold kw_first in H. cbn [existsb] in H. rewrite !orb_false_iff in H.
  decompose [and] H. clear H.
  apply kw_scan_all_none. unfold kwtable. repeat (constructor; [cbn [fst]; apply strip_first; assumption|]). constructor.
Qed.

Lemma kw_first_false : forall c, ~ (97 <= c <= 116) -> kw_first c = false.
Proof. intros c H. unfold kw_first. cbn [existsb]. rewrite !eqb_false_of by lia. reflexivity. Qed.

(* ------------------------------------------------------------------ tokens with a fixed spelling *)

(* what next_token leaves in the flags *)
Definition after_tok (fl0 : flags) (t : ltoken) : flags :=
  let fl := clr_unary fl0 in
  match t with
  | LKw KBetweenAnd => set_between false fl
  | LType _ => set_type false fl
  | _ => fl
  end.

Lemma policy_after : forall fl t, policy t (after_tok fl t) = tok_flags fl t \/ (exists k, t = LKw k /\ (k = KFor \/ k = KSome \/ k = KEvery)).
Proof.
  intros fl t. destruct t as [k| | | | | | | |]; try (left; reflexivity).
  destruct k; try (left; reflexivity); right; eexists; split; eauto.
Qed.

Lemma scan_sym : forall keys fl s rest, scan keys fl (sym_text s ++ 32 :: rest) = RTok (LSym s) (clr_unary fl) (32 :: rest).
Proof. intros. destruct s; reflexivity. Qed.

Lemma scan_bool : forall keys fl b rest, scan keys fl (tok_text (LBool b) ++ 32 :: rest) = RTok (LBool b) (clr_unary fl) (32 :: rest).
Proof. intros. destruct b; reflexivity. Qed.

Lemma scan_null : forall keys fl rest, scan keys fl (s_null ++ 32 :: rest) = RTok LNull (clr_unary fl) (32 :: rest).
Proof. intros. reflexivity. Qed.

Lemma scan_kw : forall keys fl k rest, tok_ok keys fl (LKw k) = true ->
  scan keys fl (kw_text k ++ 32 :: rest) = RTok (LKw k) (after_tok fl (LKw k)) (32 :: rest).
Proof.
  intros keys fl k rest H. destruct fl as [u b ty ti]. destruct k; cbn [tok_ok f_between negb] in H; try discriminate H; try reflexivity.
  - destruct b; [discriminate H|reflexivity].
  - destruct b; [reflexivity|discriminate H].
Qed.

(* ------------------------------------------------------------------ numerals *)

Definition stops_digits (rest : str) : bool := match rest with [] => true | c :: _ => negb (NM.is_digit c) end.

Lemma digits_app : forall b rest, forallb NM.is_digit b = true -> stops_digits rest = true -> digits (b ++ rest) = (b, rest).
Proof.
  induction b as [|c b IH]; intros rest Hb Hr.
  - cbn [app]. destruct rest as [|d r]; [reflexivity|]. cbn [stops_digits] in Hr. apply negb_true_iff in Hr. cbn [digits]. rewrite Hr. reflexivity.
  - cbn [forallb] in Hb. apply andb_true_iff in Hb. destruct Hb as [Hc Hb]. cbn [app digits]. rewrite Hc. rewrite (IH rest Hb Hr). reflexivity.
Qed.

Lemma scan_digit_start : forall keys fl c r, NM.is_digit c = true ->
  scan keys fl (c :: r) = let '(t, r') := numeric (c :: r) in RTok t (clr_unary fl) r'.
Proof.
  intros keys fl c r Hc. pose proof (digit_range c Hc) as R. unfold scan.
  rewrite kw_scan_first by (apply kw_first_false; lia).
  rewrite sym2_none by lia. rewrite (eqb_false_of c 46) by lia. cbn [andb].
  rewrite sym1_none by lia. rewrite (eqb_false_of c 34) by lia. rewrite Hc. reflexivity.
Qed.

Lemma scan_num : forall keys fl b a rest, tok_ok keys fl (LNum b a) = true ->
  scan keys fl (tok_text (LNum b a) ++ 32 :: rest) = RTok (LNum b a) (clr_unary fl) (32 :: rest).
Proof.
  intros keys fl b a rest H. cbn [tok_ok] in H. destruct b as [|c b]; [discriminate H|].
  apply andb_true_iff in H. destruct H as [Hb Ha]. unfold digits_ok in Hb, Ha.
  assert (Hc : NM.is_digit c = true) by (cbn [forallb] in Hb; apply andb_true_iff in Hb; tauto).
  destruct a as [|a0 a]; cbn [tok_text].
  - cbn [app]. rewrite scan_digit_start by exact Hc. unfold numeric.
    change (c :: b ++ 32 :: rest) with ((c :: b) ++ 32 :: rest). rewrite digits_app by (exact Hb || reflexivity).
    destruct rest as [|d r]; reflexivity.
  - rewrite <- app_assoc. cbn [app]. rewrite scan_digit_start by exact Hc. unfold numeric.
    change (c :: b ++ 46 :: a0 :: a ++ 32 :: rest) with ((c :: b) ++ 46 :: a0 :: a ++ 32 :: rest).
    rewrite digits_app by (exact Hb || reflexivity).
    assert (Ha0 : NM.is_digit a0 = true) by (cbn [forallb] in Ha; apply andb_true_iff in Ha; tauto).
    change ((46 =? 46) && NM.is_digit a0) with (NM.is_digit a0). rewrite Ha0. cbn [tl].
    change (a0 :: a ++ 32 :: rest) with ((a0 :: a) ++ 32 :: rest). rewrite digits_app by (exact Ha || reflexivity). reflexivity.
Qed.

(* ------------------------------------------------------------------ string literals *)

Lemma go_escape_rest : forall s sps acc n rest, (length s < n)%nat -> Forall (fun c => scalar c = true) s ->
  unescape_go 63 n (escape sps s ++ 34 :: rest) acc = Some (rev acc ++ s, rest).
Proof.
  induction s as [|c r IH]; intros sps acc n rest Hn Hs.
  - destruct n as [|n]; [inversion Hn|]. cbn [escape app]. rewrite app_nil_r. reflexivity.
  - destruct n as [|n]; [inversion Hn|]. inversion Hs as [|? ? Hc Hr]; subst.
    cbn [escape]. destruct sps as [|sp sps'].
    + rewrite <- app_assoc. rewrite go_spell by exact Hc. rewrite IH; [|cbn in Hn; lia|exact Hr].
      cbn [rev]. rewrite <- app_assoc. reflexivity.
    + rewrite <- app_assoc. rewrite go_spell by exact Hc. rewrite IH; [|cbn in Hn; lia|exact Hr].
      cbn [rev]. rewrite <- app_assoc. reflexivity.
Qed.

Lemma scan_str : forall keys fl s rest, tok_ok keys fl (LStr s) = true ->
  scan keys fl (tok_text (LStr s) ++ 32 :: rest) = RTok (LStr s) (clr_unary fl) (32 :: rest).
Proof.
  intros keys fl s rest H. cbn [tok_ok] in H. rewrite forallb_forall in H.
  assert (Hs : Forall (fun c => scalar c = true) s) by (apply Forall_forall; exact H).
  cbn [tok_text]. cbn [app]. rewrite <- app_assoc. cbn [app]. unfold scan.
  rewrite kw_scan_first by reflexivity. rewrite sym2_none by discriminate.
  change ((34 =? 46) && _) with false. cbv iota. change (sym1 34) with (@None sym). change (34 =? 34) with true. cbv iota.
  unfold string_token. rewrite (go_escape_rest s (str_spellings s) [] _ (32 :: rest)); [reflexivity| |exact Hs].
  rewrite app_length. pose proof (escape_length s (str_spellings s)). lia.
Qed.

(* ------------------------------------------------------------------ the part collector of consume_name on a word *)

Local Open Scope nat_scope.

Lemma machine_S : forall f inp s pos a,
  NM.machine (S f) inp s pos a =
  match NM.step inp s pos a with Some (s', pos', a') => NM.machine f inp s' pos' a' | None => (s, pos, a) end.
Proof. reflexivity. Qed.

Definition stops_name (rest : str) : bool := match rest with [] => true | d :: _ => negb (NM.is_name_part d) end.

Lemma next_is_at : forall p (x : N) l rest,
  NM.next_is p (x :: l ++ rest) (length l) = match rest with [] => false | d :: _ => p d end.
Proof.
  intros p x l rest. unfold NM.next_is. change (x :: l ++ rest) with ((x :: l) ++ rest).
  replace (S (length l)) with (length (x :: l) + 0) by (cbn [length]; lia).
  rewrite nth_error_app2 by lia. replace (length (x :: l) + 0 - length (x :: l)) with 0 by lia.
  destruct rest; reflexivity.
Qed.

Lemma ch_at : forall (x : N) l d rest, NM.ch (x :: l ++ d :: rest) (S (length l)) = d.
Proof.
  intros. unfold NM.ch. change (x :: l ++ d :: rest) with ((x :: l) ++ d :: rest).
  replace (S (length l)) with (length (x :: l) + 0) by (cbn [length]; lia).
  rewrite app_nth2 by lia. replace (length (x :: l) + 0 - length (x :: l)) with 0 by lia. reflexivity.
Qed.

(* state 1 reads the word to its end and records it *)
Lemma run_S1 : forall w2 x w1 rest fuel, forallb NM.is_name_part w2 = true -> stops_name rest = true ->
  NM.machine (S (length w2) + fuel) (x :: w1 ++ w2 ++ rest) NM.S1 (length w1)
    {| NM.a_parts := []; NM.a_cps := []; NM.a_cur := rev (x :: w1) |}
  = NM.machine fuel (x :: w1 ++ w2 ++ rest) NM.S2 (length w1 + length w2)
    {| NM.a_parts := [x :: w1 ++ w2]; NM.a_cps := [length w1 + length w2]; NM.a_cur := [] |}.
Proof.
  induction w2 as [|c w2 IH]; intros x w1 rest fuel Hw Hr.
  - change ([] ++ rest) with rest. change (S (length (@nil N)) + fuel) with (S fuel). rewrite machine_S. unfold NM.step. rewrite next_is_at.
    replace (match rest with [] => false | d :: _ => NM.is_name_part d end) with false
      by (destruct rest; [reflexivity|cbn [stops_name] in Hr; apply negb_true_iff in Hr; symmetry; exact Hr]).
    cbn [NM.a_parts NM.a_cps NM.a_cur]. rewrite rev_involutive. rewrite app_nil_r. cbn [length]. rewrite Nat.add_0_r. reflexivity.
  - cbn [forallb] in Hw. apply andb_true_iff in Hw. destruct Hw as [Hc Hw].
    change ((c :: w2) ++ rest) with (c :: w2 ++ rest).
    change (S (length (c :: w2)) + fuel) with (S (S (length w2) + fuel)). rewrite machine_S. unfold NM.step. rewrite next_is_at. rewrite Hc.
    cbn [NM.a_parts NM.a_cps NM.a_cur]. rewrite (ch_at x w1 c (w2 ++ rest)).
    specialize (IH x (w1 ++ [c]) rest fuel Hw Hr).
    rewrite app_length in IH. cbn [length] in IH. replace (length w1 + 1) with (S (length w1)) in IH by lia.
    rewrite <- !app_assoc in IH. change ([c] ++ w2 ++ rest) with (c :: w2 ++ rest) in IH. change ([c] ++ w2) with (c :: w2) in IH.
    replace (rev (x :: w1 ++ [c])) with (c :: rev (x :: w1)) in IH
      by (change (x :: w1 ++ [c]) with ((x :: w1) ++ [c]); rewrite rev_app_distr; reflexivity).
    rewrite IH. cbn [length]. replace (S (length w1) + length w2) with (length w1 + S (length w2)) by lia. reflexivity.
Qed.

(* the collector only adds parts and positions in front of the reversed accumulators *)
Lemma step_extends : forall inp s pos a s' pos' a', NM.step inp s pos a = Some (s', pos', a') ->
  exists lp lc, NM.a_parts a' = lp ++ NM.a_parts a /\ NM.a_cps a' = lc ++ NM.a_cps a /\ length lp = length lc.
Proof.
  intros inp s pos a s' pos' a' H. unfold NM.step in H.
  destruct s; repeat match type of H with (if ?b then _ else _) = _ => destruct b end; inversion H; subst; cbn [NM.a_parts NM.a_cps];
    first [ exists [], []; repeat split; reflexivity
          | eexists (cons _ nil), (cons _ nil); repeat split; reflexivity ].
Qed.

Lemma machine_extends : forall f inp s pos a s' pos' a', NM.machine f inp s pos a = (s', pos', a') ->
  exists lp lc, NM.a_parts a' = lp ++ NM.a_parts a /\ NM.a_cps a' = lc ++ NM.a_cps a /\ length lp = length lc.
Proof.
  induction f as [|f IH]; intros inp s pos a s' pos' a' H.
  - cbn [NM.machine] in H. inversion H; subst. exists [], []. auto.
  - rewrite machine_S in H. destruct (NM.step inp s pos a) as [[[s1 p1] a1]|] eqn:E.
    + destruct (step_extends _ _ _ _ _ _ _ E) as [lp1 [lc1 [H1 [H2 H3]]]].
      destruct (IH _ _ _ _ _ _ _ H) as [lp2 [lc2 [H4 [H5 H6]]]].
      exists (lp2 ++ lp1), (lc2 ++ lc1). rewrite H4, H5, H1, H2, !app_assoc, !app_length. auto.
    + inversion H; subst. exists [], []. auto.
Qed.

(* every recorded part is not empty and consists of characters of the input *)
Definition nws (c : N) : Prop := NM.is_white_space c = false.
Definition good_part (p : str) : Prop := p <> [] /\ Forall nws p.

Definition inv2 (inp : str) (s : NM.mstate) (pos : nat) (a : NM.acc) : Prop :=
  Forall good_part (NM.a_parts a) /\ Forall nws (NM.a_cur a) /\
  match s with
  | NM.S1 => NM.a_cur a <> []
  | NM.S3 => NM.a_cur a <> [] \/ NM.next_is NM.is_name_part inp pos = true
  | _ => True
  end.

(* a name part character, an additional symbol: not trimmed by str::trim (no name character has the property White_Space) *)
Lemma next_name_nws : forall inp pos, NM.next_is NM.is_name_part inp pos = true -> nws (NM.ch inp (S pos)).
Proof.
  intros inp pos H. destruct (DV.C10.Layout.next_is_true _ _ _ H) as [_ Hp]. exact (DV.C10.Trim.name_part_not_white_space _ Hp).
Qed.

Lemma next_sym_nws : forall inp pos, NM.next_is NM.is_add_sym inp pos = true -> nws (NM.ch inp (S pos)).
Proof. intros inp pos H. destruct (DV.C10.Layout.next_is_true _ _ _ H) as [_ Hp]. exact (DV.C10.Trim.add_sym_not_white_space _ Hp). Qed.

Lemma step_inv2 : forall inp s pos a s' pos' a',
  inv2 inp s pos a -> NM.step inp s pos a = Some (s', pos', a') -> inv2 inp s' pos' a'.
Proof.
  intros inp s pos a s' pos' a' [HP [HC HS]] H. unfold NM.step in H. unfold inv2.
  assert (Hrev : forall l, l <> [] -> Forall nws l -> good_part (rev l)).
  { intros l Hl Hf. split; [intro E; apply Hl; rewrite <- (rev_involutive l), E; reflexivity|].
    apply Forall_forall. intros c Hc. rewrite Forall_forall in Hf. apply Hf. apply in_rev. exact Hc. }
  destruct s.
  - destruct (NM.next_is NM.is_name_part inp pos) eqn:E; inversion H; subst; cbn [NM.a_parts NM.a_cps NM.a_cur].
    + split; [exact HP|]. split; [constructor; [apply next_name_nws; exact E|exact HC]|discriminate].
    + split; [constructor; [apply Hrev; assumption|exact HP]|]. split; [constructor|exact I].
  - destruct (NM.next_is NM.is_name_part inp pos) eqn:E; [inversion H; subst; split; [exact HP|split; [exact HC|right; exact E]]|].
    destruct (NM.next_is NM.is_add_sym inp pos); [inversion H; subst; split; [exact HP|split; [exact HC|exact I]]|].
    destruct (NM.next_is NM.is_ws inp pos); [inversion H; subst; split; [exact HP|split; [exact HC|exact I]]|discriminate H].
  - destruct (NM.next_is NM.is_name_part inp pos) eqn:E; inversion H; subst; cbn [NM.a_parts NM.a_cps NM.a_cur].
    + split; [exact HP|]. split; [constructor; [apply next_name_nws; exact E|exact HC]|left; discriminate].
    + destruct HS as [HS|HS]; [|discriminate HS].
      split; [constructor; [apply Hrev; assumption|exact HP]|]. split; [constructor|exact I].
  - destruct (NM.next_is NM.is_add_sym inp pos) eqn:E; inversion H; subst; cbn [NM.a_parts NM.a_cps NM.a_cur].
    + split; [constructor; [split; [discriminate|constructor; [apply next_sym_nws; exact E|constructor]]|exact HP]|]. split; [constructor|exact I].
    + split; [exact HP|split; [exact HC|exact I]].
  - destruct (NM.next_is NM.is_ws inp pos); inversion H; subst; split; try exact HP; split; try exact HC; exact I.
Qed.

Lemma machine_inv2 : forall f inp s pos a s' pos' a',
  inv2 inp s pos a -> NM.machine f inp s pos a = (s', pos', a') -> inv2 inp s' pos' a'.
Proof.
  induction f as [|f IH]; intros inp s pos a s' pos' a' Hi H.
  - cbn [NM.machine] in H. inversion H; subst. exact Hi.
  - rewrite machine_S in H. destruct (NM.step inp s pos a) as [[[s1 p1] a1]|] eqn:E.
    + eapply IH; [eapply step_inv2; eauto|exact H].
    + inversion H; subst. exact Hi.
Qed.

Lemma name_nws : forall c, NM.is_name_part c = true -> nws c.
Proof. exact DV.C10.Trim.name_part_not_white_space. Qed.

Lemma collect_word : forall x w rest, NM.is_name_part x = true -> forallb NM.is_name_part w = true -> stops_name rest = true ->
  exists ps cs e, NM.collect (x :: w ++ rest) 0 = ((x :: w) :: ps, length w :: cs, e) /\ Forall good_part ((x :: w) :: ps).
Proof.
  intros x w rest Hx0 Hw Hr. unfold NM.collect.
  change (NM.ch (x :: w ++ rest) 0) with x. change [x] with (rev (x :: [])).
  set (inp := x :: w ++ rest).
  assert (Hfuel : exists fuel, 4 * S (length inp) = S (length w) + fuel).
  { exists (4 * S (length inp) - S (length w)). unfold inp. cbn [length]. rewrite app_length. lia. }
  destruct Hfuel as [fuel Hfuel]. rewrite Hfuel. unfold inp.
  pose proof (run_S1 w x [] rest fuel Hw Hr) as R. cbn [app length plus] in R. cbn [rev app plus]. cbn [rev app] in R. rewrite R. clear R.
  destruct (NM.machine fuel (x :: w ++ rest) NM.S2 (length w)
              {| NM.a_parts := [x :: w]; NM.a_cps := [length w]; NM.a_cur := [] |}) as [[s p] a] eqn:E.
  destruct (machine_extends _ _ _ _ _ _ _ _ E) as [lp [lc [H1 [H2 H3]]]]. cbn [NM.a_parts NM.a_cps] in H1, H2.
  assert (Hi : inv2 (x :: w ++ rest) NM.S2 (length w) {| NM.a_parts := [x :: w]; NM.a_cps := [length w]; NM.a_cur := [] |}).
  { split; [|split; [constructor|exact I]]. cbn [NM.a_parts]. constructor; [|constructor]. split; [discriminate|].
    constructor; [exact (name_nws x Hx0)|].
    rewrite forallb_forall in Hw. rewrite Forall_forall. intros c Hc. apply name_nws. apply Hw. exact Hc. }
  destruct (machine_inv2 _ _ _ _ _ _ _ _ Hi E) as [HP _].
  exists (rev lp), (rev lc), (S p). rewrite H1, H2, !rev_app_distr. cbn [rev app]. split; [reflexivity|].
  rewrite H1 in HP. apply Forall_app in HP. destruct HP as [HP1 HP2]. constructor; [inversion HP2; assumption|].
  apply Forall_rev. exact HP1.
Qed.

(* ------------------------------------------------------------------ the name found for a word that is a scope key or a type word *)

Lemma str_eqb_eq : forall a b, NM.str_eqb a b = true -> a = b.
Proof.
  induction a as [|x a IH]; intros [|y b] H; try reflexivity; try discriminate H.
  cbn [NM.str_eqb] in H. apply andb_true_iff in H. destruct H as [H1 H2]. apply N.eqb_eq in H1. subst. f_equal. apply IH. exact H2.
Qed.

Lemma str_eqb_refl : forall a, NM.str_eqb a a = true.
Proof. induction a as [|x a IH]; [reflexivity|]. cbn [NM.str_eqb]. rewrite N.eqb_refl. exact IH. Qed.

Lemma map_trim_id : forall ps, Forall good_part ps -> map NM.trim ps = ps.
Proof.
  intros ps H. apply DV.C10.Trim.map_trim_id. eapply Forall_impl; [|exact H]. intros p [_ Hp]. exact Hp.
Qed.

Lemma name_new_one : forall w, NM.name_join [w] = w.
Proof. exact DV.C10.Trim.name_join_one. Qed.

Lemma name_new_two : forall w p2 q, NM.is_sym_part w = false -> p2 <> [] ->
  exists x tail, NM.name_join (w :: p2 :: q) = w ++ x :: tail /\ (x = 32%N \/ NM.is_add_sym x = true).
Proof.
  intros w p2 q Hw Hp. unfold NM.name_join. cbn [NM.name_new_go]. rewrite Hw. cbn [negb andb app].
  destruct (NM.is_sym_part p2) eqn:E.
  - unfold NM.is_sym_part in E. destruct p2 as [|c [|d r]]; try discriminate E. cbn [negb andb app].
    exists c. eexists. split; [reflexivity|right; exact E].
  - destruct p2 as [|c r]; [contradiction Hp; reflexivity|]. cbn [negb andb app].
    exists 32%N. eexists. split; [reflexivity|left; reflexivity].
Qed.

Lemma plain_not_sym_part : forall w, forallb plain_char w = true -> NM.is_sym_part w = false.
Proof.
  intros [|c [|d r]] H; try reflexivity. cbn [forallb] in H. rewrite andb_true_r in H. unfold plain_char in H.
  apply andb_true_iff in H. destruct H as [H _]. cbn [NM.is_sym_part]. apply name_part_not_sym. exact H.
Qed.

Lemma nonplain_sep : forall x, x = 32%N \/ NM.is_add_sym x = true -> plain_char x = false.
Proof.
  intros x [->|H]; [reflexivity|]. unfold plain_char. destruct (NM.is_name_part x) eqn:E; [|reflexivity].
  rewrite (name_part_not_sym x E) in H. discriminate H.
Qed.

Lemma mem_nonplain : forall keys w x tail, forallb (forallb plain_char) keys = true -> plain_char x = false ->
  NM.mem (w ++ x :: tail) keys = false.
Proof.
  intros keys w x tail Hk Hx. unfold NM.mem. induction keys as [|k keys IH]; [reflexivity|].
  cbn [forallb] in Hk. apply andb_true_iff in Hk. destruct Hk as [Hk1 Hk2]. cbn [existsb]. rewrite (IH Hk2). rewrite orb_false_r.
  destruct (NM.str_eqb (w ++ x :: tail) k) eqn:E; [|reflexivity]. apply str_eqb_eq in E. subst k.
  rewrite forallb_app in Hk1. apply andb_true_iff in Hk1. destruct Hk1 as [_ Hk1]. cbn [forallb] in Hk1. rewrite Hx in Hk1. discriminate Hk1.
Qed.

Lemma word_ok_plain : forall w, word_ok w = true -> forallb plain_char w = true.
Proof. intros [|c r] H; [discriminate H|]. unfold word_ok in H. rewrite !andb_true_iff in H. tauto. Qed.

Lemma keys_plain : forall keys, keys_ok keys = true -> forallb (forallb plain_char) keys = true.
Proof.
  intros keys H. unfold keys_ok in H. rewrite !andb_true_iff in H. destruct H as [[H _] _].
  rewrite forallb_forall in *. intros k Hk. apply word_ok_plain. apply H. exact Hk.
Qed.

Lemma search_t_first : forall keys ty parts n, 1 <= n ->
  (forall pc, 2 <= pc -> pc <= n -> NM.mem (name_of (firstn pc parts)) keys = false /\ (ty && is_builtin_type (name_of (firstn pc parts))) = false) ->
  search_t keys ty parts n =
  if NM.mem (name_of (firstn 1 parts)) keys then Some (1, false)
  else if ty && is_builtin_type (name_of (firstn 1 parts)) then Some (1, true) else None.
Proof.
  intros keys ty parts n. induction n as [|n IH]; intros Hn H; [lia|].
  destruct n as [|n]; [reflexivity|].
  destruct (H (S (S n)) ltac:(lia) ltac:(lia)) as [H1 H2].
  change (search_t keys ty parts (S (S n))) with
    (if NM.mem (name_of (firstn (S (S n)) parts)) keys then Some (S (S n), false)
     else if ty && is_builtin_type (name_of (firstn (S (S n)) parts)) then Some (S (S n), true) else search_t keys ty parts (S n)).
  rewrite H1, H2. apply IH; [lia|]. intros pc Hp1 Hp2. apply H; lia.
Qed.

Lemma set_tillin_idle : forall fl, f_tillin fl = false -> set_tillin false fl = fl.
Proof. intros [u b t ti] H. cbn [f_tillin] in H. subst ti. reflexivity. Qed.

Lemma skipn_exact : forall (l r : str), skipn (length l) (l ++ r) = r.
Proof. induction l as [|x l IH]; intros r; [reflexivity|]. cbn [length app skipn]. apply IH. Qed.

Lemma Forall_firstn_ : forall (A : Type) (P : A -> Prop) n l, Forall P l -> Forall P (firstn n l).
Proof.
  intros A P n l H. rewrite <- (firstn_skipn n l) in H. apply Forall_app in H. tauto.
Qed.

(* a word followed by a character that is no name part: the first part is the word; it is chosen when it is a scope key, or, where
   a type is expected, a built-in type name that no longer built-in type name begins with *)
Lemma name_token_word : forall keys fl x w rest,
  forallb (forallb plain_char) keys = true -> forallb plain_char (x :: w) = true ->
  f_tillin fl = false ->
  (forall c tail, plain_char c = false -> (f_type fl && is_builtin_type ((x :: w) ++ c :: tail)) = false) ->
  NM.mem (x :: w) keys || (f_type fl && is_builtin_type (x :: w)) = true ->
  name_token keys fl (x :: w ++ 32%N :: rest) =
  if NM.str_eqb (x :: w) NM.str_item then RTok (LName NM.str_item) fl (32%N :: rest)
  else if NM.mem (x :: w) keys then RTok (LName (x :: w)) fl (32%N :: rest)
  else RTok (LType (x :: w)) (set_type false fl) (32%N :: rest).
Proof.
  intros keys fl x w rest Hkeys Hplain Htill Hbuilt Hsome.
  assert (Hw : forallb NM.is_name_part w = true).
  { cbn [forallb] in Hplain. apply andb_true_iff in Hplain. destruct Hplain as [_ Hp]. rewrite forallb_forall in *.
    intros c Hc. specialize (Hp c Hc). unfold plain_char in Hp. apply andb_true_iff in Hp. tauto. }
  assert (Hx0 : NM.is_name_part x = true).
  { cbn [forallb] in Hplain. apply andb_true_iff in Hplain. destruct Hplain as [Hp _]. unfold plain_char in Hp. apply andb_true_iff in Hp. tauto. }
  destruct (collect_word x w (32%N :: rest) Hx0 Hw eq_refl) as [ps [cs [e [Hc Hg]]]].
  unfold name_token. rewrite Hc. cbv beta iota.
  assert (Hskip : skipn (S (length w)) (x :: w ++ 32%N :: rest) = 32%N :: rest) by (cbn [skipn]; apply skipn_exact).
  destruct (NM.str_eqb (x :: w) NM.str_item) eqn:Eitem.
  - cbn [nth]. rewrite Hskip. rewrite (set_tillin_idle fl Htill). reflexivity.
  - rewrite Htill.
    assert (Hone : forall p : str, p = x :: w -> name_of [p] = x :: w).
    { intros p ->. unfold name_of, NM.name_new. cbn [map]. inversion Hg as [|? ? [_ Hx] _]; subst. rewrite (DV.C10.Trim.trim_id _ Hx). apply name_new_one. }
    rewrite search_t_first.
    + cbn [firstn]. rewrite !Hone by reflexivity. destruct (NM.mem (x :: w) keys) eqn:Emem.
      * cbn [firstn Nat.sub nth]. rewrite ?Hone by reflexivity. rewrite Hskip. reflexivity.
      * cbn [orb] in Hsome. rewrite Hsome. cbn [firstn Nat.sub nth]. rewrite ?Hone by reflexivity. rewrite Hskip. reflexivity.
    + cbn [length]. lia.
    + intros pc Hp1 Hp2. destruct pc as [|[|pc]]; try lia. destruct ps as [|p2 q]; [cbn [length] in Hp2; lia|].
      cbn [firstn]. unfold name_of, NM.name_new.
      assert (Hg' : Forall good_part ((x :: w) :: p2 :: firstn pc q)).
      { inversion Hg as [|? ? G1 G2]; subst. inversion G2 as [|? ? G3 G4]; subst. constructor; [exact G1|]. constructor; [exact G3|]. apply Forall_firstn_. exact G4. }
      rewrite map_trim_id by exact Hg'.
      inversion Hg as [|? ? _ G2]; subst. inversion G2 as [|? ? [G3 _] _]; subst.
      destruct (name_new_two (x :: w) p2 (firstn pc q) (plain_not_sym_part _ Hplain) G3) as [c [tail [Hn Hc2]]].
      assert (Hn' : forall l, l = ((x :: w) :: p2 :: firstn pc q) -> NM.name_join l = (x :: w) ++ c :: tail) by (intros ? ->; exact Hn).
      rewrite Hn' by reflexivity. pose proof (nonplain_sep c Hc2) as Hnp. split; [apply mem_nonplain; assumption|apply Hbuilt; exact Hnp].
Qed.

(* ------------------------------------------------------------------ a word that is not a keyword goes to consume_name *)

Local Open Scope N_scope.

Lemma strip_word : forall k w2 rest r, forallb (fun c => negb (c =? 32)) k = true -> strip k (w2 ++ 32 :: rest) = Some r ->
  exists w3, w2 = k ++ w3 /\ r = w3 ++ 32 :: rest.
Proof.
  induction k as [|y k IH]; intros w2 rest r Hk H.
  - cbn [strip] in H. inversion H; subst. exists w2. split; reflexivity.
  - cbn [forallb] in Hk. apply andb_true_iff in Hk. destruct Hk as [Hy Hk]. apply negb_true_iff in Hy.
    destruct w2 as [|c w2]; cbn [app strip] in H.
    + rewrite N.eqb_sym in Hy. rewrite Hy in H. discriminate H.
    + destruct (N.eqb_spec c y) as [->|Hne]; [|discriminate H].
      destruct (IH w2 rest r Hk H) as [w3 [H1 H2]]. exists w3. split; [cbn [app]; rewrite H1; reflexivity|exact H2].
Qed.

Definition term_chars_ok (tm : term) : bool :=
  match tm with TNext chars => forallb (fun c => (c =? 40) || (c =? 60)) chars | _ => true end.

Lemma plain_facts : forall d, plain_char d = true -> is_ws d = false /\ NM.is_name_part d = true.
Proof. intros d H. unfold plain_char in H. apply andb_true_iff in H. destruct H as [H1 H2]. apply negb_true_iff in H2. tauto. Qed.

Lemma term_ok_plain : forall un tm d r, plain_char d = true -> term_chars_ok tm = true -> term_ok un tm (d :: r) = false.
Proof.
  intros un tm d r Hd Ht. destruct (plain_facts d Hd) as [Hws Hnp]. pose proof (name_part_ranges d Hnp) as R.
  unfold term_ok, bufch. rewrite Hws. destruct tm as [| |chars|].
  - apply N.eqb_neq. lia.
  - apply name_part_not_sep. exact Hnp.
  - cbn [next_char_in]. rewrite Hws. cbn [term_chars_ok] in Ht.
    replace (existsb (N.eqb d) chars) with false; [reflexivity|]. symmetry.
    induction chars as [|c chars IH]; [reflexivity|]. cbn [forallb] in Ht. apply andb_true_iff in Ht. destruct Ht as [Hc Ht].
    cbn [existsb]. rewrite (IH Ht). rewrite orb_false_r. apply orb_true_iff in Hc. apply N.eqb_neq.
    destruct Hc as [Hc|Hc]; apply N.eqb_eq in Hc; lia.
  - rewrite (eqb_false_of d 32) by lia. rewrite (eqb_false_of d 40) by lia. apply andb_false_r.
Qed.

Definition entry_ok (e : str * term * kwout) : bool :=
  let '(k, tm, _) := e in forallb (fun c => negb (c =? 32)) k && existsb (NM.str_eqb k) kw_words && term_chars_ok tm.

Lemma kw_scan_word : forall tbl un w rest, forallb entry_ok tbl = true -> forallb plain_char w = true ->
  existsb (NM.str_eqb w) kw_words = false -> kw_scan tbl un (w ++ 32 :: rest) = None.
Proof.
  induction tbl as [|[[k tm] o] tbl IH]; intros un w rest Ht Hw Hk; [reflexivity|].
  cbn [forallb] in Ht. apply andb_true_iff in Ht. destruct Ht as [He Ht]. unfold entry_ok in He. rewrite !andb_true_iff in He.
  destruct He as [[He1 He2] He3]. cbn [kw_scan].
  destruct (strip k (w ++ 32 :: rest)) as [r|] eqn:E; [|apply IH; assumption].
  destruct (strip_word k w rest r He1 E) as [w3 [H1 H2]]. subst w r. destruct w3 as [|d w3].
  - rewrite app_nil_r in Hk. rewrite Hk in He2. discriminate He2.
  - assert (Hd : plain_char d = true).
    { rewrite forallb_app in Hw. apply andb_true_iff in Hw. destruct Hw as [_ Hw]. cbn [forallb] in Hw. apply andb_true_iff in Hw. tauto. }
    rewrite <- app_assoc. cbn [app]. rewrite (term_ok_plain un tm d _ Hd He3).
    specialize (IH un (k ++ d :: w3) rest Ht Hw Hk). rewrite <- app_assoc in IH. exact IH.
Qed.

Lemma kwtable_ok : forallb entry_ok kwtable = true.
Proof. reflexivity. Qed.

Lemma scan_word : forall keys fl x w rest, NM.is_name_start x = true -> forallb plain_char (x :: w) = true ->
  existsb (NM.str_eqb (x :: w)) kw_words = false ->
  scan keys fl (x :: w ++ 32 :: rest) = name_token keys (clr_unary fl) (x :: w ++ 32 :: rest).
Proof.
  intros keys fl x w rest Hx Hw Hk. pose proof (name_start_ranges x Hx) as R. unfold scan.
  pose proof (kw_scan_word kwtable (f_unary fl) (x :: w) rest kwtable_ok Hw Hk) as K. cbn [app] in K. rewrite K.
  rewrite sym2_none by lia. rewrite (eqb_false_of x 46) by lia. cbn [andb].
  rewrite sym1_none by lia. rewrite (eqb_false_of x 34) by lia.
  replace (NM.is_digit x) with false; [rewrite Hx; reflexivity|].
  symmetry. unfold NM.is_digit, NM.between. apply andb_false_iff. right. apply N.leb_gt. lia.
Qed.

Lemma mem_in : forall n keys, NM.mem n keys = true -> In n keys.
Proof.
  intros n keys H. unfold NM.mem in H. apply existsb_exists in H. destruct H as [k [Hk E]]. apply str_eqb_eq in E. subst k. exact Hk.
Qed.

Lemma scan_name : forall keys fl n rest, keys_ok keys = true -> tok_ok keys fl (LName n) = true -> f_tillin fl = false ->
  scan keys fl (n ++ 32 :: rest) = RTok (LName n) (clr_unary fl) (32 :: rest).
Proof.
  intros keys fl n rest Hkeys Hok Htill. cbn [tok_ok] in Hok. apply andb_true_iff in Hok. destruct Hok as [Hmem Hty].
  apply negb_true_iff in Hty. pose proof (keys_plain keys Hkeys) as Hkp.
  assert (Hword : word_ok n = true).
  { unfold keys_ok in Hkeys. rewrite !andb_true_iff in Hkeys. destruct Hkeys as [[Hk _] _]. rewrite forallb_forall in Hk. apply Hk. apply mem_in. exact Hmem. }
  destruct n as [|x w]; [discriminate Hword|]. pose proof (word_ok_plain _ Hword) as Hplain.
  unfold word_ok in Hword. rewrite !andb_true_iff in Hword. destruct Hword as [[Hx _] Hkw]. apply negb_true_iff in Hkw.
  cbn [app]. rewrite scan_word by assumption.
  rewrite name_token_word; try assumption.
  - destruct (NM.str_eqb (x :: w) NM.str_item) eqn:E; [apply str_eqb_eq in E; rewrite E; reflexivity|]. rewrite Hmem. reflexivity.
  - intros c tail _. destruct fl as [u b ty ti]; cbv [f_type clr_unary] in Hty |- *. rewrite Hty. reflexivity.
  - rewrite Hmem. reflexivity.
Qed.

(* the six type words: single words, built-in, and no built-in type name goes on after them *)
Definition type_word_facts (n : str) : Prop :=
  word_ok n = true /\ is_builtin_type n = true /\ NM.str_eqb n NM.str_item = false /\
  forall c tail, is_builtin_type (n ++ c :: tail) = false.

Lemma type_words_facts : forall n, NM.mem n type_words = true -> type_word_facts n.
Proof.
  intros n H. apply mem_in in H. unfold type_words in H. cbn [In] in H.
  decompose [or] H; try contradiction; subst n; (split; [reflexivity|split; [reflexivity|split; [reflexivity|intros; reflexivity]]]).
Qed.

Lemma scan_type : forall keys fl n rest, keys_ok keys = true -> tok_ok keys fl (LType n) = true -> f_tillin fl = false ->
  scan keys fl (n ++ 32 :: rest) = RTok (LType n) (set_type false (clr_unary fl)) (32 :: rest).
Proof.
  intros keys fl n rest Hkeys Hok Htill. cbn [tok_ok] in Hok. apply andb_true_iff in Hok. destruct Hok as [Hty Hmem].
  destruct (type_words_facts n Hmem) as [Hword [Hb [Hitem Hlong]]]. pose proof (keys_plain keys Hkeys) as Hkp.
  assert (Hnk : NM.mem n keys = false).
  { destruct (NM.mem n keys) eqn:E; [|reflexivity]. apply mem_in in E. unfold keys_ok in Hkeys. rewrite !andb_true_iff in Hkeys.
    destruct Hkeys as [_ Hk]. rewrite forallb_forall in Hk. specialize (Hk n E). rewrite Hb in Hk. discriminate Hk. }
  destruct n as [|x w]; [discriminate Hword|]. pose proof (word_ok_plain _ Hword) as Hplain.
  unfold word_ok in Hword. rewrite !andb_true_iff in Hword. destruct Hword as [[Hx _] Hkw]. apply negb_true_iff in Hkw.
  cbn [app]. rewrite scan_word by assumption.
  rewrite name_token_word; try assumption.
  - rewrite Hitem, Hnk. reflexivity.
  - intros c tail _. rewrite Hlong. apply andb_false_r.
  - rewrite Hnk. destruct fl as [u b ty ti]; cbv [f_type clr_unary] in Hty |- *. rewrite Hty, Hb. reflexivity.
Qed.

(* ------------------------------------------------------------------ every printable token *)

Lemma scan_tok : forall keys fl t rest, keys_ok keys = true -> tok_ok keys fl t = true -> f_tillin fl = false ->
  scan keys fl (tok_text t ++ 32 :: rest) = RTok t (after_tok fl t) (32 :: rest).
Proof.
  intros keys fl t rest Hkeys Hok Htill. destruct t as [k|s|b| |b a|s|n|n|n].
  - apply scan_kw with (keys := keys). exact Hok.
  - apply scan_sym.
  - apply scan_bool.
  - apply scan_null.
  - apply scan_num. exact Hok.
  - apply scan_str. exact Hok.
  - apply scan_name; assumption.
  - discriminate Hok.
  - apply scan_type; assumption.
Qed.

Lemma policy_ok : forall keys fl t, tok_ok keys fl t = true -> policy t (after_tok fl t) = tok_flags fl t.
Proof. intros keys fl t H. destruct t as [k| | | | | | | |]; try reflexivity. destruct k; try reflexivity; discriminate H. Qed.

Lemma tok_flags_tillin : forall fl t, f_tillin (tok_flags fl t) = f_tillin fl.
Proof. intros [u b ty ti] t. destruct t as [k| | | | | | | |]; try reflexivity. destruct k; reflexivity. Qed.

Lemma token_start_first : forall c r, is_ws c = false -> c <> 47 -> token_start (c :: r) = true.
Proof.
  intros c r Hws Hc. unfold token_start. rewrite Hws. cbn [negb andb]. unfold comment_start.
  destruct r as [|d r]; [reflexivity|]. rewrite (eqb_false_of c 47) by exact Hc. reflexivity.
Qed.

Lemma not_ws_range : forall c, 34 <= c <= 127 -> is_ws c = false.
Proof. intros c H. destruct (is_ws c) eqn:E; [|reflexivity]. pose proof (ws_values c E). lia. Qed.

Lemma word_start : forall n, word_ok n = true -> exists x w, n = x :: w /\ is_ws x = false /\ x <> 47.
Proof.
  intros [|x w] H; [discriminate H|]. exists x, w. split; [reflexivity|]. pose proof (word_ok_plain _ H) as Hp.
  cbn [forallb] in Hp. apply andb_true_iff in Hp. destruct Hp as [Hx _]. destruct (plain_facts x Hx) as [Hws Hnp].
  split; [exact Hws|]. pose proof (name_part_ranges x Hnp). lia.
Qed.

Lemma key_word : forall keys n, keys_ok keys = true -> NM.mem n keys = true -> word_ok n = true.
Proof.
  intros keys n Hkeys Hmem. unfold keys_ok in Hkeys. rewrite !andb_true_iff in Hkeys. destruct Hkeys as [[Hk _] _].
  rewrite forallb_forall in Hk. apply Hk. apply mem_in. exact Hmem.
Qed.

Lemma tok_word : forall keys fl t n, keys_ok keys = true -> tok_ok keys fl t = true -> (t = LName n \/ t = LType n) -> word_ok n = true.
Proof.
  intros keys fl t n Hkeys Hok [->| ->]; cbn [tok_ok] in Hok; apply andb_true_iff in Hok; destruct Hok as [H1 H2].
  - eapply key_word; eauto.
  - destruct (type_words_facts n H2) as [Hw _]. exact Hw.
Qed.

Lemma tok_start : forall keys fl t rest, keys_ok keys = true -> tok_ok keys fl t = true -> token_start (tok_text t ++ 32 :: rest) = true.
Proof.
  intros keys fl t rest Hkeys Hok. destruct t as [k|s|b| |b a|s|n|n|n].
  - destruct k; reflexivity.
  - destruct s; reflexivity.
  - destruct b; reflexivity.
  - reflexivity.
  - cbn [tok_ok] in Hok. destruct b as [|c b]; [discriminate Hok|]. apply andb_true_iff in Hok. destruct Hok as [Hb _].
    unfold digits_ok in Hb. cbn [forallb] in Hb. apply andb_true_iff in Hb. destruct Hb as [Hc _]. pose proof (digit_range c Hc).
    destruct a; cbn [tok_text app]; apply token_start_first; try lia; apply not_ws_range; lia.
  - cbn [tok_text app]. apply token_start_first; [reflexivity|discriminate].
  - destruct (word_start n (tok_word keys fl _ n Hkeys Hok (or_introl eq_refl))) as [x [w [-> [H1 H2]]]].
    cbn [tok_text app]. apply token_start_first; assumption.
  - discriminate Hok.
  - destruct (word_start n (tok_word keys fl _ n Hkeys Hok (or_intror eq_refl))) as [x [w [-> [H1 H2]]]].
    cbn [tok_text app]. apply token_start_first; assumption.
Qed.

(* ------------------------------------------------------------------ the layouts between tokens *)

(* any pieces of the layout grammar (a restriction to pieces without U+1680 was needed while that character was a name character too) *)
Definition gap_ok (g : list piece) : bool := forallb piece_ok g.

(* ------------------------------------------------------------------ the theorem *)

Local Open Scope nat_scope.

Lemma comments_le_length : forall ps rest, comments ps <= length (render_layout ps ++ rest).
Proof.
  induction ps as [|p ps IH]; intros rest; [cbn; lia|].
  unfold render_layout. cbn [flat_map]. rewrite <- app_assoc. rewrite app_length. specialize (IH rest). unfold render_layout in IH.
  unfold comments in *. destruct p as [c|b|b]; cbn [filter length render_piece]; rewrite ?app_length in *; cbn [length] in *; lia.
Qed.

Lemma next_token_lay : forall keys fl ps rest, forallb piece_ok ps = true -> token_start rest = true ->
  next_token keys fl (render_layout ps ++ rest) = scan keys fl rest.
Proof.
  intros keys fl ps rest Hps Hr. unfold next_token. rewrite layout_skipped; [reflexivity|exact Hps|exact Hr|apply comments_le_length].
Qed.

Lemma lex_go_lay : forall keys, keys_ok keys = true -> forall ts gaps ps fl fuel,
  printable_from keys fl ts = true -> f_tillin fl = false ->
  forallb piece_ok ps = true -> forallb gap_ok gaps = true -> length ts < fuel ->
  lex_go fuel keys fl (render_layout ps ++ unlex_lay gaps ts) = Some ts.
Proof.
  intros keys Hkeys. induction ts as [|t r IH]; intros gaps ps fl fuel Hp Htill Hps Hg Hf.
  - destruct fuel as [|f]; [inversion Hf|]. cbn [unlex_lay lex_go]. rewrite next_token_lay by (exact Hps || reflexivity). reflexivity.
  - destruct fuel as [|f]; [inversion Hf|]. cbn [length] in Hf.
    cbn [printable_from] in Hp. apply andb_true_iff in Hp. destruct Hp as [Ht Hr].
    cbn [unlex_lay lex_go].
    rewrite next_token_lay by (exact Hps || (eapply tok_start; eauto)).
    assert (Hgs : gap_ok (hd [] gaps) = true /\ forallb gap_ok (tl gaps) = true).
    { destruct gaps as [|g gaps]; [split; reflexivity|]. cbn [forallb] in Hg. apply andb_true_iff in Hg. exact Hg. }
    destruct Hgs as [Hg1 Hg2]. unfold gap_ok in Hg1.
    rewrite (scan_tok keys fl t _ Hkeys Ht Htill).
    rewrite (policy_ok keys fl t Ht).
    change (32%N :: render_layout (hd [] gaps) ++ unlex_lay (tl gaps) r) with (render_layout (PWs 32 :: hd [] gaps) ++ unlex_lay (tl gaps) r).
    rewrite (IH (tl gaps) (PWs 32 :: hd [] gaps) (tok_flags fl t) f); try assumption; try lia; try reflexivity.
    rewrite tok_flags_tillin. exact Htill.
Qed.

(* one space after every token *)
Lemma unlex_lay_nil : forall ts, unlex_lay [] ts = unlex ts.
Proof. induction ts as [|t r IH]; [reflexivity|]. cbn [unlex_lay hd tl]. unfold unlex. cbn [flat_map]. rewrite <- app_assoc. cbn [app render_layout flat_map]. f_equal. f_equal. exact IH. Qed.

Lemma unlex_length : forall ts, length ts <= length (unlex ts).
Proof. induction ts as [|t r IH]; [cbn; lia|]. unfold unlex in *. cbn [flat_map]. rewrite !app_length. cbn [length]. lia. Qed.

Theorem lex_unlex : forall keys ts, keys_ok keys = true -> printable keys ts = true -> lex keys (unlex ts) = Some ts.
Proof.
  intros keys ts Hkeys Hp. unfold lex, lex_from. rewrite <- unlex_lay_nil.
  apply (lex_go_lay keys Hkeys ts [] [] flags0); try reflexivity; try exact Hp.
  rewrite unlex_lay_nil. pose proof (unlex_length ts). lia.
Qed.

Lemma unlex_lay_length : forall ts gaps, length ts <= length (unlex_lay gaps ts).
Proof. induction ts as [|t r IH]; intros gaps; [cbn; lia|]. cbn [unlex_lay]. rewrite !app_length. cbn [length]. rewrite app_length. specialize (IH (tl gaps)). lia. Qed.

(* any layout of the grammar of C06.Model before the first token, and after every token a space followed by any such layout *)
Theorem lex_unlex_layout : forall keys ts lead gaps, keys_ok keys = true -> printable keys ts = true ->
  forallb piece_ok lead = true -> forallb gap_ok gaps = true ->
  lex keys (render_layout lead ++ unlex_lay gaps ts) = Some ts.
Proof.
  intros keys ts lead gaps Hkeys Hp Hl Hg. unfold lex, lex_from.
  apply (lex_go_lay keys Hkeys ts gaps lead flags0); try reflexivity; try assumption.
  rewrite app_length. pose proof (unlex_lay_length ts gaps). lia.
Qed.
