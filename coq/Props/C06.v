(* C06 — property theorems (statements only).  Owner: builder-parse. *)
From Coq Require Import List NArith Bool Arith.
From DV Require Import C06.Model C06.Lr C06.Proofs C06.TablesProofs.
Import ListNotations.

(* the committed LALR tables (regenerated from feel-parser/src/lalr.rs on this run) give, on every ordered pair of
   operators, the tree the Spec's precedence table dictates (or reject exactly when the Spec rejects).
   Bound: chains [-] a op1 [-] b op2 [-] c over the 34 operator items of Lr.all_items, 2 * 34^2 token lists. *)
Theorem C06_tables_pairs : forall (n : bool) (i j : item),
  tables_tree (chain n [i; j]) = parse_tokens (chain n [i; j]).
Proof. exact tables_pairs. Qed.
Print Assumptions C06_tables_pairs.

(* the same for every ordered triple; bound: 2 * 34^3 token lists *)
Theorem C06_tables_triples : forall (n : bool) (i j k : item),
  tables_tree (chain n [i; j; k]) = parse_tokens (chain n [i; j; k]).
Proof. exact tables_triples. Qed.
Print Assumptions C06_tables_triples.

Theorem C06_unescape_surrogate_orig_refuted :
  unescape surrogate_witness = Some [128591%N] /\ unescape_orig surrogate_witness = None.
Proof. exact (conj unescape_surrogate_witness unescape_orig_surrogate_witness). Qed.
Print Assumptions C06_unescape_surrogate_orig_refuted.
