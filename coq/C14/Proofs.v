(* C14 — proofs. *)
From Coq Require Import ZArith Bool List String Ascii Lia.
From DV Require Import Base.Calendar Base.CalendarProofs C15.Model C15.Proofs C14.Model.
Import ListNotations.
Open Scope string_scope.
Open Scope Z_scope.

Definition db0 (s : string) : bool := String.eqb s "Europe/Warsaw" || String.eqb s "Etc/GMT+1".

Theorem orig_refuted :
  parse_date_orig "2021-01-00" = Some (2021, 1, 0) /\ parse_date "2021-01-00" = None /\
  parse_date_orig "0999-01-01" = None /\ parse_date "0999-01-01" = Some (999, 1, 1) /\
  print_date_orig (-5, 1, 1) = "-005-01-01" /\ parse_date (print_date_orig (-5, 1, 1)) = None /\
  parse_date (print_date (-5, 1, 1)) = Some (-5, 1, 1) /\
  option_map print_time_orig (parse_time_orig db0 "10:00:00-00:30") = Some "10:00:00+00:30" /\
  option_map print_time (parse_time db0 "10:00:00-00:30") = Some "10:00:00-00:30" /\
  option_map print_time_orig (parse_time_orig db0 "10:00:00+01:75") = Some "10:00:00+02:15" /\ parse_time db0 "10:00:00+01:75" = None /\
  parse_time_orig db0 "10:00:00@Etc/GMT+1" = None /\ option_map print_time (parse_time db0 "10:00:00@Etc/GMT+1") = Some "10:00:00@Etc/GMT+1" /\
  parse_dtd_orig "P1DT" = Some DAY_NS /\ parse_dtd "P1DT" = None.
Proof. vm_compute. repeat split; reflexivity. Qed.

(* ---------------- digits ---------------- *)
Definition isdig (d : Z) : Prop := 0 <= d <= 9.

Lemma digit_val_char : forall d, isdig d -> digit_val (digit_char d) = Some d.
Proof.
  intros d H. unfold isdig in H.
  assert (C : d = 0 \/ d = 1 \/ d = 2 \/ d = 3 \/ d = 4 \/ d = 5 \/ d = 6 \/ d = 7 \/ d = 8 \/ d = 9) by lia.
  repeat (destruct C as [C|C]; [subst d; reflexivity|]). subst d. reflexivity.
Qed.

Lemma digit_val_range : forall c d, digit_val c = Some d -> isdig d.
Proof.
  intros c d H. unfold digit_val in H.
  destruct c as [[] [] [] [] [] [] [] []]; try discriminate; injection H as <-; unfold isdig; lia.
Qed.

Definition nodigit_head (s : string) : Prop :=
  match s with EmptyString => True | String c _ => digit_val c = None end.

Lemma span_digits_str : forall ds r, Forall isdig ds -> nodigit_head r ->
  span_digits (str_of_digits ds ++ r) = (ds, r).
Proof.
  induction ds as [|d ds IH]; intros r F N.
  - cbn. destruct r as [|c r']; [reflexivity|]. cbn in N. cbn. rewrite N. reflexivity.
  - inversion F as [|? ? Hd Ht]; subst. cbn [str_of_digits fold_right append span_digits].
    rewrite (digit_val_char d Hd). fold (str_of_digits ds). rewrite (IH r Ht N). reflexivity.
Qed.

Lemma num_app1 : forall ds d a, fold_left (fun a d => 10 * a + d) (app ds [d]) a = 10 * fold_left (fun a d => 10 * a + d) ds a + d.
Proof. intros ds d a. rewrite fold_left_app. reflexivity. Qed.

Lemma fold_num_acc : forall ds a, fold_left (fun a d => 10 * a + d) ds a = a * 10 ^ Z.of_nat (List.length ds) + num ds.
Proof.
  unfold num. induction ds as [|d ds IH]; intros a.
  - cbn. lia.
  - cbn [fold_left List.length]. rewrite IH. rewrite (IH (10 * 0 + d)).
    rewrite Nat2Z.inj_succ, Z.pow_succ_r by lia. ring.
Qed.

Lemma num_cons : forall d ds, num (d :: ds) = d * 10 ^ Z.of_nat (List.length ds) + num ds.
Proof. intros. unfold num at 1. cbn [fold_left]. rewrite fold_num_acc. lia. Qed.

(* the key fact about the digit generator *)
Lemma digits_fuel_spec : forall f n acc, 0 <= n < 2 ^ Z.of_nat f -> (0 < n \/ acc = [] /\ (0 < f)%nat) ->
  exists ds, digits_fuel f n acc = app ds acc /\ Forall isdig ds /\ num ds = n /\
             (0 < n -> exists d r, ds = d :: r /\ 0 < d /\ 10 ^ Z.of_nat (List.length r) <= n < 10 ^ Z.of_nat (S (List.length r))) /\
             (n = 0 -> ds = [0]).
Proof.
  induction f as [|f IH]; intros n acc Hn Hpos.
  - cbn in Hn. assert (n = 0) by lia. subst n. destruct Hpos as [H|[_ H]]; lia.
  - cbn [digits_fuel]. destruct (Z.ltb_spec n 10) as [L|L].
    + exists [n mod 10]. rewrite Z.mod_small by lia. split; [reflexivity|]. split; [constructor; [unfold isdig; lia|constructor]|].
      split; [reflexivity|]. split.
      * intros P. exists n, []. split; [reflexivity|]. cbn. lia.
      * intros ->. reflexivity.
    + assert (Hq : 0 <= n / 10 < 2 ^ Z.of_nat f).
      { rewrite Nat2Z.inj_succ, Z.pow_succ_r in Hn by lia. Z.div_mod_to_equations. lia. }
      destruct (IH (n / 10) (n mod 10 :: acc) Hq) as [ds [E [F [N [P _]]]]].
      { left. Z.div_mod_to_equations. lia. }
      exists (app ds [n mod 10]). split; [rewrite E, <- app_assoc; reflexivity|].
      split; [apply Forall_app; split; [exact F|constructor; [unfold isdig; Z.div_mod_to_equations; lia|constructor]]|].
      split; [unfold num; rewrite num_app1; fold (num ds); rewrite N; Z.div_mod_to_equations; lia|].
      split; [|intros ->; lia].
      intros _. destruct P as [d [r [Eds [Hd B]]]]; [Z.div_mod_to_equations; lia|].
      exists d, (app r [n mod 10]). subst ds. split; [reflexivity|]. split; [exact Hd|].
      rewrite app_length. cbn [List.length]. replace (List.length r + 1)%nat with (S (List.length r)) by lia.
      rewrite !Nat2Z.inj_succ, !Z.pow_succ_r in * by lia. Z.div_mod_to_equations. lia.
Qed.

Lemma digits_spec : forall n, 0 <= n ->
  Forall isdig (digits n) /\ num (digits n) = n /\
  (0 < n -> exists d r, digits n = d :: r /\ 0 < d /\ 10 ^ Z.of_nat (List.length r) <= n < 10 ^ Z.of_nat (S (List.length r))) /\
  (n = 0 -> digits n = [0]).
Proof.
  intros n Hn. unfold digits.
  destruct (digits_fuel_spec (S (Z.to_nat (Z.log2 n))) n []) as [ds [E [F [N [P Z0]]]]].
  - split; [lia|]. rewrite Nat2Z.inj_succ, Z2Nat.id by apply Z.log2_nonneg.
    destruct (Z.eq_dec n 0) as [->|Hne]; [cbn; lia|]. apply Z.log2_spec. lia.
  - destruct (Z.eq_dec n 0); [right; split; [reflexivity|lia] | left; lia].
  - rewrite app_nil_r in E. rewrite E. auto.
Qed.

Lemma span_digits_dec : forall n r, 0 <= n -> nodigit_head r -> span_digits (dec n ++ r) = (digits n, r).
Proof. intros n r Hn N. unfold dec. apply span_digits_str; [apply digits_spec; exact Hn | exact N]. Qed.

Lemma digits_nonempty : forall n, 0 <= n -> exists d r, digits n = d :: r.
Proof.
  intros n Hn. destruct (digits_spec n Hn) as [_ [_ [P Z0]]].
  destruct (Z.eq_dec n 0) as [->|Hne]; [exists 0, []; apply Z0; reflexivity|].
  destruct P as [d [r [E _]]]; [lia|]. exists d, r. exact E.
Qed.

(* ---------------- years-and-months durations: print then parse is the identity, for every total ---------------- *)
Lemma p_comp_dec : forall u n r, 0 <= n -> digit_val u = None ->
  p_comp u (dec n ++ String u r) = (Some (Some n), r).
Proof.
  intros u n r Hn Hu. unfold p_comp. rewrite span_digits_dec by (try exact Hn; exact Hu).
  destruct (digits_nonempty n Hn) as [d [t E]]. rewrite E. rewrite Ascii.eqb_refl. rewrite <- E.
  destruct (digits_spec n Hn) as [_ [N _]]. rewrite N. reflexivity.
Qed.

Lemma p_comp_absent : forall u s, (forall c r, s = String c r -> digit_val c = None) -> p_comp u s = (None, s).
Proof.
  intros u s H. unfold p_comp. destruct s as [|c r]; [reflexivity|].
  cbn [span_digits]. rewrite (H c r eq_refl). reflexivity.
Qed.

Lemma append_assoc : forall a b c : string, (a ++ b) ++ c = a ++ (b ++ c).
Proof. induction a as [|x a IH]; intros b c; cbn; [reflexivity|rewrite IH; reflexivity]. Qed.

(* the recogniser of years-and-months literals in two stages: the components, then the conversion *)
Definition ymd_fin (ro neg : bool) (cy cm : option (option Z)) : option Z :=
  if comp_present cy && comp_fits cy || comp_present cm && comp_fits cm then
    if ro && negb (comp_fits cy && comp_fits cm) then None else
    let y := if comp_fits cy then comp_val cy else 0 in
    let m := if comp_fits cm then comp_val cm else 0 in
    if (y <=? i64_max) && (y * 12 <=? i64_max) && (m <=? i64_max) && (y * 12 + m <=? i64_max) then
      Some (if neg then - (y * 12 + m) else y * 12 + m)
    else None
  else None.

Lemma parse_ymd_gen_body : forall ro (neg : bool) body,
  parse_ymd_gen ro ((if neg then "-" else "") ++ "P" ++ body) =
  let (cy, s3) := p_comp "Y" body in
  let (cm, s4) := p_comp "M" s3 in
  if String.eqb s4 "" then ymd_fin ro neg cy cm else None.
Proof.
  intros ro neg body.
  assert (E : parse_ymd_gen ro ((if neg then "-" else "") ++ "P" ++ body) =
              let (cy, s3) := p_comp "Y" body in
              let (cm, s4) := p_comp "M" s3 in
              if String.eqb s4 "" && (comp_present cy && comp_fits cy || comp_present cm && comp_fits cm) then
                if ro && negb (comp_fits cy && comp_fits cm) then None else
                let y := if comp_fits cy then comp_val cy else 0 in
                let m := if comp_fits cm then comp_val cm else 0 in
                if (y <=? i64_max) && (y * 12 <=? i64_max) && (m <=? i64_max) && (y * 12 + m <=? i64_max) then
                  Some (if neg then - (y * 12 + m) else y * 12 + m)
                else None
              else None) by (destruct neg; reflexivity).
  rewrite E. destruct (p_comp "Y" body) as [cy s3]. destruct (p_comp "M" s3) as [cm s4]. unfold ymd_fin.
  destruct (String.eqb s4 ""); [|reflexivity]. cbn [andb]. reflexivity.
Qed.

(* all written components fit and the total fits i64: the written value *)
Lemma ymd_fin_value : forall ro neg cy cm,
  comp_present cy || comp_present cm = true -> 0 <= comp_val cy -> 0 <= comp_val cm ->
  comp_val cy * 12 + comp_val cm <= i64_max ->
  ymd_fin ro neg cy cm = Some (if neg then - (comp_val cy * 12 + comp_val cm) else comp_val cy * 12 + comp_val cm).
Proof.
  intros ro neg cy cm P Hy Hm B. unfold i64_max in B.
  assert (Fy : comp_fits cy = true).
  { destruct cy as [[v|]|]; try reflexivity. cbn [comp_val] in *. apply Z.leb_le. unfold u64_max. lia. }
  assert (Fm : comp_fits cm = true).
  { destruct cm as [[v|]|]; try reflexivity. cbn [comp_val] in *. apply Z.leb_le. unfold u64_max. lia. }
  unfold ymd_fin. rewrite Fy, Fm, !andb_true_r, P. cbn [andb negb]. rewrite andb_false_r. cbv zeta.
  replace ((comp_val cy <=? i64_max) && (comp_val cy * 12 <=? i64_max) && (comp_val cm <=? i64_max) &&
           (comp_val cy * 12 + comp_val cm <=? i64_max)) with true; [reflexivity|].
  symmetry. rewrite !andb_true_iff, !Z.leb_le. unfold i64_max. lia.
Qed.

(* after the fix: a written component that does not fit u64 makes the literal invalid *)
Lemma ymd_fin_oversized : forall neg cy cm, comp_fits cy && comp_fits cm = false -> ymd_fin true neg cy cm = None.
Proof.
  intros neg cy cm F. unfold ymd_fin. rewrite F. cbn [andb negb].
  destruct (comp_present cy && comp_fits cy || comp_present cm && comp_fits cm); reflexivity.
Qed.

(* a total beyond i64 makes the literal invalid *)
Lemma ymd_fin_beyond_i64 : forall ro neg cy cm, 0 <= comp_val cy -> 0 <= comp_val cm ->
  comp_fits cy = true -> comp_fits cm = true -> i64_max < comp_val cy * 12 + comp_val cm -> ymd_fin ro neg cy cm = None.
Proof.
  intros ro neg cy cm Hy Hm Fy Fm B. unfold ymd_fin. rewrite Fy, Fm. cbn [andb negb]. rewrite andb_false_r.
  destruct (comp_present cy && true || comp_present cm && true); [|reflexivity]. cbv zeta.
  replace (comp_val cy * 12 + comp_val cm <=? i64_max) with false by (symmetry; apply Z.leb_gt; exact B).
  rewrite andb_false_r. reflexivity.
Qed.

Theorem print_parse_ymd : forall n, Z.abs n <= i64_max -> parse_ymd (print_ymd n) = Some n.
Proof.
  intros n B. unfold print_ymd.
  assert (Ha : 0 <= Z.abs n) by lia.
  assert (Hy : 0 <= Z.abs n / 12) by (Z.div_mod_to_equations; lia).
  assert (Hm : 0 <= Z.abs n mod 12 < 12) by (Z.div_mod_to_equations; lia).
  assert (E : Z.abs n = Z.abs n / 12 * 12 + Z.abs n mod 12) by (Z.div_mod_to_equations; lia).
  assert (S : forall body, parse_ymd ((if n <? 0 then "-" else "") ++ "P" ++ body) =
                           let (cy, s3) := p_comp "Y" body in let (cm, s4) := p_comp "M" s3 in
                           if String.eqb s4 "" then ymd_fin true (n <? 0) cy cm else None)
    by (intros body; apply parse_ymd_gen_body).
  destruct (Z.ltb_spec 0 (Z.abs n / 12)) as [Py|Py]; destruct (Z.ltb_spec 0 (Z.abs n mod 12)) as [Pm|Pm].
  - (* years and months *)
    rewrite S. cbn [append]. rewrite p_comp_dec by (try lia; reflexivity). rewrite p_comp_dec by (try lia; reflexivity).
    cbn [String.eqb]. rewrite ymd_fin_value; cbn [comp_present comp_val orb]; try lia. f_equal. destruct (Z.ltb_spec n 0); lia.
  - (* years only *)
    rewrite S. cbn [append]. rewrite p_comp_dec by (try lia; reflexivity). rewrite p_comp_absent by (intros; discriminate).
    cbn [String.eqb]. rewrite ymd_fin_value; cbn [comp_present comp_val orb]; try lia. f_equal. destruct (Z.ltb_spec n 0); lia.
  - (* months only: the year pattern does not match *)
    assert (NoY : forall r, p_comp "Y" (dec (Z.abs n mod 12) ++ String "M" r) = (None, dec (Z.abs n mod 12) ++ String "M" r)).
    { intros r. unfold p_comp. rewrite span_digits_dec by (try lia; reflexivity).
      destruct (digits_nonempty (Z.abs n mod 12)) as [d [t Ed]]; [lia|]. rewrite Ed. reflexivity. }
    rewrite S. cbn [append]. rewrite NoY. rewrite p_comp_dec by (try lia; reflexivity).
    cbn [String.eqb]. rewrite ymd_fin_value; cbn [comp_present comp_val orb]; try lia. f_equal. destruct (Z.ltb_spec n 0); lia.
  - (* zero *)
    assert (n = 0) by lia. subst n. reflexivity.
Qed.

(* normal form of what is printed *)
Theorem ymd_normal_form : forall n, 0 <= Z.abs n mod 12 < 12 /\ print_ymd 14 = "P1Y2M" /\ print_ymd (-14) = "-P1Y2M" /\
  option_map print_ymd (parse_ymd "P14M") = Some "P1Y2M".
Proof. intros n. split; [Z.div_mod_to_equations; lia|]. vm_compute. repeat split; reflexivity. Qed.

(* ---------------- dates: print then parse is the identity for every FEEL date ---------------- *)
Definition pad4_digits (a : Z) : list Z := app (repeat 0 (4 - List.length (digits a))) (digits a).
Definition isdigb (d : Z) : bool := (0 <=? d) && (d <=? 9).

Lemma pad4_small_sweep :
  forallb (fun a => year_digits_ok (pad4_digits a) && (num (pad4_digits a) =? a) && forallb isdigb (pad4_digits a)) (zrange 0 1000) = true.
Proof. vm_compute. reflexivity. Qed.

Lemma forallb_isdig : forall l, forallb isdigb l = true -> Forall isdig l.
Proof.
  intros l H. apply Forall_forall. intros x Hx. rewrite forallb_forall in H. specialize (H x Hx).
  unfold isdigb in H. apply andb_true_iff in H. rewrite !Z.leb_le in H. exact H.
Qed.

Lemma pad4_digits_spec : forall a, 0 <= a <= 999999999 ->
  year_digits_ok (pad4_digits a) = true /\ num (pad4_digits a) = a /\ Forall isdig (pad4_digits a).
Proof.
  intros a Ha. destruct (Z_lt_ge_dec a 1000) as [S|L].
  - pose proof pad4_small_sweep as W. rewrite forallb_forall in W.
    specialize (W a). rewrite zrange_In in W. specialize (W ltac:(cbn; lia)).
    apply andb_true_iff in W. destruct W as [W W3]. apply andb_true_iff in W. destruct W as [W1 W2].
    apply Z.eqb_eq in W2. split; [exact W1|]. split; [exact W2|]. apply forallb_isdig. exact W3.
  - destruct (digits_spec a ltac:(lia)) as [F [N [P _]]]. destruct P as [d [r [E [Hd [B1 B2]]]]]; [lia|].
    assert (L4 : (3 <= List.length r)%nat).
    { destruct (le_lt_dec 3 (List.length r)) as [K|K]; [exact K|exfalso].
      assert (10 ^ Z.of_nat (S (List.length r)) <= 10 ^ 3) by (apply Z.pow_le_mono_r; lia). lia. }
    assert (L9 : (List.length r <= 8)%nat).
    { destruct (le_lt_dec (List.length r) 8) as [K|K]; [exact K|exfalso].
      assert (10 ^ 9 <= 10 ^ Z.of_nat (List.length r)) by (apply Z.pow_le_mono_r; lia). lia. }
    unfold pad4_digits. rewrite E. cbn [List.length].
    replace (4 - S (List.length r))%nat with 0%nat by lia. cbn [repeat app].
    split; [|split; [rewrite <- E; exact N | rewrite <- E; exact F]].
    unfold year_digits_ok. replace (d =? 0) with false by (symmetry; apply Z.eqb_neq; lia).
    cbn [List.length]. apply andb_true_iff. rewrite !Z.leb_le. lia.
Qed.

Lemma two_pad2 : forall n r, 0 <= n <= 99 -> two (pad2 n ++ r) = Some (n, r).
Proof.
  intros n r H. unfold pad2. cbn [append two].
  rewrite (digit_val_char (n / 10)) by (unfold isdig; Z.div_mod_to_equations; lia).
  rewrite (digit_val_char (n mod 10)) by (unfold isdig; Z.div_mod_to_equations; lia).
  f_equal. f_equal. Z.div_mod_to_equations. lia.
Qed.

Lemma str_of_digits_head : forall ds r, Forall isdig ds -> ds <> [] ->
  exists c t, str_of_digits ds ++ r = String c t /\ c <> "-"%char.
Proof.
  intros ds r F N. destruct ds as [|d ds]; [congruence|]. inversion F as [|? ? Hd _]; subst.
  exists (digit_char d), (str_of_digits ds ++ r). split; [reflexivity|].
  intros C. pose proof (digit_val_char d Hd) as V. rewrite C in V. discriminate.
Qed.

Lemma year_ok_nonempty : forall ds, year_digits_ok ds = true -> ds <> [].
Proof. intros [|d ds] H; [discriminate|congruence]. Qed.

Definition sgn (neg : bool) (x : string) : string := if neg then String "-"%char x else x.
Definition date_text (a m d : Z) (rest : string) : string :=
  pad4 a ++ String "-"%char (pad2 m ++ String "-"%char (pad2 d ++ rest)).

Lemma p_date_print : forall (neg : bool) a m d rest, 0 <= a <= 999999999 -> 0 <= m <= 99 -> 0 <= d <= 99 ->
  p_date year_digits_ok (sgn neg (date_text a m d rest)) = Some ((if neg then - a else a), m, d, rest).
Proof.
  intros neg a m d rest Ha Hm Hd. destruct (pad4_digits_spec a Ha) as [Y [N F]].
  assert (P4 : pad4 a = str_of_digits (pad4_digits a)) by reflexivity.
  assert (Sp : span_digits (date_text a m d rest) = (pad4_digits a, String "-"%char (pad2 m ++ String "-"%char (pad2 d ++ rest)))).
  { unfold date_text. rewrite P4. apply span_digits_str; [exact F | reflexivity]. }
  unfold p_date. destruct neg; unfold sgn.
  - rewrite Sp, Y. rewrite two_pad2 by exact Hm. rewrite two_pad2 by exact Hd. rewrite N. reflexivity.
  - destruct (str_of_digits_head (pad4_digits a) (String "-"%char (pad2 m ++ String "-"%char (pad2 d ++ rest))) F (year_ok_nonempty _ Y)) as [c [t [E Nc]]].
    rewrite <- P4 in E. fold (date_text a m d rest) in E. rewrite E.
    assert (M : match String c t with String "-"%char r => (true, r) | _ => (false, String c t) end = (false, String c t)).
    { destruct c as [[] [] [] [] [] [] [] []]; try reflexivity. congruence. }
    rewrite M. rewrite <- E, Sp, Y. rewrite two_pad2 by exact Hm. rewrite two_pad2 by exact Hd. rewrite N. reflexivity.
Qed.

Lemma print_date_text : forall y m d, print_date (y, m, d) = sgn (y <? 0) (date_text (Z.abs y) m d "").
Proof.
  intros y m d. unfold print_date, sgn, date_text.
  replace (pad2 d ++ "") with (pad2 d) by reflexivity. destruct (y <? 0); reflexivity.
Qed.

Theorem print_parse_date : forall y m d, feel_date y m d = true -> parse_date (print_date (y, m, d)) = Some (y, m, d).
Proof.
  intros y m d H. pose proof H as H0. unfold feel_date in H. apply andb_true_iff in H. destruct H as [Hy Hv].
  unfold feel_year in Hy. apply andb_true_iff in Hy. rewrite !Z.leb_le in Hy.
  apply valid_iff in Hv. destruct Hv as [Hm Hd]. pose proof (last_day_range y m Hm).
  unfold parse_date, parse_date_gen. rewrite print_date_text.
  rewrite (p_date_print (y <? 0) (Z.abs y) m d "") by lia.
  replace (if y <? 0 then - Z.abs y else Z.abs y) with y by (destruct (Z.ltb_spec y 0); lia).
  rewrite is_valid_date_spec, H0. reflexivity.
Qed.

(* a parsed date is a calendar date; what it denotes is what is written *)
Theorem parse_date_valid : forall s y m d, parse_date s = Some (y, m, d) -> feel_date y m d = true.
Proof.
  intros s y m d H. unfold parse_date, parse_date_gen in H.
  destruct (p_date year_digits_ok s) as [[[[y' m'] d'] r]|]; [|discriminate].
  destruct r; [|discriminate]. destruct (is_valid_date y' m' d') eqn:V; [|discriminate].
  injection H as <- <- <-. rewrite <- is_valid_date_spec. exact V.
Qed.

(* ---------------- zones: every offset -14:59:59 .. +14:59:59 (finite: 107998 values), Z, local, named ---------------- *)
Definition nodb (_ : string) : bool := false.

Definition offset_check (o : Z) : bool :=
  if o =? 0 then true else
  match p_zone nodb zone_char lt60 (print_zone (ZOffset o)) with
  | Some (ZOffset o') => o' =? o
  | _ => false
  end.

Lemma offset_sweep : forallb offset_check (zrange (-53999) (Z.to_nat 107999)) = true.
Proof. vm_compute. reflexivity. Qed.

Lemma p_zone_db_irrelevant : forall db zc ms s, (forall r, s <> String "@"%char r) ->
  p_zone db zc ms s = p_zone nodb zc ms s.
Proof.
  intros db zc ms s H. unfold p_zone. destruct s as [|c r]; [reflexivity|].
  destruct ((c =? "z")%char || (c =? "Z")%char); [reflexivity|].
  destruct (Ascii.eqb_spec c "@"%char) as [->|N]; [exfalso; apply (H r); reflexivity | reflexivity].
Qed.

Lemma print_offset_head : forall o r, print_zone (ZOffset o) <> String "@"%char r.
Proof. intros o r. unfold print_zone. destruct (o <? 0); discriminate. Qed.

Theorem print_parse_zone_offset : forall db o, -53999 <= o <= 53999 -> o <> 0 ->
  parse_zone db (print_zone (ZOffset o)) = Some (ZOffset o).
Proof.
  intros db o R N. unfold parse_zone. rewrite p_zone_db_irrelevant by (apply print_offset_head).
  pose proof offset_sweep as W. rewrite forallb_forall in W. specialize (W o).
  rewrite zrange_In in W. assert (I : -53999 <= o < -53999 + Z.of_nat (Z.to_nat 107999)) by (rewrite Z2Nat.id; lia).
  specialize (W I). unfold offset_check in W.
  replace (o =? 0) with false in W by (symmetry; apply Z.eqb_neq; exact N).
  destruct (p_zone nodb zone_char lt60 (print_zone (ZOffset o))) as [[| |o'|]|]; try discriminate.
  apply Z.eqb_eq in W. subst o'. reflexivity.
Qed.

Theorem print_parse_zone_other : forall db id, db id = true -> id <> "" -> all_chars zone_char id = true ->
  parse_zone db (print_zone ZUtc) = Some ZUtc /\ parse_zone db (print_zone ZLocal) = Some ZLocal /\
  parse_zone db (print_zone (ZNamed id)) = Some (ZNamed id).
Proof.
  intros db id D N C. split; [reflexivity|]. split; [reflexivity|].
  unfold parse_zone, print_zone, p_zone. cbn [append]. cbn [Ascii.eqb Bool.eqb orb].
  destruct (String.eqb_spec id "") as [E|_]; [congruence|]. cbn [negb andb]. rewrite C, D. reflexivity.
Qed.

Lemma two_range : forall s n r, two s = Some (n, r) -> 0 <= n <= 99.
Proof.
  intros s n r T. unfold two in T. destruct s as [|a [|b r']]; try discriminate.
  destruct (digit_val a) as [x|] eqn:Da; [|discriminate]. destruct (digit_val b) as [y|] eqn:Db; [|discriminate].
  replace n with (10 * x + y) by congruence.
  apply digit_val_range in Da. apply digit_val_range in Db. unfold isdig in *. lia.
Qed.

(* what a parsed zone can be: an offset is never 0, at most 14:59:59 in magnitude *)
Theorem parse_zone_range : forall db s o, parse_zone db s = Some (ZOffset o) -> o <> 0 /\ -53999 <= o <= 53999.
Proof.
  intros db s o H. unfold parse_zone, p_zone in H. destruct s as [|c r]; [discriminate|].
  destruct ((c =? "z")%char || (c =? "Z")%char); [destruct (String.eqb r ""); discriminate|].
  destruct (c =? "@")%char.
  { destruct (negb (String.eqb r "") && all_chars zone_char r); [destruct (db r)|]; discriminate. }
  destruct ((c =? "+")%char || (c =? "-")%char); [|discriminate].
  destruct (two r) as [[hh r1]|] eqn:T1; [|discriminate].
  pose proof (two_range _ _ _ T1) as Hh.
  destruct r1 as [|c1 r2]; [discriminate|].
  destruct c1 as [[] [] [] [] [] [] [] []]; try discriminate.
  destruct (two r2) as [[mm r3]|] eqn:T2; [|discriminate].
  pose proof (two_range _ _ _ T2) as Hm.
  assert (G : forall ss, 0 <= ss ->
    (if (14 <? hh) || negb (lt60 mm) || negb (lt60 ss) then None
     else Some (zone_new (if (c =? "-")%char then - (3600 * hh + 60 * mm + ss) else 3600 * hh + 60 * mm + ss))) = Some (ZOffset o) ->
    o <> 0 /\ -53999 <= o <= 53999).
  { intros ss Hs G. unfold lt60 in G.
    destruct (Z.ltb_spec 14 hh); [discriminate|]. destruct (Z.ltb_spec mm 60); [|discriminate]. destruct (Z.ltb_spec ss 60); [|discriminate].
    cbn [negb orb] in G. unfold zone_new in G.
    destruct (c =? "-")%char.
    - destruct (Z.eqb_spec (- (3600 * hh + 60 * mm + ss)) 0) as [E0|E0]; [discriminate|]. assert (o = - (3600 * hh + 60 * mm + ss)) by congruence. lia.
    - destruct (Z.eqb_spec (3600 * hh + 60 * mm + ss) 0) as [E0|E0]; [discriminate|]. assert (o = 3600 * hh + 60 * mm + ss) by congruence. lia. }
  destruct r3 as [|c3 r4]; [apply (G 0); [lia|exact H]|].
  destruct c3 as [[] [] [] [] [] [] [] []]; try discriminate.
  destruct (two r4) as [[ss r5]|] eqn:T3; [|discriminate].
  destruct r5; [|discriminate].
  pose proof (two_range _ _ _ T3) as Hs.
  apply (G ss ltac:(lia)). exact H.
Qed.

(* ---------------- times with whole seconds: print then parse is the identity ---------------- *)
Definition zone_ok (db : string -> bool) (z : zone) : Prop :=
  match z with
  | ZUtc | ZLocal => True
  | ZOffset o => -53999 <= o <= 53999 /\ o <> 0
  | ZNamed id => db id = true /\ id <> "" /\ all_chars zone_char id = true
  end.

Lemma print_parse_zone : forall db z, zone_ok db z -> parse_zone db (print_zone z) = Some z.
Proof.
  intros db z H. destruct z as [| |o|id]; cbn [zone_ok] in H.
  - reflexivity.
  - reflexivity.
  - apply print_parse_zone_offset; tauto.
  - destruct H as [D [N C]]. apply (print_parse_zone_other db id D N C).
Qed.

Lemma zone_text_not_dot : forall z, print_zone z = "" \/ exists c r, print_zone z = String c r /\ c <> "."%char.
Proof.
  intros [| |o|id].
  - right. exists "Z"%char, "". split; [reflexivity|discriminate].
  - left. reflexivity.
  - right. unfold print_zone. destruct (o <? 0); eexists; eexists; (split; [reflexivity|discriminate]).
  - right. exists "@"%char, id. split; [reflexivity|discriminate].
Qed.

Definition time_text (h mi s : Z) (rest : string) : string :=
  pad2 h ++ String ":"%char (pad2 mi ++ String ":"%char (pad2 s ++ rest)).

Lemma p_time_whole : forall pz h mi s z, 0 <= h < 24 -> 0 <= mi < 60 -> 0 <= s < 60 -> pz (print_zone z) = Some z ->
  p_time pz (time_text h mi s (print_zone z)) = Some {| t_h := h; t_mi := mi; t_s := s; t_ns := 0; t_zone := z |}.
Proof.
  intros pz h mi s z Hh Hm Hs Z. unfold p_time, time_text.
  rewrite two_pad2 by lia. rewrite two_pad2 by lia. rewrite two_pad2 by lia.
  assert (V : is_valid_time h mi s = true).
  { unfold is_valid_time. rewrite !andb_true_iff, !Z.ltb_lt. lia. }
  destruct (zone_text_not_dot z) as [E|[c [r [E N]]]].
  - rewrite E. rewrite <- E, Z, V. reflexivity.
  - rewrite E. destruct c as [[] [] [] [] [] [] [] []]; try (rewrite <- E, Z, V; reflexivity). congruence.
Qed.

Theorem print_parse_time_whole : forall db t, t_ns t = 0 -> 0 <= t_h t < 24 -> 0 <= t_mi t < 60 -> 0 <= t_s t < 60 ->
  zone_ok db (t_zone t) -> parse_time db (print_time t) = Some t.
Proof.
  intros db [h mi s ns z] Hn Hh Hm Hs Hz. cbn in Hn, Hh, Hm, Hs, Hz. subst ns.
  unfold parse_time. rewrite <- (p_time_whole (parse_zone db) h mi s z Hh Hm Hs (print_parse_zone db z Hz)).
  reflexivity.
Qed.

(* a parsed time has in-range components (hour 24, minute or second 60 and above never parse) *)
Theorem parse_time_valid : forall db s t, parse_time db s = Some t ->
  t_h t < 24 /\ t_mi t < 60 /\ t_s t < 60 /\ (forall o, t_zone t = ZOffset o -> o <> 0 /\ -53999 <= o <= 53999).
Proof.
  intros db s t H. unfold parse_time, p_time in H.
  destruct (two s) as [[h r1]|]; [|discriminate]. destruct r1 as [|c1 s1]; [discriminate|].
  destruct c1 as [[] [] [] [] [] [] [] []]; try discriminate.
  destruct (two s1) as [[mi r2]|]; [|discriminate]. destruct r2 as [|c2 s2]; [discriminate|].
  destruct c2 as [[] [] [] [] [] [] [] []]; try discriminate.
  destruct (two s2) as [[sec s3]|]; [|discriminate].
  assert (G : forall ns rest,
    match parse_zone db rest with
    | Some z => if is_valid_time h mi sec then Some {| t_h := h; t_mi := mi; t_s := sec; t_ns := ns; t_zone := z |} else None
    | None => None
    end = Some t ->
    t_h t < 24 /\ t_mi t < 60 /\ t_s t < 60 /\ (forall o, t_zone t = ZOffset o -> o <> 0 /\ -53999 <= o <= 53999)).
  { intros ns rest G. destruct (parse_zone db rest) as [z|] eqn:Z; [|discriminate].
    destruct (is_valid_time h mi sec) eqn:V; [|discriminate]. injection G as <-. cbn.
    unfold is_valid_time in V. rewrite !andb_true_iff, !Z.ltb_lt in V.
    split; [tauto|]. split; [tauto|]. split; [tauto|]. intros o' E. apply (parse_zone_range db rest o'). rewrite Z, E. reflexivity. }
  destruct s3 as [|c3 s4]; [exact (G 0 "" H)|].
  destruct c3 as [[] [] [] [] [] [] [] []];
    try (match type of H with context [parse_zone db ?r] => exact (G 0 r H) end).
  destruct (span_digits s4) as [ds s5]. destruct ds; [discriminate|].
  match type of H with context [parse_zone db ?r] => exact (G _ r H) end.
Qed.

(* ---------------- finite witness sets for the parts without a general proof ---------------- *)
Definition dtd_grid : list Z :=
  flat_map (fun sg => flat_map (fun d => flat_map (fun h => flat_map (fun mi => flat_map (fun s => map (fun f =>
    sg * (d * DAY_NS + h * HOUR_NS + mi * MIN_NS + s * NS + f)) [0; 1; 500000000; 999999999; 123456780; 509083000])
    [0; 1; 59]) [0; 1; 59]) [0; 1; 23]) [0; 1; 400; 18446744073709551615]) [1; -1].

Definition opt_Z_eqb (a : option Z) (b : Z) : bool := match a with Some x => x =? b | None => false end.

Lemma dtd_grid_roundtrip : forallb (fun n => opt_Z_eqb (parse_dtd (print_dtd n)) n) dtd_grid = true.
Proof. vm_compute. reflexivity. Qed.

Theorem print_parse_dtd_grid : forall n, In n dtd_grid -> parse_dtd (print_dtd n) = Some n.
Proof.
  intros n H. pose proof dtd_grid_roundtrip as W. rewrite forallb_forall in W. specialize (W n H).
  unfold opt_Z_eqb in W. destruct (parse_dtd (print_dtd n)); [apply Z.eqb_eq in W; congruence|discriminate].
Qed.

Definition ns_grid : list Z := [1; 9; 10; 100; 509083000; 500000000; 999999999; 123456789; 120000000; 1000; 999999990; 57].
Definition zone_grid : list zone := [ZUtc; ZLocal; ZOffset (-1800); ZOffset 53999; ZOffset (-53999); ZOffset 19800; ZOffset 1; ZNamed "Europe/Warsaw"; ZNamed "Etc/GMT+1"].
Definition time_grid : list time :=
  flat_map (fun ns => flat_map (fun z => map (fun hms => {| t_h := fst (fst hms); t_mi := snd (fst hms); t_s := snd hms; t_ns := ns; t_zone := z |})
    [(0, 0, 0); (23, 59, 59); (10, 20, 30)]) zone_grid) ns_grid.

Definition zone_eqb (a b : zone) : bool :=
  match a, b with
  | ZUtc, ZUtc | ZLocal, ZLocal => true
  | ZOffset x, ZOffset y => x =? y
  | ZNamed x, ZNamed y => String.eqb x y
  | _, _ => false
  end.
Definition time_eqb (a b : time) : bool :=
  (t_h a =? t_h b) && (t_mi a =? t_mi b) && (t_s a =? t_s b) && (t_ns a =? t_ns b) && zone_eqb (t_zone a) (t_zone b).

Lemma time_eqb_eq : forall a b, time_eqb a b = true -> a = b.
Proof.
  intros [h1 m1 s1 n1 z1] [h2 m2 s2 n2 z2] H. unfold time_eqb in H. cbn in H.
  rewrite !andb_true_iff, !Z.eqb_eq in H. destruct H as [[[[-> ->] ->] ->] Z]. f_equal.
  destruct z1, z2; cbn in Z; try discriminate; try reflexivity.
  - apply Z.eqb_eq in Z. congruence.
  - apply String.eqb_eq in Z. congruence.
Qed.

Lemma time_grid_roundtrip :
  forallb (fun t => match parse_time db0 (print_time t) with Some t' => time_eqb t' t | None => false end) time_grid = true.
Proof. vm_compute. reflexivity. Qed.

Theorem print_parse_time_grid : forall t, In t time_grid -> parse_time db0 (print_time t) = Some t.
Proof.
  intros t H. pose proof time_grid_roundtrip as W. rewrite forallb_forall in W. specialize (W t H).
  destruct (parse_time db0 (print_time t)) as [t'|]; [apply time_eqb_eq in W; congruence|discriminate].
Qed.

Definition date_grid : list date := [(2021, 2, 28); (-5, 1, 1); (0, 1, 1); (999, 12, 31); (999999999, 12, 31); (-999999999, 1, 1); (2024, 2, 29)].

Lemma datetime_grid_roundtrip :
  forallb (fun d => forallb (fun t =>
    match parse_datetime db0 (print_datetime (d, t)) with Some (d', t') => date_eqb d' d && time_eqb t' t | None => false end) time_grid) date_grid = true.
Proof. vm_compute. reflexivity. Qed.

Theorem print_parse_datetime_grid : forall d t, In d date_grid -> In t time_grid ->
  parse_datetime db0 (print_datetime (d, t)) = Some (d, t).
Proof.
  intros d t Hd Ht. pose proof datetime_grid_roundtrip as W. rewrite forallb_forall in W. specialize (W d Hd).
  rewrite forallb_forall in W. specialize (W t Ht).
  destruct (parse_datetime db0 (print_datetime (d, t))) as [[d' t']|]; [|discriminate].
  apply andb_true_iff in W. destruct W as [W1 W2]. apply time_eqb_eq in W2. apply (proj1 (date_eqb_eq d' d)) in W1. rewrite W1, W2. reflexivity.
Qed.

(* printed days-and-time durations are in normal form *)
Theorem dtd_normal_form : forall n,
  0 <= dtd_hours n < 24 /\ 0 <= dtd_minutes n < 60 /\ 0 <= dtd_seconds n < 60 /\ 0 <= dtd_subsec n < NS /\
  option_map print_dtd (parse_dtd "PT36H") = Some "P1DT12H" /\ option_map print_dtd (parse_dtd "-PT90M") = Some "-PT1H30M" /\
  option_map print_dtd (parse_dtd "PT86400S") = Some "P1D".
Proof.
  intros n. destruct (dtd_components n) as [_ [_ [A [B [C D]]]]].
  split; [exact A|]. split; [exact B|]. split; [exact C|]. split; [exact D|]. vm_compute. repeat split; reflexivity.
Qed.

Example c14_nonvacuous :
  parse_date "2024-02-29" = Some (2024, 2, 29) /\ parse_date "2023-02-29" = None /\
  option_map print_time (parse_time db0 "10:00:00.509083-00:30") = Some "10:00:00.509083-00:30" /\
  parse_time db0 "24:00:00" = None /\ parse_time db0 "10:00:60" = None /\ parse_time db0 "10:00:00+15:00" = None /\
  parse_duration "P14M" = Some (DYm 14) /\ parse_duration "PT36H" = Some (DDt 129600000000000) /\ parse_duration "P1Y2D" = None /\
  option_map print_datetime (bif_date_and_time db0 "-0005-01-01T00:00:00.000000001@Europe/Warsaw") = Some "-0005-01-01T00:00:00.000000001@Europe/Warsaw".
Proof. vm_compute. repeat split; reflexivity. Qed.
