(* C06 — extended expression language: the fuel eparse_tokens uses (length + 1) is always enough.
   The development of C06.Fuel, carried over to the parser of C06.ModelExt (sequences, binders, brackets). *)
From Coq Require Import List NArith Bool Arith Lia.
From DV Require Import C06.Model C06.ModelExt C06.ExtBase.
Import ListNotations.

(* a parse that succeeds with some fuel consumes at least one token and succeeds with any fuel above the number of tokens it consumed *)
Definition Suff (pe : nat -> list etok -> epres) : Prop := forall m ts t rest, pe m ts = Some (t, rest) ->
  length rest < length ts /\ forall f', S (length ts - length rest) <= f' -> eparse_expr f' m ts = Some (t, rest).

(* the same for an item of a sequence: itc is the item parser as a function of the expression parser *)
Definition ItSuff {A : Type} (it : list etok -> option (A * list etok))
    (itc : (nat -> list etok -> epres) -> list etok -> option (A * list etok)) : Prop :=
  forall ts x rest, it ts = Some (x, rest) ->
  length rest < length ts /\ forall F, S (length ts - length rest) <= F -> itc (eparse_expr F) ts = Some (x, rest).

Ltac inv_pe Hs H E Hl Hk :=
  match type of H with
  | context [match ?pe ?m ?ts with _ => _ end] =>
    let x := fresh "x" in let r := fresh "r" in
    destruct (pe m ts) as [[x r]|] eqn:E; [destruct (Hs _ _ _ _ E) as [Hl Hk]|discriminate H]
  end.

(* ------------------------------------------------------------------ items *)

Lemma it_expr_suff : forall pe, Suff pe -> ItSuff (it_expr pe) it_expr.
Proof.
  intros pe Hs ts x rest H. unfold it_expr in *. destruct (Hs _ _ _ _ H) as [Hl Hk]. split; [exact Hl|].
  intros F HF. apply Hk. exact HF.
Qed.

Lemma it_kv_suff : forall pe, Suff pe -> ItSuff (it_kv pe) it_kv.
Proof.
  intros pe Hs ts x rest H. unfold it_kv in H. destruct ts as [|t ts']; [discriminate H|].
  destruct t; try discriminate H. inv_pe Hs H E Hl Hk. inversion H; subst. cbn [length] in *. split; [lia|].
  intros F HF. cbn [it_kv]. rewrite Hk by lia. reflexivity.
Qed.

Lemma it_qdom_suff : forall pe, Suff pe -> ItSuff (it_qdom pe) it_qdom.
Proof.
  intros pe Hs ts x rest H. unfold it_qdom in H. destruct ts as [|t ts']; [discriminate H|].
  destruct t; try discriminate H. inv_pe Hs H E Hl Hk. inversion H; subst. cbn [length] in *. split; [lia|].
  intros F HF. cbn [it_qdom]. rewrite Hk by lia. reflexivity.
Qed.

Lemma it_fdom_suff : forall pe, Suff pe -> ItSuff (it_fdom pe) it_fdom.
Proof.
  intros pe Hs ts x rest H. unfold it_fdom in H. destruct ts as [|t ts']; [discriminate H|].
  destruct t; try discriminate H. inv_pe Hs H E Hl Hk.
  assert (Hone : Some (n, x0, @None etree, r) = Some (x, rest) -> not_ell r ->
    length rest < length (XBind n :: ts') /\
    forall F, S (length (XBind n :: ts') - length rest) <= F -> it_fdom (eparse_expr F) (XBind n :: ts') = Some (x, rest)).
  { intros H0 Hn. inversion H0; subst. cbn [length] in *. split; [lia|]. intros F HF. cbn [it_fdom]. rewrite Hk by lia.
    destruct rest as [|t0 l0]; [reflexivity|]. destruct t0; try reflexivity. destruct Hn. }
  destruct r as [|t0 l0]; [apply Hone; [exact H|exact I]|]. destruct t0; try (apply Hone; [exact H|exact I]). clear Hone.
  inv_pe Hs H E2 Hl2 Hk2. inversion H; subst. cbn [length] in *. split; [lia|].
  intros F HF. cbn [it_fdom]. rewrite Hk by lia. rewrite Hk2 by lia. reflexivity.
Qed.

Lemma it_par_suff : ItSuff it_par it_par_c.
Proof.
  intros ts x rest H. unfold it_par_c. unfold it_par in *. destruct ts as [|t ts']; [discriminate H|].
  destruct t; try discriminate H. inversion H; subst. cbn [length]. split; [lia|]. intros. reflexivity.
Qed.

(* ------------------------------------------------------------------ sequences *)

Lemma sepseq_suff : forall (A : Type) (it : list etok -> option (A * list etok)) itc, ItSuff it itc ->
  forall g ts x xs rest, sepseq it g ts = Some (x, xs, rest) ->
  length rest < length ts /\
  forall F G, S (length ts - length rest) <= F -> length ts - length rest <= G ->
    sepseq (itc (eparse_expr F)) G ts = Some (x, xs, rest).
Proof.
  intros A it itc Hi. induction g as [|g IH]; intros ts x xs rest H; [discriminate H|].
  cbn [sepseq] in H. destruct (it ts) as [[y r0]|] eqn:E; [|discriminate H].
  destruct (Hi _ _ _ E) as [Hl Hk].
  assert (Hone : Some (y, @nil A, r0) = Some (x, xs, rest) -> not_comma r0 ->
    length rest < length ts /\
    forall F G, S (length ts - length rest) <= F -> length ts - length rest <= G ->
      sepseq (itc (eparse_expr F)) G ts = Some (x, xs, rest)).
  { intros H0 Hn. inversion H0; subst. split; [exact Hl|]. intros F G HF HG. destruct G as [|G]; [lia|].
    cbn [sepseq]. rewrite Hk by lia. destruct rest as [|t0 l0]; [reflexivity|]. destruct t0; try reflexivity. destruct Hn. }
  destruct r0 as [|t0 r0]; [apply Hone; [exact H|exact I]|].
  destruct t0; try (apply Hone; [exact H|exact I]). clear Hone.
  destruct (sepseq it g r0) as [[[z zs] r']|] eqn:E2; [|discriminate H]. inversion H; subst.
  destruct (IH _ _ _ _ E2) as [Hl2 Hk2]. cbn [length] in *. split; [lia|].
  intros F G HF HG. destruct G as [|G]; [lia|]. cbn [sepseq]. rewrite Hk by (cbn [length]; lia).
  rewrite Hk2 by lia. reflexivity.
Qed.

(* ------------------------------------------------------------------ the operator loop *)

Ltac loop_stop0 H :=
  inversion H; subst; split; [lia|]; intros F' G' _ HG; destruct G' as [|G']; [lia|]; reflexivity.
Ltac loop_stop H Em :=
  inversion H; subst; split; [lia|]; intros F' G' _ HG; destruct G' as [|G']; [lia|]; cbn [eloop]; rewrite Em; reflexivity.

Ltac loop_seq IH H Em itsuff :=
  cbv beta iota in H;
  match type of H with
  | context [match sepseq ?it ?g ?ts with _ => _ end] =>
    let E := fresh "E" in
    destruct (sepseq it g ts) as [[[? ?] ?]|] eqn:E; [|discriminate H];
    split_tok H;
    destruct (sepseq_suff _ _ _ itsuff _ _ _ _ _ E) as [Hl1 Hk1];
    destruct (IH _ _ _ _ _ _ H) as [Hl Hk]; cbn [length] in *; split; [lia|];
    intros F' G' HF HG; destruct G' as [|G']; [lia|]; cbn [eloop]; rewrite Em; rewrite Hk1 by lia; apply Hk; lia
  end.

Lemma eloop_suff : forall pe, Suff pe -> forall g m na l ts t rest, eloop pe g m na l ts = Some (t, rest) ->
  length rest <= length ts /\
  forall F' G', length ts - length rest <= F' -> S (length ts - length rest) <= G' ->
    eloop (eparse_expr F') G' m na l ts = Some (t, rest).
Proof.
  intros pe Hs. induction g as [|g IH]; intros m na l ts t rest H; [discriminate H|].
  cbn [eloop] in H.
  destruct ts as [|tk ts']; [loop_stop0 H|].
  destruct tk; try (loop_stop0 H).
  - (* operator *)
    destruct (m <=? lv o) eqn:Em; [|loop_stop H Em].
    destruct (is_non o && (lv o =? na)) eqn:En; [discriminate H|]. inv_pe Hs H E Hl1 Hk1.
    destruct (IH _ _ _ _ _ _ H) as [Hl Hk]. cbn [length] in *. split; [lia|].
    intros F' G' HF HG. destruct G' as [|G']; [lia|]. cbn [eloop]. rewrite Em, En. rewrite Hk1 by lia. apply Hk; lia.
  - (* invocation *)
    destruct (m <=? lv_post) eqn:Em; [|loop_stop H Em].
    destruct ts' as [|t1 ts1].
    + loop_seq IH H Em (it_expr_suff pe Hs).
    + destruct t1; try (loop_seq IH H Em (it_expr_suff pe Hs); fail).
      * destruct (IH _ _ _ _ _ _ H) as [Hl Hk]. cbn [length] in *. split; [lia|].
        intros F' G' HF HG. destruct G' as [|G']; [lia|]. cbn [eloop]. rewrite Em. apply Hk; lia.
      * loop_seq IH H Em (it_kv_suff pe Hs).
  - (* filter *)
    destruct (m <=? lv_post) eqn:Em; [|loop_stop H Em]. inv_pe Hs H E Hl1 Hk1. split_tok H.
    destruct (IH _ _ _ _ _ _ H) as [Hl Hk]. cbn [length] in *. split; [lia|].
    intros F' G' HF HG. destruct G' as [|G']; [lia|]. cbn [eloop]. rewrite Em. rewrite Hk1 by lia. apply Hk; lia.
  - (* between *)
    destruct (m <=? lv_between) eqn:Em; [|loop_stop H Em]. inv_pe Hs H E Hl1 Hk1. split_tok H.
    inv_pe Hs H E2 Hl2 Hk2.
    destruct (IH _ _ _ _ _ _ H) as [Hl Hk]. cbn [length] in *. split; [lia|].
    intros F' G' HF HG. destruct G' as [|G']; [lia|]. cbn [eloop]. rewrite Em. rewrite Hk1 by lia. rewrite Hk2 by lia.
    apply Hk; lia.
  - (* instance of *)
    destruct (m <=? lv_inst) eqn:Em; [|loop_stop H Em].
    destruct (IH _ _ _ _ _ _ H) as [Hl Hk]. cbn [length] in *. split; [lia|].
    intros F' G' HF HG. destruct G' as [|G']; [lia|]. cbn [eloop]. rewrite Em. apply Hk; lia.
  - (* path *)
    destruct (m <=? lv_post) eqn:Em; [|loop_stop H Em].
    destruct (IH _ _ _ _ _ _ H) as [Hl Hk]. cbn [length] in *. split; [lia|].
    intros F' G' HF HG. destruct G' as [|G']; [lia|]. cbn [eloop]. rewrite Em. apply Hk; lia.
Qed.

(* ------------------------------------------------------------------ the operand forms *)

Lemma binder_tail_suff : forall (A : Type) pe (itc : (nat -> list etok -> epres) -> list etok -> option (A * list etok)) is_sep mk,
  Suff pe -> ItSuff (itc pe) itc -> forall g r t rest, binder_tail pe g (itc pe) is_sep mk r = Some (t, rest) ->
  length rest < length r /\
  forall F' G', length r - length rest <= F' -> length r - length rest <= G' ->
    binder_tail (eparse_expr F') G' (itc (eparse_expr F')) is_sep mk r = Some (t, rest).
Proof.
  intros A pe itc is_sep mk Hs Hi g r t rest H. unfold binder_tail in H.
  destruct (sepseq (itc pe) g r) as [[[d ds] r0]|] eqn:E; [|discriminate H].
  destruct r0 as [|s r1]; [discriminate H|]. destruct (is_sep s) eqn:Es; [|discriminate H].
  inv_pe Hs H E2 Hl2 Hk2. inversion H; subst.
  destruct (sepseq_suff _ _ _ Hi _ _ _ _ _ E) as [Hl1 Hk1]. cbn [length] in *. split; [lia|].
  intros F' G' HF HG. unfold binder_tail. rewrite Hk1 by lia. rewrite Es. rewrite Hk2 by lia. reflexivity.
Qed.

Lemma range_head_len : forall ts a b c r, range_head ts = Some (a, b, c, r) -> length ts = 4 + length r.
Proof.
  intros ts a b c r H. unfold range_head in H.
  repeat match type of H with
         | match ?l with _ => _ end = _ => destruct l; try discriminate H
         end.
  inversion H; subst. cbn [length]. lia.
Qed.

Ltac pre_seq H itsuff :=
  cbv beta iota in H;
  match type of H with
  | context [match sepseq ?it ?g ?ts with _ => _ end] =>
    let E := fresh "E" in
    destruct (sepseq it g ts) as [[[? ?] ?]|] eqn:E; [|discriminate H];
    split_tok H;
    destruct (sepseq_suff _ _ _ itsuff _ _ _ _ _ E) as [Hl1 Hk1]
  end.

Lemma eprefix_suff : forall pe, Suff pe -> forall g ts l r, eprefix pe g ts = Some (l, r) ->
  length r < length ts /\
  forall F' G', length ts - length r <= F' -> length ts - length r <= G' -> eprefix (eparse_expr F') G' ts = Some (l, r).
Proof.
  intros pe Hs g ts l r H. unfold eprefix in H. destruct ts as [|tk ts']; [discriminate H|].
  destruct tk; try discriminate H.
  - (* atom *)
    inversion H; subst. cbn [length]. split; [lia|]. intros. reflexivity.
  - (* negation *)
    destruct o; try discriminate H. inv_pe Hs H E Hl1 Hk1. inversion H; subst. cbn [length] in *. split; [lia|].
    intros F' G' HF HG. cbn [eprefix]. rewrite Hk1 by lia. reflexivity.
  - (* parenthesis: range or group *)
    destruct (range_head ts') as [[[[a b] c] r']|] eqn:Er.
    + inversion H; subst. pose proof (range_head_len _ _ _ _ _ Er) as Hlen. cbn [length]. split; [lia|].
      intros. cbn [eprefix]. rewrite Er. reflexivity.
    + inv_pe Hs H E Hl1 Hk1. split_tok H. inversion H; subst. cbn [length] in *. split; [lia|].
      intros F' G' HF HG. cbn [eprefix]. rewrite Er. rewrite Hk1 by lia. reflexivity.
  - (* bracket: range or list *)
    destruct (range_head ts') as [[[[a b] c] r']|] eqn:Er.
    + inversion H; subst. pose proof (range_head_len _ _ _ _ _ Er) as Hlen. cbn [length]. split; [lia|].
      intros. cbn [eprefix]. rewrite Er. reflexivity.
    + assert (Hit : match sepseq (it_expr pe) g ts' with Some (x, xs, XRb :: r') => Some (EList (x :: xs), r') | _ => None end = Some (l, r) ->
        length r < length (XLb :: ts') /\
        forall F' G', length (XLb :: ts') - length r <= F' -> length (XLb :: ts') - length r <= G' ->
          match sepseq (it_expr (eparse_expr F')) G' ts' with Some (x, xs, XRb :: r') => Some (EList (x :: xs), r') | _ => None end = Some (l, r)).
      { intro H0. pre_seq H0 (it_expr_suff pe Hs). inversion H0; subst. cbn [length] in *. split; [lia|].
        intros F' G' HF HG. rewrite Hk1 by lia. reflexivity. }
      destruct ts' as [|t1 ts1].
      { destruct (Hit H) as [Hl Hk]. split; [exact Hl|]. intros F' G' HF HG. cbn [eprefix]. rewrite Er. apply Hk; assumption. }
      destruct t1;
        try (destruct (Hit H) as [Hl Hk]; split; [exact Hl|]; intros F' G' HF HG; cbn [eprefix]; rewrite Er; apply Hk; assumption).
      cbv beta iota zeta in H. destruct (range_start ts1) eqn:Ers.
      * destruct (Hit H) as [Hl Hk]. split; [exact Hl|]. intros F' G' HF HG. cbn [eprefix]. rewrite Er, Ers. apply Hk; assumption.
      * inversion H; subst. cbn [length]. split; [lia|]. intros F' G' HF HG. cbn [eprefix]. rewrite Er, Ers. reflexivity.
  - (* reversed bracket: range *)
    destruct (range_head ts') as [[[[a b] c] r']|] eqn:Er; [|discriminate H].
    inversion H; subst. pose proof (range_head_len _ _ _ _ _ Er) as Hlen. cbn [length]. split; [lia|].
    intros. cbn [eprefix]. rewrite Er. reflexivity.
  - (* context *)
    destruct ts' as [|t1 ts1].
    + pre_seq H (it_kv_suff pe Hs). inversion H; subst. cbn [length] in *. split; [lia|].
      intros F' G' HF HG. cbn [eprefix]. rewrite Hk1 by lia. reflexivity.
    + destruct t1;
        try (pre_seq H (it_kv_suff pe Hs); inversion H; subst; cbn [length] in *; split; [lia|];
             intros F' G' HF HG; cbn [eprefix]; rewrite Hk1 by lia; reflexivity).
      inversion H; subst. cbn [length]. split; [lia|]. intros. reflexivity.
  - (* if *)
    inv_pe Hs H E1 Hl1 Hk1. split_tok H. inv_pe Hs H E2 Hl2 Hk2. split_tok H. inv_pe Hs H E3 Hl3 Hk3.
    inversion H; subst. cbn [length] in *. split; [lia|].
    intros F' G' HF HG. cbn [eprefix]. rewrite Hk1 by lia. rewrite Hk2 by lia. rewrite Hk3 by lia. reflexivity.
  - (* for *)
    destruct (binder_tail_suff _ pe it_fdom is_return EFor Hs (it_fdom_suff pe Hs) _ _ _ _ H) as [Hl Hk].
    cbn [length]. split; [lia|]. intros F' G' HF HG. cbn [eprefix]. apply Hk; lia.
  - (* some *)
    destruct (binder_tail_suff _ pe it_qdom is_satisfies (EQuant QSome) Hs (it_qdom_suff pe Hs) _ _ _ _ H) as [Hl Hk].
    cbn [length]. split; [lia|]. intros F' G' HF HG. cbn [eprefix]. apply Hk; lia.
  - (* every *)
    destruct (binder_tail_suff _ pe it_qdom is_satisfies (EQuant QEvery) Hs (it_qdom_suff pe Hs) _ _ _ _ H) as [Hl Hk].
    cbn [length]. split; [lia|]. intros F' G' HF HG. cbn [eprefix]. apply Hk; lia.
  - (* function *)
    destruct ts' as [|t1 ts1]; [discriminate H|]. destruct t1; try discriminate H.
    destruct ts1 as [|t2 ts2].
    + pre_seq H it_par_suff. inv_pe Hs H E2 Hl2 Hk2. inversion H; subst. unfold it_par_c in Hk1. cbn [length] in *. split; [lia|].
      intros F' G' HF HG. cbn [eprefix]. rewrite (Hk1 F' G') by lia. rewrite Hk2 by lia. reflexivity.
    + destruct t2;
        try (pre_seq H it_par_suff; inv_pe Hs H E2 Hl2 Hk2; inversion H; subst; unfold it_par_c in Hk1; cbn [length] in *; split; [lia|];
             intros F' G' HF HG; cbn [eprefix]; rewrite (Hk1 F' G') by lia; rewrite Hk2 by lia; reflexivity).
      inv_pe Hs H E Hl1 Hk1. inversion H; subst. cbn [length] in *. split; [lia|].
      intros F' G' HF HG. cbn [eprefix]. rewrite Hk1 by lia. reflexivity.
Qed.

(* ------------------------------------------------------------------ the parser *)

Lemma eparse_expr_suff : forall f, Suff (eparse_expr f).
Proof.
  induction f as [|f IH]; intros m ts t rest H; [discriminate H|].
  cbn [eparse_expr] in H.
  destruct (eprefix (eparse_expr f) f ts) as [[l r]|] eqn:E; [|discriminate H].
  destruct (eprefix_suff _ IH _ _ _ _ E) as [Hl Hp].
  destruct (eloop_suff _ IH _ _ _ _ _ _ _ H) as [Hl2 Hk].
  split; [lia|]. intros f' Hf. destruct f' as [|f']; [lia|]. cbn [eparse_expr].
  rewrite Hp by lia. apply Hk; lia.
Qed.

(* the fuel of eparse_tokens is enough: whatever some fuel parses, eparse_tokens parses *)
Theorem eparse_tokens_complete : forall f ts t, eparse_fuel f ts = Some t -> eparse_tokens ts = Some t.
Proof.
  intros f ts t H. unfold eparse_tokens, eparse_fuel in *.
  destruct (eparse_expr f 0 ts) as [[x rest]|] eqn:E; [|discriminate H].
  destruct rest; [|discriminate H]. inversion H; subst.
  destruct (eparse_expr_suff f 0 ts t [] E) as [_ Hk]. rewrite Hk; [reflexivity|]. cbn [length]. lia.
Qed.

From DV Require Import C06.ExtRound C06.ExtFull.

Theorem eroundtrip_min_tokens : forall t, eparse_tokens (erender_min t) = Some t.
Proof. intro t. destruct (eroundtrip_min t) as [f0 H]. eapply eparse_tokens_complete. exact (H f0 (le_n f0)). Qed.

Theorem eroundtrip_full_tokens : forall t, eparse_tokens (erender_full t) = Some t.
Proof. intro t. destruct (eroundtrip_full t) as [f0 H]. eapply eparse_tokens_complete. exact (H f0 (le_n f0)). Qed.
