"""C06, extended Spec (coq/C06/ModelExt.v: operator fragment + if / for / some / every / function / lists / contexts / ranges / argument lists)
against the real parser.  Owner: prover-C06.  Called from props/c06.py (`ext_section(ctx, c06_module)`).

For every generated tree of the extended language the Coq model renders (erender_min, erender_full), parses both renderings and parses the
minimal rendering with each pair of parentheses removed (edrop_paren k for every k: grouping, invocation, parameter-list and range
parentheses).  The token lists are written as text (layouts of props/c06.py) and given to the real parser (dv ast):
  * minimal / full rendering: the real parser must give the generated tree (and the model must give it back: C06_roundtrip_*_ext is a theorem,
    a failure here means the Coq build is stale);
  * a pair removed: the real parser must give exactly what the model gives (the same other tree, or both reject).
Trees: random ones (generator of props/c06.py restricted to the constructs of the extended Spec) and a systematic part that puts every open
construct (if, for, some, every, function) into every operand position (left / right of each of the 14 binary operators, operand of unary minus,
the three positions of between, operand of instance of / path / filter / invocation, filter index, argument, list item, context entry, iteration
domain and range ends, condition and branches, bodies) and on the right edge of a left operand (`a * for .. return c + d`)."""
import json

from vlib.coqterm import App

HEADER_EXT = ('From Coq Require Import List NArith Bool.\nFrom DV Require Import C06.Model C06.ModelExt.\nImport ListNotations.\nOpen Scope N_scope.\n'
              'Definition ext_case (t : etree) := (erender_min t, erender_full t, eparse_tokens (erender_min t), eparse_tokens (erender_full t), '
              'map (fun k => (edrop_paren k (erender_min t), eparse_tokens (edrop_paren k (erender_min t)))) (seq 0 (ecount_lp (erender_min t)))).\n')

ROPEN = {'(': 'RoP', '[': 'RoB', ']': 'RoR'}
RCLOSE = {')': 'RcP', ']': 'RcB', '[': 'RcL'}
ROPEN_TXT = {v: k for k, v in ROPEN.items()}
RCLOSE_TXT = {v: k for k, v in RCLOSE.items()}
KWTOK = {'XIf': 'if', 'XThen': 'then', 'XElse': 'else', 'XFor': 'for', 'XReturn': 'return', 'XSome': 'some', 'XEvery': 'every', 'XSatisfies': 'satisfies'}
SYMTOK = {'XLp': '(', 'XRp': ')', 'XLb': '[', 'XRb': ']', 'XLc': '{', 'XRc': '}', 'XComma': ',', 'XEll': '..'}


def in_ext(t):
    """The generated tree uses only constructs of the extended Spec."""
    k = t[0]
    if k == 'atom':
        return True
    if k == 'bin':
        return in_ext(t[2]) and in_ext(t[3])
    if k in ('neg', 'inst', 'path'):
        return in_ext(t[1])
    if k in ('btw', 'if'):
        return all(in_ext(x) for x in t[1:4])
    if k == 'filt':
        return in_ext(t[1]) and in_ext(t[2])
    if k == 'call':
        return in_ext(t[1]) and all(in_ext(a) for a in t[2])
    if k == 'callnamed':
        return in_ext(t[1]) and len(t[2]) >= 1 and all(in_ext(a) for _, a in t[2])
    if k == 'for':
        return all(all(in_ext(x) for x in d[1:]) for d in t[1]) and in_ext(t[2])
    if k in ('some', 'every'):
        return all(in_ext(d) for _, d in t[1]) and in_ext(t[2])
    if k == 'fun':
        return in_ext(t[2])
    if k == 'list':
        return all(in_ext(a) for a in t[1])
    if k == 'ctx':
        return all((not strkey) and in_ext(v) for _, strkey, v in t[1])
    if k == 'range':
        return t[2].get('k') != 'negnum' and t[3].get('k') != 'negnum'
    return False


class ExtIds:
    """Atoms, names and types of one tree <-> numbers of the Coq tree."""

    def __init__(self, m):
        self.m = m
        self.atoms, self.names, self.types = [], [], []

    def atom(self, a):
        self.atoms.append(a)
        return len(self.atoms) - 1

    def name(self, n):
        if n not in self.names:
            self.names.append(n)
        return self.names.index(n)

    def typ(self, ty):
        if ty not in self.types:
            self.types.append(ty)
        return self.types.index(ty)

    def coq(self, t):
        k = t[0]
        c = self.coq
        if k == 'atom':
            return '(EAtom %d)' % self.atom(t[1])
        if k == 'bin':
            return '(EBin %s %s %s)' % (t[1], c(t[2]), c(t[3]))
        if k == 'neg':
            return '(ENeg %s)' % c(t[1])
        if k == 'btw':
            return '(EBtw %s %s %s)' % (c(t[1]), c(t[2]), c(t[3]))
        if k == 'inst':
            return '(EInst %s %d)' % (c(t[1]), self.typ(t[2]))
        if k == 'path':
            return '(EPath %s %d)' % (c(t[1]), self.name(t[2]))
        if k == 'filt':
            return '(EFilt %s %s)' % (c(t[1]), c(t[2]))
        if k == 'call':
            return '(ECall %s [%s])' % (c(t[1]), '; '.join(c(a) for a in t[2]))
        if k == 'callnamed':
            kv = ['(%d, %s)' % (self.name(n), c(a)) for n, a in t[2]]
            return '(ECallN %s %s [%s])' % (c(t[1]), kv[0], '; '.join(kv[1:]))
        if k == 'if':
            return '(EIf %s %s %s)' % (c(t[1]), c(t[2]), c(t[3]))
        if k == 'for':
            ds = ['(%d, %s, %s)' % (self.name(d[0]), c(d[1]), ('Some %s' % c(d[2])) if len(d) == 3 else 'None') for d in t[1]]
            return '(EFor %s [%s] %s)' % (ds[0], '; '.join(ds[1:]), c(t[2]))
        if k in ('some', 'every'):
            ds = ['(%d, %s)' % (self.name(v), c(d)) for v, d in t[1]]
            return '(EQuant %s %s [%s] %s)' % ('QSome' if k == 'some' else 'QEvery', ds[0], '; '.join(ds[1:]), c(t[2]))
        if k == 'fun':
            ps = ['(%d, %s)' % (self.name(p), ('Some %d' % self.typ(ty)) if ty else 'None') for p, ty in t[1]]
            return '(EFun [%s] %s)' % ('; '.join(ps), c(t[2]))
        if k == 'list':
            return '(EList [%s])' % '; '.join(c(a) for a in t[1])
        if k == 'ctx':
            return '(ECtx [%s])' % '; '.join('(%d, %s)' % (self.name(key), c(v)) for key, _, v in t[1])
        if k == 'range':
            return '(ERange %s %d %d %s)' % (ROPEN[t[1]], self.atom(t[2]), self.atom(t[3]), RCLOSE[t[4]])
        raise ValueError(k)

    # ---- Coq token -> renderer tokens (text, flag) of props/c06.py
    def token_text(self, tok):
        m = self.m
        n = tok.name
        if n == 'XAtom':
            return [(self.atoms[tok.args[0]]['text'], 'atom')]
        if n == 'XOp':
            o = tok.args[0].name
            return [(m.OPTEXT[o], 'kw' if m.OPTEXT[o] in m.KEYWORDS else '')]
        if n in SYMTOK:
            return [(SYMTOK[n], '')]
        if n == 'XBetween':
            return [('between', 'kw')]
        if n == 'XBand':
            return [('and', 'kwband')]
        if n == 'XInst':
            return [('instance', 'kw'), ('of', 'kw'), (self.types[tok.args[0]][0], 'atom')]
        if n == 'XDot':
            return [('.', ''), (self.names[tok.args[0]], 'atom')]
        if n == 'XKey':
            return [(self.names[tok.args[0]], 'bind'), (':', '')]
        if n == 'XBind':
            return [(self.names[tok.args[0]], 'bind'), ('in', 'kw')]
        if n == 'XPar':
            out = [(self.names[tok.args[0]], 'bind')]
            ty = tok.args[1]
            if isinstance(ty, App) and ty.name == 'Some':
                out += [(':', ''), (self.types[ty.args[0]][0], 'atom')]
            return out
        if n in KWTOK:
            return [(KWTOK[n], 'kw')]
        if n == 'XFun':
            return [('function', 'nolayout')]
        raise ValueError(n)

    def endpoint_ast(self, i):
        a = self.atoms[i]
        if a['ast'][0] == 'Name':
            return ['QualifiedName', ['QualifiedNameSegment', a['ast'][1]]]
        return a['ast']

    def expr_ast(self, i):
        a = self.atoms[i]
        if a['ast'][0] == 'QualifiedName':
            return ['Name', a['ast'][1][1]]
        return a['ast']

    # ---- Coq tree -> the JSON tree of dv ast
    def tree_ast(self, c):
        m = self.m
        n = c.name
        f = self.tree_ast
        if n == 'EAtom':
            return self.expr_ast(c.args[0])
        if n == 'EBin':
            return [m.ASTOP[c.args[0].name], f(c.args[1]), f(c.args[2])]
        if n == 'ENeg':
            return ['Neg', f(c.args[0])]
        if n == 'EBtw':
            return ['Between'] + [f(x) for x in c.args]
        if n == 'EInst':
            return ['InstanceOf', f(c.args[0]), self.types[c.args[1]][1]]
        if n == 'EPath':
            return ['Path', f(c.args[0]), ['Name', self.names[c.args[1]]]]
        if n == 'EFilt':
            return ['Filter', f(c.args[0]), f(c.args[1])]
        if n == 'ECall':
            return ['FunctionInvocation', f(c.args[0]), ['PositionalParameters'] + [f(a) for a in c.args[1]]]
        if n == 'ECallN':
            kvs = [c.args[1]] + list(c.args[2])
            return ['FunctionInvocation', f(c.args[0]), ['NamedParameters'] + [['NamedParameter', ['ParameterName', self.names[k]], f(e)] for k, e in kvs]]
        if n == 'EIf':
            return ['If', f(c.args[0]), f(c.args[1]), f(c.args[2])]
        if n == 'EFor':
            ics = []
            for v, e, hi in [c.args[0]] + list(c.args[1]):
                if isinstance(hi, App) and hi.name == 'Some':
                    ics.append(['IterationContextRange', ['Name', self.names[v]], f(e), f(hi.args[0])])
                else:
                    ics.append(['IterationContextSingle', ['Name', self.names[v]], f(e)])
            return ['For', ['IterationContexts'] + ics, ['EvaluatedExpression', f(c.args[2])]]
        if n == 'EQuant':
            q = c.args[0].name
            qs = [['QuantifiedContext', ['Name', self.names[v]], f(e)] for v, e in [c.args[1]] + list(c.args[2])]
            return ['Some' if q == 'QSome' else 'Every', ['QuantifiedContexts'] + qs, ['Satisfies', f(c.args[3])]]
        if n == 'EFun':
            ps = []
            for p, ty in c.args[0]:
                tya = self.types[ty.args[0]][1] if (isinstance(ty, App) and ty.name == 'Some') else ['FeelType', 'Any']
                ps.append(['FormalParameter', ['ParameterName', self.names[p]], tya])
            return ['FunctionDefinition', ['FormalParameters'] + ps, ['FunctionBody', f(c.args[1]), False]]
        if n == 'EList':
            return ['List'] + [f(x) for x in c.args[0]]
        if n == 'ECtx':
            return ['Context'] + [['ContextEntry', ['ContextEntryKey', self.names[k]], f(v)] for k, v in c.args[0]]
        if n == 'ERange':
            return ['Range', ['IntervalStart', self.endpoint_ast(c.args[1]), c.args[0].name == 'RoB'],
                    ['IntervalEnd', self.endpoint_ast(c.args[2]), c.args[3].name == 'RcB']]
        raise ValueError(n)


def opt_tree(ids, c):
    if isinstance(c, App) and c.name == 'Some':
        return ids.tree_ast(c.args[0])
    return None


def lexical_class(coq_toks, text_toks, m):
    """Token lists outside the lexical assumptions of the Spec level (the text, not the grammar, decides): skipped, counted."""
    flag = False
    for tk in coq_toks:
        if tk.name == 'XBetween':
            flag = True
        elif tk.name == 'XBand':
            if not flag:
                return 'between-lower-bound-and'      # a between inside the lower bound of a between: its `and` clears the flag for the outer one
            flag = False
        elif tk.name == 'XOp' and tk.args[0].name == 'And' and flag:
            return 'between-lower-bound-and'
    for a, b in zip(coq_toks, coq_toks[1:]):
        if a.name == 'XInst' and b.name == 'XDot':
            return 'type-then-dot'            # `x instance of T . n`: `T . n` is read as a qualified type name (assumption of props/c06.py)
        if a.name == 'XFun' and b.name != 'XLp':
            return 'function-without-paren'   # the keyword is recognised only in front of `(` (assumption of props/c06.py); else it begins a name
    if m.bracket_path3(text_toks):
        return 'bracket-three-segment-path'
    return None


# ------------------------------------------------------------------------------------------------ trees

def systematic(m, rng):
    nm = lambda s: ('atom', {'k': 'name', 'text': s, 'ast': ['Name', s]})
    num = lambda s: ('atom', {'k': 'num', 'text': s, 'ast': ['Numeric', s, '']})
    ep = lambda s: {'k': 'name', 'text': s, 'ast': ['QualifiedName', ['QualifiedNameSegment', s]]}
    a, b, c, x, y = nm('a'), nm('b'), nm('c'), nm('x'), nm('y')
    one, two = num('1'), num('2')
    i, j = nm('i'), nm('j')
    lows = [
        lambda: ('if', a, b, ('bin', 'Add', c, one)),
        lambda: ('for', [('i', x)], ('bin', 'Mul', i, two)),
        lambda: ('for', [('i', one, two), ('j', ('list', [a, b]))], ('bin', 'Add', i, j)),
        lambda: ('some', [('i', x)], ('bin', 'Lt', i, one)),
        lambda: ('every', [('i', x), ('j', y)], ('bin', 'Eq', i, j)),
        lambda: ('fun', [('i', None), ('j', m.TYPES[0])], ('bin', 'Sub', i, j)),
        lambda: ('fun', [], one),
    ]
    out = []
    for mk in lows:
        L = mk()
        for o in m.BINOPS:
            out.append(('bin', o, L, a))
            out.append(('bin', o, a, L))
        out += [('neg', L), ('btw', L, a, b), ('btw', a, L, b), ('btw', a, b, L), ('inst', L, m.TYPES[0]), ('path', L, 'y'), ('filt', L, one), ('filt', a, L),
                ('call', L, [one]), ('call', L, []), ('call', a, [L]), ('call', a, [one, L, two]), ('callnamed', a, [('p', L), ('n', one)]), ('list', [L]), ('list', [one, L]),
                ('ctx', [('k1', False, L), ('k2', False, one)]), ('if', L, a, b), ('if', a, L, b), ('if', a, b, L),
                ('for', [('k', L)], a), ('for', [('k', L, one)], a), ('for', [('k', one, L)], a), ('for', [('k', a)], L),
                ('some', [('k', L)], a), ('every', [('k', a)], L), ('fun', [('k', None)], L),
                # an open construct on the right edge of a left operand
                ('bin', 'Add', ('bin', 'Mul', a, L), b), ('bin', 'Mul', ('bin', 'Add', a, L), b), ('bin', 'Sub', ('neg', L), b), ('bin', 'Exp', ('neg', L), b),
                ('bin', 'Or', ('btw', a, b, L), c), ('path', ('bin', 'Add', a, L), 'y'), ('btw', ('bin', 'Add', a, L), b, c),
                ('bin', 'And', ('bin', 'Or', a, ('bin', 'Add', b, L)), c), ('neg', ('neg', L)), ('bin', 'Add', a, ('bin', 'Mul', b, L))]
    for ro in ROPEN:
        for rc_ in RCLOSE:
            R = ('range', ro, ep('a'), {'k': 'num', 'text': '7', 'ast': ['Numeric', '7', '']}, rc_)
            out += [R, ('bin', 'InOp', x, R), ('list', [R]), ('list', [R, one]), ('call', a, [R]), ('filt', a, R), ('filt', R, one), ('call', R, [one]), ('bin', 'Add', R, one),
                    ('for', [('k', R)], a), ('ctx', [('k1', False, R)]), ('if', R, R, R), ('neg', R), ('bin', 'Mul', ('bin', 'Add', one, R), two)]
    out += [('list', []), ('ctx', []), ('call', ('list', []), []), ('filt', ('list', []), one), ('bin', 'Add', ('list', []), ('ctx', [])), ('path', ('ctx', [('k1', False, one)]), 'y'),
            ('call', a, [('list', []), ('ctx', [])]), ('callnamed', ('call', a, []), [('p', ('callnamed', b, [('n', one)]))]), ('list', [('list', [('list', [])])])]
    return out


def ext_section(ctx, m):
    rng = ctx.rng
    trees = systematic(m, rng)
    want = ctx.pick(350, 5000)
    tries = 0
    while len(trees) < len(systematic(m, rng)) + want and tries < 40 * want:
        tries += 1
        t = m.gen_tree(rng, rng.choice([2, 3, 3, 4, 4, 5]), list(m.NAMES))
        if t[0] != 'atom' and in_ext(t) and any(n[0] in ('if', 'for', 'some', 'every', 'fun', 'list', 'ctx', 'range', 'callnamed') or (n[0] == 'call' and len(n[2]) != 1)
                                                for n in m.all_nodes(t)):
            trees.append(t)
    owners, terms = [], []
    for t in trees:
        ids = ExtIds(m)
        terms.append('ext_case %s' % ids.coq(t))
        owners.append((t, ids))
    model = ctx.run_model(HEADER_EXT, terms, shard_size=30, tag='ext')
    cases = []
    skipped = {}
    model_failures = 0
    for (t, ids), res in zip(owners, model):
        rmin, rfull, pmin, pfull, drops = res
        exp = m.expected(t)
        if opt_tree(ids, pmin) != exp or opt_tree(ids, pfull) != exp:
            model_failures += 1
            ctx.broken.append('extended Spec parser does not give back the tree %s (C06_roundtrip_*_ext is proved: stale build?)' % json.dumps(exp)[:300])
        for rend, cts, mdl in [('min', rmin, exp), ('full', rfull, exp)] + [('drop', dts, opt_tree(ids, dres)) for dts, dres in drops]:
            toks = []
            for tk in cts:
                toks += ids.token_text(tk)
            cls = lexical_class(cts, toks, m)
            if cls:
                skipped[cls] = skipped.get(cls, 0) + 1
                continue
            st = rng.choice(['tight', 'plain', 'ws', 'comments', 'comments2']) if rend != 'drop' else rng.choice(['tight', 'plain', 'ws'])
            cases.append({'tree': t, 'rend': rend, 'toks': toks, 'text': m.layout(toks, rng, st), 'style': st, 'expected': exp, 'model': mdl})
    impl = ctx.run_impl('ast', [{'bind': m.BIND, 'e': c['text'], 'mode': 'expr'} for c in cases])
    hist = {}
    fails = []
    for c, got in zip(cases, impl):
        ctx.evaluations += 1
        ctx.corr_checked += 1
        ctx.nontrivial.add(c['text'])
        hist[c['rend']] = hist.get(c['rend'], 0) + 1
        ast = got.get('ast')
        if 'panic' in got or 'crash' in got:
            fails.append((c, got, 'the parser panicked: %s' % json.dumps(got)[:200]))
        elif c['rend'] == 'drop':
            if ast != c['model']:
                fails.append((c, got, 'with one needed pair of parentheses removed the parser gives %s, precedence and associativity (extended Spec) dictate %s'
                              % (json.dumps(ast if ast is not None else got.get('err')), json.dumps(c['model']) if c['model'] else 'a syntax error')))
            elif ast == c['expected']:
                fails.append((c, got, 'a needed pair of parentheses was removed and the parser still builds the same tree'))
        elif ast != c['expected']:
            fails.append((c, got, 'the parser gives %s for the %s rendering (extended Spec renderer) of the tree %s'
                          % (json.dumps(ast if ast is not None else got.get('err')), c['rend'], json.dumps(c['expected']))))
    for c, got, why in sorted(fails, key=lambda f: len(f[0]['text']))[:6]:
        ctx.violation('input `%s`: %s' % (c['text'], why), {'text': c['text'], 'mode': 'expr', 'rend': c['rend'], 'expected': c['expected'], 'model': c['model'] if c['rend'] == 'drop' else 'n/a',
                                                          'kind': 'ext', 'names_in_scope': m.NAMES}, impl=got)
    return {'ext_spec_trees': len(owners), 'ext_spec_renderings': hist, 'ext_spec_skipped_lexical': skipped, 'ext_spec_model_failures': model_failures,
            'ext_spec_disagreements': len(fails)}
