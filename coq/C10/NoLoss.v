(* C10 — consequences of the layout of the collected parts (C10/Layout.v): the gaps are white space, the parts do not overlap,
   and after the lexer has chosen a prefix of k parts the consumed text followed by the rest is the input.
   Owner: prover-C10. *)
From Coq Require Import List NArith Bool Arith Lia.
From DV Require Import C10.Model C10.Proofs C10.Backtrack C10.NormalForm C10.Layout.
Import ListNotations.

(* ------------------------------------------------------------------ list facts *)

Lemma nth_firstn_lt : forall (l : str) n j, j < n -> nth j (firstn n l) 0%N = nth j l 0%N.
Proof.
  induction l as [|x l IH]; intros n j Hj; [rewrite firstn_nil; reflexivity|].
  destruct n as [|n]; [lia|]. destruct j as [|j]; [reflexivity|]. cbn [firstn nth]. apply IH. lia.
Qed.

Lemma weave_firstn_S : forall gs ps k, length gs = length ps -> k < length ps ->
  weave (firstn (S k) gs) (firstn (S k) ps) = weave (firstn k gs) (firstn k ps) ++ nth k gs [] ++ nth k ps [].
Proof.
  induction gs as [|g gs IH]; intros ps k Hl Hk; destruct ps as [|p ps]; try discriminate Hl; [cbn in Hk; lia|].
  destruct k as [|k].
  - cbn. rewrite !app_nil_r. reflexivity.
  - change (firstn (S (S k)) (g :: gs)) with (g :: firstn (S k) gs). change (firstn (S (S k)) (p :: ps)) with (p :: firstn (S k) ps).
    change (firstn (S k) (g :: gs)) with (g :: firstn k gs). change (firstn (S k) (p :: ps)) with (p :: firstn k ps).
    cbn [weave nth]. rewrite IH by (cbn [length] in *; lia). rewrite <- !app_assoc. reflexivity.
Qed.

Lemma weave_split : forall k gs ps, weave gs ps = weave (firstn k gs) (firstn k ps) ++ weave (skipn k gs) (skipn k ps).
Proof.
  induction k as [|k IH]; intros gs ps; [reflexivity|].
  destruct gs as [|g gs]; [reflexivity|]. destruct ps as [|p ps]; [cbn; destruct (skipn k gs); reflexivity|].
  cbn [firstn skipn weave]. rewrite (IH gs ps). rewrite <- !app_assoc. reflexivity.
Qed.

Lemma Forall_firstn : forall A (P : A -> Prop) k l, Forall P l -> Forall P (firstn k l).
Proof.
  intros A P k l H. rewrite Forall_forall in *. intros x Hx. apply H. rewrite <- (firstn_skipn k l). apply in_or_app. left. exact Hx.
Qed.

Lemma hd_firstn : forall (gs : list str) k, 1 <= k -> hd [] (firstn k gs) = hd [] gs.
Proof. intros gs k Hk. destruct k; [lia|]. destruct gs; reflexivity. Qed.

(* ------------------------------------------------------------------ the consumed text up to the end of part k *)

(* the input up to the recorded end of part k is: what stood before the name, then the first k parts, each preceded by its
   white-space gap (the first gap is empty) *)
Theorem prefix_cover : forall inp pos parts cps endpos,
  pos < length inp -> collect inp pos = (parts, cps, endpos) ->
  exists gaps, layout inp pos parts gaps cps /\
    forall k, 1 <= k <= length parts ->
      S (nth (k - 1) cps 0) <= endpos /\ endpos <= length inp /\
      firstn (S (nth (k - 1) cps 0)) inp = firstn pos inp ++ weave (firstn k gaps) (firstn k parts).
Proof.
  intros inp pos parts cps endpos Hpos Hc.
  destruct (collect_layout _ _ _ _ _ Hpos Hc) as (gaps & tail & HL & Htail & Hlen & Hend & Hcov).
  exists gaps. split; [exact HL|]. intros k Hk.
  pose proof (lo_pos _ _ _ _ _ HL k Hk) as He.
  rewrite (weave_split k gaps parts) in Hcov.
  set (W := weave (firstn k gaps) (firstn k parts)) in *.
  set (R := weave (skipn k gaps) (skipn k parts)) in *.
  assert (Hle : S (nth (k - 1) cps 0) <= endpos).
  { apply (f_equal (@length N)) in Hcov. rewrite !app_length, !firstn_length in Hcov. lia. }
  split; [exact Hle|]. split; [exact Hend|].
  apply (f_equal (firstn (S (nth (k - 1) cps 0)))) in Hcov. rewrite firstn_firstn in Hcov.
  rewrite Nat.min_l in Hcov by exact Hle. rewrite Hcov.
  replace (firstn pos inp ++ (W ++ R) ++ tail) with ((firstn pos inp ++ W) ++ (R ++ tail)) by (rewrite <- !app_assoc; reflexivity).
  assert (Hlen' : S (nth (k - 1) cps 0) = length (firstn pos inp ++ W)).
  { rewrite app_length, firstn_length. lia. }
  rewrite Hlen'. rewrite firstn_app, Nat.sub_diag, firstn_all. cbn [firstn]. apply app_nil_r.
Qed.

(* ------------------------------------------------------------------ fact 2: the parts do not overlap *)

(* part i+1 begins after the end of part i and is not empty: the recorded positions strictly increase; the first part begins
   at the start position *)
Theorem parts_disjoint : forall inp pos parts cps endpos,
  pos < length inp -> collect inp pos = (parts, cps, endpos) ->
  S (nth 0 cps 0) = pos + length (nth 0 parts []) /\
  forall i, S i < length parts ->
    1 <= length (nth (S i) parts []) /\
    nth i cps 0 + length (nth (S i) parts []) <= nth (S i) cps 0 /\
    nth i cps 0 < nth (S i) cps 0.
Proof.
  intros inp pos parts cps endpos Hpos Hc.
  destruct (collect_layout _ _ _ _ _ Hpos Hc) as (gaps & tail & HL & _ & Hlen & _ & _).
  destruct HL as [L1 L2 L3 L4 L5 L6]. split.
  - specialize (L6 1 (conj (le_n 1) Hlen)). cbn [Nat.sub] in L6. rewrite L6.
    destruct parts as [|p ps]; [cbn in Hlen; lia|]. destruct gaps as [|g gs]; [discriminate L1|].
    cbn [hd] in L3. subst g. cbn. rewrite app_nil_r. reflexivity.
  - intros i Hi.
    pose proof (L6 (S i) ltac:(lia)) as E1. pose proof (L6 (S (S i)) ltac:(lia)) as E2.
    rewrite (weave_firstn_S gaps parts (S i) L1 Hi) in E2. rewrite !app_length in E2.
    replace (S i - 1) with i in E1 by lia. replace (S (S i) - 1) with (S i) in E2 by lia.
    assert (Hne : nth (S i) parts [] <> []).
    { rewrite Forall_forall in L5. apply L5. apply nth_In. exact Hi. }
    assert (1 <= length (nth (S i) parts [])) by (destruct (nth (S i) parts []); [contradiction|cbn; lia]).
    lia.
Qed.

(* ------------------------------------------------------------------ fact 1: the gaps are white space *)

(* every input position strictly between the end of part i and the beginning of part i+1 holds a white-space character *)
Theorem gaps_whitespace : forall inp pos parts cps endpos,
  pos < length inp -> collect inp pos = (parts, cps, endpos) ->
  forall i, S i < length parts ->
  forall j, nth i cps 0 < j -> j + length (nth (S i) parts []) <= nth (S i) cps 0 ->
    j < length inp /\ is_ws (ch inp j) = true.
Proof.
  intros inp pos parts cps endpos Hpos Hc i Hi j Hj1 Hj2.
  destruct (prefix_cover _ _ _ _ _ Hpos Hc) as (gaps & HL & Hk).
  destruct (Hk (S (S i)) ltac:(lia)) as (Hle & Hend & Hcov).
  pose proof (lo_pos _ _ _ _ _ HL (S i) ltac:(lia)) as E1.
  pose proof (lo_pos _ _ _ _ _ HL (S (S i)) ltac:(lia)) as E2.
  pose proof (lo_gaps _ _ _ _ _ HL) as L1.
  rewrite (weave_firstn_S gaps parts (S i) L1 Hi) in E2, Hcov. rewrite !app_length in E2.
  replace (S i - 1) with i in * by lia. replace (S (S i) - 1) with (S i) in * by lia.
  split; [lia|]. unfold ch. rewrite <- (nth_firstn_lt inp (S (nth (S i) cps 0)) j) by lia. rewrite Hcov.
  set (W := weave (firstn (S i) gaps) (firstn (S i) parts)) in *.
  rewrite app_assoc. rewrite app_nth2 by (rewrite app_length, firstn_length; lia).
  rewrite app_nth1 by (rewrite app_length, firstn_length; lia).
  assert (Hg : all_ws (nth (S i) gaps [])).
  { pose proof (lo_ws _ _ _ _ _ HL) as Hws. rewrite Forall_forall in Hws. apply Hws. apply nth_In. lia. }
  unfold all_ws in Hg. rewrite Forall_forall in Hg. apply Hg. apply nth_In. rewrite app_length, firstn_length. lia.
Qed.

(* ------------------------------------------------------------------ no character lost, none duplicated *)

(* after a prefix of k parts has been chosen: consumed ++ rest = input, where consumed (the input up to the recorded end of
   part k) is the text before the name followed by exactly the k chosen parts in order, separated by white space only, and
   rest is the input from the position the lexer goes back to *)
Theorem backtrack_no_loss : forall inp pos parts cps endpos,
  pos < length inp -> collect inp pos = (parts, cps, endpos) ->
  forall k, 1 <= k <= length parts ->
  exists gaps, length gaps = k /\ hd [] gaps = [] /\ Forall all_ws gaps /\
    firstn (S (nth (k - 1) cps 0)) inp = firstn pos inp ++ weave gaps (firstn k parts) /\
    (firstn pos inp ++ weave gaps (firstn k parts)) ++ skipn (S (nth (k - 1) cps 0)) inp = inp.
Proof.
  intros inp pos parts cps endpos Hpos Hc k Hk.
  destruct (prefix_cover _ _ _ _ _ Hpos Hc) as (gaps & HL & Hcov).
  destruct (Hcov k Hk) as (_ & _ & Hf).
  exists (firstn k gaps). split.
  - rewrite firstn_length, (lo_gaps _ _ _ _ _ HL). lia.
  - split; [rewrite hd_firstn by lia; exact (lo_first _ _ _ _ _ HL)|].
    split; [apply Forall_firstn; exact (lo_ws _ _ _ _ _ HL)|]. split; [exact Hf|].
    rewrite <- Hf. apply firstn_skipn.
Qed.

(* the same, read on the characters: the non-space characters of the consumed text are the characters of the chosen parts *)
Definition non_ws (c : N) : bool := negb (is_ws c).

Lemma filter_all_ws : forall g, all_ws g -> filter non_ws g = [].
Proof.
  induction g as [|c g IH]; intro H; [reflexivity|]. inversion H; subst. cbn [filter]. unfold non_ws at 1. rewrite H2. cbn. apply IH. exact H3.
Qed.

Lemma filter_weave : forall gs ps, length gs = length ps -> Forall all_ws gs -> filter non_ws (weave gs ps) = filter non_ws (concat ps).
Proof.
  induction gs as [|g gs IH]; intros ps Hl Hg; destruct ps as [|p ps]; try discriminate Hl; [reflexivity|].
  inversion Hg; subst. cbn [weave concat]. rewrite !filter_app. rewrite filter_all_ws by assumption. cbn [app].
  rewrite IH by (cbn in Hl; try lia; assumption). reflexivity.
Qed.

Theorem nonspace_preserved : forall inp pos parts cps endpos,
  pos < length inp -> collect inp pos = (parts, cps, endpos) ->
  forall k, 1 <= k <= length parts ->
    filter non_ws (skipn pos (firstn (S (nth (k - 1) cps 0)) inp)) = filter non_ws (concat (firstn k parts)).
Proof.
  intros inp pos parts cps endpos Hpos Hc k Hk.
  destruct (backtrack_no_loss _ _ _ _ _ Hpos Hc k Hk) as (gaps & Hl & _ & Hws & Hf & _).
  rewrite Hf. rewrite skipn_app. rewrite firstn_length, Nat.min_l by lia. rewrite Nat.sub_diag. cbn [skipn].
  rewrite skipn_all2 by (rewrite firstn_length; lia). cbn [app].
  apply filter_weave; [|exact Hws]. rewrite firstn_length, Nat.min_l by lia. exact Hl.
Qed.

(* ------------------------------------------------------------------ the token of lex_name, every case *)

Lemma str_eqb_refl : forall a, str_eqb a a = true.
Proof. induction a as [|x a IH]; [reflexivity|]. cbn. rewrite N.eqb_refl, IH. reflexivity. Qed.

Lemma index_of_some : forall p ps i0 i, index_of p ps i0 = Some i -> i0 <= i /\ i - i0 < length ps.
Proof.
  intros p. induction ps as [|x ps IH]; intros i0 i H; [discriminate H|].
  cbn [index_of] in H. destruct (str_eqb x p).
  - inversion H; subst. cbn [length]. lia.
  - destruct (IH _ _ H) as [H1 H2]. cbn [length]. lia.
Qed.

(* Name::new trims the part; the word `item` has nothing to trim *)
Lemma name_new_item : name_new [str_item] = str_item.
Proof. reflexivity. Qed.

(* whatever the scope and the flag: the token is the normal form of a prefix of k >= 1 collected parts; the lexer resumes right
   after part k, except when no prefix is bound: then the token is the whole candidate and the lexer resumes where the
   collector stopped.  The repaired lexer has no crash outcome. *)
Theorem lex_name_shape : forall keys till_in inp pos parts cps endpos,
  pos < length inp -> collect inp pos = (parts, cps, endpos) ->
  exists k, 1 <= k <= length parts /\
    (lex_name keys till_in inp pos = LName (name_new (firstn k parts)) (S (nth (k - 1) cps 0)) \/
     (k = length parts /\ (forall j, 1 <= j <= length parts -> ~ bound keys parts j) /\
      lex_name keys till_in inp pos = LName (name_new parts) endpos)).
Proof.
  intros keys till_in inp pos parts cps endpos Hpos Hc.
  destruct (collect_layout _ _ _ _ _ Hpos Hc) as (_ & _ & _ & _ & Hlen & _ & _).
  unfold lex_name, lex_name_gen. rewrite Hc.
  assert (Hreg : exists k, 1 <= k <= length parts /\
    (match search keys parts (length parts) with
     | Some pc => LName (name_new (firstn pc parts)) (S (nth (pc - 1) cps 0))
     | None => LName (name_new parts) endpos
     end = LName (name_new (firstn k parts)) (S (nth (k - 1) cps 0)) \/
     (k = length parts /\ (forall j, 1 <= j <= length parts -> ~ bound keys parts j) /\
      match search keys parts (length parts) with
      | Some pc => LName (name_new (firstn pc parts)) (S (nth (pc - 1) cps 0))
      | None => LName (name_new parts) endpos
      end = LName (name_new parts) endpos))).
  { destruct (search keys parts (length parts)) as [pc|] eqn:Es.
    - destruct (search_some _ _ _ _ Es) as [Hr _]. exists pc. split; [exact Hr|]. left. reflexivity.
    - exists (length parts). split; [lia|]. right. split; [reflexivity|]. split; [exact (search_none _ _ _ Es)|reflexivity]. }
  destruct parts as [|p0 ps]; [cbn in Hlen; lia|].
  destruct (str_eqb p0 str_item) eqn:Ei.
  - exists 1. split; [cbn [length]; lia|]. left. apply str_eqb_eq in Ei. subst p0. cbn [firstn Nat.sub]. rewrite name_new_item. reflexivity.
  - destruct till_in; [|exact Hreg].
    destruct (index_of str_in (p0 :: ps) 0) as [[|i]|] eqn:Ein; [exact Hreg| |exact Hreg].
    destruct (index_of_some _ _ _ _ Ein) as [_ Hi]. exists (S i). split; [lia|]. left.
    replace (S i - 1) with i by lia. reflexivity.
Qed.

Theorem lex_name_total : forall keys till_in inp pos, pos < length inp -> lex_name keys till_in inp pos <> LCrash.
Proof.
  intros keys till_in inp pos Hpos. destruct (collect inp pos) as [[parts cps] endpos] eqn:Hc.
  destruct (lex_name_shape keys till_in inp pos parts cps endpos Hpos Hc) as (k & _ & [H|(_ & _ & H)]); rewrite H; discriminate.
Qed.

(* every token: name ++ nothing lost.  The text between the start position and the position where the lexer resumes is the chosen
   parts in order, separated by white space only, followed by white space only (empty unless no prefix is bound) *)
Theorem lex_name_no_loss : forall keys till_in inp pos parts cps endpos n newpos,
  pos < length inp -> collect inp pos = (parts, cps, endpos) ->
  lex_name keys till_in inp pos = LName n newpos ->
  exists k gaps tail, 1 <= k <= length parts /\ n = name_new (firstn k parts) /\
    length gaps = k /\ hd [] gaps = [] /\ Forall all_ws gaps /\ all_ws tail /\
    (tail <> [] -> forall j, 1 <= j <= length parts -> ~ bound keys parts j) /\
    firstn newpos inp = firstn pos inp ++ weave gaps (firstn k parts) ++ tail /\
    (firstn pos inp ++ weave gaps (firstn k parts) ++ tail) ++ skipn newpos inp = inp.
Proof.
  intros keys till_in inp pos parts cps endpos n newpos Hpos Hc Hlex.
  destruct (lex_name_shape keys till_in inp pos parts cps endpos Hpos Hc) as (k & Hk & [H|(Hkl & Hnb & H)]); rewrite H in Hlex; inversion Hlex; subst n newpos; clear Hlex.
  - destruct (backtrack_no_loss _ _ _ _ _ Hpos Hc k Hk) as (gaps & Hl & Hh & Hws & Hf & Hall).
    exists k, gaps, []. rewrite !app_nil_r. repeat split; try assumption; try lia; try constructor. intro E; contradiction.
  - destruct (collect_layout _ _ _ _ _ Hpos Hc) as (gaps & tail & HL & Htail & Hlen & Hend & Hcov).
    exists k, gaps, tail. subst k. rewrite firstn_all.
    split; [lia|]. split; [reflexivity|]. split; [exact (lo_gaps _ _ _ _ _ HL)|]. split; [exact (lo_first _ _ _ _ _ HL)|].
    split; [exact (lo_ws _ _ _ _ _ HL)|]. split; [exact Htail|]. split; [intros _; exact Hnb|]. split; [exact Hcov|].
    rewrite <- Hcov. apply firstn_skipn.
Qed.

(* the statement of the design: when some prefix is bound (outside the two tweaks) the token is the longest bound prefix and the
   rest is the input right after it *)
Theorem longest_and_rest : forall keys inp pos parts cps endpos,
  pos < length inp -> collect inp pos = (parts, cps, endpos) ->
  (match parts with p :: _ => str_eqb p str_item | [] => false end) = false ->
  forall k, 1 <= k <= length parts -> bound keys parts k -> (forall j, k < j <= length parts -> ~ bound keys parts j) ->
  exists gaps, length gaps = k /\ hd [] gaps = [] /\ Forall all_ws gaps /\
    lex_name keys false inp pos = LName (name_new (firstn k parts)) (S (nth (k - 1) cps 0)) /\
    (firstn pos inp ++ weave gaps (firstn k parts)) ++ skipn (S (nth (k - 1) cps 0)) inp = inp.
Proof.
  intros keys inp pos parts cps endpos Hpos Hc Hitem k Hk Hb Hmax.
  destruct (backtrack_no_loss _ _ _ _ _ Hpos Hc k Hk) as (gaps & Hl & Hh & Hws & Hf & Hall).
  exists gaps. repeat split; try assumption.
  destruct (lex_name_longest keys inp pos parts cps endpos Hc Hitem) as [H _]. exact (H k Hk Hb Hmax).
Qed.

(* ------------------------------------------------------------------ C10_longest with the flag of for / some / every *)

(* the `for .. in` tweak only acts when the keyword `in` is a part after the first one; otherwise the flag changes nothing *)
Lemma lex_name_flag : forall keys till_in inp pos parts cps endpos,
  collect inp pos = (parts, cps, endpos) ->
  (till_in = false \/ index_of str_in parts 0 = None \/ index_of str_in parts 0 = Some 0) ->
  lex_name keys till_in inp pos = lex_name keys false inp pos.
Proof.
  intros keys till_in inp pos parts cps endpos Hc H. unfold lex_name, lex_name_gen. rewrite Hc.
  destruct (match parts with p :: _ => str_eqb p str_item | [] => false end); [reflexivity|].
  destruct till_in; [|reflexivity]. destruct H as [H|[H|H]]; [discriminate H|rewrite H; reflexivity|rewrite H; reflexivity].
Qed.

(* the three cases of the token: `item`, the variable before `in`, the longest bound prefix (else the whole candidate) *)
Theorem lex_name_cases : forall keys till_in inp pos parts cps endpos,
  collect inp pos = (parts, cps, endpos) ->
  ((match parts with p :: _ => str_eqb p str_item | [] => false end) = true ->
     lex_name keys till_in inp pos = LName str_item (S (nth 0 cps 0))) /\
  ((match parts with p :: _ => str_eqb p str_item | [] => false end) = false ->
     forall i, till_in = true -> index_of str_in parts 0 = Some (S i) ->
     lex_name keys till_in inp pos = LName (name_new (firstn (S i) parts)) (S (nth i cps 0))) /\
  ((match parts with p :: _ => str_eqb p str_item | [] => false end) = false ->
     (till_in = false \/ index_of str_in parts 0 = None \/ index_of str_in parts 0 = Some 0) ->
     (forall pc, 1 <= pc <= length parts -> bound keys parts pc ->
        (forall j, pc < j <= length parts -> ~ bound keys parts j) ->
        lex_name keys till_in inp pos = LName (name_new (firstn pc parts)) (S (nth (pc - 1) cps 0))) /\
     ((forall j, 1 <= j <= length parts -> ~ bound keys parts j) ->
        lex_name keys till_in inp pos = LName (name_new parts) endpos)).
Proof.
  intros keys till_in inp pos parts cps endpos Hc. split; [|split].
  - intro Hi. unfold lex_name, lex_name_gen. rewrite Hc, Hi. reflexivity.
  - intros Hi i Ht Hin. unfold lex_name, lex_name_gen. rewrite Hc, Hi. subst till_in. rewrite Hin. reflexivity.
  - intros Hi Hflag. rewrite (lex_name_flag keys till_in inp pos parts cps endpos Hc Hflag).
    exact (lex_name_longest keys inp pos parts cps endpos Hc Hi).
Qed.

(* ------------------------------------------------------------------ a witness: `ab  cd - ef + 1` with `ab` and `ab cd-ef` bound *)

Definition inp_three_words : str := [97; 98; 32; 32; 99; 100; 32; 45; 32; 101; 102; 32; 43; 32; 49]%N.
Definition key_ab : str := [97; 98]%N.
Definition key_ab_cd_ef : str := [97; 98; 32; 99; 100; 45; 101; 102]%N.
Definition parts_three_words : list str := [[97; 98]; [99; 100]; [45]; [101; 102]; [43]; [49]]%N.
Definition gaps_three_words : list str := [[]; [32; 32]; [32]; [32]]%N.

Lemma three_words_witness :
  collect inp_three_words 0 = (parts_three_words, [1; 5; 7; 10; 12; 14], 15) /\
  length inp_three_words = 15 /\
  mem (flatten_parts (firstn 1 parts_three_words)) [key_ab; key_ab_cd_ef] = true /\
  mem (flatten_parts (firstn 4 parts_three_words)) [key_ab; key_ab_cd_ef] = true /\
  forallb (fun j => negb (mem (flatten_parts (firstn j parts_three_words)) [key_ab; key_ab_cd_ef])) [2; 3; 5; 6] = true /\
  lex_name [key_ab; key_ab_cd_ef] false inp_three_words 0 = LName key_ab_cd_ef 11 /\
  (firstn 0 inp_three_words ++ weave gaps_three_words (firstn 4 parts_three_words)) ++ skipn 11 inp_three_words = inp_three_words /\
  forallb (forallb is_ws) gaps_three_words = true /\
  lex_all [key_ab; key_ab_cd_ef] inp_three_words = Some [KName key_ab_cd_ef; KSym 43; KNum [49%N]] /\
  lex_all [key_ab; [99; 100]%N; [101; 102]%N] inp_three_words = Some [KName key_ab; KName [99; 100]%N; KSym 45; KName [101; 102]%N; KSym 43; KNum [49%N]].
Proof. vm_compute. repeat split; reflexivity. Qed.
