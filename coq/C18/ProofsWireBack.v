(* C18 — the success answer of /tck/evaluate: its body is a well-formed JSON document of the shape
   {"data":{"value":<ValueDto>}}, and read back by a client (strict parse, DTO, conversion to a value) it gives the value
   the service evaluated: the whole way value -> DTO -> JSON text -> DTO -> value. *)
From Coq Require Import List NArith Bool Lia.
From DV Require Import C18.Model C18.Proofs C18.Service C18.Dto C18.ProofsDto C18.Wire C18.ProofsWire C18.WireBack.
Import ListNotations.
Open Scope N_scope.

(* ------------------------------------------------------------------ the DTO tree is made of well-formed texts *)
Lemma scalar_small c : c < 55296 -> scalar c = true.
Proof. intros H. unfold scalar. apply andb_true_iff. split; [apply N.leb_le; lia|].
  apply negb_true_iff. apply andb_false_iff. left. apply N.leb_gt. exact H. Qed.

Lemma wf_text_digits ds : forallb (fun d => d <? 10) ds = true -> wf_text (map dchar ds) = true.
Proof. induction ds as [|d ds IH]; cbn [forallb map wf_text]; [reflexivity|]. intros H. apply andb_true_iff in H.
  destruct H as [Hd Hr]. apply N.ltb_lt in Hd. apply andb_true_iff. split; [|exact (IH Hr)].
  apply scalar_small. unfold dchar. lia. Qed.

Lemma wf_text_render_num n : wf_num n = true -> wf_text (render_num n) = true.
Proof. intros H. unfold wf_num in H. apply andb_true_iff in H. destruct H as [H _]. apply andb_true_iff in H. destruct H as [Hi Hf].
  unfold render_num, wf_text. rewrite !forallb_app. apply andb_true_iff. split; [destruct (nneg n); reflexivity|].
  apply andb_true_iff. split; [exact (wf_text_digits _ Hi)|].
  unfold render_frac. destruct (nfrac n) as [|d ds] eqn:E; [reflexivity|]. cbn [forallb]. apply andb_true_iff.
  split; [reflexivity|]. exact (wf_text_digits (d :: ds) Hf). Qed.

Lemma wf_tyname0 t : wf_text (tyname0 t) = true.
Proof. unfold tyname0. repeat match goal with |- context [if ?c then _ else _] => destruct c end; reflexivity. Qed.

Lemma wf_simple ty tx : wf_text ty = true -> wf_text tx = true ->
  wf (dto_value (DSimple (Some ty) (Some tx) false)) = true /\ plain (dto_value (DSimple (Some ty) (Some tx) false)) = true.
Proof. intros H1 H2. split; [|reflexivity]. cbn [dto_value vdto opt_text wf forallb fst snd]. rewrite H1, H2. reflexivity. Qed.

Lemma wf_dto_value : forall v, wf v = true ->
  wf (dto_value (to_dto0 v)) = true /\ plain (dto_value (to_dto0 v)) = true.
Proof. unfold to_dto0.
  induction v as [|b|n|s|l IHl|es IHes|k0 d] using value_ind'; intros H.
  - split; reflexivity.
  - cbn [to_dto]. apply wf_simple; [apply wf_tyname0|destruct b; reflexivity].
  - cbn [to_dto]. apply wf_simple; [apply wf_tyname0|apply wf_text_render_num; exact H].
  - cbn [to_dto]. apply wf_simple; [apply wf_tyname0|exact H].
  - cbn [to_dto dto_value]. unfold vdto. cbn [wf] in H. rewrite forallb_forall in H. rewrite Forall_forall in IHl.
    assert (Hw : forallb wf (map dto_value (map (to_dto tyname0) l)) = true /\ forallb plain (map dto_value (map (to_dto tyname0) l)) = true).
    { split; apply forallb_forall; intros x Hx; apply in_map_iff in Hx; destruct Hx as [y [Ey Hy]];
        apply in_map_iff in Hy; destruct Hy as [z [Ez Hz]]; subst x y; apply (IHl z Hz (H z Hz)). }
    destruct Hw as [Hw Hp]. split.
    + cbn [wf forallb fst snd]. rewrite Hw. reflexivity.
    + cbn [plain forallb fst snd]. rewrite Hp. reflexivity.
  - cbn [to_dto dto_value]. unfold vdto. cbn [wf] in H. rewrite forallb_forall in H. rewrite Forall_forall in IHes.
    rewrite map_map. cbn [fst snd].
    set (f := fun x : text * value => VCtx [(k_name, opt_text (Some (fst x))); (k_value, dto_value (to_dto tyname0 (snd x))); (k_isnil, VBool false)]).
    assert (Hw : forallb wf (map f es) = true /\ forallb plain (map f es) = true).
    { split; apply forallb_forall; intros x Hx; apply in_map_iff in Hx; destruct Hx as [kv [Ey Hy]]; subst x;
        specialize (H kv Hy); apply andb_true_iff in H; destruct H as [Hk Hv]; destruct (IHes kv Hy Hv) as [I1 I2]; unfold f.
      - cbn [wf forallb fst snd opt_text]. rewrite Hk, I1. reflexivity.
      - cbn [plain forallb fst snd opt_text]. rewrite I2. reflexivity. }
    destruct Hw as [Hw Hp]. split.
    + cbn [wf forallb fst snd]. rewrite Hw. reflexivity.
    + cbn [plain forallb fst snd]. rewrite Hp. reflexivity.
  - cbn [to_dto]. destruct (xsd_of_kind k0) as [t|]; [|split; reflexivity]. apply wf_simple; [apply wf_tyname0|exact H].
Qed.

(* ------------------------------------------------------------------ the success body *)
(* {"data":{"value":V}} with V the ValueDto tree: strictly parsed it is an object with exactly the member data, holding an
   object with exactly the member value; decoded it is the DTO tree itself *)
Theorem tck_success_body : forall v, wf v = true ->
  json_parse (tck_body v) = Some (JObj [(k_data, JObj [(k_value, to_json (dto_value (to_dto0 v)))])]) /\
  json_decode (tck_body v) = Some (VCtx [(k_data, VCtx [(k_value, dto_value (to_dto0 v))])]).
Proof. intros v H. destruct (wf_dto_value v H) as [Hw Hp]. unfold tck_body.
  set (w := VCtx [(k_data, VCtx [(k_value, dto_value (to_dto0 v))])]).
  assert (Hww : wf w = true) by (unfold w; cbn [wf forallb fst snd]; rewrite Hw; reflexivity).
  assert (Hpw : plain w = true) by (unfold w; cbn [plain forallb fst snd]; rewrite Hp; reflexivity).
  split; [rewrite (compact_wellformed w Hww); reflexivity|exact (compact_roundtrip w Hww Hpw)]. Qed.

(* ------------------------------------------------------------------ reading the DTO tree back *)
Definition comp_dto (cv : value) : option (option text * option dto * bool) :=
  match cv with
  | VCtx [(n1, nmv); (n2, vv); (n3, VBool isn)] =>
    if text_eqb n1 k_name && text_eqb n2 k_value && text_eqb n3 k_isnil then
      match text_opt nmv with
      | Some nm' =>
        match vv with
        | VNull => Some (nm', None, isn)
        | _ => match value_dto vv with Some d => Some (nm', Some d, isn) | None => None end
        end
      | None => None
      end
    else None
  | _ => None
  end.

Lemma value_dto_list items isn :
  value_dto (vdto VNull VNull (VCtx [(k_items, VList items); (k_isnil, VBool isn)])) =
  match traverse value_dto items with Some l => Some (DList l isn) | None => None end.
Proof. reflexivity. Qed.

Lemma value_dto_components cs :
  value_dto (vdto VNull (VList cs) VNull) = match traverse comp_dto cs with Some l => Some (DComponents l) | None => None end.
Proof. reflexivity. Qed.

Lemma dto_value_ctx d : exists es, dto_value d = VCtx es.
Proof. destruct d; eexists; reflexivity. Qed.

Lemma comp_dto_back k d : value_dto (dto_value d) = Some d ->
  comp_dto (VCtx [(k_name, VStr k); (k_value, dto_value d); (k_isnil, VBool false)]) = Some (Some k, Some d, false).
Proof. intros H. destruct (dto_value_ctx d) as [es E]. unfold comp_dto.
  change (text_eqb k_name k_name && text_eqb k_value k_value && text_eqb k_isnil k_isnil) with true. cbv iota.
  cbn [text_opt]. rewrite E. rewrite <- E. rewrite H. reflexivity. Qed.

Theorem value_dto_back : forall v, value_dto (dto_value (to_dto0 v)) = Some (to_dto0 v).
Proof. unfold to_dto0.
  induction v as [|b|n|s|l IHl|es IHes|k0 d] using value_ind'.
  - reflexivity.
  - destruct b; reflexivity.
  - reflexivity.
  - reflexivity.
  - cbn [to_dto dto_value]. rewrite value_dto_list. rewrite map_map.
    rewrite (traverse_map_some value_dto (fun x => dto_value (to_dto tyname0 x)) (to_dto tyname0) l IHl). reflexivity.
  - cbn [to_dto dto_value]. rewrite value_dto_components. rewrite map_map.
    rewrite (traverse_map_some comp_dto _ (fun kv : text * value => (Some (fst kv), Some (to_dto tyname0 (snd kv)), false)) es).
    + reflexivity.
    + rewrite Forall_forall in IHes |- *. intros kv Hkv. cbn [fst snd opt_text]. apply comp_dto_back. exact (IHes kv Hkv).
  - cbn [to_dto]. destruct (xsd_of_kind k0) as [t|]; reflexivity.
Qed.

(* THE ROUND TRIP ON THE WIRE: a value with well-formed texts, contexts keyed in increasing order and leaves whose
   lexical form the readers of the service read back, written as the success body of /tck/evaluate, parsed strictly, read as a
   DTO and converted as the service converts its inputs, is the value *)
Theorem tck_wire_roundtrip : forall v, wf v = true -> tck_value v = true -> ok (fun x => leaf_ok x = true) (fun _ => True) v ->
  read_tck_answer (tck_body v) = Some v.
Proof. intros v Hw Ht Hok. unfold read_tck_answer. destruct (tck_success_body v Hw) as [_ E]. rewrite E.
  change (text_eqb k_data k_data && text_eqb k_value k_value) with true. cbv iota.
  rewrite value_dto_back. exact (tck_roundtrip0 v Ht Hok). Qed.

Example tck_wire_back_nonvacuous :
  let v := VCtx [([97], VList [VNum {| nneg := true; nint := [1; 0]; nfrac := [5; 0] |}; VStr [34; 92; 10; 128512]; VNull; VBool false; VList []]);
                 ([98; 32; 98], VOther 5 [80; 84; 49; 83]); ([99], VCtx [])] in
  wf v = true /\ tck_value v = true /\ read_tck_answer (tck_body v) = Some v /\
  read_tck_answer (tck_body (VNum {| nneg := false; nint := [0; 1]; nfrac := [] |})) = None.
Proof. vm_compute. repeat split; reflexivity. Qed.
