(* C16 — proofs about C16/Model.v: equivalence is an equivalence relation, conformance a preorder
   compatible with it, variance of the constructors, coercion yields a conforming value or null. *)
From Coq Require Import List NArith Bool Arith Lia.
From DV Require Import C16.Model.
Import ListNotations.

(* ---------- well-formedness: BTreeMap keys are unique ---------- *)
Fixpoint nodupb (l : list N) : bool :=
  match l with [] => true | x :: r => negb (existsb (N.eqb x) r) && nodupb r end.

Fixpoint wf (t : ftype) : bool :=
  match t with
  | TS _ => true
  | TList t | TRange t => wf t
  | TCtx es => nodupb (map fst es) && forallb (fun e => wf (snd e)) es
  | TFun ps r => forallb wf ps && wf r
  end.

Lemma nodupb_NoDup l : nodupb l = true -> NoDup l.
Proof. induction l as [|x r IH]; cbn [nodupb]; intros H; [constructor|].
  apply andb_true_iff in H. destruct H as [H1 H2]. constructor; [|apply IH; exact H2].
  intro Hin. apply negb_true_iff in H1. assert (existsb (N.eqb x) r = true); [|congruence].
  apply existsb_exists. exists x. split; [exact Hin | apply N.eqb_refl]. Qed.

(* ---------- sizes ---------- *)
Lemma size_pos t : 1 <= size t.
Proof. destruct t; cbn [size]; lia. Qed.

Lemma sum_in_ps p ps : In p ps -> size p <= fold_right (fun p n => size p + n) 0 ps.
Proof. induction ps as [|q ps IH]; cbn [In fold_right]; [tauto|]. intros [->|H]; [lia|]. specialize (IH H). lia. Qed.

Lemma sum_in_es (e : N * ftype) es : In e es -> size (snd e) <= fold_right (fun e n => size (snd e) + n) 0 es.
Proof. induction es as [|q es IH]; cbn [In fold_right]; [tauto|]. intros [->|H]; [lia|]. specialize (IH H). lia. Qed.

Lemma lookup_in k es t : lookup k es = Some t -> In (k, t) es.
Proof. induction es as [|[k' t'] es IH]; cbn [lookup]; [discriminate|].
  destruct (N.eqb_spec k k'); [intros [= ->]; subst; left; reflexivity | intros H; right; apply IH; exact H]. Qed.

Lemma lookup_size k es t : lookup k es = Some t -> size t <= fold_right (fun e n => size (snd e) + n) 0 es.
Proof. intros H. apply lookup_in in H. apply (sum_in_es (k, t)) in H. exact H. Qed.

Lemma lookup_none k es : lookup k es = None <-> ~ In k (map fst es).
Proof. induction es as [|[k' t'] es IH]; cbn [lookup map In fst]; [tauto|].
  destruct (N.eqb_spec k k'); [subst; split; [discriminate|tauto]|]. rewrite IH. intuition congruence. Qed.

Lemma in_lookup k t es : NoDup (map fst es) -> In (k, t) es -> lookup k es = Some t.
Proof. induction es as [|[k' t'] es IH]; cbn [lookup map In fst]; [tauto|]. intros Hnd H.
  inversion Hnd as [|x xs Hn Hnd']; subst. destruct H as [[= -> ->]|H].
  - rewrite N.eqb_refl. reflexivity.
  - destruct (N.eqb_spec k k'); [|apply IH; assumption]. subst. exfalso. apply Hn.
    apply in_map_iff. exists (k', t). split; [reflexivity|exact H]. Qed.

(* pigeonhole on key sets *)
Lemma keys_incl_sym (ea eb : list (N * ftype)) :
  NoDup (map fst ea) -> length ea = length eb ->
  (forall e, In e ea -> lookup (fst e) eb <> None) ->
  forall e', In e' eb -> exists ta, In (fst e', ta) ea.
Proof. intros Hna Hl Hf e' He'.
  assert (Hincl : incl (map fst ea) (map fst eb)).
  { intros k Hk. apply in_map_iff in Hk. destruct Hk as [e [<- He]]. specialize (Hf e He).
    destruct (lookup (fst e) eb) eqn:E; [|congruence]. apply lookup_in in E.
    apply in_map_iff. exists (fst e, f). split; [reflexivity|exact E]. }
  assert (Hincl' : incl (map fst eb) (map fst ea)).
  { apply NoDup_length_incl; [exact Hna | rewrite !map_length; lia | exact Hincl]. }
  assert (Hk : In (fst e') (map fst ea)) by (apply Hincl', in_map, He').
  apply in_map_iff in Hk. destruct Hk as [[k t] [Hk He]]. cbn [fst] in Hk. subst k. exists t. exact He. Qed.

(* ---------- list helpers ---------- *)
Lemma forallb_ext_in {A} (f g : A -> bool) l : (forall x, In x l -> f x = g x) -> forallb f l = forallb g l.
Proof. induction l as [|x l IH]; cbn [forallb]; intros H; [reflexivity|].
  rewrite (H x (or_introl eq_refl)), IH; [reflexivity|]. intros y Hy. apply H. right. exact Hy. Qed.

Lemma all2_ext_in (f g : ftype -> ftype -> bool) a : forall b,
  (forall x y, In x a -> In y b -> f x y = g x y) -> all2 f a b = all2 g a b.
Proof. induction a as [|x a IH]; intros [|y b] H; cbn [all2]; try reflexivity.
  rewrite (H x y (or_introl eq_refl) (or_introl eq_refl)), (IH b); [reflexivity|].
  intros x' y' Hx Hy. apply H; right; assumption. Qed.

Lemma all2_flip (f g : ftype -> ftype -> bool) a : forall b, length a = length b ->
  (forall x y, In x a -> In y b -> f x y = true -> g y x = true) -> all2 f a b = true -> all2 g b a = true.
Proof. induction a as [|x a IH]; intros [|y b] Hl H; cbn [all2 length] in *; try discriminate; try reflexivity.
  intros H2. apply andb_true_iff in H2. destruct H2 as [H2 H3]. apply andb_true_iff. split.
  - apply H; [left; reflexivity | left; reflexivity | exact H2].
  - apply IH; [lia | | exact H3]. intros x' y' Hx Hy. apply H; right; assumption. Qed.

Lemma all2_trans (f g h : ftype -> ftype -> bool) a : forall b c,
  (forall x y z, In x a -> In y b -> In z c -> f x y = true -> g y z = true -> h x z = true) ->
  all2 f a b = true -> all2 g b c = true -> all2 h a c = true.
Proof. induction a as [|x a IH]; intros [|y b] [|z c] H; cbn [all2]; try discriminate; try reflexivity.
  intros H1 H2. apply andb_true_iff in H1. apply andb_true_iff in H2. destruct H1 as [H1 H1'], H2 as [H2 H2'].
  apply andb_true_iff. split.
  - apply (H x y z); try (left; reflexivity); assumption.
  - apply (IH b c); try assumption. intros x' y' z' Hx Hy Hz. apply H; right; assumption. Qed.

Lemma all2_refl (f : ftype -> ftype -> bool) l : (forall x, In x l -> f x x = true) -> all2 f l l = true.
Proof. induction l as [|x l IH]; cbn [all2]; intros H; [reflexivity|].
  rewrite H by (left; reflexivity). apply IH. intros y Hy. apply H. right. exact Hy. Qed.

Lemma simple_eqb_eq a b : simple_eqb a b = true <-> a = b.
Proof. destruct a, b; cbn; split; intros H; try reflexivity; try discriminate. Qed.

(* ---------- fuel independence ---------- *)
Lemma equiv_fuel : forall f f' a b, size a + size b <= f -> size a + size b <= f' -> equiv f a b = equiv f' a b.
Proof. induction f as [|f IH]; intros f' a b H H'; [pose proof (size_pos a); lia|].
  destruct f' as [|f']; [pose proof (size_pos a); lia|].
  cbn [equiv]. destruct b as [sb|tb|tb|eb|pb rb], a as [sa|ta|ta|ea|pa ra]; try reflexivity; cbn [size] in H, H'.
  - apply IH; lia.
  - apply IH; lia.
  - f_equal. apply forallb_ext_in. intros e He. destruct (lookup (fst e) eb) eqn:E; [|reflexivity].
    pose proof (sum_in_es e ea He). pose proof (lookup_size _ _ _ E). apply IH; lia.
  - f_equal; [f_equal|].
    + apply all2_ext_in. intros x y Hx Hy. pose proof (sum_in_ps x pa Hx). pose proof (sum_in_ps y pb Hy). apply IH; lia.
    + apply IH; lia.
Qed.

Lemma conf_fuel : forall f f' a b, S (size a + size b) <= f -> S (size a + size b) <= f' -> conf f a b = conf f' a b.
Proof. induction f as [|f IH]; intros f' a b H H'; [lia|]. destruct f' as [|f']; [lia|].
  cbn [conf]. rewrite (equiv_fuel f f' a b) by lia. destruct (equiv f' a b); [reflexivity|].
  destruct a as [[]|ta|ta|ea|pa ra], b as [[]|tb|tb|eb|pb rb]; try reflexivity; cbn [size] in H, H'.
  - apply IH; lia.
  - apply IH; lia.
  - apply forallb_ext_in. intros e He. destruct (lookup (fst e) ea) eqn:E; [|reflexivity].
    pose proof (sum_in_es e eb He). pose proof (lookup_size _ _ _ E). apply IH; lia.
  - f_equal; [f_equal|].
    + apply all2_ext_in. intros x y Hx Hy. pose proof (sum_in_ps x pb Hx). pose proof (sum_in_ps y pa Hy). apply IH; lia.
    + apply IH; lia.
Qed.

(* ---------- parts of well-formed types ---------- *)
Lemma wf_ctx es : wf (TCtx es) = true -> NoDup (map fst es) /\ (forall e, In e es -> wf (snd e) = true).
Proof. cbn [wf]. intros H. apply andb_true_iff in H. destruct H as [H1 H2]. split; [apply nodupb_NoDup, H1|].
  rewrite forallb_forall in H2. exact H2. Qed.

Lemma wf_fun ps r : wf (TFun ps r) = true -> (forall p, In p ps -> wf p = true) /\ wf r = true.
Proof. cbn [wf]. intros H. apply andb_true_iff in H. destruct H as [H1 H2]. split; [|exact H2].
  rewrite forallb_forall in H1. exact H1. Qed.

Lemma wf_lookup k es t : wf (TCtx es) = true -> lookup k es = Some t -> wf t = true.
Proof. intros H E. apply wf_ctx in H. destruct H as [_ H]. apply lookup_in in E. exact (H (k, t) E). Qed.

(* ---------- equivalence is an equivalence relation ---------- *)
Lemma equiv_refl_f : forall f t, wf t = true -> size t + size t <= f -> equiv f t t = true.
Proof. induction f as [|f IH]; intros t Hw Hs; [pose proof (size_pos t); lia|].
  destruct t as [s|t|t|es|ps r]; cbn [equiv]; cbn [size] in Hs.
  - apply simple_eqb_eq. reflexivity.
  - apply IH; [exact Hw | lia].
  - apply IH; [exact Hw | lia].
  - rewrite Nat.eqb_refl. cbn [andb]. destruct (wf_ctx es Hw) as [Hnd Hwe].
    apply forallb_forall. intros [k t] He. cbn [fst snd]. rewrite (in_lookup k t es Hnd He).
    pose proof (sum_in_es (k, t) es He) as Hsz. cbn [snd] in Hsz. apply IH; [exact (Hwe (k, t) He) | lia].
  - rewrite Nat.eqb_refl. cbn [andb]. destruct (wf_fun ps r Hw) as [Hwp Hwr].
    rewrite all2_refl; [cbn [andb]; apply IH; [exact Hwr | lia]|].
    intros p Hp. pose proof (sum_in_ps p ps Hp). apply IH; [exact (Hwp p Hp) | lia]. Qed.

Lemma equiv_sym_f : forall f a b, wf a = true -> wf b = true -> size a + size b <= f ->
  equiv f a b = true -> equiv f b a = true.
Proof. induction f as [|f IH]; intros a b Hwa Hwb Hs; [pose proof (size_pos a); lia|].
  cbn [equiv]. destruct b as [sb|tb|tb|eb|pb rb], a as [sa|ta|ta|ea|pa ra]; try discriminate; cbn [size] in Hs.
  - intros H. apply simple_eqb_eq in H. apply simple_eqb_eq. congruence.
  - apply IH; [exact Hwa | exact Hwb | lia].
  - apply IH; [exact Hwa | exact Hwb | lia].
  - intros H. apply andb_true_iff in H. destruct H as [Hl Hall]. apply Nat.eqb_eq in Hl.
    rewrite forallb_forall in Hall. destruct (wf_ctx ea Hwa) as [Hna Hwea]. destruct (wf_ctx eb Hwb) as [Hnb Hweb].
    apply andb_true_iff. split; [apply Nat.eqb_eq; lia|]. apply forallb_forall. intros [k tb] He'. cbn [fst snd].
    destruct (keys_incl_sym ea eb Hna Hl) with (e' := (k, tb)) as [ta Hta]; [|exact He'|].
    { intros e He. specialize (Hall e He). destruct (lookup (fst e) eb); [discriminate|discriminate]. }
    cbn [fst] in Hta. rewrite (in_lookup k ta ea Hna Hta).
    specialize (Hall (k, ta) Hta). cbn [fst snd] in Hall. rewrite (in_lookup k tb eb Hnb He') in Hall.
    pose proof (sum_in_es (k, ta) ea Hta) as S1. pose proof (sum_in_es (k, tb) eb He') as S2. cbn [snd] in S1, S2.
    apply IH; [exact (Hwea (k, ta) Hta) | exact (Hweb (k, tb) He') | lia | exact Hall].
  - intros H. apply andb_true_iff in H. destruct H as [H Hr]. apply andb_true_iff in H. destruct H as [Hl Hp].
    apply Nat.eqb_eq in Hl. destruct (wf_fun pa ra Hwa) as [Hwpa Hwra]. destruct (wf_fun pb rb Hwb) as [Hwpb Hwrb].
    apply andb_true_iff. split; [apply andb_true_iff; split|].
    + apply Nat.eqb_eq. lia.
    + apply (all2_flip (equiv f) (equiv f) pa pb Hl); [|exact Hp]. intros x y Hx Hy.
      pose proof (sum_in_ps x pa Hx). pose proof (sum_in_ps y pb Hy). apply IH; [exact (Hwpa x Hx) | exact (Hwpb y Hy) | lia].
    + apply IH; [exact Hwra | exact Hwrb | lia | exact Hr]. Qed.

Lemma equiv_trans_f : forall f a b c, wf a = true -> wf b = true -> wf c = true -> size a + size b + size c <= f ->
  equiv f a b = true -> equiv f b c = true -> equiv f a c = true.
Proof. induction f as [|f IH]; intros a b c Hwa Hwb Hwc Hs; [pose proof (size_pos a); lia|].
  cbn [equiv].
  destruct a as [sa|ta|ta|ea|pa ra], b as [sb|tb|tb|eb|pb rb]; try discriminate;
  destruct c as [sc|tc|tc|ec|pc rc]; try discriminate; cbn [size] in Hs.
  - intros H1 H2. apply simple_eqb_eq in H1. apply simple_eqb_eq in H2. apply simple_eqb_eq. congruence.
  - apply IH; try assumption; lia.
  - apply IH; try assumption; lia.
  - intros H1 H2. apply andb_true_iff in H1. apply andb_true_iff in H2. destruct H1 as [L1 A1], H2 as [L2 A2].
    apply Nat.eqb_eq in L1. apply Nat.eqb_eq in L2. rewrite forallb_forall in A1, A2.
    apply andb_true_iff. split; [apply Nat.eqb_eq; lia|]. apply forallb_forall. intros [k ta] He. cbn [fst snd].
    specialize (A1 (k, ta) He). cbn [fst snd] in A1. destruct (lookup k eb) as [tb|] eqn:E1; [|discriminate].
    pose proof (lookup_in _ _ _ E1) as Hb. specialize (A2 (k, tb) Hb). cbn [fst snd] in A2.
    destruct (lookup k ec) as [tc|] eqn:E2; [|discriminate].
    pose proof (sum_in_es (k, ta) ea He) as S1. pose proof (lookup_size _ _ _ E1) as S2. pose proof (lookup_size _ _ _ E2) as S3. cbn [snd] in S1.
    apply (IH ta tb tc); try assumption; try lia.
    + destruct (wf_ctx ea Hwa) as [_ H]. exact (H (k, ta) He).
    + exact (wf_lookup _ _ _ Hwb E1).
    + exact (wf_lookup _ _ _ Hwc E2).
  - intros H1 H2. apply andb_true_iff in H1. apply andb_true_iff in H2. destruct H1 as [H1 R1], H2 as [H2 R2].
    apply andb_true_iff in H1. apply andb_true_iff in H2. destruct H1 as [L1 P1], H2 as [L2 P2].
    apply Nat.eqb_eq in L1. apply Nat.eqb_eq in L2.
    destruct (wf_fun pa ra Hwa) as [Hwpa Hwra]. destruct (wf_fun pb rb Hwb) as [Hwpb Hwrb]. destruct (wf_fun pc rc Hwc) as [Hwpc Hwrc].
    apply andb_true_iff. split; [apply andb_true_iff; split|].
    + apply Nat.eqb_eq. lia.
    + apply (all2_trans (equiv f) (equiv f) (equiv f) pa pb pc); try assumption. intros x y z Hx Hy Hz.
      pose proof (sum_in_ps x pa Hx). pose proof (sum_in_ps y pb Hy). pose proof (sum_in_ps z pc Hz).
      apply IH; [exact (Hwpa x Hx) | exact (Hwpb y Hy) | exact (Hwpc z Hz) | lia].
    + apply (IH ra rb rc); try assumption; lia. Qed.

(* ---------- the structural characterisation of conformance ---------- *)
Fixpoint conf' (fuel : nat) (a b : ftype) : bool :=
  match fuel with O => false | S f =>
  match a, b with
  | TS SNull, _ => true
  | _, TS SAny => true
  | TS sa, TS sb => simple_eqb sa sb
  | TList ta, TList tb => conf' f ta tb                    (* covariant *)
  | TRange ta, TRange tb => conf' f ta tb                  (* covariant *)
  | TCtx ea, TCtx eb =>                                     (* every entry required by b is present in a, covariantly *)
      forallb (fun e => match lookup (fst e) ea with Some ta => conf' f ta (snd e) | None => false end) eb
  | TFun pa ra, TFun pb rb =>                               (* parameters contravariant, result covariant *)
      Nat.eqb (length pa) (length pb) && all2 (conf' f) pb pa && conf' f ra rb
  | _, _ => false
  end end.

Definition conformant' (a b : ftype) : bool := conf' (size a + size b) a b.

Lemma conf'_fuel : forall f f' a b, size a + size b <= f -> size a + size b <= f' -> conf' f a b = conf' f' a b.
Proof. induction f as [|f IH]; intros f' a b H H'; [pose proof (size_pos a); lia|].
  destruct f' as [|f']; [pose proof (size_pos a); lia|].
  cbn [conf']. destruct a as [[]|ta|ta|ea|pa ra], b as [[]|tb|tb|eb|pb rb]; try reflexivity; cbn [size] in H, H'.
  - apply IH; lia.
  - apply IH; lia.
  - apply forallb_ext_in. intros e He. destruct (lookup (fst e) ea) eqn:E; [|reflexivity].
    pose proof (sum_in_es e eb He). pose proof (lookup_size _ _ _ E). apply IH; lia.
  - f_equal; [f_equal|].
    + apply all2_ext_in. intros x y Hx Hy. pose proof (sum_in_ps x pb Hx). pose proof (sum_in_ps y pa Hy). apply IH; lia.
    + apply IH; lia.
Qed.

Lemma equiv_sub_f : forall f a b, wf a = true -> wf b = true -> size a + size b <= f ->
  equiv f a b = true -> conf' f a b = true.
Proof. induction f as [|f IH]; intros a b Hwa Hwb Hs; [pose proof (size_pos a); lia|].
  cbn [equiv conf']. destruct b as [[]|tb|tb|eb|pb rb], a as [[]|ta|ta|ea|pa ra]; try discriminate; try reflexivity; cbn [size] in Hs.
  - apply IH; try assumption; lia.
  - apply IH; try assumption; lia.
  - intros H. apply andb_true_iff in H. destruct H as [Hl Hall]. apply Nat.eqb_eq in Hl.
    rewrite forallb_forall in Hall. destruct (wf_ctx ea Hwa) as [Hna Hwea]. destruct (wf_ctx eb Hwb) as [Hnb Hweb].
    apply forallb_forall. intros [k tb] He'. cbn [fst snd].
    destruct (keys_incl_sym ea eb Hna Hl) with (e' := (k, tb)) as [ta Hta]; [|exact He'|].
    { intros e He. specialize (Hall e He). destruct (lookup (fst e) eb); discriminate. }
    cbn [fst] in Hta. rewrite (in_lookup k ta ea Hna Hta).
    specialize (Hall (k, ta) Hta). cbn [fst snd] in Hall. rewrite (in_lookup k tb eb Hnb He') in Hall.
    pose proof (sum_in_es (k, ta) ea Hta) as S1. pose proof (sum_in_es (k, tb) eb He') as S2. cbn [snd] in S1, S2.
    apply IH; [exact (Hwea (k, ta) Hta) | exact (Hweb (k, tb) He') | lia | exact Hall].
  - intros H. apply andb_true_iff in H. destruct H as [H Hr]. apply andb_true_iff in H. destruct H as [Hl Hp].
    pose proof Hl as Hl'. apply Nat.eqb_eq in Hl'. destruct (wf_fun pa ra Hwa) as [Hwpa Hwra]. destruct (wf_fun pb rb Hwb) as [Hwpb Hwrb].
    rewrite Hl. cbn [andb]. apply andb_true_iff. split.
    + apply (all2_flip (equiv f) (conf' f) pa pb Hl'); [|exact Hp]. intros x y Hx Hy Hxy.
      pose proof (sum_in_ps x pa Hx). pose proof (sum_in_ps y pb Hy).
      apply IH; [exact (Hwpb y Hy) | exact (Hwpa x Hx) | lia|].
      apply equiv_sym_f; [exact (Hwpa x Hx) | exact (Hwpb y Hy) | lia | exact Hxy].
    + apply IH; try assumption; lia. Qed.

(* the implementation (equivalence shortcut, then Null / Any, then structure) computes the structural relation *)
Lemma conf_structural_f : forall f a b, wf a = true -> wf b = true -> S (size a + size b) <= f ->
  conf f a b = conf' f a b.
Proof. induction f as [|f IH]; intros a b Hwa Hwb Hs; [lia|].
  cbn [conf]. destruct (equiv f a b) eqn:E.
  - symmetry. apply equiv_sub_f; try assumption; [lia|]. rewrite (equiv_fuel (S f) f); [exact E|lia|lia].
  - destruct f as [|f]; [pose proof (size_pos a); pose proof (size_pos b); lia|].
    cbn [equiv] in E. cbn [conf'].
    destruct a as [[]|ta|ta|ea|pa ra], b as [[]|tb|tb|eb|pb rb]; try reflexivity; try discriminate; cbn [size] in Hs.
    + apply IH; try assumption; lia.
    + apply IH; try assumption; lia.
    + destruct (wf_ctx ea Hwa) as [Hna Hwea]. destruct (wf_ctx eb Hwb) as [Hnb Hweb].
      apply forallb_ext_in. intros e He. destruct (lookup (fst e) ea) eqn:El; [|reflexivity].
      pose proof (sum_in_es e eb He). pose proof (lookup_size _ _ _ El).
      apply IH; [exact (wf_lookup _ _ _ Hwa El) | exact (Hweb e He) | lia].
    + destruct (wf_fun pa ra Hwa) as [Hwpa Hwra]. destruct (wf_fun pb rb Hwb) as [Hwpb Hwrb].
      f_equal; [f_equal|].
      * apply all2_ext_in. intros x y Hx Hy. pose proof (sum_in_ps x pb Hx). pose proof (sum_in_ps y pa Hy).
        apply IH; [exact (Hwpb x Hx) | exact (Hwpa y Hy) | lia].
      * apply IH; try assumption; lia.
Qed.

Lemma conf'_null f b : 1 <= f -> conf' f (TS SNull) b = true.
Proof. destruct f; [lia|]. reflexivity. Qed.

Lemma conf'_any f a : 1 <= f -> conf' f a (TS SAny) = true.
Proof. destruct f; [lia|]. cbn [conf']. destruct a as [[]| | | |]; reflexivity. Qed.

Lemma conf'_trans_f : forall f a b c, size a + size b + size c <= f ->
  conf' f a b = true -> conf' f b c = true -> conf' f a c = true.
Proof. induction f as [|f IH]; intros a b c Hs; [pose proof (size_pos a); lia|].
  cbn [conf'].
  destruct a as [[]|ta|ta|ea|pa ra]; try (intros; reflexivity);
  destruct c as [[]|tc|tc|ec|pc rc]; try (intros; reflexivity);
  destruct b as [[]|tb|tb|eb|pb rb]; try discriminate; try (intros; reflexivity); cbn [size] in Hs.
  - apply IH; lia.
  - apply IH; lia.
  - intros A1 A2. rewrite forallb_forall in A1, A2. apply forallb_forall. intros [k tc] He. cbn [fst snd].
    specialize (A2 (k, tc) He). cbn [fst snd] in A2. destruct (lookup k eb) as [tb|] eqn:E1; [|discriminate].
    pose proof (lookup_in _ _ _ E1) as Hb. specialize (A1 (k, tb) Hb). cbn [fst snd] in A1.
    destruct (lookup k ea) as [ta|] eqn:E2; [|discriminate].
    pose proof (sum_in_es (k, tc) ec He) as S1. pose proof (lookup_size _ _ _ E1) as S2. pose proof (lookup_size _ _ _ E2) as S3. cbn [snd] in S1.
    apply (IH ta tb tc); [lia | exact A1 | exact A2].
  - intros H1 H2. apply andb_true_iff in H1. apply andb_true_iff in H2. destruct H1 as [H1 R1], H2 as [H2 R2].
    apply andb_true_iff in H1. apply andb_true_iff in H2. destruct H1 as [L1 P1], H2 as [L2 P2].
    apply Nat.eqb_eq in L1. apply Nat.eqb_eq in L2.
    apply andb_true_iff. split; [apply andb_true_iff; split|].
    + apply Nat.eqb_eq. lia.
    + apply (all2_trans (conf' f) (conf' f) (conf' f) pc pb pa); try assumption. intros x y z Hx Hy Hz.
      pose proof (sum_in_ps x pc Hx). pose proof (sum_in_ps y pb Hy). pose proof (sum_in_ps z pa Hz).
      apply IH; lia.
    + apply (IH ra rb rc); try assumption; lia. Qed.

(* ---------- statements on the saturated functions ---------- *)
Lemma equivalent_f f a b : size a + size b <= f -> equivalent a b = equiv f a b.
Proof. intros H. unfold equivalent. apply equiv_fuel; lia. Qed.

Lemma conformant_f f a b : S (size a + size b) <= f -> conformant a b = conf f a b.
Proof. intros H. unfold conformant. apply conf_fuel; lia. Qed.

Lemma conformant'_f f a b : size a + size b <= f -> conformant' a b = conf' f a b.
Proof. intros H. unfold conformant'. apply conf'_fuel; lia. Qed.

Theorem equivalent_refl t : wf t = true -> equivalent t t = true.
Proof. intros H. unfold equivalent. apply equiv_refl_f; [exact H | lia]. Qed.

Theorem equivalent_sym a b : wf a = true -> wf b = true -> equivalent a b = true -> equivalent b a = true.
Proof. intros Ha Hb H. rewrite (equivalent_f (size a + size b)) in H by lia. rewrite (equivalent_f (size a + size b)) by lia.
  apply equiv_sym_f; try assumption; lia. Qed.

Theorem equivalent_trans a b c : wf a = true -> wf b = true -> wf c = true ->
  equivalent a b = true -> equivalent b c = true -> equivalent a c = true.
Proof. intros Ha Hb Hc H1 H2. set (f := size a + size b + size c).
  rewrite (equivalent_f f) in H1 by (unfold f; lia). rewrite (equivalent_f f) in H2 by (unfold f; lia).
  rewrite (equivalent_f f) by (unfold f; lia). apply (equiv_trans_f f a b c); try assumption; unfold f; lia. Qed.

Theorem conformant_structural a b : wf a = true -> wf b = true -> conformant a b = conformant' a b.
Proof. intros Ha Hb. rewrite (conformant'_f (S (size a + size b))) by lia. unfold conformant.
  apply conf_structural_f; try assumption; lia. Qed.

Theorem equivalent_conformant a b : wf a = true -> wf b = true -> equivalent a b = true ->
  conformant a b = true /\ conformant b a = true.
Proof. intros Ha Hb H. pose proof (equivalent_sym a b Ha Hb H) as H'.
  rewrite (equivalent_f (size a + size b)) in H by lia. rewrite (equivalent_f (size b + size a)) in H' by lia.
  unfold conformant. cbn [conf]. rewrite H. rewrite H'. split; reflexivity. Qed.

Theorem conformant_refl t : wf t = true -> conformant t t = true.
Proof. intros H. apply (equivalent_conformant t t H H). apply equivalent_refl. exact H. Qed.

Theorem conformant_any t : conformant t (TS SAny) = true.
Proof. unfold conformant. cbn [conf]. destruct (equiv _ t (TS SAny)); [reflexivity|]. destruct t as [[]| | | |]; reflexivity. Qed.

Theorem null_conformant t : conformant (TS SNull) t = true.
Proof. unfold conformant. cbn [conf]. destruct (equiv _ (TS SNull) t); reflexivity. Qed.

Theorem conformant_trans a b c : wf a = true -> wf b = true -> wf c = true ->
  conformant a b = true -> conformant b c = true -> conformant a c = true.
Proof. intros Ha Hb Hc. rewrite !conformant_structural by assumption. set (f := size a + size b + size c).
  rewrite (conformant'_f f a b), (conformant'_f f b c), (conformant'_f f a c) by (unfold f; lia).
  apply conf'_trans_f. unfold f; lia. Qed.

(* variance, stated on the implementation's relation *)
Theorem list_covariant a b : wf a = true -> wf b = true -> conformant (TList a) (TList b) = conformant a b.
Proof. intros Ha Hb. rewrite !conformant_structural by assumption. unfold conformant' at 1. cbn [size Nat.add conf'].
  symmetry. apply conformant'_f. lia. Qed.

Theorem range_covariant a b : wf a = true -> wf b = true -> conformant (TRange a) (TRange b) = conformant a b.
Proof. intros Ha Hb. rewrite !conformant_structural by assumption. unfold conformant' at 1. cbn [size Nat.add conf'].
  symmetry. apply conformant'_f. lia. Qed.

Theorem function_variance pa ra pb rb : wf (TFun pa ra) = true -> wf (TFun pb rb) = true ->
  conformant (TFun pa ra) (TFun pb rb) =
  Nat.eqb (length pa) (length pb) && all2 conformant pb pa && conformant ra rb.
Proof. intros Ha Hb. rewrite conformant_structural by assumption. unfold conformant' at 1.
  destruct (wf_fun pa ra Ha) as [Hwpa Hwra]. destruct (wf_fun pb rb Hb) as [Hwpb Hwrb].
  cbn [size Nat.add conf']. f_equal; [f_equal|].
  - apply all2_ext_in. intros x y Hx Hy. pose proof (sum_in_ps x pb Hx). pose proof (sum_in_ps y pa Hy).
    rewrite conformant_structural by auto. symmetry. apply conformant'_f. lia.
  - rewrite conformant_structural by auto. symmetry. apply conformant'_f. lia. Qed.

Theorem context_covariant ea eb : wf (TCtx ea) = true -> wf (TCtx eb) = true ->
  conformant (TCtx ea) (TCtx eb) =
  forallb (fun e => match lookup (fst e) ea with Some ta => conformant ta (snd e) | None => false end) eb.
Proof. intros Ha Hb. rewrite conformant_structural by assumption. unfold conformant' at 1.
  destruct (wf_ctx eb Hb) as [_ Hweb]. cbn [size Nat.add conf'].
  apply forallb_ext_in. intros e He. destruct (lookup (fst e) ea) eqn:E; [|reflexivity].
  pose proof (sum_in_es e eb He). pose proof (lookup_size _ _ _ E).
  rewrite conformant_structural; [|exact (wf_lookup _ _ _ Ha E)|exact (Hweb e He)]. symmetry. apply conformant'_f. lia. Qed.

(* function types with different result types are not equivalent, whatever the number of parameters *)
Theorem equivalent_function_result pa ra pb rb :
  equivalent (TFun pa ra) (TFun pb rb) = true -> equivalent ra rb = true.
Proof. unfold equivalent at 1. cbn [size Nat.add equiv]. intros H. apply andb_true_iff in H. destruct H as [_ H].
  match type of H with equiv ?n _ _ = _ => rewrite (equivalent_f n ra rb); [exact H|lia] end. Qed.

Theorem equivalent_orig_refuted : exists ra rb,
  equivalent_orig (TFun [] ra) (TFun [] rb) = true /\ equivalent_orig ra rb = false.
Proof. exists (TS SNumber), (TS SString). vm_compute. auto. Qed.

(* ---------- values, type_of, coercion ---------- *)
Fixpoint wfv (v : value) : bool :=
  match v with
  | VNull | VAtom _ _ => true
  | VList vs => forallb wfv vs
  | VCtx es => nodupb (map fst es) && forallb (fun e => wfv (snd e)) es
  | VRange lo hi => wfv lo && wfv hi
  | VFun ps r => wf (TFun ps r)
  end.

Lemma all2e_refl (f : ftype -> ftype -> bool) l : (forall e, In e l -> f (snd e) (snd e) = true) -> all2e f l l = true.
Proof. induction l as [|[k t] l IH]; cbn [all2e]; intros H; [reflexivity|].
  pose proof (H (k, t) (or_introl eq_refl)) as Hk. cbn [snd] in Hk. rewrite N.eqb_refl, Hk. cbn [andb]. apply IH. intros e He. apply H. right. exact He. Qed.

Lemma teqb_refl : forall f t, size t + size t <= f -> teqb f t t = true.
Proof. induction f as [|f IH]; intros t Hs; [pose proof (size_pos t); lia|].
  destruct t as [s|t|t|es|ps r]; cbn [teqb]; cbn [size] in Hs.
  - apply simple_eqb_eq. reflexivity.
  - apply IH. lia.
  - apply IH. lia.
  - apply all2e_refl. intros e He. pose proof (sum_in_es e es He). apply IH. lia.
  - rewrite Nat.eqb_refl. cbn [andb]. rewrite all2_refl; [cbn [andb]; apply IH; lia|].
    intros p Hp. pose proof (sum_in_ps p ps Hp). apply IH. lia. Qed.

Lemma type_eqb_refl t : type_eqb t t = true.
Proof. unfold type_eqb. apply teqb_refl. lia. Qed.

Fixpoint vsize (v : value) : nat :=
  match v with
  | VList vs => S (fold_right (fun x n => vsize x + n) 0 vs)
  | VCtx es => S (fold_right (fun e n => vsize (snd e) + n) 0 es)
  | VRange lo hi => S (vsize lo + vsize hi)
  | _ => 1 end.

Lemma vsum_in_es (e : N * value) es : In e es -> vsize (snd e) <= fold_right (fun e n => vsize (snd e) + n) 0 es.
Proof. induction es as [|q es IH]; cbn [In fold_right]; [tauto|]. intros [->|H]; [lia|]. specialize (IH H). lia. Qed.

Lemma wf_type_of_n : forall n v, vsize v <= n -> wfv v = true -> wf (type_of v) = true.
Proof. induction n as [|n IH]; intros v Hs; [destruct v; cbn [vsize] in Hs; lia|].
  destruct v as [|s p|vs|es|lo hi|ps r]; cbn [wfv type_of]; cbn [vsize] in Hs; intros H; try reflexivity.
  - destruct vs as [|x vs']; [reflexivity|]. cbn [forallb] in H. apply andb_true_iff in H. destruct H as [Hx _].
    cbn [fold_right] in Hs.
    destruct (forallb _ (x :: vs')); cbn [wf]; [apply IH; [lia|exact Hx] | reflexivity].
  - apply andb_true_iff in H. destruct H as [H1 H2]. cbn [wf]. rewrite map_map. cbn [fst].
    apply andb_true_iff. split; [exact H1|]. rewrite forallb_forall in H2. apply forallb_forall.
    intros e He. apply in_map_iff in He. destruct He as [e0 [<- He0]]. cbn [snd].
    pose proof (vsum_in_es e0 es He0). apply IH; [lia|]. apply H2. exact He0.
  - apply andb_true_iff in H. destruct H as [H1 H2]. destruct (type_eqb _ _); cbn [wf]; [apply IH; [lia|exact H1]|reflexivity].
  - exact H. Qed.

Lemma wf_type_of v : wfv v = true -> wf (type_of v) = true.
Proof. apply (wf_type_of_n (vsize v)). lia. Qed.

Lemma type_of_singleton x : type_of (VList [x]) = TList (type_of x).
Proof. cbn [type_of forallb]. rewrite type_eqb_refl. reflexivity. Qed.

Theorem coerced_conforms_or_null T v : wf T = true -> wfv v = true ->
  coerced T v = VNull \/ conformant (type_of (coerced T v)) T = true.
Proof. intros HT Hv. unfold coerced. destruct (conformant (type_of v) T) eqn:E; [right; exact E|].
  assert (Hunwrap : match v with
    | VList [x] => if conformant (type_of x) T then x else VNull
    | _ => VNull end = VNull \/ conformant (type_of match v with
    | VList [x] => if conformant (type_of x) T then x else VNull
    | _ => VNull end) T = true).
  { destruct v as [|s p|[|x [|y vs]]|es|lo hi|ps r]; try (left; reflexivity).
    destruct (conformant (type_of x) T) eqn:Ex; [right; exact Ex | left; reflexivity]. }
  destruct T as [s|item|t|es|ps r]; try exact Hunwrap.
  destruct (conformant (type_of v) item) eqn:Ei; [|exact Hunwrap].
  right. rewrite type_of_singleton. rewrite list_covariant; [exact Ei | apply wf_type_of; exact Hv | exact HT]. Qed.

Theorem coerced_identity T v : conformant (type_of v) T = true -> coerced T v = v.
Proof. intros H. unfold coerced. rewrite H. reflexivity. Qed.

Theorem coerced_idempotent T v : wf T = true -> wfv v = true -> coerced T (coerced T v) = coerced T v.
Proof. intros HT Hv. destruct (coerced_conforms_or_null T v HT Hv) as [H|H].
  - rewrite H. apply coerced_identity. apply null_conformant.
  - apply coerced_identity. exact H. Qed.

Theorem coerced_wrap item v : conformant (type_of v) (TList item) = false -> conformant (type_of v) item = true ->
  coerced (TList item) v = VList [v].
Proof. intros H1 H2. unfold coerced. rewrite H1, H2. reflexivity. Qed.

Theorem coerced_unwrap T x : conformant (type_of (VList [x])) T = false -> conformant (type_of x) T = true ->
  (forall item, T = TList item -> conformant (type_of (VList [x])) item = false) -> coerced T (VList [x]) = x.
Proof. intros H1 H2 H3. unfold coerced. rewrite H1. destruct T as [s|item|t|es|ps r]; try (rewrite H2; reflexivity).
  rewrite (H3 item eq_refl). rewrite H2. reflexivity. Qed.

(* the pinned version refused the unwrap for list targets *)
Theorem coerced_orig_refuted : exists T x,
  conformant (type_of x) T = true /\ coerced_orig T (VList [x]) = VNull /\ coerced T (VList [x]) = x.
Proof. exists (TList (TS SNumber)), (VList [VAtom SNumber 1%N]). vm_compute. auto. Qed.

Example nonvacuous_types :
  let a := TFun [TS SAny; TCtx [(1%N, TS SNumber)]] (TList (TS SNull)) in
  let b := TFun [TS SNumber; TCtx [(1%N, TS SNumber); (2%N, TS SString)]] (TList (TS SDate)) in
  wf a = true /\ wf b = true /\ conformant a b = true /\ conformant b a = false /\ equivalent a b = false.
Proof. vm_compute. auto. Qed.
