(* C19 — drawing of a decision table as box text with MERGED cells.  (owner: ext-merged; regular drawings: coq/C19/CanvasDraw.v)
   A merged drawing is a grid of grid columns (inner widths md_ws) and grid lines (inner heights md_hs: a grid line holds one or more
   lines of text) tiled by rectangular merged cells: `md_reg i j` is the merged cell (first line, first column, line after the last,
   column after the last) that the grid cell (i, j) belongs to.  A separator is drawn between two grid cells exactly when they belong to
   different merged cells; the text of a merged cell is a block of characters that fills its whole inside (also the places where the
   separators of the grid would be).  Double lines: vertical in front of the grid columns md_v1 / md_v2, horizontal above the grid lines
   md_h1 / md_h2.  `drawm` makes the text (the conventions for the junction characters are those of props/c19draw.py, which the
   recogniser accepts in all its option combinations); `mplane` is the plane the recogniser must build from it.
   This covers: the output label over several output columns, input expressions / annotation names / the hit-policy cell spanning
   several header lines, merged input entries, cells with several lines of text, and (transposed) rules as columns.
   No proofs in this file. *)
From Coq Require Import List NArith Bool Arith.
From DV Require Import C19.Model C19.Canvas C19.CanvasDraw.
Import ListNotations.

Definition creg := (nat * nat * nat * nat)%type.     (* r0, c0, r1, c1 *)

Record mdraw := {
  md_ws : list nat;                         (* inner width of every grid column *)
  md_hs : list nat;                         (* inner height of every grid line *)
  md_reg : nat -> nat -> creg;              (* the merged cell of a grid cell *)
  md_txt : nat -> nat -> list (list N);     (* the lines of text of the merged cell whose first grid cell is (i, j) *)
  md_v1 : nat; md_v2 : option nat;          (* grid columns that begin with a double vertical line *)
  md_h1 : nat; md_h2 : option nat }.        (* grid lines that begin with a double horizontal line *)

Definition mcols (d : mdraw) : nat := length (md_ws d).
Definition mrows (d : mdraw) : nat := length (md_hs d).
Definition MW (d : mdraw) : nat := S (X (md_ws d) (mcols d)).
Definition MH (d : mdraw) : nat := S (X (md_hs d) (mrows d)).

(* the piece of the vertical separator in front of grid column j along grid line i / of the horizontal separator above grid line i along grid column j *)
Definition vseg (d : mdraw) (j i : nat) : bool :=
  (j =? 0) || (j =? mcols d) || negb (rect_eqb (md_reg d i (j - 1)) (md_reg d i j)).
Definition hseg (d : mdraw) (i j : nat) : bool :=
  (i =? 0) || (i =? mrows d) || negb (rect_eqb (md_reg d (i - 1) j) (md_reg d i j)).

(* the four arms of the junction of the separators i (horizontal) and j (vertical), for any two families of pieces *)
Section Arms.
Variables (nr nc : nat) (V Hs : nat -> nat -> bool).
Definition aU (i j : nat) : bool := (0 <? i) && V j (i - 1).
Definition aD (i j : nat) : bool := (i <? nr) && V j i.
Definition aL (i j : nat) : bool := (0 <? j) && Hs i (j - 1).
Definition aR (i j : nat) : bool := (j <? nc) && Hs i j.
End Arms.

Definition dblv (d : mdraw) (j : nat) : bool := (j =? md_v1 d) || match md_v2 d with Some k => j =? k | None => false end.
Definition dblh (d : mdraw) (i : nat) : bool := (i =? md_h1 d) || match md_h2 d with Some k => i =? k | None => false end.

(* junction characters: single lines *)
Definition jsingle (u dn l r : bool) : N :=
  match u, dn, l, r with
  | false, false, false, false => cWhite
  | _, _, false, false => cV
  | false, false, _, _ => cH
  | false, true, false, true => cTL | false, true, true, false => cTR
  | true, false, false, true => cBL | true, false, true, false => cBR
  | true, true, false, true => cL | true, true, true, false => cR
  | false, true, true, true => cT | true, false, true, true => cB
  | true, true, true, true => cX
  end.
(* with double lines (dv: the vertical separator is double, dh: the horizontal one); combinations that have no box character fall back to the single one *)
Definition jch (dv dh u dn l r : bool) : N :=
  if negb (l || r) then (if u || dn then (if dv then dV else cV) else cWhite)
  else if negb (u || dn) then (if dh then dH else cH)
  else match dv, dh, u, dn, l, r with
       | false, true, true, true, false, true => dLh | false, true, true, true, true, false => dRh
       | false, true, false, true, true, true => dTh | false, true, true, false, true, true => dBh
       | false, true, true, true, true, true => dXh
       | true, false, false, true, true, true => dTv | true, false, true, false, true, true => dBv
       | true, false, true, true, false, true => dLv | true, false, true, true, true, false => dRv
       | true, false, true, true, true, true => dXv
       | true, true, true, true, true, true => dXX
       | _, _, _, _, _, _ => jsingle u dn l r
       end.

(* the character of the text block of the merged cell of grid cell (i, j) at the place (y, x) of the drawing *)
Definition txt_at (d : mdraw) (i j y x : nat) : N :=
  let '(r0, c0, _, _) := md_reg d i j in
  nth (x - X (md_ws d) c0 - 1) (nth (y - X (md_hs d) r0 - 1) (md_txt d r0 c0) []) cWhite.

Definition mchar (d : mdraw) (y x : nat) : N :=
  match locate (md_hs d) y, locate (md_ws d) x with
  | PSep i, PSep j =>
      let u := aU (vseg d) i j in let dn := aD (mrows d) (vseg d) i j in
      let l := aL (hseg d) i j in let r := aR (mcols d) (hseg d) i j in
      if u || dn || l || r then jch (dblv d j) (dblh d i) u dn l r else txt_at d i j y x
  | PSep i, PIn j _ => if hseg d i j then (if dblh d i then dH else cH) else txt_at d i j y x
  | PIn i _, PSep j => if vseg d j i then (if dblv d j then dV else cV) else txt_at d i j y x
  | PIn i _, PIn j _ => txt_at d i j y x
  end.

Definition mgrid (d : mdraw) : layer := tab (MH d) (MW d) (mchar d).
(* the text: every line ends with a line feed *)
Definition drawm (d : mdraw) : list N := flat_map (fun row => row ++ [cNL]) (mgrid d).

(* ---------------- the plane this drawing denotes ---------------- *)
Definition mrect (d : mdraw) (R : creg) : rect :=
  let '(r0, c0, r1, c1) := R in (X (md_ws d) c0, X (md_hs d) r0, S (X (md_ws d) c1), S (X (md_hs d) r1)).

(* grid cells in the order of the lines; the first grid cells of the merged cells, in that order, number the merged cells *)
Definition cells_rm (d : mdraw) : list (nat * nat) := flat_map (fun i => map (fun j => (i, j)) (seq 0 (mcols d))) (seq 0 (mrows d)).
Definition is_first (d : mdraw) (ij : nat * nat) : bool :=
  let '(r0, c0, _, _) := md_reg d (fst ij) (snd ij) in (r0 =? fst ij) && (c0 =? snd ij).
Definition firsts (d : mdraw) : list (nat * nat) := filter (is_first d) (cells_rm d).
Fixpoint index_of {A} (p : A -> bool) (l : list A) : nat :=
  match l with [] => O | a :: r => if p a then O else S (index_of p r) end.
Definition rnum (d : mdraw) (i j : nat) : nat :=
  index_of (fun ab => rect_eqb (md_reg d (fst ab) (snd ab)) (md_reg d i j)) (firsts d).
Definition mtext (d : mdraw) (i j : nat) : list N :=
  let '(r0, c0, _, _) := md_reg d i j in text_rows (md_txt d r0 c0) false.

Definition mlead (d : mdraw) (j : nat) : list ccell :=
  (if j =? md_v1 d then [CVOut] else []) ++ (match md_v2 d with Some k => if j =? k then [CVAnn] else [] | None => [] end).
Definition mcell (d : mdraw) (i j : nat) : ccell := CRegion (rnum d i j) (mrect d (md_reg d i j)) (mtext d i j).
Definition mrow (d : mdraw) (i : nat) : list ccell := flat_map (fun j => mlead d j ++ [mcell d i j]) (seq 0 (mcols d)).
Definition mwidth (d : mdraw) : nat := mcols d + 1 + match md_v2 d with Some _ => 1 | None => 0 end.
Definition mcross (d : mdraw) : list ccell :=
  map (fun c => if c =? md_v1 d then CMain
                else match md_v2 d with Some k => if c =? S k then CHCross else CHOut | None => CHOut end) (seq 0 (mwidth d)).
Definition mvcross (d : mdraw) : list ccell := map (fun c => if c =? md_v1 d then CVCross else CHAnn) (seq 0 (mwidth d)).
Definition mplane (d : mdraw) : list (list ccell) :=
  flat_map (fun i => (if i =? md_h1 d then [mcross d] else []) ++
                     (match md_h2 d with Some k => if i =? k then [mvcross d] else [] | None => [] end) ++ [mrow d i]) (seq 0 (mrows d)).

(* ---------------- well-formed merged drawings ---------------- *)
Definition all_lt (n : nat) (p : nat -> bool) : bool := forallb p (seq 0 n).
Definition between (a b : nat) (p : nat -> bool) : bool := forallb p (seq (S a) (b - S a)).     (* a < k < b *)

(* the merged cells tile the grid: the merged cell of a grid cell contains it, lies inside the grid, and is the merged cell of all its grid cells *)
Definition tiling (d : mdraw) : bool :=
  all_lt (mrows d) (fun i => all_lt (mcols d) (fun j =>
    let '(r0, c0, r1, c1) := md_reg d i j in
    (r0 <=? i) && (i <? r1) && (r1 <=? mrows d) && (c0 <=? j) && (j <? c1) && (c1 <=? mcols d) &&
    forallb (fun i' => forallb (fun j' => rect_eqb (md_reg d i' j') (md_reg d i j)) (seq c0 (c1 - c0))) (seq r0 (r1 - r0)))).

(* the text block of every merged cell fills its inside and has no box characters *)
Definition texts_fit (d : mdraw) : bool :=
  all_lt (mrows d) (fun i => all_lt (mcols d) (fun j =>
    let '(r0, c0, r1, c1) := md_reg d i j in
    (length (md_txt d r0 c0) =? X (md_hs d) r1 - X (md_hs d) r0 - 1) &&
    forallb (fun line => (length line =? X (md_ws d) c1 - X (md_ws d) c0 - 1) && plain line) (md_txt d r0 c0))).

Definition wf_mdraw (d : mdraw) : bool :=
  forallb (Nat.leb 1) (md_ws d) && forallb (Nat.leb 1) (md_hs d) &&
  (1 <=? md_v1 d) && (md_v1 d <? mcols d) &&
  match md_v2 d with Some k => (md_v1 d <? k) && (k <? mcols d) | None => true end &&
  (1 <=? md_h1 d) && (md_h1 d <? mrows d) &&
  match md_h2 d with Some k => (md_h1 d <? k) && (k <? mrows d) | None => true end &&
  tiling d && texts_fit d &&
  (* the double lines run through the whole drawing *)
  all_lt (mrows d) (fun i => vseg d (md_v1 d) i && match md_v2 d with Some k => vseg d k i | None => true end) &&
  all_lt (mcols d) (fun j => hseg d (md_h1 d) j && match md_h2 d with Some k => hseg d k j | None => true end) &&
  (* between two double crossings the double line is crossed by full separators only *)
  match md_v2 d with Some k => between (md_v1 d) k (fun j => vseg d j (md_h1 d - 1) && vseg d j (md_h1 d)) | None => true end &&
  match md_h2 d with Some k => between (md_h1 d) k (fun i => hseg d i (md_v1 d - 1) && hseg d i (md_v1 d)) | None => true end &&
  (* every separator of the grid is drawn somewhere *)
  all_lt (mrows d) (fun i => existsb (hseg d i) (seq 0 (mcols d))) &&
  all_lt (mcols d) (fun j => existsb (vseg d j) (seq 0 (mrows d))).

(* ---------------- a regular drawing as a merged drawing (every grid cell its own merged cell, grid lines one line high) ---------------- *)
Definition of_regular (d : rdraw) : mdraw :=
  {| md_ws := rd_ws d; md_hs := repeat 1 (nrows d);
     md_reg := fun i j => (i, j, S i, S j);
     md_txt := fun i j => [cell_text d i j];
     md_v1 := rd_v1 d; md_v2 := rd_v2 d; md_h1 := 1; md_h2 := None |}.
