(* C06 — extended expression language, from TEXT to TREE for ALL trees: C06.ExtTextAll (text of a token list = the token list, given
   etrack_ok) with C06.ExtTrack (etrack_ok holds for both renderings of every tree) and the round trip of the extended Spec parser.
   Owner: prover-C06-binders. *)
From Coq Require Import List NArith Bool Arith Lia.
From DV Require Import C06.Model C06.ModelExt C06.Lexer C06.LexerProofs C06.LexerText C06.LexBind C06.ExtLex C06.ExtLexAll C06.ExtFuel C06.ExtTextAll C06.ExtTrack.
From DV Require C06.ExtNeeded.
Import ListNotations.

Section Trees.
  Variable keys : list str.
  Variable enc : N -> ltoken.
  Variable dec : ltoken -> option N.
  Hypothesis Hkeys : keys_ok keys = true.
  Hypothesis Hatoms : atoms_ok keys enc dec.

  Theorem text_roundtrip_min_all : forall t, eflag_ok false (erender_min t) = true -> forallb (names_all keys) (erender_min t) = true ->
    parse_text_all keys dec (unlex (econc_all keys enc (erender_min t))) = Some t.
  Proof.
    intros t Hf Hn. rewrite (parse_text_unlex_all keys enc dec Hkeys Hatoms) by (assumption || apply etrack_min). apply eroundtrip_min_tokens.
  Qed.

  Theorem text_roundtrip_full_all : forall t, eflag_ok false (erender_full t) = true -> forallb (names_all keys) (erender_full t) = true ->
    parse_text_all keys dec (unlex (econc_all keys enc (erender_full t))) = Some t.
  Proof.
    intros t Hf Hn. rewrite (parse_text_unlex_all keys enc dec Hkeys Hatoms) by (assumption || apply etrack_full). apply eroundtrip_full_tokens.
  Qed.

  Theorem text_roundtrip_min_layout_all : forall t lead gaps,
    eflag_ok false (erender_min t) = true -> forallb (names_all keys) (erender_min t) = true ->
    gaps_ok_b tstate0 flags0 (econc_all keys enc (erender_min t)) gaps = true -> forallb piece_ok lead = true -> forallb gap_ok gaps = true ->
    parse_text_all keys dec (render_layout lead ++ unlex_lay gaps (econc_all keys enc (erender_min t))) = Some t.
  Proof.
    intros t lead gaps Hf Hn Hgb Hl Hg. rewrite (parse_text_layout_all keys enc dec Hkeys Hatoms) by (assumption || apply etrack_min). apply eroundtrip_min_tokens.
  Qed.

  Theorem text_roundtrip_full_layout_all : forall t lead gaps,
    eflag_ok false (erender_full t) = true -> forallb (names_all keys) (erender_full t) = true ->
    gaps_ok_b tstate0 flags0 (econc_all keys enc (erender_full t)) gaps = true -> forallb piece_ok lead = true -> forallb gap_ok gaps = true ->
    parse_text_all keys dec (render_layout lead ++ unlex_lay gaps (econc_all keys enc (erender_full t))) = Some t.
  Proof.
    intros t lead gaps Hf Hn Hgb Hl Hg. rewrite (parse_text_layout_all keys enc dec Hkeys Hatoms) by (assumption || apply etrack_full). apply eroundtrip_full_tokens.
  Qed.

  (* a needed pair removed, at the text level (the token list without the pair is no rendering: the pushdown condition is a hypothesis) *)
  Theorem text_needed_paren_all : forall t k,
    eflag_ok false (edrop_paren k (erender_min t)) = true -> forallb (names_all keys) (edrop_paren k (erender_min t)) = true ->
    etrack_ok tstate0 (edrop_paren k (erender_min t)) = true -> k < ecount_lp (erender_min t) ->
    parse_text_all keys dec (unlex (econc_all keys enc (edrop_paren k (erender_min t)))) <> Some t.
  Proof.
    intros t k Hf Hn Ht Hlt. rewrite (parse_text_unlex_all keys enc dec Hkeys Hatoms) by assumption. exact (ExtNeeded.eneeded_paren t k Hlt).
  Qed.
End Trees.

(* ------------------------------------------------------------------ the hypotheses are met *)

(* function ( a : number , b ) if a then for c in b , d in 11 .. a return c + d else b      on the keys a b c d *)
Definition etree_all_ex : etree :=
  EFun [(0%N, Some 0%N); (1%N, None)]
       (EIf (EAtom 1)
            (EFor (2%N, EAtom 3, None) [(3%N, EAtom 2, Some (EAtom 1))] (EBin Add (EAtom 5) (EAtom 7)))
            (EAtom 3)).

Lemma text_example_all :
  keys_ok keys_ex = true /\ eflag_ok false (erender_min etree_all_ex) = true /\ forallb (names_all keys_ex) (erender_min etree_all_ex) = true /\
  unlex (econc_all keys_ex enc_ex (erender_min etree_all_ex)) =
    [102; 117; 110; 99; 116; 105; 111; 110; 32; 40; 32; 97; 32; 58; 32; 110; 117; 109; 98; 101; 114; 32; 44; 32; 98; 32; 41; 32; 105; 102; 32; 97; 32;
     116; 104; 101; 110; 32; 102; 111; 114; 32; 99; 32; 105; 110; 32; 98; 32; 44; 32; 100; 32; 105; 110; 32; 49; 49; 32; 46; 46; 32; 97; 32;
     114; 101; 116; 117; 114; 110; 32; 99; 32; 43; 32; 100; 32; 101; 108; 115; 101; 32; 98; 32]%N /\
  parse_text_all keys_ex dec_ex (unlex (econc_all keys_ex enc_ex (erender_min etree_all_ex))) = Some etree_all_ex /\
  parse_text_all keys_ex dec_ex (unlex (econc_all keys_ex enc_ex (erender_full etree_all_ex))) = Some etree_all_ex.
Proof. vm_compute. repeat split; reflexivity. Qed.

(* `item` as the variable of an iteration context.  With `item` among the keys, `for item in b return c in d` is a tree of the extended Spec;
   before the repair of consume_name its text was not read back: consume_name returned `item` before it looked at till_in, the flag stayed
   set, and the next name that is followed by an `in` (here `b return c`) was cut at that `in` (lex_b_orig, parse_text_all_orig).  Now the
   `item` branch clears the flag and the tree is read back like any other (it meets names_all: an instance of text_roundtrip_min_all) *)
Definition keys_item : list str := [[97]; [98]; [99]; [100]; NM.str_item]%N.
Definition enc_item (a : N) : ltoken := if N.odd a then LName (nth_str keys_item (a / 2)) else enc_unary (a / 2).
Definition dec_item (l : ltoken) : option N :=
  match l with
  | LName n => match pos_of n keys_item 0 with Some i => Some (2 * i + 1)%N | None => None end
  | _ => match dec_unary l with Some k => Some (2 * k)%N | None => None end
  end.
Definition etree_item : etree := EFor (4%N, EAtom 3, None) [] (EBin InOp (EAtom 5) (EAtom 7)).

Lemma text_item_witness :
  keys_ok keys_item = true /\ eflag_ok false (erender_min etree_item) = true /\ forallb (names_all keys_item) (erender_min etree_item) = true /\
  eparse_tokens (erender_min etree_item) = Some etree_item /\
  unlex (econc_all keys_item enc_item (erender_min etree_item)) =
    [102; 111; 114; 32; 105; 116; 101; 109; 32; 105; 110; 32; 98; 32; 114; 101; 116; 117; 114; 110; 32; 99; 32; 105; 110; 32; 100; 32]%N /\
  lex_b_orig keys_item (unlex (econc_all keys_item enc_item (erender_min etree_item))) =
    Some [LKw KFor; LName NM.str_item; LKw KIn; LName [98; 32; 114; 101; 116; 117; 114; 110; 32; 99]; LKw KIn; LName [100]]%N /\
  parse_text_all_orig keys_item dec_item (unlex (econc_all keys_item enc_item (erender_min etree_item))) = None /\
  lex_b keys_item (unlex (econc_all keys_item enc_item (erender_min etree_item))) =
    Some [LKw KFor; LName NM.str_item; LKw KIn; LName [98]; LKw KReturn; LName [99]; LKw KIn; LName [100]]%N /\
  parse_text_all keys_item dec_item (unlex (econc_all keys_item enc_item (erender_min etree_item))) = Some etree_item.
Proof. vm_compute. repeat split; reflexivity. Qed.
