(* C05 -- the lexer makes progress: every call of the modelled `Lexer::next_token` (C06.Lexer.next_token, compared with the real lexer token by
   token on every run of C06) that returns a token has consumed at least one character, so the token stream of a text of n characters is
   complete after n + 1 calls: the fuel of lex_go / lex_trace is never what ends it.  The fuel of read_input (skip_layout: one turn per
   comment) is never what ends the layout scan either: with `length cs` turns it stops where nothing is left to skip.  The part collector
   of consume_name (C10.Model.machine) stops by its `break`, not by its fuel (C10.Layout.machine_stops, restated for `collect`).
   (owner: builder-total) *)
From Coq Require Import List NArith Bool Arith Lia.
From DV Require Import C06.Model C06.Lexer C05.LexProgressModel.
From DV Require C10.Model C10.Layout.
Import ListNotations.

(* ------------------------------------------------------------------ read_input: white space and comments *)
Lemma skip_ws_len : forall cs, length (skip_ws cs) <= length cs.
Proof. induction cs as [|c r IH]; cbn [skip_ws length]; [lia|]. destruct (is_ws c); cbn [length]; lia. Qed.

Lemma skip_ws_idem : forall cs, skip_ws (skip_ws cs) = skip_ws cs.
Proof.
  induction cs as [|c r IH]; [reflexivity|]. cbn [skip_ws]. destruct (is_ws c) eqn:E; [exact IH|]. cbn [skip_ws]. rewrite E. reflexivity.
Qed.

Lemma skip_block_len : forall cs, length (skip_block cs) <= length cs.
Proof.
  induction cs as [|c r IH]; [cbn; lia|]. cbn [skip_block]. destruct r as [|d r']; [cbn; lia|].
  destruct ((c =? 42)%N && (d =? 47)%N); [cbn [length]; lia | cbn [length] in *; lia].
Qed.

Lemma skip_line_len : forall cs, length (skip_line cs) <= length cs.
Proof. induction cs as [|c r IH]; [cbn; lia|]. cbn [skip_line]. destruct (c =? 10)%N; cbn [length] in *; lia. Qed.

Lemma comment_start_len : forall cs b, comment_start cs = Some b -> length (tl (tl cs)) + 2 = length cs.
Proof. intros [|c [|d r]] b H; try discriminate H. cbn [tl length]. lia. Qed.

Lemma skip_layout_len : forall f cs, length (skip_layout f cs) <= length cs.
Proof.
  induction f as [|f IH]; intros cs; cbn [skip_layout]; [apply skip_ws_len|].
  pose proof (skip_ws_len cs) as Hw. destruct (comment_start (skip_ws cs)) as [[|]|] eqn:E; [| |exact Hw].
  - pose proof (comment_start_len _ _ E) as Hc. pose proof (skip_block_len (tl (tl (skip_ws cs)))) as Hb.
    pose proof (IH (skip_block (tl (tl (skip_ws cs))))) as Hi. lia.
  - pose proof (comment_start_len _ _ E) as Hc. pose proof (skip_line_len (tl (tl (skip_ws cs)))) as Hb.
    pose proof (IH (skip_line (tl (tl (skip_ws cs))))) as Hi. lia.
Qed.

(* with one turn per character the scan ends because nothing is left to skip *)
Lemma skip_layout_settled : forall f cs, length cs <= f -> settled (skip_layout f cs).
Proof.
  induction f as [|f IH]; intros cs Hf.
  - destruct cs as [|c r]; [|cbn [length] in Hf; lia]. split; reflexivity.
  - cbn [skip_layout]. pose proof (skip_ws_len cs) as Hw. destruct (comment_start (skip_ws cs)) as [[|]|] eqn:E.
    + pose proof (comment_start_len _ _ E) as Hc. pose proof (skip_block_len (tl (tl (skip_ws cs)))) as Hb. apply IH. lia.
    + pose proof (comment_start_len _ _ E) as Hc. pose proof (skip_line_len (tl (tl (skip_ws cs)))) as Hb. apply IH. lia.
    + split; [apply skip_ws_idem | exact E].
Qed.

(* and more turns change nothing *)
Lemma skip_layout_fuel : forall f g cs, length cs <= f -> length cs <= g -> skip_layout f cs = skip_layout g cs.
Proof.
  induction f as [|f IH]; intros g cs Hf Hg.
  - destruct cs as [|c r]; [|cbn [length] in Hf; lia]. destruct g; reflexivity.
  - destruct g as [|g]; [destruct cs as [|c r]; [reflexivity | cbn [length] in Hg; lia]|].
    cbn [skip_layout]. pose proof (skip_ws_len cs) as Hw. destruct (comment_start (skip_ws cs)) as [[|]|] eqn:E; [| |reflexivity].
    + pose proof (comment_start_len _ _ E) as Hc. pose proof (skip_block_len (tl (tl (skip_ws cs)))) as Hb. apply IH; lia.
    + pose proof (comment_start_len _ _ E) as Hc. pose proof (skip_line_len (tl (tl (skip_ws cs)))) as Hb. apply IH; lia.
Qed.

(* ------------------------------------------------------------------ keywords *)
Lemma strip_len : forall w cs r, strip w cs = Some r -> length cs = length w + length r.
Proof.
  induction w as [|x w IH]; intros cs r H; cbn [strip] in H; [injection H as <-; reflexivity|].
  destruct cs as [|c cs]; [discriminate H|]. destruct (c =? x)%N; [|discriminate H]. cbn [length]. rewrite (IH _ _ H). reflexivity.
Qed.

Lemma kw_scan_len : forall tbl un cs o r, forallb (fun e : str * term * kwout => match fst (fst e) with [] => false | _ => true end) tbl = true ->
  kw_scan tbl un cs = Some (o, r) -> length r < length cs.
Proof.
  induction tbl as [|[[w tm] o0] tbl IH]; intros un cs o r Hne H; [discriminate H|].
  cbn [forallb fst] in Hne. apply andb_true_iff in Hne. destruct Hne as [Hw Hne]. cbn [kw_scan] in H.
  destruct (strip w cs) as [r0|] eqn:Es; [|exact (IH _ _ _ _ Hne H)].
  destruct (term_ok un tm r0); [|exact (IH _ _ _ _ Hne H)]. injection H as _ <-.
  apply strip_len in Es. destruct w; [discriminate Hw|]. cbn [length] in Es. lia.
Qed.

Lemma kwtable_nonempty : forallb (fun e : str * term * kwout => match fst (fst e) with [] => false | _ => true end) kwtable = true.
Proof. reflexivity. Qed.

(* ------------------------------------------------------------------ symbols, numerals *)
Lemma sym2_len : forall cs s r, sym2 cs = Some (s, r) -> length r + 2 = length cs.
Proof.
  intros [|c [|d r0]] s r H; try discriminate H. cbn [sym2] in H.
  repeat match type of H with (if ?c then _ else _) = _ => destruct c end; try discriminate H; injection H as _ <-; cbn [length]; lia.
Qed.

Lemma digits_len : forall cs d r, digits cs = (d, r) -> length r <= length cs.
Proof.
  induction cs as [|c cs IH]; intros d r H; cbn [digits] in H; [injection H as _ <-; cbn; lia|].
  destruct (NM.is_digit c).
  - destruct (digits cs) as [d0 r0]. injection H as _ <-. specialize (IH _ _ eq_refl). cbn [length]. lia.
  - injection H as _ <-. lia.
Qed.

Lemma digits_first : forall c cs d r, NM.is_digit c = true -> digits (c :: cs) = (d, r) -> length r <= length cs.
Proof. intros c cs d r Hc H. cbn [digits] in H. rewrite Hc in H. destruct (digits cs) as [d0 r0] eqn:E. injection H as _ <-. exact (digits_len _ _ _ E). Qed.

Lemma numeric_len : forall c cs t r, NM.is_digit c = true -> numeric (c :: cs) = (t, r) -> length r <= length cs.
Proof.
  intros c cs t r Hc H. unfold numeric in H. destruct (digits (c :: cs)) as [b r0] eqn:E. pose proof (digits_first _ _ _ _ Hc E) as H0.
  destruct r0 as [|x [|y r1]]; try (injection H as _ <-; exact H0).
  destruct ((x =? 46)%N && NM.is_digit y).
  - cbn [tl] in H. destruct (digits (y :: r1)) as [a r'] eqn:E2. injection H as _ <-. pose proof (digits_len _ _ _ E2) as H2. cbn [length] in *. lia.
  - injection H as _ <-. exact H0.
Qed.

(* ------------------------------------------------------------------ string literals *)
Lemma hexdigits_len : forall n cs acc v r, hexdigits n cs acc = Some (v, r) -> length r <= length cs.
Proof.
  induction n as [|n IH]; intros cs acc v r H; cbn [hexdigits] in H; [injection H as _ <-; lia|].
  destruct cs as [|c cs]; [discriminate H|]. destruct (hexval c); [|discriminate H]. specialize (IH _ _ _ _ H). cbn [length]. lia.
Qed.

Lemma unicode_literal_len : forall cs v r, unicode_literal cs = Some (v, r) -> length r <= length cs.
Proof.
  intros [|b [|e r0]] v r H; try discriminate H. cbn [unicode_literal] in H. destruct (b =? 92)%N; [|discriminate H].
  destruct (e =? 117)%N; [apply hexdigits_len in H; cbn [length]; lia|]. destruct (e =? 85)%N; [|discriminate H].
  apply hexdigits_len in H. cbn [length]. lia.
Qed.

Lemma unicode_char_len : forall m v rest x r, unicode_char m v rest = Some (x, r) -> length r <= length rest.
Proof.
  intros m v rest x r H. unfold unicode_char in H.
  repeat match type of H with
         | (if ?c then _ else _) = _ => destruct c
         | match utf8_decode ?l with Some _ => _ | None => _ end = _ => destruct (utf8_decode l)
         | Some _ = Some _ => injection H as _ <-
         | None = Some _ => discriminate H
         end; try lia.
  destruct (unicode_literal rest) as [[lo rest']|] eqn:E; [|discriminate H]. apply unicode_literal_len in E.
  repeat match type of H with
         | (if ?c then _ else _) = _ => destruct c
         | match utf8_decode ?l with Some _ => _ | None => _ end = _ => destruct (utf8_decode l)
         | None = Some _ => discriminate H
         end.
  injection H as _ <-. exact E.
Qed.

Lemma unescape_go_len : forall m fuel cs acc s rest, unescape_go m fuel cs acc = Some (s, rest) -> length rest <= length cs.
Proof.
  induction fuel as [|f IH]; intros cs acc s rest H; cbn [unescape_go] in H; [discriminate H|].
  destruct cs as [|c r]; [discriminate H|]. destruct (c =? 92)%N.
  - destruct r as [|e r'].
    + apply IH in H. cbn [length] in *. lia.
    + destruct (short_unescape e).
      * apply IH in H. cbn [length] in *. lia.
      * destruct ((e =? 117)%N || (e =? 85)%N).
        -- destruct (unicode_literal (c :: e :: r')) as [[v r1]|] eqn:E1; [|discriminate H].
           destruct (unicode_char m v r1) as [[x r2]|] eqn:E2; [|discriminate H].
           apply IH in H. apply unicode_literal_len in E1. apply unicode_char_len in E2. lia.
        -- apply IH in H. cbn [length] in *. lia.
  - destruct (c =? 34)%N; [injection H as _ <-; cbn [length]; lia|].
    destruct (vertical_space c); [discriminate H|]. apply IH in H. cbn [length]. lia.
Qed.

Lemma string_token_len : forall fl cs t fl' rest, string_token fl cs = RTok t fl' rest -> length rest <= length cs.
Proof.
  intros fl cs t fl' rest H. unfold string_token in H. destruct (unescape_go 63 (S (length cs)) cs []) as [[s r]|] eqn:E.
  - injection H as _ _ <-. exact (unescape_go_len _ _ _ _ _ _ E).
  - destruct (string_stop (S (length cs)) cs) as [[|]|]; discriminate H.
Qed.

(* ------------------------------------------------------------------ names *)
Lemma collect_endpos : forall inp pos parts cps endpos, NM.collect inp pos = (parts, cps, endpos) -> exists p, endpos = S p.
Proof.
  intros inp pos parts cps endpos H. unfold NM.collect in H.
  destruct (NM.machine _ inp NM.S1 pos _) as [[s p] a]. injection H as _ _ <-. exists p. reflexivity.
Qed.

Lemma skipn_S_len : forall (c : N) r k, length (skipn (S k) (c :: r)) <= length r.
Proof. intros c r k. cbn [skipn]. rewrite skipn_length. lia. Qed.

Lemma name_token_len : forall keys fl c r t fl' rest, name_token keys fl (c :: r) = RTok t fl' rest -> length rest <= length r.
Proof.
  intros keys fl c r t fl' rest H. unfold name_token in H.
  destruct (NM.collect (c :: r) 0) as [[parts cps] endpos] eqn:Ec. destruct (collect_endpos _ _ _ _ _ Ec) as [p ->].
  repeat match type of H with
         | (if ?c then _ else _) = _ => destruct c
         | match ?x with Some _ => _ | None => _ end = _ => destruct x as [?|]
         | match ?x with O => _ | S _ => _ end = _ => destruct x
         | match ?x with (_, _) => _ end = _ => destruct x
         end;
  injection H as _ _ <-; first [apply skipn_S_len | rewrite skipn_length; lia].
Qed.

(* ------------------------------------------------------------------ one call of next_token *)
Lemma kw_result_rest : forall o fl r t fl' rest, kw_result o fl r = RTok t fl' rest -> rest = r.
Proof. intros o fl r t fl' rest H. destruct o; cbn [kw_result] in H; try destruct (f_between fl); injection H as _ _ <-; reflexivity. Qed.

Lemma scan_progress : forall keys fl cs t fl' rest, scan keys fl cs = RTok t fl' rest -> length rest < length cs.
Proof.
  intros keys fl cs t fl' rest H. unfold scan in H. destruct cs as [|c r]; [discriminate H|].
  destruct (kw_scan kwtable (f_unary fl) (c :: r)) as [[o r']|] eqn:Ek.
  - apply kw_result_rest in H. subst rest. exact (kw_scan_len _ _ _ _ _ kwtable_nonempty Ek).
  - destruct (sym2 (c :: r)) as [[s r']|] eqn:E2.
    + injection H as _ _ <-. apply sym2_len in E2. lia.
    + destruct ((c =? 46)%N && match r with d :: _ => NM.is_digit d | [] => false end).
      * destruct (digits r) as [a r'] eqn:Ed. injection H as _ _ <-. apply digits_len in Ed. cbn [length]. lia.
      * destruct (sym1 c); [injection H as _ _ <-; cbn [length]; lia|].
        destruct (c =? 34)%N; [apply string_token_len in H; cbn [length]; lia|].
        destruct (NM.is_digit c) eqn:Edg.
        -- destruct (numeric (c :: r)) as [t0 r'] eqn:En. injection H as _ _ <-. apply (numeric_len _ _ _ _ Edg) in En. cbn [length]. lia.
        -- destruct (NM.is_name_start c); [apply name_token_len in H; cbn [length]; lia | discriminate H].
Qed.

(* PROGRESS.  A call of next_token that returns a token leaves strictly less input than it was given *)
Theorem next_token_progress : forall keys fl cs t fl' rest, next_token keys fl cs = RTok t fl' rest -> length rest < length cs.
Proof.
  intros keys fl cs t fl' rest H. unfold next_token in H. apply scan_progress in H.
  pose proof (skip_layout_len (length cs) cs). lia.
Qed.

(* ------------------------------------------------------------------ the token stream *)
(* lex_go is lex_run with the end of the fuel and a lexical error merged into None *)
Lemma lex_go_lex_run : forall fuel keys fl cs, lex_go fuel keys fl cs = lexout_option (lex_run fuel keys fl cs).
Proof.
  induction fuel as [|f IH]; intros keys fl cs; [reflexivity|]. cbn [lex_go lex_run].
  destruct (next_token keys fl cs) as [t fl' rest| | |]; try reflexivity.
  rewrite IH. destruct (lex_run f keys (policy t fl') rest); reflexivity.
Qed.

(* TERMINATION OF THE TOKEN STREAM.  With more turns than characters the fuel is never what ends it *)
Theorem lex_run_terminates : forall fuel keys fl cs, length cs < fuel -> lex_run fuel keys fl cs <> LexFuel.
Proof.
  induction fuel as [|f IH]; intros keys fl cs Hf; [lia|]. cbn [lex_run].
  destruct (next_token keys fl cs) as [t fl' rest| | |] eqn:E; try discriminate.
  apply next_token_progress in E. specialize (IH keys (policy t fl') rest).
  destruct (lex_run f keys (policy t fl') rest); try discriminate. apply IH. lia.
Qed.

(* for the fuel C06.Lexer.lex gives itself: None means a lexical error (YyUndef or Err of the lexer), never the fuel *)
Theorem lex_none_is_error : forall keys cs, lex keys cs = None -> lex_run (S (length cs)) keys flags0 cs = LexFail.
Proof.
  intros keys cs H. unfold lex, lex_from in H. rewrite lex_go_lex_run in H.
  pose proof (lex_run_terminates (S (length cs)) keys flags0 cs (Nat.lt_succ_diag_r _)) as Hn.
  destruct (lex_run (S (length cs)) keys flags0 cs); [discriminate H | reflexivity | exfalso; apply Hn; reflexivity].
Qed.

(* more fuel changes nothing *)
Lemma lex_run_fuel : forall f g keys fl cs, length cs < f -> length cs < g -> lex_run f keys fl cs = lex_run g keys fl cs.
Proof.
  induction f as [|f IH]; intros g keys fl cs Hf Hg; [lia|]. destruct g as [|g]; [lia|]. cbn [lex_run].
  destruct (next_token keys fl cs) as [t fl' rest| | |] eqn:E; try reflexivity.
  apply next_token_progress in E. rewrite (IH g keys (policy t fl') rest) by lia. reflexivity.
Qed.

Theorem lex_go_fuel : forall fuel keys fl cs, length cs < fuel -> lex_go fuel keys fl cs = lex_from keys fl cs.
Proof.
  intros fuel keys fl cs H. unfold lex_from. rewrite !lex_go_lex_run. f_equal. apply lex_run_fuel; [exact H | apply Nat.lt_succ_diag_r].
Qed.

(* the trace the check compares with the real lexer (C06, `dv tokens`) always ends with the end of input, the undefined token or an error *)
Lemma lex_trace_complete : forall fuel keys sched fl total cs, length cs < fuel ->
  exists items last, lex_trace fuel keys sched fl total cs = items ++ [last] /\ is_end last = true.
Proof.
  induction fuel as [|f IH]; intros keys sched fl total cs Hf; [lia|]. cbn [lex_trace].
  destruct (next_token keys (apply_bits (hd 0%N sched) fl) cs) as [t fl' rest| | |] eqn:E.
  - apply next_token_progress in E. destruct (IH keys (tl sched) fl' total rest) as (items & last & Hi & Hl); [lia|].
    exists (ITok t (total - length rest) (flag_bits fl') :: items), last. rewrite Hi. split; [reflexivity | exact Hl].
  - exists [], IEof. split; reflexivity.
  - exists [], IUndef. split; reflexivity.
  - exists [], IErr. split; reflexivity.
Qed.

Theorem trace_complete : forall keys sched cs, exists items last, trace keys sched cs = items ++ [last] /\ is_end last = true.
Proof. intros keys sched cs. unfold trace. apply lex_trace_complete. apply Nat.lt_succ_diag_r. Qed.

(* ------------------------------------------------------------------ the part collector of consume_name stops by its break *)
Theorem collect_stops : forall inp pos s p a,
  NM.machine (4 * S (length inp)) inp NM.S1 pos {| NM.a_parts := []; NM.a_cps := []; NM.a_cur := [NM.ch inp pos] |} = (s, p, a) ->
  NM.step inp s p a = None.
Proof.
  intros inp pos s p a H. apply (DV.C10.Layout.machine_stops _ _ _ _ _ _ _ _) with (2 := H).
  unfold DV.C10.Layout.measure. cbn [DV.C10.Layout.cost]. lia.
Qed.

(* ------------------------------------------------------------------ non-vacuity *)
(* `1 /* c */ + ab` with the scope key `ab`: three tokens, 15 characters; a block comment with stars inside is one piece of layout *)
Lemma lex_progress_example :
  let cs := [49; 32; 47; 42; 32; 99; 32; 42; 47; 32; 43; 32; 97; 98; 32]%N in
  lex_run (S (length cs)) [[97; 98]%N] flags0 cs = LexOk [LNum [49%N] []; LSym SPlus; LName [97; 98]%N] /\
  lex_run 3 [[97; 98]%N] flags0 cs = LexFuel /\
  skip_layout 3 [47; 42; 42; 32; 42; 42; 47; 49]%N = [49%N].
Proof. vm_compute. repeat split; reflexivity. Qed.
