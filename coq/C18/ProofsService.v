(* C18 — the service refines the workspace: proofs. *)
From Coq Require Import List NArith Bool Lia.
From DV Require Import C17.Model C17.Proofs C18.Service.
Import ListNotations.
Open Scope N_scope.

Lemma serve_spec : forall s q, serve replace_fixed s q = serve_by_op s q.
Proof.
  intros s q. unfold serve_by_op.
  destruct q as [c|c|n k| | |k ok|k inv input| |]; cbn [serve op_of refusal].
  - destruct c as [| | | |m]; cbn [with_content op_of]; try reflexivity.
    cbn [step]. destruct (add s m) as [s' ok]. destruct ok; reflexivity.
  - destruct c as [| | | |m]; cbn [with_content op_of]; try reflexivity.
    cbn [step]. unfold replace_fixed. destruct (add (remove s (ns m) (nm m)) m) as [s' ok]. destruct ok; reflexivity.
  - destruct n as [n|]; [destruct k as [k|]|]; reflexivity.
  - reflexivity.
  - reflexivity.
  - destruct ok; [|reflexivity]. cbn [step report]. destruct (lookup k (evs s)); reflexivity.
  - destruct k as [k|]; [|reflexivity]. destruct inv; [|reflexivity]. destruct input as [[|]|]; try reflexivity.
    cbn [step report]. destruct (lookup k (evs s)); reflexivity.
  - reflexivity.
  - reflexivity.
Qed.

(* Workspace::replace cannot fail: after removing everything that shares the namespace or the name, add finds both free *)
Lemma replace_succeeds : forall s m, Inv s -> snd (replace_fixed s m) = true.
Proof.
  intros s m HI. unfold replace_fixed.
  pose proof (Inv_remove s (ns m) (nm m) HI) as [Hns [Hnm _]].
  assert (Hd : forall d, In d (defs (remove s (ns m) (nm m))) -> ns d <> ns m /\ nm d <> nm m).
  { intros d Hd. cbn [remove defs] in Hd. apply filter_In in Hd. destruct Hd as [_ Hr]. unfold retained in Hr.
    apply andb_true_iff in Hr. destruct Hr as [H1 H2]. apply negb_true_iff in H1. apply negb_true_iff in H2.
    apply N.eqb_neq in H1. apply N.eqb_neq in H2. split; assumption. }
  unfold add.
  destruct (mem (ns m) (by_ns (remove s (ns m) (nm m)))) eqn:E1.
  { exfalso. apply mem_In in E1. apply Hns in E1. apply in_map_iff in E1. destruct E1 as [d [Ed Hin]].
    destruct (Hd d Hin) as [H _]. congruence. }
  destruct (mem (nm m) (by_nm (remove s (ns m) (nm m)))) eqn:E2.
  { exfalso. apply mem_In in E2. apply Hnm in E2. apply in_map_iff in E2. destruct E2 as [d [Ed Hin]].
    destruct (Hd d Hin) as [_ H]. congruence. }
  reflexivity.
Qed.

(* a request that is answered with an error leaves the workspace as it was *)
Theorem errors_leave_state : forall s q, Inv s -> is_err (snd (serve replace_fixed s q)) = true -> fst (serve replace_fixed s q) = s.
Proof.
  intros s q HI. destruct q as [c|c|n k| | |k ok|k inv input| |]; cbn [serve].
  - destruct c as [| | | |m]; cbn [with_content fst snd]; try reflexivity.
    unfold add. destruct (mem (ns m) (by_ns s)); [reflexivity|]. destruct (mem (nm m) (by_nm s)); [reflexivity|]. cbn. discriminate.
  - destruct c as [| | | |m]; cbn [with_content fst snd]; try reflexivity.
    pose proof (replace_succeeds s m HI) as Hok. destruct (replace_fixed s m) as [s' ok]. cbn [snd] in Hok. subst ok.
    cbn. discriminate.
  - destruct n as [n|]; [destruct k as [k|]|]; cbn; try reflexivity. discriminate.
  - cbn. discriminate.
  - cbn. discriminate.
  - destruct ok; [|reflexivity]. destruct (lookup k (evs s)); reflexivity.
  - destruct k as [k|]; [|reflexivity]. destruct inv; [|reflexivity]. destruct input as [[|]|]; try reflexivity.
    destruct (lookup k (evs s)); reflexivity.
  - reflexivity.
  - reflexivity.
Qed.

Lemma serve_all_spec : forall qs s, serve_all replace_fixed s qs =
  (fst (run remove s (ops_of qs)), reports qs (snd (run remove s (ops_of qs)))).
Proof.
  induction qs as [|q r IH]; intros s; [reflexivity|].
  cbn [serve_all]. rewrite serve_spec. unfold serve_by_op. cbn [ops_of flat_map reports].
  destruct (op_of q) as [o|] eqn:E.
  - cbn [app run]. destruct (step remove s o) as [s1 x]. rewrite IH. fold (ops_of r).
    destruct (run remove s1 (ops_of r)) as [s2 xs]. reflexivity.
  - cbn [app]. rewrite IH. fold (ops_of r). reflexivity.
Qed.

(* the service behaves as the same sequence of workspace operations, and through C17 as the abstract workspace *)
Theorem service_refines_workspace : forall qs,
  fst (serve_all replace_fixed init qs) = fst (run remove init (ops_of qs)) /\
  snd (serve_all replace_fixed init qs) = reports qs (snd (arun ainit (ops_of qs))) /\
  defs (fst (serve_all replace_fixed init qs)) = adefs (fst (arun ainit (ops_of qs))) /\
  Inv (fst (serve_all replace_fixed init qs)).
Proof.
  intros qs. rewrite serve_all_spec. cbn [fst snd].
  destruct (refines_abstract (ops_of qs)) as [Hd [_ Ho]].
  repeat split; try (apply reachable_inv).
  - rewrite Ho. reflexivity.
  - exact Hd.
Qed.

Lemma serve_all_app : forall f qs1 qs2 s,
  serve_all f s (qs1 ++ qs2) =
  (fst (serve_all f (fst (serve_all f s qs1)) qs2), snd (serve_all f s qs1) ++ snd (serve_all f (fst (serve_all f s qs1)) qs2)).
Proof.
  intros f. induction qs1 as [|q r IH]; intros qs2 s.
  - cbn [app serve_all fst snd]. destruct (serve_all f s qs2); reflexivity.
  - cbn [app serve_all]. destruct (serve f s q) as [s1 x]. rewrite IH. destruct (serve_all f s1 r) as [s2 xs]. reflexivity.
Qed.

(* requests that never reach the workspace (malformed body, bad base64 / UTF-8 / XML, missing parameters, unknown
   endpoint, unusable input) are all answered with an error, and the requests that follow are answered as if they had not been sent *)
Theorem faults_transparent : forall bad s,
  Forall (fun q => op_of q = None) bad ->
  fst (serve_all replace_fixed s bad) = s /\ Forall (fun r => is_err r = true) (snd (serve_all replace_fixed s bad)).
Proof.
  induction bad as [|q r IH]; intros s H; [split; [reflexivity|constructor]|].
  inversion H as [|q' r' Hq Hr]; subst. cbn [serve_all]. rewrite serve_spec. unfold serve_by_op. rewrite Hq.
  destruct (IH s Hr) as [IH1 IH2]. destruct (serve_all replace_fixed s r) as [s2 xs]. cbn [fst snd] in *. split; [exact IH1|].
  constructor; [reflexivity|exact IH2].
Qed.

Theorem faults_do_not_disturb : forall pre bad post,
  Forall (fun q => op_of q = None) bad ->
  snd (serve_all replace_fixed (fst (serve_all replace_fixed init (pre ++ bad))) post) =
  snd (serve_all replace_fixed (fst (serve_all replace_fixed init pre)) post).
Proof.
  intros pre bad post H. rewrite (serve_all_app replace_fixed pre bad init). cbn [fst].
  destruct (faults_transparent bad (fst (serve_all replace_fixed init pre)) H) as [E _]. rewrite E. reflexivity.
Qed.

(* replace substitutes the stored model of the same namespace and name (and anything else in its way), and always succeeds *)
Theorem replace_substitutes : forall qs m, let s := fst (serve_all replace_fixed init qs) in
  serve replace_fixed s (QReplace (CModel m)) =
  ({| defs := filter (retained (ns m) (nm m)) (defs s) ++ [m];
      by_ns := ns m :: by_ns (remove s (ns m) (nm m)); by_nm := nm m :: by_nm (remove s (ns m) (nm m)); evs := [] |}, RStatus 2).
Proof.
  intros qs m s. assert (HI : Inv s) by (apply (service_refines_workspace qs)).
  cbn [serve with_content]. pose proof (replace_succeeds s m HI) as Hok. unfold replace_fixed in *. unfold add in *.
  destruct (mem (ns m) (by_ns (remove s (ns m) (nm m)))); [discriminate|].
  destruct (mem (nm m) (by_nm (remove s (ns m) (nm m)))); [discriminate|]. reflexivity.
Qed.

(* an evaluation is answered with the value of the document d exactly when the evaluator deployed under the name was built from d *)
Theorem evaluate_iff_deployed : forall s k d, snd (serve replace_fixed s (QEvaluate k true)) = RValue k d <-> lookup k (evs s) = Some d.
Proof. intros s k d. cbn [serve]. destruct (lookup k (evs s)); cbn; split; intros H; congruence. Qed.

(* the handler of the pinned commit: replacing a stored model is refused *)
Theorem replace_orig_refuted : exists qs,
  snd (serve_all replace_orig init qs) <> reports qs (snd (arun ainit (ops_of qs))).
Proof. exists [QAdd (CModel mA); QReplace (CModel mA)]. vm_compute. discriminate. Qed.

Example service_nonvacuous :
  serve_all replace_fixed init [QAdd (CModel mA); QAdd CBadBase64; QReplace (CModel mA); QRejected; QDeploy; QEvaluate 11 true; QEvaluate 12 true; QEvaluate 11 false]
  = (fst (run remove init [Add mA; Replace mA; Deploy]),
     [RAdded 1 11; RErr EBase64; RStatus 2; RErr EBadRequest; RStatus 4; RValue 11 101; RErr ENotDeployed; RErr EInput]).
Proof. vm_compute. reflexivity. Qed.
