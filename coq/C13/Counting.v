(* C13 — the scope-stack machine of coq/C01/Impl.v INSTRUMENTED: every Scope::push and every Scope::pop is counted.
   `cstep` is one layer of the evaluator (one construct) over an arbitrary evaluator `r` for its sub-expressions and
   for function bodies; `run_counting` ties the knot with fuel.  The layer is parametrised by a `variant` that switches
   on, one by one, the push / pop placements of three seeded changes (all on error paths):
     v_args_on_scope     (C13_b, C01_d) eval_function_positional / _named push an empty context FIRST, bind the arguments with
                         scope.set_entry and return null on a missing argument without popping;
     v_every_pop_on_bool (C13_d) EveryExpressionEvaluator pops only when the body gave a boolean;
     v_filter_nested_pop (C13_a) build_filter pops the element context only inside `if !has_item_entry`.
   `code` = all three off = feel-evaluator/src/builders.rs and iterations.rs as they are.
   Definitions only; no proofs in this file. *)
From Coq Require Import List ZArith NArith Bool.
From DV Require Import C01.Syntax C01.Spec C01.Impl.
Import ListNotations.
Open Scope Z_scope.

Record cstate := { stk : stack; pushes : nat; pops : nat }.
Definition cstart (S : stack) : cstate := {| stk := S; pushes := 0; pops := 0 |}.
Definition cpush (c : ctx) (st : cstate) : cstate := {| stk := push c (stk st); pushes := Datatypes.S (pushes st); pops := pops st |}.
Definition cpop (st : cstate) : cstate := {| stk := pop (stk st); pushes := pushes st; pops := Datatypes.S (pops st) |}.
Definition cset_top (k : N) (v : value) (st : cstate) : cstate := {| stk := set_top k v (stk st); pushes := pushes st; pops := pops st |}.

Record variant := { v_args_on_scope : bool; v_every_pop_on_bool : bool; v_filter_nested_pop : bool }.
Definition code : variant := {| v_args_on_scope := false; v_every_pop_on_bool := false; v_filter_nested_pop := false |}.
Definition seeded_C13_b : variant := {| v_args_on_scope := true; v_every_pop_on_bool := false; v_filter_nested_pop := false |}.
Definition seeded_C13_d : variant := {| v_args_on_scope := false; v_every_pop_on_bool := true; v_filter_nested_pop := false |}.
Definition seeded_C13_a : variant := {| v_args_on_scope := false; v_every_pop_on_bool := false; v_filter_nested_pop := true |}.

Fixpoint cthread {A B : Type} (r : cstate -> A -> B * cstate) (st : cstate) (l : list A) : list B * cstate :=
  match l with
  | [] => ([], st)
  | a :: t => let (b, st1) := r st a in let (bs, st2) := cthread r st1 t in (b :: bs, st2)
  end.

Definition ctest_run (r : cstate -> expr -> value * cstate) (st : cstate) (t : test) : value * cstate :=
  match t with
  | TVal e => r st e
  | TCmp o e => let (v, st1) := r st e in (VUnary o v, st1)
  | TRange lo lc hi hc => let (a, st1) := r st lo in let (b, st2) := r st1 hi in (VRange a lc b hc, st2)
  end.

Definition cdom_run (r : cstate -> expr -> value * cstate) (st : cstate) (nd : N * dom) : (N * option (list value) * bool) * cstate :=
  match snd nd with
  | DList e => let (v, st1) := r st e in ((fst nd, Some (dom_values v), false), st1)
  | DRange lo hi =>
      let (a, st1) := r st lo in let (b, st2) := r st1 hi in
      ((fst nd, match a, b with
                | VNum x, VNum y => match num_int x, num_int y with Some x', Some y' => Some (range_values x' y') | _, _ => None end
                | _, _ => None end, poison a || poison b), st2)
  end.

(* the seeded placement of C13_b / C01_d: the formal names are bound one by one in the context already pushed on the scope;
   (false, st) = an argument is missing: the function returns at once *)
Fixpoint bind_on_scope (ps : list (N * C16.Model.ftype)) (vs : list value) (st : cstate) : bool * cstate :=
  match ps with
  | [] => (true, st)
  | (p, t) :: pr => match vs with
                    | v :: vr => bind_on_scope pr vr (cset_top p (coerced1 t v) st)
                    | [] => (false, st)
                    end
  end.
Fixpoint bind_named_on_scope (ps : list (N * C16.Model.ftype)) (nvs : list (N * value)) (st : cstate) : bool * cstate :=
  match ps with
  | [] => (true, st)
  | (p, t) :: pr => match assoc p nvs with
                    | Some v => bind_named_on_scope pr nvs (cset_top p (coerced1 t v) st)
                    | None => (false, st)
                    end
  end.

Section Layer.
Variable V : variant.
Variable cartf : list (N * list value) -> list ctx.
Variable r : cstate -> expr -> value * cstate.

(* eval_function_definition and its two callers *)
Definition cinvoke (ps : list (N * C16.Model.ftype)) (body : expr) (bound : option ctx) (on_scope : cstate -> bool * cstate) (st : cstate) : value * cstate :=
  if v_args_on_scope V then
    let (ok, st1) := on_scope (cpush [] st) in
    if ok then let (res, st2) := r st1 body in (res, cpop st2) else (VNull, st1)
  else
    match bound with
    | Some c => let (res, st1) := r (cpush c st) body in (res, cpop st1)
    | None => (VNull, st)
    end.

Definition cstep (st : cstate) (e : expr) : value * cstate :=
  match e with
  | ENull => (VNull, st) | EBool b => (VBool b, st) | ENum z => (VNum z, st) | EStr s => (VStr s, st)
  | EName n => (match lookup n (stk st) with Some v => v | None => VNull end, st)
  | EBin o a b => let (va, st1) := r st a in let (vb, st2) := r st1 b in (binop_eval o va vb, st2)
  | ENeg a => let (va, st1) := r st a in (neg_eval va, st1)
  | EIf c t e' =>
      let (vc, st1) := r st c in
      match vc with VBool true => r st1 t | VBool false | VNull => r st1 e' | VPoison => (VPoison, st1) | _ => (VNull, st1) end
  | EBetween x lo hi =>
      let (vx, st1) := r st x in let (vl, st2) := r st1 lo in let (vh, st3) := r st2 hi in (between_eval vx vl vh, st3)
  | EIn x ts =>
      let (vx, st1) := r st x in
      let (vts, st2) := cthread (ctest_run r) st1 ts in
      (match vts with [t] => in_eval vx t | _ => in_tests_eval vx vts end, st2)
  | EInList x l => let (vx, st1) := r st x in let (vl, st2) := r st1 l in (in_eval vx vl, st2)
  | EList es => let (vs, st1) := cthread r st es in (VList vs, st1)
  | ECtx es =>
      let st0 := cpush [] st in
      let (acc, st1) := fold_left (fun (a : ctx * cstate) ke =>
                          let (v, st') := r (snd a) (snd ke) in (ctx_set (fst ke) v (fst a), cset_top (fst ke) v st')) es ([], st0) in
      (VCtx acc, cpop st1)
  | EPath e' k => let (v, st1) := r st e' in (path_eval v k, st1)
  | EFilter e' fe =>
      let (v, st1) := r st e' in
      match v with
      | VList items =>
          let (rs, st2) := cthread (fun st' item =>
                let st'' := match item with
                            | VCtx c => let sc := cpush c st' in
                                        match ctx_get n_item c with Some _ => sc | None => cpush [(n_item, item)] sc end
                            | _ => cpush [(n_item, item)] st' end in
                let (res, st3) := r st'' fe in
                (res, match item with
                      | VCtx c => match ctx_get n_item c with
                                  | Some _ => if v_filter_nested_pop V then st3 else cpop st3
                                  | None => cpop (cpop st3) end
                      | _ => cpop st3 end)) st1 items in
          let (outer, st4) := r st2 fe in
          (if existsb poison rs then VPoison
           else filter_finish items (map fst (filter (fun vr => is_true (snd vr)) (combine items rs))) outer, st4)
      | VPoison => (VPoison, st1)
      | VNum _ | VBool _ | VStr _ | VCtx _ => let (outer, st2) := r st1 fe in (filter_scalar v outer, st2)
      | _ => (VNull, st1)
      end
  | EFor ds body =>
      let (dl, st1) := cthread (cdom_run r) st ds in
      if existsb (fun d => snd d) dl then (VPoison, st1) else
      match flat_map (fun d => match snd (fst d) with Some vs => [(fst (fst d), vs)] | None => [] end) dl with
      | [] => (VList [], st1)
      | doms =>
          let (acc, st2) := fold_left (fun (a : list value * cstate) t =>
                              let (v, st') := r (cpush (ctx_set n_partial (VList (fst a)) t) (snd a)) body in
                              (fst a ++ [v], cpop st')) (cartf doms) ([], st1) in
          (VList acc, st2)
      end
  | ESome ds body =>
      let (dl, st1) := cthread (fun st' nd => let (v, st'') := r st' (snd nd) in ((fst nd, dom_values v), st'')) st ds in
      let (rs, st2) := cthread (fun st' t => let (v, st'') := r (cpush t st') body in (v, cpop st'')) st1 (cartf dl) in
      (quant_some rs, st2)
  | EEvery ds body =>
      let (dl, st1) := cthread (fun st' nd => let (v, st'') := r st' (snd nd) in ((fst nd, dom_values v), st'')) st ds in
      let (rs, st2) := cthread (fun st' t => let (v, st'') := r (cpush t st') body in
                                             (v, if v_every_pop_on_bool V then match v with VBool _ => cpop st'' | _ => st'' end else cpop st'')) st1 (cartf dl) in
      (quant_every rs, st2)
  | EFun ps body => (VFun ps body, st)
  | ECall fe args =>
      let (vf, st1) := r st fe in
      let (vs, st2) := cthread r st1 args in
      match vf with
      | VFun ps body => cinvoke ps body (mk_args ps vs) (bind_on_scope ps vs) st2
      | VPoison => (VPoison, st2)
      | _ => (VNull, st2)
      end
  | ECallN fe nargs =>
      let (vf, st1) := r st fe in
      let (nvs, st2) := cthread (fun st' ne => let (v, st'') := r st' (snd ne) in ((fst ne, v), st'')) st1 nargs in
      match vf with
      | VFun ps body => cinvoke ps body (mk_named ps nvs []) (bind_named_on_scope ps nvs) st2
      | VPoison => (VPoison, st2)
      | _ => (VNull, st2)
      end
  end.
End Layer.

Fixpoint run_counting (V : variant) (cartf : list (N * list value) -> list ctx) (fuel : nat) (st : cstate) (e : expr) : value * cstate :=
  match fuel with
  | O => (VPoison, st)
  | Datatypes.S f => cstep V cartf (run_counting V cartf f) st e
  end.

(* k pushes and k pops were made and the stack is the one the evaluation started with *)
Definition balanced (st st' : cstate) : Prop :=
  exists k, pushes st' = (pushes st + k)%nat /\ pops st' = (pops st + k)%nat /\ stk st' = stk st.
(* an evaluator is balanced when it is so from every state on every expression, whatever value it returns *)
Definition Balanced (r : cstate -> expr -> value * cstate) : Prop := forall st e, balanced st (snd (r st e)).

(* ---------------- the inputs of the witnesses ---------------- *)
(* (function(a, b) a)(1): too few arguments *)
Definition w_too_few_args : expr := ECall (EFun [(101%N, C16.Model.TS C16.Model.SAny); (102%N, C16.Model.TS C16.Model.SAny)] (EName 101%N)) [enum 1].
Definition w_enough_args : expr := ECall (EFun [(101%N, C16.Model.TS C16.Model.SAny); (102%N, C16.Model.TS C16.Model.SAny)] (EName 101%N)) [enum 1; enum 2].
(* f(b: 1) for function(a, b): a named argument is missing *)
Definition w_named_missing : expr := ECallN (EFun [(101%N, C16.Model.TS C16.Model.SAny); (102%N, C16.Model.TS C16.Model.SAny)] (EName 101%N)) [(102%N, enum 1)].
(* every x in [1, true] satisfies x: the first body value is not a boolean *)
Definition w_every_non_boolean : expr := EEvery [(101%N, EList [enum 1; EBool true])] (EName 101%N).
Definition w_every_boolean : expr := EEvery [(101%N, EList [EBool true; EBool true])] (EName 101%N).
(* [{item: 1}][item = 1]: a list element that is a context with an entry named item *)
Definition w_filter_item_entry : expr := EFilter (EList [ECtx [(n_item, enum 1)]]) (EBin Eq (EName n_item) (enum 1)).
Definition w_filter_plain : expr := EFilter (EList [ECtx [(103%N, enum 1)]]) (EBin Eq (EName 103%N) (enum 1)).
