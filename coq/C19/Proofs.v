(* C19 — proofs about C19/Model.v.
   General (all planes / all tables): pivot of cells is an involution; a rectangle query on a row
   assembled from blocks returns the block; the recogniser reads the texts of a block of regions.
   Bounded (finite sweep by vm_compute, bound in the statement): the round trip
   recognize_horizontal (layout_h t) = fields_of t and pivot (pivot (layout_h t)) = layout_h t for every
   table SHAPE with 1..5 inputs, 1..3 outputs, 0..2 annotations, 1..8 rules, with/without output label,
   with/without allowed values, over pairwise distinct texts. *)
From Coq Require Import List NArith Bool Arith Lia.
From DV Require Import C19.Model.
Import ListNotations.

Lemma pivot_cell_involutive c : pivot_cell (pivot_cell c) = c.
Proof. destruct c; reflexivity. Qed.

Lemma cols_block (a : list cell) x b : cols 0 (length a) (a ++ x :: b) = a.
Proof. unfold cols. rewrite Nat.sub_0_r. cbn [skipn]. rewrite firstn_app, Nat.sub_diag, firstn_all. cbn [firstn]. apply app_nil_r. Qed.

Lemma cols_block2 (a : list cell) x b y c : cols (S (length a)) (S (length a) + length b) (a ++ x :: b ++ y :: c) = b.
Proof. unfold cols. replace (S (length a) + length b - S (length a)) with (length b) by lia.
  replace (a ++ x :: b ++ y :: c) with ((a ++ [x]) ++ b ++ y :: c) by (rewrite <- app_assoc; reflexivity).
  replace (S (length a)) with (length (a ++ [x])) by (rewrite app_length; cbn [length]; lia).
  rewrite skipn_app, Nat.sub_diag, skipn_all. cbn [skipn app]. rewrite firstn_app, Nat.sub_diag, firstn_all. cbn [firstn]. apply app_nil_r. Qed.

Lemma cols_block2_end (a : list cell) x b : cols (S (length a)) (length (a ++ x :: b)) (a ++ x :: b) = b.
Proof. unfold cols. rewrite app_length. cbn [length]. replace (length a + S (length b) - S (length a)) with (length b) by lia.
  replace (a ++ x :: b) with ((a ++ [x]) ++ b) by (rewrite <- app_assoc; reflexivity).
  replace (S (length a)) with (length (a ++ [x])) by (rewrite app_length; cbn [length]; lia).
  rewrite skipn_app, Nat.sub_diag, skipn_all. cbn [skipn app]. apply firstn_all. Qed.

Lemma texts_regions {A} (f : A -> rid) (g : A -> N) l : texts (map (fun x => Region (f x) (g x)) l) = Some (map g l).
Proof. induction l as [|x l IH]; cbn [map texts]; [reflexivity|]. rewrite IH. reflexivity. Qed.

Lemma ids_regions {A} (f : A -> rid) (g : A -> N) l : ids (map (fun x => Region (f x) (g x)) l) = Some (map f l).
Proof. induction l as [|x l IH]; cbn [map ids]; [reflexivity|]. rewrite IH. reflexivity. Qed.

Lemma find_cell_none f row : forallb (fun c => negb (f c)) row = true -> find_cell f row = None.
Proof. induction row as [|c r IH]; cbn [forallb find_cell]; [reflexivity|]. intros H. apply andb_true_iff in H. destruct H as [H1 H2].
  apply negb_true_iff in H1. rewrite H1, (IH H2). reflexivity. Qed.

Lemma find_cell_app f a b : find_cell f a = None -> find_cell f (a ++ b) = option_map (Nat.add (length a)) (find_cell f b).
Proof. induction a as [|c a IH]; cbn [app find_cell length]; intros H.
  - destruct (find_cell f b); reflexivity.
  - destruct (f c); [discriminate|]. destruct (find_cell f a) eqn:E; [discriminate|]. rewrite (IH eq_refl).
    destruct (find_cell f b); reflexivity. Qed.

(* the main crossing of a drawn table sits after the input columns *)
Theorem main_crossing_column t : find_cell is_main (cross_row t) = Some (length (t_inputs t)).
Proof. unfold cross_row. rewrite find_cell_app.
  - cbn [find_cell is_main option_map]. rewrite map_length. f_equal. lia.
  - apply find_cell_none. rewrite forallb_forall. intros c Hc. apply in_map_iff in Hc. destruct Hc as [_ [<- _]]. reflexivity. Qed.

(* ---------------- the bounded sweep ---------------- *)
Definition texts_from (base : N) (n : nat) : list N := map (fun k => (base + N.of_nat k)%N) (seq 0 n).

Definition shape_table (n_in n_out n_ann n_rules : nat) (lbl vals : bool) : table :=
  {| t_inputs := combine (texts_from 1000 n_in) (texts_from 2000 n_in);
     t_outputs := combine (texts_from 3000 n_out) (texts_from 4000 n_out);
     t_label := if lbl then Some 5000%N else None;
     t_values := vals;
     t_annotations := texts_from 6000 n_ann;
     t_rules := map (fun r => {| r_in := texts_from (10000 + 100 * N.of_nat r) n_in; r_out := texts_from (20000 + 100 * N.of_nat r) n_out;
                                r_ann := texts_from (30000 + 100 * N.of_nat r) n_ann |}) (seq 0 n_rules) |}.

Definition shapes : list table :=
  flat_map (fun n_in => flat_map (fun n_out => flat_map (fun n_ann => flat_map (fun n_rules => flat_map (fun lbl =>
    map (fun vals => shape_table n_in n_out n_ann n_rules lbl vals) [true; false]) [true; false])
    (seq 1 8)) (seq 0 3)) (seq 1 3)) (seq 1 5).

Fixpoint list_eqb {A} (e : A -> A -> bool) (a b : list A) : bool :=
  match a, b with [] , [] => true | x :: a', y :: b' => e x y && list_eqb e a' b' | _, _ => false end.
Definition oN_eqb (a b : option N) := match a, b with Some x, Some y => N.eqb x y | None, None => true | _, _ => false end.
Definition fields_eqb (a b : fields) : bool :=
  list_eqb N.eqb (f_inputs a) (f_inputs b) && list_eqb N.eqb (f_input_values a) (f_input_values b) &&
  list_eqb (list_eqb N.eqb) (f_input_entries a) (f_input_entries b) && oN_eqb (f_label a) (f_label b) &&
  list_eqb N.eqb (f_components a) (f_components b) && list_eqb N.eqb (f_output_values a) (f_output_values b) &&
  list_eqb (list_eqb N.eqb) (f_output_entries a) (f_output_entries b) && list_eqb N.eqb (f_annotations a) (f_annotations b) &&
  list_eqb (list_eqb N.eqb) (f_annotation_entries a) (f_annotation_entries b).

Definition cell_eqb (a b : cell) : bool :=
  match a, b with
  | Region i x, Region j y => rid_eqb i j && N.eqb x y
  | VOut, VOut | VAnn, VAnn | HOut, HOut | HAnn, HAnn | Main, Main | HCross, HCross | VCross, VCross => true
  | _, _ => false
  end.

Definition roundtrip_ok (t : table) : bool :=
  wf t && rectangular (layout_h t) &&
  match recognize_horizontal (layout_h t) with Some f => fields_eqb f (fields_of t) | None => false end &&
  list_eqb (list_eqb cell_eqb) (pivot (pivot (layout_h t))) (layout_h t) &&
  (* the pivoted plane is what a rules-as-columns drawing shows: the double lines change direction *)
  match find_plane is_main (pivot (layout_h t)) with Some (x, y) => Nat.eqb x (hdr t) && Nat.eqb y (length (t_inputs t)) | None => false end.

Lemma list_eqb_eq {A} (e : A -> A -> bool) : (forall x y, e x y = true -> x = y) -> forall a b, list_eqb e a b = true -> a = b.
Proof. intros He. induction a as [|x a IH]; intros [|y b]; cbn [list_eqb]; try discriminate; [reflexivity|].
  intros H. apply andb_true_iff in H. destruct H as [H1 H2]. rewrite (He _ _ H1), (IH _ H2). reflexivity. Qed.

Lemma N_eqb_eq' x y : N.eqb x y = true -> x = y. Proof. apply N.eqb_eq. Qed.

Lemma fields_eqb_eq a b : fields_eqb a b = true -> a = b.
Proof. unfold fields_eqb. intros H. repeat (apply andb_true_iff in H; destruct H as [H ?]).
  destruct a as [a1 a2 a3 a4 a5 a6 a7 a8 a9], b as [b1 b2 b3 b4 b5 b6 b7 b8 b9]; simpl in *.
  repeat match goal with
  | H : list_eqb N.eqb _ _ = true |- _ => apply (list_eqb_eq N.eqb N_eqb_eq') in H
  | H : list_eqb (list_eqb N.eqb) _ _ = true |- _ => apply (list_eqb_eq _ (list_eqb_eq N.eqb N_eqb_eq')) in H
  end.
  assert (a4 = b4) by (destruct a4, b4; cbn in *; try discriminate; try reflexivity; f_equal; apply N.eqb_eq; assumption).
  subst. reflexivity. Qed.

Lemma cell_eqb_eq a b : cell_eqb a b = true -> a = b.
Proof. destruct a as [[i1 i2] x| | | | | | |], b as [[j1 j2] y| | | | | | |]; cbn [cell_eqb]; try discriminate; try reflexivity.
  unfold rid_eqb. cbn [fst snd]. intros H. apply andb_true_iff in H. destruct H as [H H3]. apply andb_true_iff in H. destruct H as [H1 H2].
  apply N.eqb_eq in H1, H2, H3. subst. reflexivity. Qed.

Lemma sweep : forallb roundtrip_ok shapes = true.
Proof. vm_compute. reflexivity. Qed.

Theorem plane_roundtrip_bounded : forall n_in n_out n_ann n_rules lbl vals,
  1 <= n_in <= 5 -> 1 <= n_out <= 3 -> n_ann <= 2 -> 1 <= n_rules <= 8 ->
  let t := shape_table n_in n_out n_ann n_rules lbl vals in
  recognize_horizontal (layout_h t) = Some (fields_of t) /\ pivot (pivot (layout_h t)) = layout_h t.
Proof. intros n_in n_out n_ann n_rules lbl vals Hi Ho Ha Hr t.
  assert (Hin : In t shapes).
  { unfold shapes. apply in_flat_map. exists n_in. split; [apply in_seq; lia|].
    apply in_flat_map. exists n_out. split; [apply in_seq; lia|].
    apply in_flat_map. exists n_ann. split; [apply in_seq; lia|].
    apply in_flat_map. exists n_rules. split; [apply in_seq; lia|].
    apply in_flat_map. exists lbl. split; [destruct lbl; cbn; tauto|].
    apply in_map_iff. exists vals. split; [reflexivity|destruct vals; cbn; tauto]. }
  pose proof sweep as S. rewrite forallb_forall in S. specialize (S t Hin). unfold roundtrip_ok in S.
  repeat (apply andb_true_iff in S; destruct S as [S ?]).
  split.
  - destruct (recognize_horizontal (layout_h t)) as [f|]; [|discriminate]. f_equal. apply fields_eqb_eq. assumption.
  - apply (list_eqb_eq _ (list_eqb_eq _ cell_eqb_eq)). assumption. Qed.

Example nonvacuous19 :
  let t := shape_table 2 2 1 2 true true in
  f_label (fields_of t) = Some 5000%N /\ f_components (fields_of t) = [3000%N; 3001%N] /\ length (layout_h t) = 6 /\
  recognize_horizontal (layout_h t) = Some (fields_of t).
Proof. vm_compute. repeat split. Qed.
