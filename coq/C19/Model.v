(* C19 — a decision table drawn as text is recognised exactly as drawn: the PLANE level.
   ImplModel: recognizer/src/plane.rs (cells, rectangle queries, pivot) and recognizer/src/recognizer.rs
   recognize_horizontal_table (header-row-count based detection of the optional parts) over a matrix of
   cells.  Spec: `layout_h : table -> plane`, the plane a drawing of the table denotes once the hit-policy /
   rule-number line is taken off (for rules-as-columns: after the pivot).
   Not modelled: characters -> plane (canvas.rs); covered by the correspondence on drawn text.
   Texts are opaque codes.  No proofs in this file. *)
From Coq Require Import List NArith Bool Arith.
Import ListNotations.

Definition rid := (N * N)%type.                       (* region number: any injective naming *)
Definition rid_eqb (a b : rid) : bool := N.eqb (fst a) (fst b) && N.eqb (snd a) (snd b).

Inductive cell :=
| Region (id : rid) (text : N)
| VOut | VAnn | HOut | HAnn            (* double lines *)
| Main | HCross | VCross.              (* double-line crossings *)

Definition plane := list (list cell).

(* ---------------- pivot (rules as columns -> rules as rows) ---------------- *)
Definition pivot_cell (c : cell) : cell :=
  match c with
  | Region i t => Region i t
  | HOut => VOut | VOut => HOut
  | HAnn => VAnn | VAnn => HAnn
  | Main => Main
  | HCross => VCross | VCross => HCross
  end.

(* Plane::pivot: while the first row is not empty, take the first cell of every row as a new row *)
Fixpoint heads (p : plane) : list cell :=
  match p with [] => [] | [] :: r => heads r | (c :: _) :: r => c :: heads r end.
Definition tails (p : plane) : plane := map (@tl cell) p.

Fixpoint transpose (w : nat) (p : plane) : plane :=
  match w with O => [] | S w' => heads p :: transpose w' (tails p) end.

Definition width (p : plane) : nat := match p with [] => O | r :: _ => length r end.
Definition pivot (p : plane) : plane := map (map pivot_cell) (transpose (width p) p).

Definition rectangular (p : plane) : bool :=
  Nat.ltb 0 (width p) && forallb (fun r => Nat.eqb (length r) (width p)) p.

(* ---------------- rectangle queries ---------------- *)
Definition cols (l r : nat) (row : list cell) : list cell := firstn (r - l) (skipn l row).
Definition rows (t b : nat) (p : plane) : plane := firstn (b - t) (skipn t p).

Fixpoint texts (row : list cell) : option (list N) :=
  match row with
  | [] => Some []
  | Region _ t :: r => option_map (cons t) (texts r)
  | _ => None
  end.
Fixpoint ids (row : list cell) : option (list rid) :=
  match row with
  | [] => Some []
  | Region i _ :: r => option_map (cons i) (ids r)
  | _ => None
  end.
Fixpoint all_texts (p : plane) : option (list (list N)) :=
  match p with
  | [] => Some []
  | r :: p' => match texts r, all_texts p' with Some a, Some b => Some (a :: b) | _, _ => None end
  end.

Fixpoint find_cell (f : cell -> bool) (row : list cell) : option nat :=
  match row with [] => None | c :: r => if f c then Some O else option_map S (find_cell f r) end.
(* first cell in row-major order: (x, y) *)
Fixpoint find_plane (f : cell -> bool) (p : plane) : option (nat * nat) :=
  match p with
  | [] => None
  | r :: p' => match find_cell f r with
               | Some x => Some (x, O)
               | None => option_map (fun xy => (fst xy, S (snd xy))) (find_plane f p')
               end
  end.
Definition is_main (c : cell) := match c with Main => true | _ => false end.
Definition is_hcross (c : cell) := match c with HCross => true | _ => false end.

Fixpoint all2 {A} (f : A -> A -> bool) (a b : list A) : bool :=
  match a, b with
  | [], [] => true
  | x :: a', y :: b' => f x y && all2 f a' b'
  | _, _ => false
  end.

(* ---------------- recognize_horizontal_table ---------------- *)
Record fields := {
  f_inputs : list N; f_input_values : list N; f_input_entries : list (list N);
  f_label : option N; f_components : list N; f_output_values : list N; f_output_entries : list (list N);
  f_annotations : list N; f_annotation_entries : list (list N) }.

Definition row_at (p : plane) (y : nat) : list cell := nth y p [].

(* the three shapes of the input clause *)
Definition input_values_present (p : plane) (px py : nat) : option bool :=
  match py with
  | 1 => Some false
  | 2 => match ids (cols 0 px (row_at p 0)), ids (cols 0 px (row_at p 1)) with
         | Some a, Some b => Some (negb (all2 rid_eqb a b))           (* equal_regions_in_columns *)
         | _, _ => None
         end
  | 3 => match ids (cols 0 px (row_at p 1)), ids (cols 0 px (row_at p 2)) with
         | Some a, Some b => if all2 (fun x y => negb (rid_eqb x y)) a b then Some true else None   (* unique_regions_in_columns *)
         | _, _ => None
         end
  | _ => None
  end.

(* the shapes of the output clause: (label, component names, output values) *)
Definition out_clause (ivp : bool) (py ow : nat) (orow : nat -> list cell) : option (option N * list N * list N) :=
  match ow with
  | 0 => None
  | 1 => match py with
         | 1 => match texts (orow 0) with Some [l] => Some (Some l, [], []) | _ => None end
         | 2 => match ids (orow 0), ids (orow 1), texts (orow 0), texts (orow 1) with
                | Some [a], Some [b], Some [l], Some [v] =>
                    if ivp && negb (rid_eqb a b) then Some (Some l, [], [v]) else None
                | _, _, _, _ => None
                end
         | _ => None
         end
  | _ => match py with
         | 1 => match texts (orow 0) with Some cs => Some (None, cs, []) | None => None end
         | 2 => if ivp
                then match texts (orow 0), texts (orow 1) with Some cs, Some vs => Some (None, cs, vs) | _, _ => None end
                else match texts (orow 0), texts (orow 1) with Some (l :: _), Some cs => Some (Some l, cs, []) | _, _ => None end
         | 3 => match texts (orow 0), texts (orow 1), texts (orow 2) with
                | Some (l :: _), Some cs, Some vs => Some (Some l, cs, vs)
                | _, _, _ => None
                end
         | _ => None
         end
  end.

(* annotation names and entries *)
Definition ann_clause (p : plane) (q : option (nat * nat)) : option (list N * list (list N)) :=
  match q with
  | None => Some ([], [])
  | Some (qx, qy) =>
      match texts (cols (S qx) (width p) (row_at p 0)), all_texts (map (cols (S qx) (width p)) (rows (S qy) (length p) p)) with
      | Some anns, Some aentries => Some (anns, aentries)
      | _, _ => None
      end
  end.

Definition recognize_horizontal (p : plane) : option fields :=
  match find_plane is_main p with
  | None => None
  | Some (px, py) =>
  match input_values_present p px py with
  | None => None
  | Some ivp =>
  let q := find_plane is_hcross p in
  let oright := match q with Some (qx, _) => qx | None => width p end in
  let body := rows (S py) (length p) p in
  match texts (cols 0 px (row_at p 0)),
        (if ivp then texts (cols 0 px (row_at p (py - 1))) else Some []),
        all_texts (map (cols 0 px) body),
        out_clause ivp py (oright - S px) (fun y => cols (S px) oright (row_at p y)),
        all_texts (map (cols (S px) oright) body),
        ann_clause p q with
  | Some iexpr, Some ivals, Some ientries, Some (lbl, comps, ovals), Some oentries, Some (anns, aentries) =>
      Some {| f_inputs := iexpr; f_input_values := ivals; f_input_entries := ientries;
              f_label := lbl; f_components := comps; f_output_values := ovals; f_output_entries := oentries;
              f_annotations := anns; f_annotation_entries := aentries |}
  | _, _, _, _, _, _ => None
  end
  end
  end.

(* ================================================================== Spec: the plane a table denotes *)
Record rule := { r_in : list N; r_out : list N; r_ann : list N }.
Record table := {
  t_inputs : list (N * N);           (* input expression, allowed values (used when t_values) *)
  t_outputs : list (N * N);          (* component name (used with several outputs), output values *)
  t_label : option N;                (* output label; a single output always shows one (None = drawn blank = text 0) *)
  t_values : bool;                   (* the allowed-values line is drawn *)
  t_annotations : list N;
  t_rules : list rule }.

Definition multi (t : table) : bool := Nat.ltb 1 (length (t_outputs t)).
Definition label_row (t : table) : bool := multi t && match t_label t with Some _ => true | None => false end.
Definition hdr (t : table) : nat := 1 + (if label_row t then 1 else 0) + (if t_values t then 1 else 0).

Definition indexed {A} (l : list A) : list (N * A) := combine (map N.of_nat (seq 0 (length l))) l.

Definition sep_ann (t : table) (c : cell) (l : list cell) : list cell :=
  match t_annotations t with [] => [] | _ => c :: l end.

(* header line k (0 = top): three blocks *)
Definition top_rows (t : table) : nat := hdr t - (if t_values t then 1 else 0).    (* lines covered by the merged expression cells *)
Definition lbl_text (t : table) : N := match t_label t with Some l => l | None => 0%N end.

Definition h_ins (t : table) (k : nat) : list cell :=
  map (fun ie => if Nat.ltb k (top_rows t) then Region (1%N, fst ie) (fst (snd ie)) else Region (2%N, fst ie) (snd (snd ie))) (indexed (t_inputs t)).

Definition h_outs (t : table) (k : nat) : list cell :=
  if multi t then
    if label_row t && Nat.eqb k 0 then map (fun _ => Region (3%N, 0%N) (lbl_text t)) (t_outputs t)
    else if Nat.ltb k (top_rows t) then map (fun on => Region (4%N, fst on) (fst (snd on))) (indexed (t_outputs t))
    else map (fun on => Region (5%N, fst on) (snd (snd on))) (indexed (t_outputs t))
  else
    map (fun on => if Nat.ltb k (top_rows t) then Region (3%N, 0%N) (lbl_text t) else Region (5%N, fst on) (snd (snd on))) (indexed (t_outputs t)).

Definition h_anns (t : table) : list cell := map (fun a => Region (6%N, fst a) (snd a)) (indexed (t_annotations t)).

Definition header_row (t : table) (k : nat) : list cell :=
  h_ins t k ++ VOut :: h_outs t k ++ sep_ann t VAnn (h_anns t).

Definition cross_row (t : table) : list cell :=
  map (fun _ => HOut) (t_inputs t) ++ Main :: map (fun _ => HOut) (t_outputs t) ++ sep_ann t HCross (map (fun _ => HOut) (t_annotations t)).

Definition rule_row (t : table) (ir : N * rule) : list cell :=
  let r := snd ir in
  map (fun x => Region (7%N, fst ir) x) (r_in r) ++ VOut :: map (fun x => Region (8%N, fst ir) x) (r_out r)
  ++ sep_ann t VAnn (map (fun x => Region (9%N, fst ir) x) (r_ann r)).

Definition layout_h (t : table) : plane :=
  map (header_row t) (seq 0 (hdr t)) ++ cross_row t :: map (rule_row t) (indexed (t_rules t)).

Definition fields_of (t : table) : fields :=
  {| f_inputs := map fst (t_inputs t);
     f_input_values := if t_values t then map snd (t_inputs t) else [];
     f_input_entries := map r_in (t_rules t);
     f_label := if multi t then t_label t else Some (lbl_text t);
     f_components := if multi t then map fst (t_outputs t) else [];
     f_output_values := if t_values t then map snd (t_outputs t) else [];
     f_output_entries := map r_out (t_rules t);
     f_annotations := t_annotations t;
     f_annotation_entries := match t_annotations t with [] => [] | _ => map r_ann (t_rules t) end |}.

Definition wf (t : table) : bool :=
  Nat.ltb 0 (length (t_inputs t)) && Nat.ltb 0 (length (t_outputs t)) &&
  forallb (fun r => Nat.eqb (length (r_in r)) (length (t_inputs t)) && Nat.eqb (length (r_out r)) (length (t_outputs t))
                    && Nat.eqb (length (r_ann r)) (length (t_annotations t))) (t_rules t).

(* ================================================================== orientation: hit-policy marker and rule numbers
   (plane.rs recognize_hit_policy_placement / recognize_rule_numbers_placement, recognizer.rs recognize_orientation and
   recognize_table_components).  The two text parsers are abstract. *)
Fixpoint zipcons (r : list cell) (m : plane) : plane :=
  match r, m with x :: r', row :: m' => (x :: row) :: zipcons r' m' | _, _ => [] end.

Inductive hp_place := TopLeft (hp : N) | BottomLeft (hp : N) | HpAbsent.
Inductive rn_place := LeftBelow (n : nat) | RightAfter (n : nat) | RnAbsent.
Inductive orient := AsRow | AsColumn.

Definition is_hout (c : cell) := match c with HOut => true | _ => false end.
Definition is_vout (c : cell) := match c with VOut => true | _ => false end.
Definition is_vcross (c : cell) := match c with VCross => true | _ => false end.

Fixpoint after (f : cell -> bool) (cs : list cell) : list cell :=
  match cs with [] => [] | c :: r => if f c then r else after f r end.

Section Orientation.
Variable parse_hp : N -> option N.       (* HitPolicy::try_from on the text of a cell *)
Variable parse_num : N -> option nat.    (* usize::from_str on the trimmed text *)

Definition cell_hp (c : cell) : option N := match c with Region _ tx => parse_hp tx | _ => None end.

(* None = an error (or the unwrap on an empty row, excluded since the plane is checked to be rectangular) *)
Definition hp_placement (p : plane) : option hp_place :=
  match p with
  | [] => None
  | [] :: _ => None
  | (c1 :: _) :: _ =>
      match cell_hp c1 with
      | Some hp => Some (TopLeft hp)
      | None => match last p [] with
                | [] => None
                | c2 :: _ => match cell_hp c2 with Some hp => Some (BottomLeft hp) | None => Some HpAbsent end
                end
      end
  end.

(* the loop over the cells where rule numbers are expected: None = invalid rule number (error),
   Some None = a cell that is not a number (not present), Some (Some max) *)
Fixpoint numbers (expected : nat) (cs : list cell) : option (option nat) :=
  match cs with
  | [] => Some (Some (expected - 1))
  | Region _ tx :: r =>
      match parse_num tx with
      | Some n => if Nat.eqb n expected then numbers (S expected) r else None
      | None => Some None
      end
  | _ :: _ => Some None
  end.

Definition rn_placement (p : plane) : option rn_place :=
  match numbers 1 (after is_hout (heads p)) with
  | None => None
  | Some (Some (S n)) => Some (LeftBelow (S n))
  | _ =>
      match numbers 1 (after is_vout (last p [])) with
      | None => None
      | Some (Some (S n)) => Some (RightAfter (S n))
      | _ => Some RnAbsent
      end
  end.

Definition present (f : cell -> bool) (p : plane) : bool := match find_plane f p with Some _ => true | None => false end.

Definition orientation (p : plane) : option (orient * N * nat) :=
  match hp_placement p, rn_placement p with
  | Some hpp, Some rnp =>
      if present is_hcross p then
        match hpp, rnp with TopLeft hp, LeftBelow n => Some (AsRow, hp, n) | _, _ => None end
      else if present is_vcross p then
        match hpp, rnp with BottomLeft hp, RightAfter n => Some (AsColumn, hp, n) | _, _ => None end
      else
        match hpp, rnp with
        | TopLeft hp, LeftBelow n => Some (AsRow, hp, n)
        | BottomLeft hp, RightAfter n => Some (AsColumn, hp, n)
        | _, _ => None                      (* errors, or a crosstab (not supported) *)
        end
  | _, _ => None
  end.

Definition recognize_plane (p : plane) : option (orient * N * nat * fields) :=
  match orientation p with
  | Some (AsRow, hp, n) => option_map (fun f => (AsRow, hp, n, f)) (recognize_horizontal (tails p))          (* remove_first_column *)
  | Some (AsColumn, hp, n) => option_map (fun f => (AsColumn, hp, n, f)) (recognize_horizontal (pivot (removelast p)))
  | None => None
  end.

End Orientation.

(* builder.rs validate_size on what the recogniser collected (input_clause_count = #expressions,
   output_clause_count = width of the output rectangle = length of an output entry row, rule_count from the rule numbers) *)
Definition validate_size (n_in n_out n_ann rule_count : nat) (f : fields) : bool :=
  Nat.ltb 0 n_in && Nat.eqb (length (f_inputs f)) n_in &&
  (Nat.eqb (length (f_input_values f)) 0 || Nat.eqb (length (f_input_values f)) n_in) &&
  Nat.ltb 0 n_out &&
  (if Nat.ltb 1 n_out then Nat.eqb (length (f_components f)) n_out else Nat.eqb (length (f_components f)) 0) &&
  (Nat.eqb (length (f_output_values f)) 0 || Nat.eqb (length (f_output_values f)) n_out) &&
  Nat.ltb 0 rule_count &&
  Nat.eqb (length (f_input_entries f)) rule_count && forallb (fun r => Nat.eqb (length r) n_in) (f_input_entries f) &&
  Nat.eqb (length (f_output_entries f)) rule_count && forallb (fun r => Nat.eqb (length r) n_out) (f_output_entries f) &&
  (Nat.eqb n_ann 0 || (Nat.eqb (length (f_annotation_entries f)) rule_count && forallb (fun r => Nat.eqb (length r) n_ann) (f_annotation_entries f))).

(* ---------------- Spec: the whole plane of a drawing, both orientations ---------------- *)
Section Layout.
Variable hp_text : N.
Variable num_text : nat -> N.

Definition marker : cell := Region (0%N, 0%N) hp_text.
Definition numbers_cells (t : table) : list cell :=
  map (fun i => Region (10%N, N.of_nat i) (num_text (S i))) (seq 0 (length (t_rules t))).

(* rules as rows: the marker / rule-number column in front *)
Definition layout_rows (t : table) : plane :=
  zipcons (repeat marker (hdr t) ++ HOut :: numbers_cells t) (layout_h t).

(* rules as columns: the pivoted plane with the marker / rule-number line below *)
Definition layout_columns (t : table) : plane :=
  pivot (layout_h t) ++ [repeat marker (hdr t) ++ VOut :: numbers_cells t].
End Layout.
