//! `dv ws`: one history per line: {"models":[xml,...], "ops":[["add",i],["remove",ns,name],["replace",i],["clear"],["deploy"],["eval",model,invocable,ctx]]}
use crate::canon::{canon, panic_text};
use dmntk_feel::Scope;
use dmntk_workspace::Workspace;
use serde_json::{json, Value as J};
use std::io::{BufRead, Write};

#[cfg(dmntk_verif)]
fn snap(ws: &Workspace) -> J {
  let (defs, by_ns, by_name, evs) = ws.verif_snapshot();
  json!({"defs": defs.iter().map(|(a, b)| json!([a, b])).collect::<Vec<J>>(), "by_ns": by_ns, "by_name": by_name, "evs": evs})
}
#[cfg(not(dmntk_verif))]
fn snap(_ws: &Workspace) -> J {
  J::Null
}

fn one(req: &J) -> J {
  let models: Vec<String> = req["models"].as_array().map(|a| a.iter().map(|m| m.as_str().unwrap_or("").to_string()).collect()).unwrap_or_default();
  let mut ws = Workspace::new(None);
  let mut out = vec![];
  for op in req["ops"].as_array().cloned().unwrap_or_default() {
    let kind = op[0].as_str().unwrap_or("");
    let res = match kind {
      "add" | "replace" => {
        let xml = &models[op[1].as_u64().unwrap_or(0) as usize];
        match dmntk_model::parse(xml) {
          Ok(defs) => {
            let r = if kind == "add" { ws.add(defs) } else { ws.replace(defs) };
            json!(r.is_ok())
          }
          Err(_) => json!("parse-error"),
        }
      }
      "remove" => {
        ws.remove(op[1].as_str().unwrap_or(""), op[2].as_str().unwrap_or(""));
        J::Null
      }
      "clear" => {
        ws.clear();
        J::Null
      }
      "deploy" => json!(ws.deploy().is_ok()),
      "eval" => {
        let ctx = dmntk_feel_evaluator::evaluate_context(&Scope::default(), op[3].as_str().unwrap_or("{}")).unwrap_or_default();
        match ws.evaluate_invocable(op[1].as_str().unwrap_or(""), op[2].as_str().unwrap_or(""), &ctx) {
          Ok(v) => json!({"v": canon(&v)}),
          Err(_) => json!("not-deployed"),
        }
      }
      _ => json!("bad-op"),
    };
    out.push(json!({"r": res, "s": snap(&ws)}));
  }
  J::Array(out)
}

pub fn main() {
  let stdin = std::io::stdin();
  let stdout = std::io::stdout();
  let mut out = std::io::BufWriter::new(stdout.lock());
  for line in stdin.lock().lines() {
    let line = line.unwrap();
    if line.trim().is_empty() {
      continue;
    }
    let req: J = serde_json::from_str(&line).unwrap_or(J::Null);
    let r = std::panic::catch_unwind(|| one(&req)).unwrap_or_else(|e| json!({"panic": panic_text(e)}));
    writeln!(out, "{}", r).unwrap();
  }
  out.flush().unwrap();
}
