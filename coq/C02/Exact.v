(* C02/Exact.v — what "correctly rounded" means for decimal128, with the candidate set fixed by the EXACT value, not by the result.
   Definitions only, no proofs (the facts are in C02/Nearest.v, C02/NearestOps.v).

   The exact (real, non-negative) magnitude x an operation is to deliver is either a rational  X / Y * 10^e  (sums, differences,
   products, integer powers, remainders: Y = 1; quotients: Y = the divisor's coefficient) or a square root  sqrt (X * 10^e).
   Everything said about x is said by comparing x with decimal points n * 10^k, and such a comparison is an integer comparison after
   cross-multiplication: no reals, no rationals.

   r is THE correctly rounded value of (-1)^s * x  (rounds_to x s r)  when
     - q is the exponent fixed by the magnitude of x: the unique q >= ETINY = -6176 with  x < 10^34 * 10^q  and, unless q = ETINY
       (subnormal range), 10^33 * 10^q <= x          (quantum x q);
     - c is x / 10^q rounded to an integer, half-way cases to the even one:  (c - 1/2) * 10^q <= x <= (c + 1/2) * 10^q, written with the
       half-way points (10c -+ 5) * 10^(q-1), and c even when x is one of the two half-way points      (nearest_even x c q);
     - r is a decimal128 datum with the sign s and the value c * 10^q (the carry case c = 10^34 is the datum 10^33 * 10^(q+1); a zero
       c gives a zero; clamping of large exponents changes the representation, not the value)          (veq r (mkdec s c q)).
   An operation is correctly rounded (correctly_rounded x s o) when its result o is such an r if x lies below the overflow threshold
   (10^34 - 1/2) * 10^6111 = (10^35 - 5) * 10^6110, and null (None) if x reaches it.
   C02_correctly_rounded_unique: for a given x and s there is, up to the representation (trailing zeros, sign of zero is s), exactly one such o. *)
From Coq Require Import ZArith NArith Bool.
From DV Require Import Base.Dec.
Open Scope Z_scope.

Inductive exact : Type :=
| Quot (X Y : N) (e : Z)      (* X / Y * 10^e, Y > 0 *)
| Root (X : N) (e : Z).       (* sqrt (X * 10^e) *)

Definition exact_wf (x : exact) : Prop := match x with Quot _ Y _ => (0 < Y)%N | Root _ _ => True end.

(* comparison of the decimal point n * 10^k with the exact value x (Lt: the point lies below x).  The smaller of the exponents is
   taken out, so every power of ten below has a non-negative exponent.  A negative point lies below every x.
     Quot:  n * 10^k  ?  X / Y * 10^e        <=>   n * Y * 10^k    ?  X * 10^e
     Root:  n * 10^k  ?  sqrt (X * 10^e)     <=>   n^2 * 10^(2k)   ?  X * 10^e     (n >= 0) *)
Definition pt_cmp (n k : Z) (x : exact) : comparison :=
  if n <? 0 then Lt else
  match x with
  | Quot X Y e => let m := Z.min k e in Z.compare (n * Z.of_N Y * 10 ^ (k - m)) (Z.of_N X * 10 ^ (e - m))
  | Root X e => let m := Z.min (2 * k) e in Z.compare (n ^ 2 * 10 ^ (2 * k - m)) (Z.of_N X * 10 ^ (e - m))
  end.

Definition pt_le_x (n k : Z) (x : exact) : Prop := pt_cmp n k x <> Gt.   (* n * 10^k <= x *)
Definition x_le_pt (x : exact) (n k : Z) : Prop := pt_cmp n k x <> Lt.   (* x <= n * 10^k *)
Definition x_lt_pt (x : exact) (n k : Z) : Prop := pt_cmp n k x = Gt.    (* x <  n * 10^k *)
Definition x_eq_pt (x : exact) (n k : Z) : Prop := pt_cmp n k x = Eq.    (* x =  n * 10^k *)

(* the exponent of the result, fixed by the magnitude of x: 34 digits, or the subnormal grid *)
Definition quantum (x : exact) (q : Z) : Prop :=
  ETINY <= q /\ x_lt_pt x (10 ^ 34) q /\ (ETINY < q -> pt_le_x (10 ^ 33) q x).

(* c = x / 10^q rounded to the nearest integer, ties to even; the half-way points c -+ 1/2 are (10c -+ 5) / 10 *)
Definition nearest_even (x : exact) (c : N) (q : Z) : Prop :=
  pt_le_x (10 * Z.of_N c - 5) (q - 1) x /\ x_le_pt x (10 * Z.of_N c + 5) (q - 1) /\
  (x_eq_pt x (10 * Z.of_N c - 5) (q - 1) \/ x_eq_pt x (10 * Z.of_N c + 5) (q - 1) -> N.even c = true).

(* x reaches (10^34 - 1/2) * 10^6111: the rounding at the largest quantum would give 10^34 * 10^6111 = 10^6145 > the largest datum *)
Definition overflows (x : exact) : Prop := pt_le_x (10 ^ 35 - 5) (ETOP - 1) x.
Definition in_range (x : exact) : Prop := x_lt_pt x (10 ^ 35 - 5) (ETOP - 1).

Definition rounds_to (x : exact) (s : bool) (r : dec) : Prop :=
  in_format r = true /\ neg r = s /\
  exists (c : N) (q : Z), quantum x q /\ nearest_even x c q /\ veq r (mkdec s c q).

Definition correctly_rounded (x : exact) (s : bool) (o : option dec) : Prop :=
  match o with
  | Some r => in_range x /\ rounds_to x s r
  | None => overflows x
  end.

(* the sign of a result obtained by rounding the exact integer z * 10^e (sums, differences, remainders): the sign of z; an exact zero gets
   the sign the operation prescribes (IEEE 754-2008 6.3) *)
Definition zsign (z : Z) (zero_sign : bool) : bool := if z =? 0 then zero_sign else z <? 0.

(* equality of results as numbers *)
Definition oveq (o1 o2 : option dec) : Prop :=
  match o1, o2 with
  | Some r1, Some r2 => veq r1 r2
  | None, None => True
  | _, _ => False
  end.

(* the statement the audit showed to be too weak (the quantum bounded through the result coefficient c, not through the quotient):
   kept to exhibit the wrong value it accepts (C02_audit_counterexample) *)
Definition div_weak_statement (a b r : dec) : Prop :=
  exists (c : N) (q : Z),
    in_format r = true /\ neg r = xorb (neg a) (neg b) /\ veq r (mkdec (xorb (neg a) (neg b)) c q) /\
    (c <= 10 ^ 34)%N /\ ETINY <= q /\ (ETINY < q -> (10 ^ 33 <= c)%N) /\
    forall B, B <= expo a -> B <= q + expo b ->
      let X := Z.of_N (coef a) * 10 ^ (expo a - B) in
      let Y := Z.of_N (coef b) * 10 ^ (q + expo b - B) in
      2 * Z.abs (Z.of_N c * Y - X) <= Y /\ (2 * Z.abs (Z.of_N c * Y - X) = Y -> N.even c = true).
