"""C20 — a deployed model may be evaluated from many threads with per-call results intact.
Proof: coq/Props/C20.v — readers-writer locking and thread-private state (coq/C20/Conc.v): no blocking, no deadlock,
isolation and non-interference for all schedules and thread counts when no write acquisition exists in the evaluation path;
the hypotheses about the code (no .write() in the evaluation phase, no shared mutable statics, private decimal context per
call, no unsafe Send/Sync) are regenerated from the source into coq/Gen/SyncSites.v on every run and decided by vm_compute.
coq/C20/Inv.v + InvProofs.v: the same for a machine with write acquisitions and shared mutable cells, for EVERY inventory that meets
`sites_ok`, with a necessity witness per hypothesis; coq/C20/Code.v + CodeProofs.v: the lock program of a call built from the regenerated
code regions (acquisitions and releases, nesting as extracted), every depth.  lock_observation: the lock operations of one nested evaluation
observed in the running code (gdb, no hook) must be the program the inventory describes.
Correspondence = stress: one Arc<ModelEvaluator> shared by 2..16 threads (`dv threads`), randomised barriers / yields / call
orders, every result compared with the sequential result, watchdog for deadlock, final pass for a poisoned lock."""
import json
import random
import os
import subprocess
import sys
import time

from vlib import core

sys.path.insert(0, os.path.join(core.ROOT, 'translators'))

XMLNS = 'xmlns="https://www.omg.org/spec/DMN/20191111/MODEL/"'


def esc(s):
    return s.replace('&', '&amp;').replace('<', '&lt;').replace('>', '&gt;')


def lit(name, expr, inputs=(), decisions=(), knowledge=()):
    r = ''.join('<informationRequirement><requiredInput href="#i_%s"/></informationRequirement>' % x for x in inputs)
    r += ''.join('<informationRequirement><requiredDecision href="#d_%s"/></informationRequirement>' % x for x in decisions)
    r += ''.join('<knowledgeRequirement><requiredKnowledge href="#b_%s"/></knowledgeRequirement>' % x for x in knowledge)
    return '<decision name="%s" id="d_%s"><variable name="%s"/>%s<literalExpression><text>%s</text></literalExpression></decision>' % (name, name, name, r, esc(expr))


def table():
    rules = [('< 0', '-', '1'), ('[0..10)', '"alpha", "beta"', '10'), ('[0..100]', '-', '100'), ('>= 50', 'not("gamma")', '1000'),
             ('-', '"gamma"', '10000'), ('> 1000', '-', '100000'), ('[5..7], [20..30]', '"alpha"', '7')]
    rs = ''
    for i, (a, s, o) in enumerate(rules):
        rs += ('<rule id="r%d"><inputEntry id="r%da"><text>%s</text></inputEntry><inputEntry id="r%db"><text>%s</text></inputEntry>'
               '<outputEntry id="r%do"><text>%s</text></outputEntry></rule>') % (i, i, esc(a), i, esc(s), i, o)
    return ('<decision name="tbl" id="d_tbl"><variable name="tbl" typeRef="number"/>'
            '<informationRequirement><requiredInput href="#i_a"/></informationRequirement>'
            '<informationRequirement><requiredInput href="#i_s"/></informationRequirement>'
            '<decisionTable hitPolicy="COLLECT" aggregation="SUM" outputLabel="tbl">'
            '<input id="in1" label="a"><inputExpression typeRef="number"><text>a</text></inputExpression></input>'
            '<input id="in2" label="s"><inputExpression typeRef="string"><text>s</text></inputExpression></input>'
            '<output id="out1"/>%s</decisionTable></decision>') % rs


def multi_table(name, policy, outs, rules):
    """a decision table over input a with several output clauses that have output values (prioritised hit policies)"""
    os_ = ''.join('<output id="%s_o%d" name="%s" typeRef="string"><outputValues><text>%s</text></outputValues></output>' % (name, i, n, esc(vals))
                  for i, (n, vals) in enumerate(outs))
    rs = ''
    for i, (cond, vals) in enumerate(rules):
        rs += '<rule id="%s_r%d"><inputEntry id="%s_r%di"><text>%s</text></inputEntry>%s</rule>' % (
            name, i, name, i, esc(cond), ''.join('<outputEntry id="%s_r%do%d"><text>%s</text></outputEntry>' % (name, i, j, esc(v)) for j, v in enumerate(vals)))
    return ('<decision name="%s" id="d_%s"><variable name="%s"/><informationRequirement><requiredInput href="#i_a"/></informationRequirement>'
            '<decisionTable hitPolicy="%s" outputLabel="%s"><input id="%s_in"><inputExpression typeRef="number"><text>a</text></inputExpression></input>'
            '%s%s</decisionTable></decision>') % (name, name, name, policy, name, name, os_, rs)


def stress_model():
    parts = [
        '<inputData name="a" id="i_a"><variable name="a" typeRef="number"/></inputData>',
        '<inputData name="s" id="i_s"><variable name="s" typeRef="string"/></inputData>',
        '<inputData name="d" id="i_d"><variable name="d" typeRef="date"/></inputData>',
        '<inputData name="p" id="i_p"><variable name="p" typeRef="string"/></inputData>',
        '<inputData name="q" id="i_q"><variable name="q" typeRef="string"/></inputData>',
        '<inputData name="w" id="i_w"><variable name="w" typeRef="string"/></inputData>',
        '<inputData name="y" id="i_y"><variable name="y" typeRef="string"/></inputData>',
        '<businessKnowledgeModel name="fib" id="b_fib"><variable name="fib"/><encapsulatedLogic><formalParameter name="n" typeRef="number"/>'
        '<literalExpression><text>%s</text></literalExpression></encapsulatedLogic></businessKnowledgeModel>' % esc('if n < 2 then n else fib(n - 1) + fib(n - 2)'),
        lit('num', 'decimal(sum(for i in 1..15 return (a + i) ** 2 / 7) + sqrt(abs(a) + 1) + exp(1) * log(abs(a) + 2), 20)', inputs=['a']),
        lit('tmp', 'string(date and time(d, time("10:00:00"))) + "|" + string(date and time(d, time("10:00:00")) - date and time("1990-01-01T00:00:00")) + "|" + '
                   'string(years and months duration(d, date("2030-01-01"))) + "|" + string(date("2021-02-28") < d) + "|" + string(d.year) + string(d.month) + "|" + '
                   'string(date and time("2021-01-31T10:00:00@Europe/Warsaw")) + string(time("10:00:00+02:00"))', inputs=['d']),
        lit('rex', 'replace(s, "[aeiou]+", "#") + "|" + string(matches(s, "^[a-z]+[0-9]*$")) + "|" + string(count(split(s, "[0-9]"))) + "|" + upper case(s)', inputs=['s']),
        table(),
        # truncation of non-integers (decimal() with a fractional scale, time() with fractional seconds): decNumber's ToIntegralValue
        # rewrites ctx->round while it works; next to inexact quotients whose last digit shows the rounding mode in force
        lit('trn', '[decimal(a / 7, 2.5), decimal(a + 0.25, 1.5), string(time(10, 20, 30.123456)), string(time(23, 59, 59.999999999)), '
                   'sum(for i in 1..10 return decimal((a + i) / 7, 2.5 + i / 3)), 2 / 3, 1 / 7, a / 9, sum(for i in 1..10 return (a + i) / (i + 2))]', inputs=['a']),
        # built-ins whose arguments come from the input data: regular expressions (pattern p), temporal and numeric texts (q);
        # the storm phase calls this with thousands of distinct argument values (anything cached per argument value shows there)
        lit('stm', '[matches(s, p), replace(s, p, "#"), split(s, p), replace(s, p, "$0$0", "i"), matches(p, "^[a-z0-9]+"), string(date(q)), '
                   'string(date(q) < date("2021-06-15")), string length(p), upper case(p), contains(s, substring(p, 1, 2))]', inputs=['s', 'p', 'q']),
        # prioritised tables with 2 and 3 output clauses; the order of the matching rules is decided by a clause other than the first
        multi_table('pri', 'PRIORITY', [('o1', '"A", "B"'), ('o2', '"x", "y", "z"')],
                    [('>= 0', ['"B"', '"x"']), ('>= 0', ['"A"', '"z"']), ('>= 5', ['"A"', '"y"']), ('>= 10', ['"A"', '"x"']), ('< 0', ['"B"', '"z"']), ('< 1', ['"B"', '"y"'])]),
        multi_table('ord', 'OUTPUT ORDER', [('p', '"hi", "lo"'), ('q', '"1", "2", "3"'), ('r', '"u", "v"')],
                    [('>= 0', ['"lo"', '"1"', '"u"']), ('>= 0', ['"hi"', '"3"', '"v"']), ('>= 5', ['"hi"', '"1"', '"v"']), ('>= 5', ['"hi"', '"1"', '"u"']),
                     ('>= 10', ['"hi"', '"2"', '"u"']), ('< 3', ['"lo"', '"1"', '"v"']), ('-', ['"lo"', '"3"', '"u"'])]),
        # results that depend on the rounding field of the decimal context: inexact quotients next to floor / ceiling / decimal,
        # which make the C library rewrite ctx->round for the duration of the call
        lit('rnd', '[2 / 3, a / 7, (a + 0.5) / 3, 1 / 9 + a / 11, floor(a / 7), ceiling(a / 7), decimal(a / 7, 3), floor(-a / 3), '
                   'sum(for i in 1..12 return (a + i) / (i + 6)), sum(for i in 1..12 return floor((a + i) / 3) + ceiling((a + i) / 7))]', inputs=['a']),
        # a long chain of required decisions: every thread is 150 decisions deep at the same time (anything that counts or stores per-call
        # nesting in a place shared between calls shows here; seeded change C20_d: a process-wide nesting counter)
        *[lit('c%d' % i, ('c%d + 1' % (i + 1)) if i < 149 else 'a', inputs=(['a'] if i == 149 else []), decisions=([('c%d' % (i + 1))] if i < 149 else [])) for i in range(150)],
        # local times in named zones on the days of a clock change, on both sides of the change, in calls that run at the same time (anything that
        # remembers a zone's offset per zone or per day between calls shows here; seeded change C20_e: a process-wide cache keyed by zone and date)
        lit('zon', '[string(date and time(w + "@Europe/Warsaw") - date and time("2021-03-27T12:00:00Z")), '
                   'string(date and time(w + "@Europe/Warsaw") < date and time("2021-03-28T01:15:00Z")), '
                   'string(date and time(y + "@America/New_York") - date and time("2021-11-06T12:00:00Z")), '
                   'string(date and time(y + "@America/New_York") = date and time(y + "-05:00"))]', inputs=['w', 'y']),
        # a knowledge model that is invoked directly and whose body calls a decision service whose output decision requires another knowledge
        # model (the evaluation re-enters the knowledge-model evaluator while it is inside it), next to 40 knowledge models that are each used for
        # the first time by some call (anything that fills a cache under a write lock at first use while another call is nested inside a read
        # section of the same lock shows here as a deadlock; seeded change C20_g)
        *['<businessKnowledgeModel name="u%d" id="b_u%d"><variable name="u%d"/><encapsulatedLogic><formalParameter name="n" typeRef="number"/>'
          '<literalExpression><text>n + %d</text></literalExpression></encapsulatedLogic></businessKnowledgeModel>' % (k, k, k, k) for k in range(40)],
        *[lit('e%d' % k, 'u%d(a)' % k, inputs=['a'], knowledge=['u%d' % k]) for k in range(40)],
        lit('dsv', 'fib(7) + u0(1)', knowledge=['fib', 'u0']),
        # a decision that invokes a decision service as a FEEL function several times (every invocation re-enters the evaluator's name lookup)
        '<decision name="dsf" id="d_dsf"><variable name="dsf"/><knowledgeRequirement><requiredKnowledge href="#s_svf"/></knowledgeRequirement>'
        '<literalExpression><text>svf() + svf() + svf() + svf()</text></literalExpression></decision>',
        '<decisionService name="svf" id="s_svf"><variable name="svf"/><outputDecision href="#d_dsv"/></decisionService>',
        '<businessKnowledgeModel name="reent" id="b_reent"><variable name="reent"/><encapsulatedLogic><formalParameter name="n" typeRef="number"/>'
        '<literalExpression><text>svf() + n</text></literalExpression></encapsulatedLogic>'
        '<knowledgeRequirement><requiredKnowledge href="#s_svf"/></knowledgeRequirement></businessKnowledgeModel>',
        # a decision service with an INPUT decision (idb), whose output decision (itot) requires it, next to direct evaluations of idb and itot by other
        # threads: inside the service idb is a parameter, outside it is computed from a - at the same time, over the same evaluator (anything that marks
        # `idb is supplied` in a place shared between calls shows here; seeded change C20_k: an atomic mark on the decision's entry)
        lit('idb', 'a * 2 + fib(9)', inputs=['a'], knowledge=['fib']),
        lit('itot', 'idb + fib(14)', decisions=['idb'], knowledge=['fib']),
        '<decisionService name="sin" id="s_sin"><variable name="sin"/><outputDecision href="#d_itot"/><inputDecision href="#d_idb"/></decisionService>',
        lit('top', '{n: num, t: tbl, r: rex, f: fib(modulo(abs(floor(a)), 11))}', decisions=['num', 'tbl', 'rex'], knowledge=['fib'], inputs=['a']),
        '<decisionService name="svc" id="s_svc"><variable name="svc"/><outputDecision href="#d_top"/><encapsulatedDecision href="#d_num"/>'
        '<encapsulatedDecision href="#d_tbl"/><encapsulatedDecision href="#d_rex"/><inputData href="#i_a"/><inputData href="#i_s"/></decisionService>',
    ]
    return '<?xml version="1.0" encoding="UTF-8"?><definitions namespace="nst" name="stress" id="ds" %s>%s</definitions>' % (XMLNS, ''.join(parts))


def gen_calls(rng, n):
    words = ['alpha', 'beta', 'gamma', 'delta9', 'queue42', 'x', 'aeiou', 'rhythm', 'Zebra', 'a1b2c3']
    dates = ['2021-01-31', '2020-02-29', '1999-12-31', '2024-06-15', '2029-12-31', '2021-02-28', '2021-03-01']
    calls = []
    for i in range(n):
        a = rng.choice([0, 1, 5, 6.5, 7, 9.99, 10, 25, 50, 99, 100, 1001, -3, -0.5, 123456.789]) if rng.random() < 0.7 else round(rng.uniform(-50, 1500), 3)
        s = rng.choice(words)
        d = rng.choice(dates)
        inv = rng.choice(['num', 'tmp', 'rex', 'tbl', 'top', 'top', 'svc', 'fib', 'rnd', 'rnd', 'trn', 'trn', 'pri', 'pri', 'ord', 'ord', 'c0', 'c0', 'c75', 'zon', 'zon', 'zon', 'reent', 'reent', 'reent', 'ek', 'ek', 'ek', 'ek', 'dsf', 'dsf', 'dsf', 'pad', 'pad', 'sin', 'sin', 'sin', 'idb', 'idb', 'itot', 'itot'])
        if inv == 'pad':
            # an invocable called by a name with stray white space, a spelling not used before in this run (unknown invocable: null, alone and
            # concurrently; anything that LEARNS such names under a write lock at first sight shows here; seeded change C20_h)
            inv = ' ' * rng.randint(0, 3) + rng.choice(['num', 'top', 'tbl', 'dsf', 'rnd']) + rng.choice([' ', '  ', '\t', ' \t ', '   '])
            ctx = '{a: %s, s: "%s", d: date("%s")}' % (a, s, d)
        elif inv == 'dsf':
            ctx = '{}'
        elif inv == 'sin':
            ctx = '{idb: %d}' % rng.randint(0, 50)
        elif inv == 'reent':
            ctx = '{n: %d}' % rng.randint(0, 5)
        elif inv == 'ek':
            inv = 'e%d' % rng.randrange(40)
            ctx = '{a: %s}' % a
        elif inv == 'zon':
            ctx = '{w: "2021-03-28T%s", y: "2021-11-07T%s"}' % (rng.choice(['00:30:00', '01:30:00', '01:59:59', '03:00:00', '03:30:00', '12:00:00']),
                                                               rng.choice(['00:30:00', '00:59:59', '02:00:00', '03:30:00', '12:00:00']))
        elif inv == 'fib':
            ctx = '{n: %d}' % rng.randint(0, 13)
        else:
            ctx = '{a: %s, s: "%s", d: date("%s")}' % (a, s, d)
        calls.append([inv, ctx])
    return calls


def storm_calls(rng, n):
    """n calls of `stm`, every one with a pattern, a subject and a date text of its own"""
    calls = []
    heads = ['ab', 'x', 'qu', 'zz9', 'k', 'alpha', 'be', 'g']
    for i in range(n):
        h = rng.choice(heads)
        pat = '%s%d%s' % (h, i, rng.choice(['[0-9]*', '[a-c]+', '(x|y)?', '.', 'z{0,2}', '[^q]', '\\\\d?', '']))
        subj = '%s%s%d%sx%d' % (rng.choice(['', 'pre', 'ab']), h if i % 5 else 'no', i, rng.choice(['', '7', 'abc', 'zz']), i % 97)
        q = '%04d-%02d-%02d' % (1900 + i % 300, 1 + i % 12, 1 + i % 28)
        calls.append(['stm', '{s: "%s", p: "%s", q: "%s"}' % (subj, pat, q)])
    return calls


def storm_phase(ctx, exe, xml, bad_sites, runs_out):
    """Built-ins hammered from all threads with thousands of DISTINCT argument values taken from the input data (2500 distinct
    regular expressions, subjects and date texts per run).  One run always; more when the site inventory shows a lock or a mutable
    static outside the build functions (a per-argument cache behind it only misbehaves when many distinct values circulate)."""
    reps = 1 + (ctx.pick(4, 20) if bad_sites else 0)
    for k in range(reps):
        import random
        calls = storm_calls(random.Random(ctx.seed * 313 + k), 2500)     # reproducible from the seed written into the replay file
        threads = 16 if k % 2 == 0 else 6
        res, wall = run_stress(ctx, exe, xml, calls, threads, ctx.pick(700, 3000), ctx.seed * 313 + k, timeout_s=ctx.pick(60, 180), trials=ctx.pick(2, 4))
        ctx.evaluations += 1
        case = {'threads': threads, 'per_thread': ctx.pick(700, 3000), 'trials': ctx.pick(2, 4), 'seed': ctx.seed * 313 + k, 'calls': calls[:400], 'storm': 2500,
                'note': 'the run used 2500 generated calls (storm_calls); the first 400 are listed'}
        if 'inconclusive' in res:
            ctx.notes.append('storm run inconclusive: ' + res['inconclusive'])
            return
        if 'err' in res or 'crash' in res:
            ctx.violation('the storm run could not be performed or the process died: %s' % json.dumps(res)[:300], case, impl=res)
            return
        ctx.corr_checked += res.get('calls', 0)
        runs_out.append({'storm': True, 'threads': threads, 'calls': res.get('calls', 0), 'wall_s': round(wall, 2), 'deadlock': res.get('deadlock'),
                         'mismatches': len(res.get('mismatches', []))})
        if res.get('deadlock'):
            ctx.violation('%d threads calling built-ins with distinct arguments made no progress for the watchdog window' % threads, case, impl=res)
            return
        if res.get('mismatches') or not res.get('final_ok'):
            m = (res.get('mismatches') or res.get('final_mismatches') or [{}])[0]
            ctx.violation('with 2500 distinct patterns / subjects / dates in circulation among %d threads, %s with input %s returned %s, the same call made alone returns %s'
                          % (threads, m.get('invocable'), m.get('input'), str(m.get('got'))[:260], str(m.get('sequential'))[:260]),
                          dict(case, first_mismatch=m), impl=(res.get('mismatches') or res.get('final_mismatches'))[:3])
            return
        if res.get('distinct_results', 0) >= 2000:
            ctx.nontrivial.add(('storm', k))


def regenerate_sites(ctx):
    import syncsites2coq
    globals()['syncsites2coq'] = syncsites2coq
    sites, locks = syncsites2coq.main()
    bad = []
    for rel, line, kind, evalp, fn in sites:
        ok = True
        if kind.startswith('SLock true') and evalp:
            ok = False
        elif kind in ('SStatic true', 'SStaticMut', 'SThreadLocal', 'SUnsafeSendSync', 'SCtxUse false', 'SFfiCtx false', 'SMissingFile', 'SField true'):
            ok = False
        if not ok:
            bad.append('%s:%d %s (fn %s)' % (rel, line, kind, fn))
    ctx.cov['sync_sites'] = len(sites)
    ctx.cov['lock_receivers'] = len(locks)
    ctx.cov['sites_violating_hypotheses'] = bad
    INVENTORY['sites'], INVENTORY['locks'] = sites, locks
    INVENTORY['regions'] = syncsites2coq.regions(sites, locks)
    INVENTORY['lock_types'] = syncsites2coq.lock_types(locks)
    INVENTORY['call_path'] = syncsites2coq.call_path(sites, locks)
    return bad


INVENTORY = {}

OBS_XML = ('<?xml version="1.0" encoding="UTF-8"?><definitions namespace="nso" name="obs" id="dobs" %s>'
           '<inputData name="a" id="i_a"><variable name="a" typeRef="number"/></inputData>'
           '<decision name="inner" id="d_inner"><variable name="inner"/><informationRequirement><requiredInput href="#i_a"/></informationRequirement>'
           '<literalExpression><text>a + 1</text></literalExpression></decision>'
           '<decision name="outer" id="d_outer"><variable name="outer"/><informationRequirement><requiredDecision href="#d_inner"/></informationRequirement>'
           '<literalExpression><text>inner * 2</text></literalExpression></decision></definitions>') % XMLNS


def expected_lock_ops():
    """what the regenerated inventory says one evaluation of a decision that requires a decision does: deep_ops 2 of coq/C20/Code.v without the steps"""
    rg = INVENTORY['regions']
    nest = []
    for _ in range(2):
        nest = list(rg['clo'][0]) + nest + list(rg['clo'][1])
    ops = list(rg['inv'][0]) + list(rg['dec'][0]) + nest + list(rg['dec'][1]) + list(rg['inv'][1])
    return [(o[0], bool(o[1]), o[2]) for o in ops if o[0] != 'S']


def observe_lock_ops(ctx, exe):
    """The lock operations the RUNNING code performs during one evaluation of a decision that requires a decision, in order: the harness binary
    is run under gdb with a breakpoint on every instance of std's RwLock<T>::read / write / try_read / try_write (an acquisition; the calling
    function names the site) and on every drop_in_place<RwLockReadGuard<T>> / <RwLockWriteGuard<T>> (the release; T names the receiver's type),
    counted from the entry of ModelEvaluator::evaluate_invocable.  No hook in the code under test: symbols of the unoptimised build only.
    Returns a list of ('A'|'R', is_write, lock id or text) or None when the observation is not possible here."""
    import re
    import shutil
    import tempfile
    if not shutil.which('gdb') or not shutil.which('nm'):
        return None, 'gdb / nm not installed'
    syms = subprocess.run(['nm', exe], stdout=subprocess.PIPE, text=True).stdout.split('\n')
    names = [l.split()[-1] for l in syms if l.strip()]
    acq = [n for n in names if re.search(r'rwlock15RwLock\$LT\$T\$GT\$(4read|5write|8try_read|9try_write)17h', n)]
    drops = [n for n in names if re.search(r'drop_in_place\$LT\$std\.\.sync\.\.(poison\.\.)?rwlock\.\.RwLock(Read|Write)Guard\$LT\$', n)]
    mark = [n for n in names if re.search(r'ModelEvaluator18evaluate_invocable17h', n)]
    if not acq or not drops or not mark:
        return None, 'the harness binary has no symbols for RwLock::read / guard drops / evaluate_invocable (%d, %d, %d)' % (len(acq), len(drops), len(mark))
    tmp = tempfile.mkdtemp(prefix='c20obs-', dir=core.BUILD if hasattr(core, 'BUILD') else None)
    try:
        open(os.path.join(tmp, 'req.json'), 'w').write(json.dumps({'xml': OBS_XML, 'calls': [['outer', '{a: 1}']]}) + '\n')
        g = ['set pagination off', 'set confirm off', 'set print thread-events off']
        for n in mark:
            g += ["break '%s'" % n, 'commands', 'silent', 'printf "@@MARK\\n"', 'continue', 'end']
        for n in acq:
            g += ["break '%s'" % n, 'commands', 'silent', 'printf "@@ACQ\\n"', 'bt 2', 'continue', 'end']
        for n in drops:
            g += ["break '%s'" % n, 'commands', 'silent', 'printf "@@DROP\\n"', 'bt 1', 'continue', 'end']
        g += ['run model < %s > %s' % (os.path.join(tmp, 'req.json'), os.path.join(tmp, 'out.json')), 'quit']
        open(os.path.join(tmp, 'obs.gdb'), 'w').write('\n'.join(g) + '\n')
        try:
            p = subprocess.run(['gdb', '-batch', '-nx', '-x', os.path.join(tmp, 'obs.gdb'), exe], stdout=subprocess.PIPE, stderr=subprocess.STDOUT, text=True, timeout=25)
        except subprocess.TimeoutExpired:
            return None, 'the observed evaluation did not return within 25 s'
        out = p.stdout
        try:
            answer = json.loads(open(os.path.join(tmp, 'out.json')).read().split('\n')[0])
        except Exception:
            answer = None
    finally:
        shutil.rmtree(tmp, ignore_errors=True)
    if not answer or answer.get('results') != [{'v': {'n': '4', 'p': '4'}}]:
        return None, 'the observed evaluation did not answer 4: %s' % str(answer)[:200]
    if '@@MARK' not in out:
        return None, 'the entry of evaluate_invocable was not seen by gdb'
    body = out.split('@@MARK', 1)[1]
    sites, locks, ltypes = INVENTORY['sites'], INVENTORY['locks'], INVENTORY['lock_types']
    by_fn = {}
    for rel, line, kind, evalp, fn in sites:
        if kind.startswith('SLock'):
            by_fn.setdefault((fn, kind.split()[1] == 'true'), set()).add(int(kind.split()[2]))
    by_type = {tuple(ltypes[r]): i for r, i in locks.items() if r in ltypes}
    events = []
    for chunk in re.split(r'@@(?=ACQ|DROP)', body)[1:]:
        lines = chunk.split('\n')
        if lines[0] == 'ACQ':
            m0 = re.search(r'RwLock<T>::(read|write|try_read|try_write)::h([0-9a-f]+)', chunk)
            m1 = re.search(r'^#1 .* in (.*?)::h[0-9a-f]+ \(\)', chunk, re.M)
            if not m0:
                continue
            w = m0.group(1) in ('write', 'try_write')
            fn = m1.group(1).split('::')[-1] if m1 else '?'
            ids = by_fn.get((fn, w), set())
            events.append(('A', w, sorted(ids)[0] if len(ids) == 1 else ('?', m0.group(2), 'called from %s' % (m1.group(1) if m1 else '?'), sorted(ids))))
        else:
            m0 = re.search(r'drop_in_place<std::sync::(?:poison::)?rwlock::RwLock(Read|Write)Guard<(.*)>>::h[0-9a-f]+', chunk)
            if not m0:
                continue
            toks = tuple(syncsites2coq.type_tokens(m0.group(2)))
            events.append(('R', m0.group(1) == 'Write', by_type.get(toks, 'guard of %s' % m0.group(2))))
    # a function with several acquisitions: the instance of RwLock<T>::read / write (one per receiver type T) tells which one it was,
    # learnt from the acquisitions whose calling function has only one
    inst = {}
    for chunk, evn in zip([c for c in re.split(r'@@(?=ACQ|DROP)', body)[1:] if c.startswith('ACQ') and re.search(r'RwLock<T>::', c)], [e for e in events if e[0] == 'A']):
        m0 = re.search(r'RwLock<T>::(?:read|write|try_read|try_write)::h([0-9a-f]+)', chunk)
        if m0 and isinstance(evn[2], int):
            inst.setdefault(m0.group(1), set()).add(evn[2])
    fixed = []
    for e in events:
        if e[0] == 'A' and isinstance(e[2], tuple):
            cand = inst.get(e[2][1], set()) & set(e[2][3]) if e[2][3] else inst.get(e[2][1], set())
            fixed.append(('A', e[1], sorted(cand)[0] if len(cand) == 1 else e[2][2]))
        else:
            fixed.append(e)
    return fixed, None


def lock_observation(ctx, exe):
    """cross-check of the inventory against the running code (C20_inventory_nonempty speaks of the regenerated call path: here it is compared
    with what an evaluation really does)"""
    import syncsites2coq
    globals()['syncsites2coq'] = syncsites2coq
    want = expected_lock_ops()
    got, why = observe_lock_ops(ctx, exe)
    ctx.evaluations += 1
    names = {i: r for r, i in INVENTORY['locks'].items()}

    def show(ops):
        return ' '.join('%s%s:%s' % ('acquire' if o[0] == 'A' else 'release', '(write)' if o[1] else '', names.get(o[2], o[2])) for o in ops)
    if got is None:
        ctx.notes.append('lock operations of the running code not observed: %s' % why)
        ctx.cov['lock_operations_observed'] = {'observed': False, 'why': why}
        return
    ctx.corr_checked += 1
    acquired = sorted(set(o[2] for o in got if o[0] == 'A' and isinstance(o[2], int)))
    ctx.cov['lock_operations_observed'] = {'observed': True, 'operations': len(got), 'acquisitions': len([o for o in got if o[0] == 'A']),
                                           'write_acquisitions': len([o for o in got if o[0] == 'A' and o[1]]),
                                           'receivers_acquired': [names.get(i, i) for i in acquired], 'equal_to_inventory_program': got == want}
    if got and len(acquired) >= 3:
        ctx.nontrivial.add('lock-observation')
    path_ids = sorted(set(l for w, l in INVENTORY['call_path']))
    missing = [names.get(i, i) for i in path_ids if i not in acquired]
    # what the theorems need of the observed program: every acquisition is one the inventory lists (kind and receiver), in the order of the
    # regenerated call path, and every guard is released (C20_inv_* then speak about THIS program: all_from_inv, xall_well_bracketed).
    # Where a guard is dropped may differ from what the scanner read off the braces (it cannot see moves of a guard): recorded, not a failure.
    held, bracketed = {}, True
    for o in got:
        k = (o[1], o[2])
        held[k] = held.get(k, 0) + (1 if o[0] == 'A' else -1)
        bracketed = bracketed and held[k] >= 0
    bracketed = bracketed and all(v == 0 for v in held.values())
    same_acquisitions = [(o[1], o[2]) for o in got if o[0] == 'A'] == [(bool(w), l) for w, l in INVENTORY['call_path']]
    covered = (same_acquisitions and bracketed and not missing and all(isinstance(o[2], int) for o in got)
               and [o for o in got if o[0] == 'A'] == [o for o in want if o[0] == 'A'] and sorted(got) == sorted(want))
    ctx.cov['lock_operations_observed'].update({'acquisitions_equal_call_path': same_acquisitions, 'every_guard_released': bracketed})
    if got != want and covered:
        ctx.notes.append('the running code drops a guard at another place than the scanner read off the brace structure (acquisitions, their kinds, receivers and order agree with the '
                         'inventory and every guard is released: the observed program is a program of the inventory, C20_inv_* apply to it): observed %s; inventory %s' % (show(got)[:700], show(want)[:700]))
    elif got != want or missing:
        ctx.corr_broken('the lock operations of one evaluation of a decision that requires a decision, observed in the running code, are not the program the regenerated '
                        'inventory describes (deep_ops 2 of coq/C20/Code.v)%s' % ('; receivers of the call path never acquired: %s' % missing if missing else ''),
                        {'model': 'decision outer requires decision inner requires input a; evaluate_invocable("outer", {a: 1})'}, show(got)[:1500], show(want)[:1500])


def run_stress(ctx, exe, xml, calls, threads, per_thread, seed, timeout_s, trials=1):
    req = {'xml': xml, 'calls': calls, 'threads': threads, 'per_thread': per_thread, 'seed': seed, 'timeout_s': timeout_s, 'trials': trials}
    t0 = time.time()
    try:
        p = subprocess.run([exe, 'threads'], input=json.dumps(req) + '\n', stdout=subprocess.PIPE, stderr=subprocess.PIPE, text=True, timeout=max(900, 10 * timeout_s))
    except subprocess.TimeoutExpired:
        return {'inconclusive': 'the harness process did not return within %d s' % max(900, 10 * timeout_s), 'calls': 0, 'mismatches': []}, time.time() - t0
    lines = [l for l in p.stdout.split('\n') if l.strip()]
    if not lines:
        return {'crash': 'exit status %s: %s' % (p.returncode, p.stderr[-300:])}, time.time() - t0
    return json.loads(lines[0]), time.time() - t0


def alone_phase(ctx, exe, xml):
    """Every call of a generated list is also made ALONE, by a process of its own, and the values are compared with those the same calls
    give when one process makes them one after the other: state that a call leaves behind for the next call of the process (a cache with
    too coarse a key, a counter, a pool) is seen even when it is not a race (seeded change C20_e: zone offsets cached per zone and date)."""
    from concurrent.futures import ThreadPoolExecutor
    calls = gen_calls(random.Random(ctx.seed * 77 + 5), ctx.pick(96, 400))
    seen, uniq = set(), []
    for c in calls:
        if tuple(c) not in seen:
            seen.add(tuple(c))
            uniq.append(c)

    def show(cs):
        p = subprocess.run([exe, 'threads'], input=json.dumps({'xml': xml, 'calls': cs, 'threads': 1, 'per_thread': 1, 'seed': 1, 'timeout_s': 60, 'trials': 1, 'show': True}) + '\n',
                           stdout=subprocess.PIPE, stderr=subprocess.PIPE, text=True, timeout=600)
        lines = [l for l in p.stdout.split('\n') if l.strip()]
        return json.loads(lines[0]).get('expected') if lines else None
    together = show(uniq)
    with ThreadPoolExecutor(max_workers=16) as ex:
        alone = list(ex.map(lambda c: show([c]), uniq))
    ctx.cov['calls_made_alone_in_own_process'] = len(uniq)
    if together is None or any(a is None for a in alone):
        ctx.violation('the harness could not evaluate the calls one by one', {'calls': uniq[:5]}, impl=str(together)[:200])
        return
    for c, t, a in zip(uniq, together, alone):
        ctx.evaluations += 1
        ctx.corr_checked += 1
        if t != a[0]:
            ctx.violation('evaluation of %s with input %s returns %s when the process made other calls before it, and %s when it is the only call of its process '
                          '(a call observes what another call left behind)' % (c[0], c[1], str(t)[:200], str(a[0])[:200]),
                          {'alone_phase': True, 'calls': uniq[:uniq.index(c) + 1]}, impl={'after other calls': t, 'alone': a[0]})
            return


SITES_HEADER = 'From Coq Require Import List NArith Bool.\nFrom DV Require Import C20.Conc C20.Sites Gen.SyncSites.\nImport ListNotations.\n'
NESTED = [['top', '{a: 7, s: "gamma", d: date("1999-12-31")}'], ['svc', '{a: 25, s: "alpha", d: date("2021-01-31")}'],
          ['top', '{a: 1001, s: "beta", d: date("2024-06-15")}'], ['fib', '{n: 9}'], ['tbl', '{a: 6.5, s: "alpha"}']]


def model_search(ctx, bad_sites):
    """asks the locking model (on the inventory just regenerated) for a stuck schedule; called while the C20 generation lock is held"""
    writes = [b for b in bad_sites if ' SLock true ' in b]
    if not writes:
        return None
    lids = sorted(set(int(b.split(' SLock true ')[1].split()[0]) for b in writes))
    try:
        res = ctx.run_model(SITES_HEADER, ['(find_stuck call_path, %s)' % ', '.join('find_stuck2 call_path [(true, %d)]' % l for l in lids)], tag='stuck')[0]
    except Exception as e:       # the inventory does not compile: keep going with the plain stress
        ctx.notes.append('model search for a stuck schedule not possible: %s' % str(e)[:200])
        return None
    return writes, res


def directed_search(ctx, exe, xml, found):
    """When the inventory shows a write acquisition in the evaluation phase, the locking model is asked for a stuck schedule of
    the regenerated call path (the two witness shapes of C20_writer_deadlocks) and the real evaluator is driven accordingly:
    a single nested evaluation for a self-deadlock, nested readers against concurrent calls for a waiting writer."""
    if not found:
        return
    writes, res = found
    res = list(res) if isinstance(res, tuple) else [res]
    solo = res[0]
    pair = [r for r in res[1:] if getattr(r, 'name', '') == 'Some']
    ctx.cov['model_stuck_schedule'] = {'solo_or_same_path': str(solo)[:300], 'against_a_writer_call': [str(r)[:300] for r in res[1:]]}
    if getattr(solo, 'name', '') == 'Some' and set(solo.args[0]) == {0}:
        # witness 1: one thread re-enters a lock it holds for writing
        r, wall = run_stress(ctx, exe, xml, NESTED, 1, 5, ctx.seed, timeout_s=15)
        ctx.evaluations += 1
        if r.get('deadlock'):
            h = r.get('hanging_call', {})
            ctx.violation('a single thread evaluating %s with input %s never returns (no progress for 15 s): the evaluation path takes a write lock (%s) and acquires the same lock '
                          'again in the nested evaluation; the locking model is stuck after the schedule %s' % (h.get('invocable'), h.get('input'), '; '.join(writes)[:300], solo.args[0]),
                          {'threads': 1, 'per_thread': 5, 'seed': ctx.seed, 'calls': NESTED, 'model_schedule': solo.args[0], 'sites': writes}, impl=r)
        return
    if getattr(solo, 'name', '') == 'Some' or pair:
        sched = solo.args[0] if getattr(solo, 'name', '') == 'Some' else pair[0].args[0]
        # witness 2: nested readers against a waiting writer; hammer the nested invocables from many threads
        for k in range(ctx.pick(6, 60)):
            r, wall = run_stress(ctx, exe, xml, NESTED, 16, 1500, ctx.seed * 77 + k, timeout_s=20)
            ctx.evaluations += 1
            if r.get('deadlock'):
                ctx.violation('16 threads evaluating nested decisions on one evaluator stopped making progress (%s of 16 finished, watchdog 20 s): a write acquisition (%s) '
                              'waits between two nested read acquisitions; model schedule %s' % (r.get('finished_threads'), '; '.join(writes)[:300], sched),
                              {'threads': 16, 'per_thread': 1500, 'seed': ctx.seed * 77 + k, 'calls': NESTED, 'model_schedule': sched, 'sites': writes}, impl=r)
                return
        ctx.notes.append('the model has a stuck schedule %s but %d directed runs of the real evaluator did not hang' % (sched, ctx.pick(6, 60)))
    else:
        ctx.notes.append('write acquisition(s) %s: the locking model finds no stuck schedule for the regenerated call path (the acquisition serialises calls; '
                         'the locked registry is not acquired again while it is held)' % '; '.join(writes)[:300])


def run(ctx):
    bad_sites = []

    def gen():
        bad_sites.extend(regenerate_sites(ctx))
    # coq/Gen is shared by all runs (also runs against other checkouts): generation, build and model query happen under one lock
    with core.Lock('c20-gen'):
        ctx.proof_gate(gen_cb=gen)
        found = model_search(ctx, bad_sites)
    if bad_sites:
        ctx.broken.append('site inventory: the evaluation path no longer meets the hypotheses of the locking/isolation theorems: ' + '; '.join(bad_sites[:6]))
    exe = ctx.build_harness()
    xml = stress_model()
    lock_observation(ctx, exe)
    directed_search(ctx, exe, xml, found)
    alone_phase(ctx, exe, xml)
    total_calls = 0
    runs = []
    budget = ctx.pick(28, 540)
    # a broken hypothesis gets the whole budget as a search for a concrete deadlock / mismatch
    plans = []
    seeds = 0
    for rep in range(ctx.pick(3, 40)):
        for threads in (2, 3, 4, 8, 16):
            seeds += 1
            plans.append((threads, ctx.pick(120, 300) // (1 if threads <= 4 else 2), ctx.seed * 1000 + seeds))
    t_start = time.time()
    for threads, per_thread, seed in plans:
        if time.time() - t_start > budget:
            break
        calls = gen_calls(ctx.rng, 60)
        trials = ctx.pick(14, 40)
        res, wall = run_stress(ctx, exe, xml, calls, threads, per_thread, seed, timeout_s=ctx.pick(40, 120), trials=trials)
        ctx.evaluations += 1
        case = {'threads': threads, 'per_thread': per_thread, 'trials': trials, 'seed': seed, 'calls': calls}
        if 'inconclusive' in res:
            ctx.notes.append('stress run inconclusive: ' + res['inconclusive'])
            break
        if 'err' in res or 'crash' in res:
            ctx.violation('the stress run could not be performed or the process died: %s' % json.dumps(res)[:300], case, impl=res)
            break
        total_calls += res.get('calls', 0)
        ctx.corr_checked += res.get('calls', 0)
        runs.append({'threads': threads, 'calls': res.get('calls', 0), 'wall_s': round(wall, 2), 'deadlock': res.get('deadlock'), 'mismatches': len(res.get('mismatches', []))})
        if res.get('deadlock'):
            ctx.violation('%d threads sharing one evaluator made no progress for the watchdog window (%d of %d threads finished, %d calls done): deadlock'
                          % (threads, res.get('finished_threads', 0), threads, res.get('calls', 0)), case, impl=res)
            break
        if res.get('mismatches'):
            m = res['mismatches'][0]
            ctx.violation('concurrent evaluation of %s with input %s returned %s, the same call made alone returns %s (thread %s of %d, call number %s of trial %s on a fresh evaluator)'
                          % (m['invocable'], m['input'], str(m['got'])[:200], str(m['sequential'])[:200], m['thread'], threads, m.get('call_number'), m.get('trial')),
                          {'threads': threads, 'per_thread': per_thread, 'trials': trials, 'seed': seed, 'calls': calls, 'first_mismatch': m}, impl=res['mismatches'][:3])
            continue
        if not res.get('final_ok'):
            m = (res.get('final_mismatches') or [{}])[0]
            ctx.violation('after the concurrent phase (trial %s, a fresh evaluator raced by %d threads) a single-threaded evaluation of %s %s on that evaluator returns %s instead of %s '
                          '(state left behind by the concurrent calls / poisoned lock)'
                          % (m.get('trial'), threads, m.get('invocable'), m.get('input'), str(m.get('got'))[:200], str(m.get('sequential'))[:200]), case, impl=res)
            continue
        if res.get('null_results', 0) > len(calls) // 3:
            ctx.corr_broken('stress model mostly evaluates to null (the run would compare nothing)', {'threads': threads}, res.get('null_results'), 'few nulls')
        if res.get('distinct_results', 0) >= 20:
            ctx.nontrivial.add((threads, seed))
        if len(ctx.samples) < 3:
            ctx.sample({'threads': threads, 'per_thread': per_thread, 'seed': seed, 'calls_made': res.get('calls'), 'distinct_results': res.get('distinct_results'),
                        'example_call': calls[0]})
    if not ctx.violations:
        storm_phase(ctx, exe, xml, bad_sites, runs)
    return ctx.finish(
        rule='stress runs of one Arc<ModelEvaluator> (numeric: for/sum/power/sqrt/exp/ln; temporal: date and duration arithmetic; regular expressions: replace/'
             'matches/split; a COLLECT SUM decision table; decision -> required decisions -> business knowledge model (recursive) and a decision service) shared by '
             '2, 3, 4, 8, 16 threads; per run 60 generated (invocable, input) calls and 14 trials, each on a FRESH evaluator released from a barrier (all threads make the same call first: cold start), '
             'call order / yields / barrier period from the seed; every result compared with the result of a reference evaluator used by one thread only; after each trial every call is '
             'repeated alone on the raced evaluator; plus a storm phase: 16 threads calling regex / date built-ins with 2500 distinct patterns, subjects and date texts from the input data; non-trivial = run with >= 20 (storm: >= 2000) distinct results',
        extra_cov={'exhaustive': False, 'stress_runs': runs, 'total_concurrent_calls': total_calls},
        assumptions=['the schedules of the real program are explored by repeated randomised runs, not enumerated (level: partial)',
                     'std::sync::RwLock is modelled in its strictest form (a waiting writer blocks new readers)',
                     'a step of a call can read or write shared mutable state only through the sites the inventory lists (cells of coq/C20/Inv.v); the lock program of a call consists of '
                     'acquisitions the inventory lists (checked on one nested evaluation by observing the running code: lock_operations_observed)'],
        trusted=['translators/syncsites2coq.py (brace-matching scanner that classifies lock acquisitions, statics, unsafe impls and decimal-context uses of the anchored files and '
                 'evaluation-path crates into build / evaluation phase, and places the release of every guard of the three evaluation regions by the binding form it stands in)',
                 'gdb and the symbol names of the unoptimised harness build (observation of RwLock::read / write and guard drops)', 'rustc enforces that Scope (RefCell) is never shared: Evaluator closures are Send + Sync',
                 'decNumber C kernel, chrono, regex internals, the OS scheduler and the memory model: sampled by the stress runs only'])


def replay(ctx, path):
    obj = json.load(open(path))
    case = obj.get('case')
    if not case or 'calls' not in case:
        print(json.dumps(obj, indent=1)[:3000])
        print('this replay names a broken theorem / hypothesis, there is no failing input to run; re-run ./check C20')
        return 1
    exe = ctx.build_harness()
    worst = None
    if case.get('storm'):
        import random
        case['calls'] = storm_calls(random.Random(case['seed']), case['storm'])
    for attempt in range(5):
        res, wall = run_stress(ctx, exe, stress_model(), case['calls'], case['threads'], case['per_thread'], case['seed'] + attempt, 60, trials=case.get('trials', 1))
        print('attempt %d: calls %s deadlock %s mismatches %d final_ok %s (%.1fs)' % (attempt, res.get('calls'), res.get('deadlock'), len(res.get('mismatches', [])), res.get('final_ok'), wall))
        if res.get('deadlock') or res.get('mismatches') or res.get('final_ok') is False:
            worst = res
            break
    if worst:
        print(json.dumps(worst)[:1500])
        print('REPRODUCED')
        return 1
    print('not reproduced in 5 attempts (schedules are not deterministic)')
    return 0


MANIFEST = dict(
    technique='Coq proof about a readers-writer locking model with write acquisitions and shared mutable cells, stated for EVERY site inventory that meets a decidable predicate and instantiated for the '
              'inventory and the lock program regenerated from the source on every run; lock operations observed in the running code; multi-threaded stress correspondence',
    text='Theorems (coq/Props/C20.v, 34 obligations, all closed). Machine (coq/C20/Inv.v): std RwLock in its strictest, writer-preferring form (a waiting writer blocks new readers), thread programs over read AND '
         'write acquisitions / releases, an immutable deployed model, private states, and shared mutable cells that a step names (nothing is immutable by type: a step over a cell reads what other threads wrote). '
         'Inventory layer: all_from_inv inv ths = every lock instruction of every thread is an evaluation-phase acquisition listed in inv (or the release of its guard) and every step touches only cells that '
         'stand for sites of inv the scanner cannot vouch for (static with interior mutability, static mut, thread_local, unsafe Send/Sync, shared decimal context, Mutex/Atomic field, missing file). '
         'The unbounded theorems QUANTIFY OVER THE INVENTORY: forall inv, sites_ok inv = true -> forall store, cells, threads with all_from_inv inv, schedule: C20_inv_no_deadlock, C20_inv_no_block, '
         'C20_inv_all_finish (fair schedules), C20_inv_result_is_solo_result (= the result of a system whose only thread is that call), C20_inv_no_lock_left_held (bracketed programs), '
         'C20_inv_shared_state_untouched, C20_inv_non_interference (other threads, their programs and private states, the cell contents and both schedules arbitrary). The current inventory is an instance by '
         'C20_sites_ok (vm_compute on coq/Gen/SyncSites.v). Every hypothesis is NECESSARY, by a witness inventory that violates only it: C20_no_eval_write_necessary (for every receiver l: a write acquisition '
         'nested in a read section of l - one call is stuck after two turns and forever), C20_waiting_writer_blocks_nested_reader (writer preference: a re-entered read section and one writer are stuck after '
         '[0;1;0]), C20_no_shared_mutable_necessary with C20_rejected_site_kinds (for every rejected site kind that is not a lock: two lock-free calls taking a number from the shared cell: call 0 returns 1 under '
         '[1;0] and 0 alone), C20_bracketing_necessary (a kept guard leaves the lock held). The code as instance: translators/syncsites2coq.py now also extracts the lock OPERATIONS of the three regions of a '
         'nested decision evaluation (evaluate_invocable, evaluate_decision, the decision closure) - acquisitions and releases, the release placed where the brace structure drops the guard; code_prog n fs '
         '(coq/C20/Code.v) = those regions nested n levels deep with an arbitrary decision logic per level; C20_regions_ok (vm_compute), C20_code_prog_from_inventory (every n), C20_code_no_deadlock, '
         'C20_code_result_is_solo_result, C20_code_no_lock_left_held, C20_code_fair_schedule_completes: any number of concurrent calls of any depths, any schedule. Theorems that FAIL for an empty or wrong inventory: '
         'C20_inventory_nonempty (the regenerated call path of a decision requiring a decision has >= 12 acquisitions on >= 6 receivers, all evaluation-phase read sites of the inventory, = what two levels of the '
         'regions acquire), C20_empty_inventory_rejected and C20_inventory_without_eval_reads_rejected (the program of a call is not a program of the empty inventory, nor of the inventory without its read sites). '
         'The read-only theorems of the first version (C20_no_block .. C20_stuck_forever, C20_call_path_ok, C20_find_stuck_finds) are kept. Tied to the code: (i) the lock operations of one evaluation of a '
         'decision requiring a decision are OBSERVED in the running harness (gdb breakpoints on every RwLock<T>::read / write instance and every RwLockReadGuard / WriteGuard drop of the unoptimised build, no hook) '
         'and must equal, operation by operation (24: 12 acquisitions, 12 releases, order and receivers), the program the inventory describes; every receiver of the call path must really be acquired; (ii) '
         'stress: 2..16 threads on one evaluator, randomised barriers / yields / call orders, every result against the sequential one, deadlock watchdog, poisoned-lock pass, storm of 2500 distinct regex / '
         'date arguments, every call also made alone in a process of its own.',
    note='Partial: the proof is about the locking / isolation machine and the regenerated inventory; schedules of the real program are explored, not proved. Trusted: the site scanner (classification of '
         'acquisitions into build / evaluation phase, brace matching for guard lifetimes; cross-checked against the observed lock operations of one nested evaluation), that a step can depend on shared mutable '
         'state only through the sites the scanner lists, rustc\'s Send/Sync checking, std RwLock modelled in its strictest form, decNumber/chrono/regex internals and the memory model (sampled only), gdb + symbol '
         'names of the debug build for the observation.',
    category='proof')
