(* C14 — property theorems only.  Proofs are in C14/Proofs.v, C14/Frac.v (fractions, times, date and time), C14/Dtd.v (printed durations),
   C14/Literal.v (duration literals as written, oversized components), C14/ZoneDb.v (the zone database of the current build). *)
From Coq Require Import ZArith Bool List String Ascii.
From DV Require Import Base.Calendar C15.Model C14.Model C14.Proofs C14.Frac C14.Dtd C14.Literal C14.ZoneDb Gen.ZoneIds.
Import ListNotations.
Open Scope string_scope.
Open Scope Z_scope.

Theorem C14_orig_refuted :
  parse_date_orig "2021-01-00" = Some (2021, 1, 0) /\ parse_date "2021-01-00" = None /\
  parse_date_orig "0999-01-01" = None /\ parse_date "0999-01-01" = Some (999, 1, 1) /\
  print_date_orig (-5, 1, 1) = "-005-01-01" /\ parse_date (print_date_orig (-5, 1, 1)) = None /\
  parse_date (print_date (-5, 1, 1)) = Some (-5, 1, 1) /\
  option_map print_time_orig (parse_time_orig db0 "10:00:00-00:30") = Some "10:00:00+00:30" /\
  option_map print_time (parse_time db0 "10:00:00-00:30") = Some "10:00:00-00:30" /\
  option_map print_time_orig (parse_time_orig db0 "10:00:00+01:75") = Some "10:00:00+02:15" /\ parse_time db0 "10:00:00+01:75" = None /\
  parse_time_orig db0 "10:00:00@Etc/GMT+1" = None /\ option_map print_time (parse_time db0 "10:00:00@Etc/GMT+1") = Some "10:00:00@Etc/GMT+1" /\
  parse_dtd_orig "P1DT" = Some DAY_NS /\ parse_dtd "P1DT" = None.
Proof. exact orig_refuted. Qed.

(* --- dates: every FEEL date (years -999999999..999999999, negative, below 1000) prints to a text that reads back as itself --- *)
Theorem C14_print_parse_date : forall y m d, feel_date y m d = true -> parse_date (print_date (y, m, d)) = Some (y, m, d).
Proof. exact print_parse_date. Qed.

(* impossible calendar dates never parse *)
Theorem C14_parse_date_valid : forall s y m d, parse_date s = Some (y, m, d) -> feel_date y m d = true.
Proof. exact parse_date_valid. Qed.

(* --- years-and-months durations: every total of months of either sign that the value type (i64) holds, -(2^63-1) .. 2^63-1 --- *)
Theorem C14_print_parse_ymd : forall n, Z.abs n <= i64_max -> parse_ymd (print_ymd n) = Some n.
Proof. exact print_parse_ymd. Qed.

Theorem C14_ymd_normal_form : forall n, 0 <= Z.abs n mod 12 < 12 /\ print_ymd 14 = "P1Y2M" /\ print_ymd (-14) = "-P1Y2M" /\
  option_map print_ymd (parse_ymd "P14M") = Some "P1Y2M".
Proof. exact ymd_normal_form. Qed.

Theorem C14_dtd_normal_form : forall n,
  0 <= dtd_hours n < 24 /\ 0 <= dtd_minutes n < 60 /\ 0 <= dtd_seconds n < 60 /\ 0 <= dtd_subsec n < NS /\
  option_map print_dtd (parse_dtd "PT36H") = Some "P1DT12H" /\ option_map print_dtd (parse_dtd "-PT90M") = Some "-PT1H30M" /\
  option_map print_dtd (parse_dtd "PT86400S") = Some "P1D".
Proof. exact dtd_normal_form. Qed.

(* --- zones: every offset -14:59:59..+14:59:59 with its sign (finite sweep of 107998 offsets), Z, no zone, named zones --- *)
Theorem C14_print_parse_zone_offset : forall db o, -53999 <= o <= 53999 -> o <> 0 ->
  parse_zone db (print_zone (ZOffset o)) = Some (ZOffset o).
Proof. exact print_parse_zone_offset. Qed.

Theorem C14_print_parse_zone : forall db z, zone_ok db z -> parse_zone db (print_zone z) = Some z.
Proof. exact print_parse_zone. Qed.

(* offset hours above 14, offset minutes or seconds above 59 never parse; a parsed offset is not 0 (that is UTC) *)
Theorem C14_parse_zone_range : forall db s o, parse_zone db s = Some (ZOffset o) -> o <> 0 /\ -53999 <= o <= 53999.
Proof. exact parse_zone_range. Qed.

(* --- the fraction: the nine digits with the trailing zeros stripped (nanoseconds_to_string), read back digit by digit
   (fraction_to_nanos), are the number again: every nanosecond count 0..999999999 --- *)
Theorem C14_fraction_roundtrip : forall ns, 0 <= ns < 1000000000 ->
  Forall isdig (frac_digits ns) /\ frac_nanos (frac_digits ns) 100000000 = ns /\
  exists zs, allzero zs /\ pad9 ns = app (frac_digits ns) zs.
Proof. exact frac_digits_spec. Qed.

(* --- times: every time of day, every nanosecond fraction, every zone form --- *)
Theorem C14_print_parse_time : forall db t,
  0 <= t_h t < 24 -> 0 <= t_mi t < 60 -> 0 <= t_s t < 60 -> 0 <= t_ns t <= 999999999 -> zone_ok db (t_zone t) ->
  parse_time db (print_time t) = Some t.
Proof. exact print_parse_time_all. Qed.

(* hour 24, minute or second 60 and above never parse *)
Theorem C14_parse_time_valid : forall db s t, parse_time db s = Some t ->
  t_h t < 24 /\ t_mi t < 60 /\ t_s t < 60 /\ (forall o, t_zone t = ZOffset o -> o <> 0 /\ -53999 <= o <= 53999).
Proof. exact parse_time_valid. Qed.

(* a parsed fraction is below one second (digits after the ninth are dropped) *)
Theorem C14_parse_time_ns_range : forall db s t, parse_time db s = Some t -> 0 <= t_ns t < 1000000000.
Proof. exact parse_time_ns_range. Qed.

(* --- date and time: every FEEL date with every time; also through the built-in function's text form --- *)
Theorem C14_print_parse_datetime : forall db y m d t, feel_date y m d = true ->
  0 <= t_h t < 24 -> 0 <= t_mi t < 60 -> 0 <= t_s t < 60 -> 0 <= t_ns t <= 999999999 -> zone_ok db (t_zone t) ->
  parse_datetime db (print_datetime ((y, m, d), t)) = Some ((y, m, d), t) /\
  bif_date_and_time db (print_datetime ((y, m, d), t)) = Some ((y, m, d), t).
Proof. exact print_parse_datetime_all. Qed.

(* --- days-and-time durations: every total number of nanoseconds of either sign whose days component is at most 2^64-1
   (the conversion's own limit: one day more and the printed text does not convert) --- *)
Theorem C14_print_parse_dtd : forall n, dtd_days n <= u64_max -> parse_dtd (print_dtd n) = Some n.
Proof. exact print_parse_dtd. Qed.

Theorem C14_print_parse_dtd_bound_tight :
  parse_dtd (print_dtd (u64_max * DAY_NS + DAY_NS - 1)) = Some (u64_max * DAY_NS + DAY_NS - 1) /\
  parse_dtd (print_dtd ((u64_max + 1) * DAY_NS)) = None.
Proof. exact print_parse_dtd_bound_tight. Qed.

(* duration(text) tries years-and-months first: the printed text of either kind comes back as the same kind *)
Theorem C14_print_parse_duration_dtd : forall n, dtd_days n <= u64_max -> parse_duration (print_dtd n) = Some (DDt n).
Proof. exact print_parse_duration_dtd. Qed.

Theorem C14_print_parse_duration_ymd : forall n, Z.abs n <= i64_max -> parse_duration (print_ymd n) = Some (DYm n).
Proof. exact print_parse_duration_ymd. Qed.

(* --- duration literals AS WRITTEN: a text of either duration pattern is given by the digit lists of its written components
   (wcomp = option (list Z): any number of digits, leading zeros; None = not written), the sign, and for the seconds an optional
   fraction.  ymd_lit / dtd_lit build the text; wf_comp: a non-empty list of digits 0..9; wval: the written number. --- *)
(* every years-and-months literal whose total fits the value type denotes 12 * years + months, whatever the spelling *)
Theorem C14_ymd_literal_denotes : forall neg cy cm, wf_comp cy -> wf_comp cm -> written cy || written cm = true ->
  wval cy * 12 + wval cm <= i64_max ->
  parse_duration (ymd_lit neg cy cm) = Some (DYm (signed neg (wval cy * 12 + wval cm))).
Proof. exact ymd_literal_denotes. Qed.

(* every days-and-time literal whose written numbers fit u64 denotes the written sum of nanoseconds (fraction digits after the ninth dropped) *)
Theorem C14_dtd_literal_denotes : forall neg cd ch cmi cs fr, wf_comp cd -> wf_comp ch -> wf_comp cmi -> wf_comp cs -> wf_frac fr ->
  written cd || written ch || written cmi || written cs = true ->
  wval cd <= u64_max -> wval ch <= u64_max -> wval cmi <= u64_max -> wval cs <= u64_max ->
  parse_duration (dtd_lit neg cd ch cmi cs fr) =
  Some (DDt (signed neg (wval cd * DAY_NS + wval ch * HOUR_NS + wval cmi * MIN_NS + sec_nanos cs fr))).
Proof. exact dtd_literal_denotes. Qed.

(* one written number above 2^64-1 (oversized c := u64_max < wval c), in any position, next to any other components, either sign:
   duration(text) is null -- the literal is never read as the duration of its remaining components *)
Theorem C14_oversized_component_rejected :
  (forall neg cy cm, wf_comp cy -> wf_comp cm -> oversized cy \/ oversized cm ->
     parse_duration (ymd_lit neg cy cm) = None) /\
  (forall neg cd ch cmi cs fr, wf_comp cd -> wf_comp ch -> wf_comp cmi -> wf_comp cs -> wf_frac fr ->
     oversized cd \/ oversized ch \/ oversized cmi \/ oversized cs ->
     parse_duration (dtd_lit neg cd ch cmi cs fr) = None).
Proof. exact oversized_component_rejected. Qed.

(* a total of months beyond i64 is rejected as well *)
Theorem C14_ymd_beyond_i64_rejected : forall neg cy cm, wf_comp cy -> wf_comp cm ->
  i64_max < wval cy * 12 + wval cm -> parse_duration (ymd_lit neg cy cm) = None.
Proof. exact ymd_beyond_i64_rejected. Qed.

(* the code before the repair (parse_duration_orig: a component that does not fit u64 is skipped) read such literals as a different duration *)
Theorem C14_oversized_component_orig_refuted :
  parse_duration_orig "P99999999999999999999Y1M" = Some (DYm 1) /\ parse_duration "P99999999999999999999Y1M" = None /\
  parse_duration_orig "-P99999999999999999999Y2M" = Some (DYm (-2)) /\ parse_duration "-P99999999999999999999Y2M" = None /\
  parse_duration_orig "P18446744073709551616DT1H" = Some (DDt HOUR_NS) /\ parse_duration "P18446744073709551616DT1H" = None /\
  parse_duration_orig "PT1H99999999999999999999.5S" = Some (DDt (HOUR_NS + 500000000)) /\ parse_duration "PT1H99999999999999999999.5S" = None /\
  parse_duration "P18446744073709551615DT1H" = Some (DDt (u64_max * DAY_NS + HOUR_NS)).
Proof. exact oversized_component_orig_refuted. Qed.

Example C14_literal_nonvacuous :
  ymd_lit true (Some [0; 1]) (Some [1; 4]) = "-P01Y14M" /\
  parse_duration (ymd_lit true (Some [0; 1]) (Some [1; 4])) = Some (DYm (-26)) /\
  dtd_lit false (Some [2]) None (Some [9; 0]) (Some [0; 7]) (Some [5]) = "P2DT90M07.5S" /\
  parse_duration (dtd_lit false (Some [2]) None (Some [9; 0]) (Some [0; 7]) (Some [5])) = Some (DDt (2 * DAY_NS + 90 * MIN_NS + 7 * NS + 500000000)) /\
  dtd_lit false (Some (digits (u64_max + 1))) (Some [1]) None None None = "P18446744073709551616DT1H" /\
  oversized (Some (digits (u64_max + 1))) /\ wf_comp (Some (digits (u64_max + 1))).
Proof. exact literal_nonvacuous. Qed.

(* --- the zone database of the current build (tzdb = membership in chrono_tz_zone_ids, coq/Gen/ZoneIds.v, regenerated on every run from
   the table of the pinned chrono-tz crate): every identifier is non-empty and made of characters of the zone pattern (decided over the
   whole list), so the zone / time / date-and-time round trips hold for every zone of the real database with no side condition --- *)
Theorem C14_zone_db_ok :
  chrono_tz_zone_ids <> [] /\
  (forall id, tzdb id = true -> id <> "" /\ all_chars zone_char id = true) /\
  (forall id, tzdb id = true -> parse_zone tzdb (print_zone (ZNamed id)) = Some (ZNamed id)) /\
  (forall h mi s ns id, 0 <= h < 24 -> 0 <= mi < 60 -> 0 <= s < 60 -> 0 <= ns <= 999999999 -> tzdb id = true ->
     let t := {| t_h := h; t_mi := mi; t_s := s; t_ns := ns; t_zone := ZNamed id |} in
     parse_time tzdb (print_time t) = Some t /\
     forall y m d, feel_date y m d = true ->
       parse_datetime tzdb (print_datetime ((y, m, d), t)) = Some ((y, m, d), t) /\
       bif_date_and_time tzdb (print_datetime ((y, m, d), t)) = Some ((y, m, d), t)).
Proof. exact zone_db_ok. Qed.

Example C14_zone_db_nonvacuous :
  tzdb "Europe/Warsaw" = true /\ tzdb "Etc/GMT+1" = true /\ tzdb "America/Port-au-Prince" = true /\ tzdb "EST5EDT" = true /\
  tzdb "Nowhere/City" = false /\ tzdb "europe/warsaw" = false /\
  option_map print_time (parse_time tzdb "10:00:00.5@America/Port-au-Prince") = Some "10:00:00.5@America/Port-au-Prince" /\
  parse_time tzdb "10:00:00@Nowhere/City" = None.
Proof. exact zone_db_nonvacuous. Qed.

Example C14_nonvacuous :
  parse_date "2024-02-29" = Some (2024, 2, 29) /\ parse_date "2023-02-29" = None /\
  option_map print_time (parse_time db0 "10:00:00.509083-00:30") = Some "10:00:00.509083-00:30" /\
  parse_time db0 "24:00:00" = None /\ parse_time db0 "10:00:60" = None /\ parse_time db0 "10:00:00+15:00" = None /\
  parse_duration "P14M" = Some (DYm 14) /\ parse_duration "PT36H" = Some (DDt 129600000000000) /\ parse_duration "P1Y2D" = None /\
  option_map print_datetime (bif_date_and_time db0 "-0005-01-01T00:00:00.000000001@Europe/Warsaw") = Some "-0005-01-01T00:00:00.000000001@Europe/Warsaw".
Proof. exact c14_nonvacuous. Qed.

Print Assumptions C14_orig_refuted.
Print Assumptions C14_print_parse_date.
Print Assumptions C14_parse_date_valid.
Print Assumptions C14_print_parse_ymd.
Print Assumptions C14_ymd_normal_form.
Print Assumptions C14_dtd_normal_form.
Print Assumptions C14_print_parse_zone_offset.
Print Assumptions C14_print_parse_zone.
Print Assumptions C14_parse_zone_range.
Print Assumptions C14_fraction_roundtrip.
Print Assumptions C14_print_parse_time.
Print Assumptions C14_parse_time_valid.
Print Assumptions C14_parse_time_ns_range.
Print Assumptions C14_print_parse_datetime.
Print Assumptions C14_print_parse_dtd.
Print Assumptions C14_print_parse_dtd_bound_tight.
Print Assumptions C14_print_parse_duration_dtd.
Print Assumptions C14_print_parse_duration_ymd.
Print Assumptions C14_nonvacuous.
Print Assumptions C14_ymd_literal_denotes.
Print Assumptions C14_dtd_literal_denotes.
Print Assumptions C14_oversized_component_rejected.
Print Assumptions C14_ymd_beyond_i64_rejected.
Print Assumptions C14_oversized_component_orig_refuted.
Print Assumptions C14_literal_nonvacuous.
Print Assumptions C14_zone_db_ok.
Print Assumptions C14_zone_db_nonvacuous.
