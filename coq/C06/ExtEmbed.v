(* C06 — the operator fragment of C06.Model inside the extended language: the extended renderers print an embedded tree exactly as
   the renderers of the fragment do, so the extended parser reads the fragment's renderings back.  Owner: prover-C06. *)
From Coq Require Import List NArith Bool Arith Lia.
From DV Require Import C06.Model C06.ModelExt.
From DV Require C06.Proofs C06.ExtRound C06.ExtFull C06.ExtFuel.
Import ListNotations.

Lemma embed_low : forall t, low (embed t) = false.
Proof. destruct t; reflexivity. Qed.

Lemma embed_lvl : forall t, elvl (embed t) = lvl t.
Proof. destruct t; reflexivity. Qed.

Lemma embed_paren : forall t m f, paren m f (embed t) = (lvl t <? m).
Proof. intros. unfold paren. rewrite embed_low, embed_lvl. reflexivity. Qed.

Lemma rat_embed : forall t m f, rat m f (embed t) = map embed_tok (render_at m t).
Proof.
  induction t; intros m f; rewrite ExtRound.rat_eq, Proofs.render_at_eq, embed_paren;
    destruct (_ <? m); cbn [embed ExtRound.ebody Proofs.body_of map sepc flat_map];
    rewrite ?map_app; cbn [map embed_tok]; rewrite ?map_app; cbn [map embed_tok]; rewrite ?app_nil_r;
    rewrite ?IHt, ?IHt1, ?IHt2, ?IHt3; reflexivity.
Qed.

Theorem erender_min_embed : forall t, erender_min (embed t) = map embed_tok (render_min t).
Proof. intro t. apply rat_embed. Qed.

Lemma embed_bare : forall t, bare (embed t) = match t with Atom _ => true | _ => false end.
Proof. destruct t; reflexivity. Qed.

Lemma epar_embed : forall t, rfull (embed t) = map embed_tok (render_full t) -> ExtFull.epar (embed t) = map embed_tok (Proofs.par t).
Proof.
  intros t H. unfold ExtFull.epar. rewrite embed_bare. destruct t; cbn [Proofs.par]; rewrite ?H; try reflexivity;
    cbn [map embed_tok]; rewrite map_app; reflexivity.
Qed.

Theorem erender_full_embed : forall t, erender_full (embed t) = map embed_tok (render_full t).
Proof.
  unfold erender_full. induction t; rewrite ExtFull.rfull_eq, Proofs.render_full_eq; cbn [embed map sepc flat_map];
    rewrite ?app_nil_r, ?map_app; cbn [map embed_tok]; rewrite ?map_app; cbn [map embed_tok];
    rewrite ?(epar_embed _ IHt), ?(epar_embed _ IHt1), ?(epar_embed _ IHt2), ?(epar_embed _ IHt3); reflexivity.
Qed.

(* the extended parser reads the renderings of the fragment *)
Theorem eparse_embed_min : forall t, eparse_tokens (map embed_tok (render_min t)) = Some (embed t).
Proof. intro t. rewrite <- erender_min_embed. apply ExtFuel.eroundtrip_min_tokens. Qed.

Theorem eparse_embed_full : forall t, eparse_tokens (map embed_tok (render_full t)) = Some (embed t).
Proof. intro t. rewrite <- erender_full_embed. apply ExtFuel.eroundtrip_full_tokens. Qed.
