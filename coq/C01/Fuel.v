(* C01 — fuel (audit problem 12: "no fuel-monotonicity theorem, so the semantic value is fuel-indexed").
   Definitions only; the proofs are in C01/FuelProofs.v.
   [eval] (Spec.v) answers VPoison when the fuel runs out.  The marker is SHARED with "a number the model does not compute"
   (inexact powers, ranges of more than 100000 steps), and it is not always propagated: a VPoison inside a list or a
   context is looked through by `=`, `if`, `and`/`or`, paths and filters.  So "the value is not VPoison" does NOT imply
   that the fuel was enough (FuelProofs.v, [value_monotonicity_refuted]).  What is monotone is the predicate
     [complete cartf f S e]  no evaluation step that [eval cartf f S e] performs (in the sub-expressions it evaluates, the
                             bodies of the functions it calls, one evaluation per iteration tuple / filter item / context entry)
                             takes the out-of-fuel branch;
   it is defined next to [eval], with the same recursion on the fuel, and uses [eval] only to know which branch / which
   function body / which tuples are evaluated.
   [eval_step] is the body of [eval] with the recursive calls abstracted ([eval cartf (S f) = eval_step (eval cartf f)] by
   reflexivity, FuelProofs.v [eval_S]): a copy kept in step with Spec.v by that proof.
   [nocall e] no invocation outside function literals; [depth e] the nesting depth of what is evaluated.
   Owner: ext-fuel. *)
From Coq Require Import List ZArith NArith Bool.
From DV Require Import C01.Syntax C01.Spec.
Import ListNotations.

Definition test_exprs (t : test) : list expr :=
  match t with TVal e => [e] | TCmp _ e => [e] | TRange lo _ hi _ => [lo; hi] end.
Definition dom_exprs (d : dom) : list expr :=
  match d with DList e => [e] | DRange lo hi => [lo; hi] end.

Section Fuel.
Variable cartf : list (N * list value) -> list ctx.

(* one layer of Spec.eval over the function used for the sub-evaluations *)
Definition eval_step (rec : stack -> expr -> value) (S : stack) (e : expr) : value :=
  let ev := rec S in
  match e with
  | ENull => VNull | EBool b => VBool b | ENum z => VNum z | EStr s => VStr s
  | EName n => match lookup n S with Some v => v | None => VNull end
  | EBin o a b => binop_eval o (ev a) (ev b)
  | ENeg a => neg_eval (ev a)
  | EIf c t e' => match ev c with VBool true => ev t | VBool false | VNull => ev e' | VPoison => VPoison | _ => VNull end
  | EBetween x lo hi => between_eval (ev x) (ev lo) (ev hi)
  | EIn x ts => match ts with [t] => in_eval (ev x) (test_eval ev t) | _ => in_tests_eval (ev x) (map (test_eval ev) ts) end
  | EInList x l => in_eval (ev x) (ev l)
  | EList es => VList (map ev es)
  | ECtx es => VCtx (fold_left (fun acc ke => ctx_set (fst ke) (rec (acc :: S) (snd ke)) acc) es [])
  | EPath e' k => path_eval (ev e') k
  | EFilter e' fe =>
      match ev e' with
      | VList items =>
          let rs := map (fun v => rec (filter_env v ++ S) fe) items in
          if existsb poison rs then VPoison else
          filter_finish items (map fst (filter (fun vr => is_true (snd vr)) (combine items rs))) (ev fe)
      | VPoison => VPoison
      | (VNum _ | VBool _ | VStr _ | VCtx _) as v => filter_scalar v (ev fe)
      | _ => VNull
      end
  | EFor ds body =>
      if existsb (fun nd => dom_poison ev (snd nd)) ds then VPoison else
      match doms_eval ev ds with
      | [] => VList []
      | doms => VList (fold_left (fun acc t => acc ++ [rec (ctx_set n_partial (VList acc) t :: S) body]) (cartf doms) [])
      end
  | ESome ds body =>
      quant_some (map (fun t => rec (t :: S) body) (cartf (map (fun nd => (fst nd, dom_values (ev (snd nd)))) ds)))
  | EEvery ds body =>
      quant_every (map (fun t => rec (t :: S) body) (cartf (map (fun nd => (fst nd, dom_values (ev (snd nd)))) ds)))
  | EFun ps body => VFun ps body
  | ECall fe args =>
      match ev fe with
      | VFun ps body => match mk_args ps (map ev args) with Some c => rec (c :: S) body | None => VNull end
      | VPoison => VPoison
      | _ => VNull
      end
  | ECallN fe nargs =>
      match ev fe with
      | VFun ps body => match mk_named ps (map (fun ne => (fst ne, ev (snd ne))) nargs) [] with Some c => rec (c :: S) body | None => VNull end
      | VPoison => VPoison
      | _ => VNull
      end
  end.

(* the tuples a `for` iterates over *)
Definition for_tuples (ev : expr -> value) (ds : list (N * dom)) : list ctx :=
  match doms_eval ev ds with [] => [] | doms => cartf doms end.

(* one layer of "every evaluation performed had fuel": rec = the values of the sub-evaluations, ok = their completeness *)
Definition complete_step (rec : stack -> expr -> value) (ok : stack -> expr -> bool) (S : stack) (e : expr) : bool :=
  let ev := rec S in
  let oks := ok S in
  match e with
  | ENull | EBool _ | ENum _ | EStr _ | EName _ | EFun _ _ => true
  | EBin _ a b => oks a && oks b
  | ENeg a => oks a
  | EIf c t e' => oks c && match ev c with VBool true => oks t | VBool false | VNull => oks e' | _ => true end
  | EBetween x lo hi => oks x && oks lo && oks hi
  | EIn x ts => oks x && forallb (fun t => forallb oks (test_exprs t)) ts
  | EInList x l => oks x && oks l
  | EList es => forallb oks es
  | ECtx es =>
      snd (fold_left (fun (st : ctx * bool) ke =>
                        (ctx_set (fst ke) (rec (fst st :: S) (snd ke)) (fst st), snd st && ok (fst st :: S) (snd ke))) es ([], true))
  | EPath e' _ => oks e'
  | EFilter e' fe =>
      oks e' && match ev e' with
                | VList items => forallb (fun v => ok (filter_env v ++ S) fe) items && oks fe
                | VNum _ | VBool _ | VStr _ | VCtx _ => oks fe
                | _ => true
                end
  | EFor ds body =>
      forallb (fun nd => forallb oks (dom_exprs (snd nd))) ds &&
      (if existsb (fun nd => dom_poison ev (snd nd)) ds then true else
       snd (fold_left (fun (st : list value * bool) t =>
                         (fst st ++ [rec (ctx_set n_partial (VList (fst st)) t :: S) body],
                          snd st && ok (ctx_set n_partial (VList (fst st)) t :: S) body)) (for_tuples ev ds) ([], true)))
  | ESome ds body | EEvery ds body =>
      forallb (fun nd => oks (snd nd)) ds &&
      forallb (fun t => ok (t :: S) body) (cartf (map (fun nd => (fst nd, dom_values (ev (snd nd)))) ds))
  | ECall fe args =>
      oks fe && forallb oks args &&
      match ev fe with
      | VFun ps body => match mk_args ps (map ev args) with Some c => ok (c :: S) body | None => true end
      | _ => true
      end
  | ECallN fe nargs =>
      oks fe && forallb (fun ne => oks (snd ne)) nargs &&
      match ev fe with
      | VFun ps body => match mk_named ps (map (fun ne => (fst ne, ev (snd ne))) nargs) [] with Some c => ok (c :: S) body | None => true end
      | _ => true
      end
  end.

Fixpoint complete (fuel : nat) (S : stack) (e : expr) {struct fuel} : bool :=
  match fuel with
  | O => false
  | Datatypes.S f => complete_step (eval cartf f) (complete f) S e
  end.
End Fuel.

(* no invocation is evaluated: calls inside function literals do not count (a literal is only a value) *)
Fixpoint nocall (e : expr) : bool :=
  match e with
  | ENull | EBool _ | ENum _ | EStr _ | EName _ | EFun _ _ => true
  | EBin _ a b => nocall a && nocall b
  | ENeg a => nocall a
  | EIf c t e' => nocall c && nocall t && nocall e'
  | EBetween x lo hi => nocall x && nocall lo && nocall hi
  | EIn x ts => nocall x && forallb tnocall ts
  | EInList x l => nocall x && nocall l
  | EList es => forallb nocall es
  | ECtx es => forallb (fun ke => nocall (snd ke)) es
  | EPath e' _ => nocall e'
  | EFilter e' fe => nocall e' && nocall fe
  | EFor ds body => forallb (fun nd => dnocall (snd nd)) ds && nocall body
  | ESome ds body | EEvery ds body => forallb (fun nd => nocall (snd nd)) ds && nocall body
  | ECall _ _ | ECallN _ _ => false
  end
with tnocall (t : test) : bool :=
  match t with TVal e => nocall e | TCmp _ e => nocall e | TRange lo _ hi _ => nocall lo && nocall hi end
with dnocall (d : dom) : bool :=
  match d with DList e => nocall e | DRange lo hi => nocall lo && nocall hi end.

Fixpoint depth (e : expr) : nat :=
  match e with
  | ENull | EBool _ | ENum _ | EStr _ | EName _ | EFun _ _ => 0
  | EBin _ a b => S (Nat.max (depth a) (depth b))
  | ENeg a => S (depth a)
  | EIf c t e' => S (Nat.max (depth c) (Nat.max (depth t) (depth e')))
  | EBetween x lo hi => S (Nat.max (depth x) (Nat.max (depth lo) (depth hi)))
  | EIn x ts => S (Nat.max (depth x) (list_max (map tdepth ts)))
  | EInList x l => S (Nat.max (depth x) (depth l))
  | EList es => S (list_max (map depth es))
  | ECtx es => S (list_max (map (fun ke => depth (snd ke)) es))
  | EPath e' _ => S (depth e')
  | EFilter e' fe => S (Nat.max (depth e') (depth fe))
  | EFor ds body => S (Nat.max (list_max (map (fun nd => ddepth (snd nd)) ds)) (depth body))
  | ESome ds body | EEvery ds body => S (Nat.max (list_max (map (fun nd => depth (snd nd)) ds)) (depth body))
  | ECall fe args => S (Nat.max (depth fe) (list_max (map depth args)))
  | ECallN fe nargs => S (Nat.max (depth fe) (list_max (map (fun ne => depth (snd ne)) nargs)))
  end
with tdepth (t : test) : nat :=
  match t with TVal e => depth e | TCmp _ e => depth e | TRange lo _ hi _ => Nat.max (depth lo) (depth hi) end
with ddepth (d : dom) : nat :=
  match d with DList e => depth e | DRange lo hi => Nat.max (depth lo) (depth hi) end.
