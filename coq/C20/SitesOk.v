(* C20 — the hypotheses of the locking theorems, decided on the inventory regenerated from the source, and the
   theorems instantiated for the program the inventory describes. *)
From Coq Require Import List NArith Bool String Lia.
From DV Require Import C20.Conc C20.Proofs C20.Sites Gen.SyncSites.
Import ListNotations.

(* on the current working tree: no write acquisition in the evaluation phase, no shared mutable static, thread-local or
   unsafe Send/Sync in the evaluation-path crates, every decimal call works on its own context copy *)
Theorem sites_ok : forallb eval_site_ok sites = true.
Proof. vm_compute. reflexivity. Qed.

Theorem sites_nonvacuous :
  Nat.leb 9 (count_kind is_eval_read sites) = true /\ Nat.leb 9 (count_kind is_build_write sites) = true /\
  Nat.leb 20 (count_kind is_ctx_use sites) = true /\ Nat.leb 10 (count_kind is_static sites) = true.
Proof. vm_compute. repeat split; reflexivity. Qed.

(* the call path of a nested decision evaluation (regenerated): read acquisitions only, and the witness-shaped schedules
   of the model find no stuck state *)
Theorem call_path_ok :
  Nat.leb 8 (List.length call_path) = true /\ forallb (fun x : bool * lockid => negb (fst x)) call_path = true /\ find_stuck call_path = None.
Proof. vm_compute. repeat split; reflexivity. Qed.

(* the search does find the deadlocks: a write acquisition of a lock that the nested evaluation takes again *)
Example find_stuck_finds :
  find_stuck [(false, 8); (true, 6); (false, 5); (false, 6)] = Some [0; 0; 0; 0; 0; 0; 0; 0; 0] /\
  (exists sched, find_stuck2 [(false, 6); (false, 5); (false, 6)] [(true, 6)] = Some sched).
Proof. vm_compute. split; [reflexivity|eexists; reflexivity]. Qed.

Lemma eval_locks_read_only : forall l, forallb eval_site_ok l = true ->
  forallb (fun x : bool * lockid => negb (fst x)) (eval_lock_sites l) = true.
Proof.
  induction l as [|s r IH]; intros H; [reflexivity|].
  cbn [forallb] in H. apply andb_true_iff in H. destruct H as [Hs Hr].
  change (eval_lock_sites (s :: r)) with
    ((match skind s with SLock w k => if seval s then [(w, k)] else [] | _ => [] end) ++ eval_lock_sites r)%list.
  rewrite forallb_app. apply andb_true_iff. split; [|exact (IH Hr)].
  unfold eval_site_ok in Hs. destruct (skind s) as [w k| | | | | | | |]; try reflexivity.
  destruct (seval s); [|reflexivity]. cbn [forallb fst]. rewrite andb_true_r in Hs. rewrite Hs. reflexivity.
Qed.

Section Code.
Context {Sg Pv : Type}.

(* one evaluation call: acquire the registries it reads (nested), compute on the shared store and the private state, release *)
Definition call (f : Sg -> Pv -> Pv) : list (instr Sg Pv) := prog_of_sites f (eval_lock_sites sites).
Definition callers (fps : list ((Sg -> Pv -> Pv) * Pv)) : list (thread Sg Pv) :=
  map (fun fp => {| prog := call (fst fp); priv := snd fp |}) fps.

Lemma call_read_only : forall f, read_only (call f) = true.
Proof. intros f. unfold call. rewrite read_only_prog_of_sites. apply eval_locks_read_only. exact sites_ok. Qed.

Lemma callers_read_only : forall fps, all_read_only (callers fps) = true.
Proof.
  intros fps. unfold all_read_only, callers. rewrite forallb_forall. intros th Hth. apply in_map_iff in Hth.
  destruct Hth as [fp [E _]]. subst th. cbn [prog]. apply call_read_only.
Qed.

Lemma callers_well_bracketed : forall fps, all_well_bracketed (callers fps) = true.
Proof.
  intros fps. unfold all_well_bracketed, callers. rewrite forallb_forall. intros th Hth. apply in_map_iff in Hth.
  destruct Hth as [fp [E _]]. subst th. cbn [prog]. apply well_bracketed_prog_of_sites.
Qed.

(* any number of threads, any schedule: never stuck *)
Theorem code_no_deadlock : forall sg fps sched, ~ stuck (run sched (init sg (callers fps))).
Proof. intros sg fps sched. apply no_deadlock. apply callers_read_only. Qed.

Theorem code_no_block : forall sg fps sched t,
  finishedb t (run sched (init sg (callers fps))) = false ->
  exists s', step t (run sched (init sg (callers fps))) = Some s' /\
             remaining t s' = tl (remaining t (run sched (init sg (callers fps)))).
Proof. intros sg fps sched t. apply no_block. apply callers_read_only. Qed.

(* the result of a call is the result of that call made alone *)
Theorem code_isolation : forall sg fps sched t,
  finishedb t (run sched (init sg (callers fps))) = true ->
  result t (run sched (init sg (callers fps))) = result t (solo t (init sg (callers fps))).
Proof. intros sg fps sched t. apply isolation_solo. apply callers_read_only. Qed.

(* no lock is left held (or poisoned by a waiting writer) once all calls are over *)
Theorem code_locks_free : forall sg fps sched,
  (forall t, finishedb t (run sched (init sg (callers fps))) = true) ->
  all_free (run sched (init sg (callers fps))).
Proof. intros sg fps sched. apply lock_poison_free; [apply callers_read_only|apply callers_well_bracketed]. Qed.
End Code.
