(* C07 — facts about characters and digit strings (used by C07/Proofs.v). *)
From Coq Require Import ZArith NArith Bool List Ascii Lia.
From DV Require Import Base.Dec C07.Model.
Import ListNotations.
Open Scope char_scope.

Ltac ascii_cases c := destruct c as [[] [] [] [] [] [] [] []].

Lemma digit_not_E : forall c, is_digit c = true -> Ascii.eqb c "E" = false.
Proof. intros c; ascii_cases c; cbn; intros H; try reflexivity; discriminate H. Qed.
Lemma digit_not_dot : forall c, is_digit c = true -> Ascii.eqb c "." = false.
Proof. intros c; ascii_cases c; cbn; intros H; try reflexivity; discriminate H. Qed.
Lemma digit_not_minus : forall c, is_digit c = true -> Ascii.eqb c "-" = false.
Proof. intros c; ascii_cases c; cbn; intros H; try reflexivity; discriminate H. Qed.
Lemma digit_not_plus : forall c, is_digit c = true -> Ascii.eqb c "+" = false.
Proof. intros c; ascii_cases c; cbn; intros H; try reflexivity; discriminate H. Qed.

Lemma digit_char_is_digit : forall n, is_digit (digit_char n) = true.
Proof. intros n. destruct n as [|p]; [reflexivity|]. do 4 (destruct p as [p|p|]; try reflexivity). Qed.

Lemma digit_val_char : forall n, (n < 10)%N -> digit_val (digit_char n) = n.
Proof.
  intros n H.
  assert (n = 0 \/ n = 1 \/ n = 2 \/ n = 3 \/ n = 4 \/ n = 5 \/ n = 6 \/ n = 7 \/ n = 8 \/ n = 9)%N as C by lia.
  repeat (destruct C as [C|C]; [subst n; reflexivity|]). subst n; reflexivity.
Qed.

Lemma digit_char_zero : forall n, (n < 10)%N -> digit_char n = "0" -> n = 0%N.
Proof.
  intros n H.
  assert (n = 0 \/ n = 1 \/ n = 2 \/ n = 3 \/ n = 4 \/ n = 5 \/ n = 6 \/ n = 7 \/ n = 8 \/ n = 9)%N as C by lia.
  repeat (destruct C as [C|C]; [subst n; cbn; intros E; (reflexivity || discriminate E)|]). subst n; cbn; intros E; discriminate E.
Qed.

Lemma digit_val_lt10 : forall c, (digit_val c < 10)%N.
Proof. intros c. unfold digit_val. ascii_cases c; lia. Qed.

(* ---------------------------------------------------------------- value of digit strings *)
Lemma digits_acc_app : forall s t a, digits_acc a (s ++ t) = digits_acc (digits_acc a s) t.
Proof. induction s as [|c s IH]; intros t a; cbn [app digits_acc]; [reflexivity | apply IH]. Qed.

Lemma digits_acc_lin : forall s a, digits_acc a s = (a * 10 ^ N.of_nat (length s) + digits_acc 0 s)%N.
Proof.
  induction s as [|c s IH]; intros a.
  - cbn [digits_acc length]. change (N.of_nat 0) with 0%N. rewrite N.pow_0_r. lia.
  - cbn [digits_acc length]. rewrite IH. rewrite (IH (0 * 10 + digit_val c)%N).
    rewrite Nat2N.inj_succ, N.pow_succ_r'. lia.
Qed.

Lemma digits_val_app : forall s t, digits_val (s ++ t) = (digits_val s * 10 ^ N.of_nat (length t) + digits_val t)%N.
Proof. intros s t. unfold digits_val. rewrite digits_acc_app. apply digits_acc_lin. Qed.

Lemma digits_val_zeros : forall n, digits_val (zeros n) = 0%N.
Proof.
  induction n as [|n IH]; [reflexivity|].
  unfold digits_val in *. cbn [zeros repeat digits_acc]. exact IH.
Qed.

Lemma zeros_length : forall n, length (zeros n) = n.
Proof. intros n. apply repeat_length. Qed.

Lemma digits_val_app_zeros : forall s n, digits_val (s ++ zeros n) = (digits_val s * 10 ^ N.of_nat n)%N.
Proof. intros s n. rewrite digits_val_app, digits_val_zeros, zeros_length. lia. Qed.

Lemma digits_val_zeros_app : forall n s, digits_val (zeros n ++ s) = digits_val s.
Proof. intros n s. rewrite digits_val_app, digits_val_zeros. lia. Qed.

Lemma digits_val_cons0 : forall s, digits_val ("0" :: s) = digits_val s.
Proof. intros s. reflexivity. Qed.

Lemma all_digits_app : forall s t, all_digits (s ++ t) = all_digits s && all_digits t.
Proof. intros s t. apply forallb_app. Qed.

Lemma all_digits_zeros : forall n, all_digits (zeros n) = true.
Proof. induction n as [|n IH]; [reflexivity|]. cbn. exact IH. Qed.

Lemma all_digits_firstn : forall k s, all_digits s = true -> all_digits (firstn k s) = true.
Proof.
  induction k as [|k IH]; intros s H; [reflexivity|].
  destruct s as [|c s]; [reflexivity|]. cbn in *. apply andb_true_iff in H. destruct H as [H1 H2].
  rewrite H1. cbn. apply IH. exact H2.
Qed.

Lemma all_digits_skipn : forall k s, all_digits s = true -> all_digits (skipn k s) = true.
Proof.
  induction k as [|k IH]; intros s H; [exact H|].
  destruct s as [|c s]; [reflexivity|]. cbn in *. apply andb_true_iff in H. destruct H as [H1 H2].
  apply IH. exact H2.
Qed.

(* ---------------------------------------------------------------- digits_of *)
(* what is needed of the digit string of a coefficient *)
Record digits_ok (n : N) (ds : str) : Prop := {
  ok_digits : all_digits ds = true;
  ok_val : digits_val ds = n;
  ok_zero : n = 0%N -> ds = ["0"];
  ok_head : n <> 0%N -> exists c t, ds = c :: t /\ c <> "0"
}.

Lemma digits_fuel_ok : forall f n, (n < 10 ^ N.of_nat f)%N -> (0 < f)%nat -> digits_ok n (digits_fuel f n).
Proof.
  induction f as [|f IH]; intros n Hn Hf; [lia|].
  cbn [digits_fuel]. destruct (n <? 10)%N eqn:E.
  - apply N.ltb_lt in E. split.
    + cbn. rewrite digit_char_is_digit. reflexivity.
    + unfold digits_val. cbn [digits_acc]. rewrite digit_val_char by assumption. lia.
    + intros ->. reflexivity.
    + intros Hz. exists (digit_char n), []. split; [reflexivity|]. intros Hc. apply Hz. apply digit_char_zero; assumption.
  - apply N.ltb_ge in E.
    assert (Hf' : (0 < f)%nat).
    { destruct f as [|f]; [|lia]. change (N.of_nat 1) with 1%N in Hn. rewrite N.pow_1_r in Hn. lia. }
    assert (Hq : (n / 10 < 10 ^ N.of_nat f)%N).
    { rewrite Nat2N.inj_succ, N.pow_succ_r' in Hn. apply N.div_lt_upper_bound; lia. }
    specialize (IH (n / 10)%N Hq Hf'). destruct IH as [I1 I2 I3 I4].
    assert (Hm : (n mod 10 < 10)%N) by (apply N.mod_lt; lia).
    assert (Hq0 : (n / 10 <> 0)%N).
    { intros Z0. apply N.div_small_iff in Z0; lia. }
    split.
    + rewrite all_digits_app, I1. cbn. rewrite digit_char_is_digit. reflexivity.
    + rewrite digits_val_app, I2. unfold digits_val at 1. cbn [digits_acc length]. rewrite digit_val_char by assumption.
      change (N.of_nat 1) with 1%N. rewrite N.pow_1_r. pose proof (N.div_mod n 10). lia.
    + intros ->. cbn in E. lia.
    + intros _. destruct (I4 Hq0) as (c & t & Ec & Hc). exists c, (t ++ [digit_char (n mod 10)]). rewrite Ec. split; [reflexivity | assumption].
Qed.

Lemma digits_of_ok : forall n, digits_ok n (digits_of n).
Proof.
  intros n. unfold digits_of. apply digits_fuel_ok; [|lia].
  rewrite Nat2N.inj_succ, N2Nat.id, N.pow_succ_r'.
  pose proof (N.size_gt n) as H.
  assert ((2 ^ N.size n <= 10 ^ N.size n)%N) by (apply N.pow_le_mono_l; lia).
  assert ((0 < 10 ^ N.size n)%N) by (apply N.neq_0_lt_0, N.pow_nonzero; lia).
  lia.
Qed.

Lemma digits_of_nonempty : forall n, exists c t, digits_of n = c :: t /\ is_digit c = true /\ all_digits t = true.
Proof.
  intros n. destruct (digits_of_ok n) as [D1 D2 D3 D4].
  destruct (digits_of n) as [|c t] eqn:E.
  - destruct (N.eq_dec n 0) as [Z0|NZ]; [discriminate (D3 Z0) | destruct (D4 NZ) as (c & t & Ec & _); discriminate Ec].
  - exists c, t. cbn in D1. apply andb_true_iff in D1. destruct D1. auto.
Qed.

(* ---------------------------------------------------------------- the Rust string primitives on known shapes *)
Definition lacksb (c : ascii) (s : str) : bool := forallb (fun a => negb (Ascii.eqb a c)) s.

Lemma lacksb_app : forall c s t, lacksb c (s ++ t) = lacksb c s && lacksb c t.
Proof. intros. apply forallb_app. Qed.

Lemma all_digits_lacks : forall c, (forall a, is_digit a = true -> Ascii.eqb a c = false) ->
  forall s, all_digits s = true -> lacksb c s = true.
Proof.
  intros c Hc. induction s as [|a s IH]; intros H; [reflexivity|].
  cbn in *. apply andb_true_iff in H. destruct H as [H1 H2]. rewrite (Hc a H1). cbn. apply IH. exact H2.
Qed.

Lemma split_pat_cons : forall c1 c2 a b t,
  split_pat c1 c2 (a :: b :: t) =
  if Ascii.eqb a c1 && Ascii.eqb b c2 then Some ([], t)
  else match split_pat c1 c2 (b :: t) with Some (x, y) => Some (a :: x, y) | None => None end.
Proof. reflexivity. Qed.

Lemma split_pat_none : forall c1 c2 s, lacksb c1 s = true -> split_pat c1 c2 s = None.
Proof.
  intros c1 c2. induction s as [|a s IH]; intros H; [reflexivity|].
  destruct s as [|b t]; [reflexivity|].
  rewrite split_pat_cons. cbn [lacksb forallb] in H. apply andb_true_iff in H. destruct H as [H1 H2].
  apply negb_true_iff in H1. rewrite H1. cbn [andb]. rewrite (IH H2). reflexivity.
Qed.

Lemma split_pat_found : forall c1 c2 pre post, lacksb c1 pre = true ->
  split_pat c1 c2 (pre ++ c1 :: c2 :: post) = Some (pre, post).
Proof.
  intros c1 c2. induction pre as [|a pre IH]; intros post H.
  - cbn [app]. rewrite split_pat_cons, !Ascii.eqb_refl. reflexivity.
  - cbn [lacksb forallb] in H. apply andb_true_iff in H. destruct H as [H1 H2]. apply negb_true_iff in H1.
    specialize (IH post H2).
    destruct pre as [|b pre']; cbn [app] in *; rewrite split_pat_cons, H1; cbn [andb]; rewrite IH; reflexivity.
Qed.

Lemma split_pat_wrong : forall c1 c2 x pre post, lacksb c1 pre = true -> lacksb c1 (x :: post) = true -> Ascii.eqb x c2 = false ->
  split_pat c1 c2 (pre ++ c1 :: x :: post) = None.
Proof.
  intros c1 c2 x. induction pre as [|a pre IH]; intros post H Hp Hx.
  - cbn [app]. rewrite split_pat_cons, Hx, andb_false_r. rewrite (split_pat_none c1 c2 _ Hp). reflexivity.
  - cbn [lacksb forallb] in H. apply andb_true_iff in H. destruct H as [H1 H2]. apply negb_true_iff in H1.
    specialize (IH post H2 Hp Hx).
    destruct pre as [|b pre']; cbn [app] in *; rewrite split_pat_cons, H1; cbn [andb]; rewrite IH; reflexivity.
Qed.

Lemma split_char_none : forall c s, lacksb c s = true -> split_char c s = (s, None).
Proof.
  intros c. induction s as [|a s IH]; intros H; [reflexivity|].
  cbn [lacksb forallb] in H. apply andb_true_iff in H. destruct H as [H1 H2]. apply negb_true_iff in H1.
  cbn [split_char]. rewrite H1, (IH H2). reflexivity.
Qed.

Lemma split_char_found : forall c pre post, lacksb c pre = true -> split_char c (pre ++ c :: post) = (pre, Some post).
Proof.
  intros c. induction pre as [|a pre IH]; intros post H.
  - cbn [app split_char]. rewrite Ascii.eqb_refl. reflexivity.
  - cbn [lacksb forallb] in H. apply andb_true_iff in H. destruct H as [H1 H2]. apply negb_true_iff in H1.
    cbn [app split_char]. rewrite H1, (IH post H2). reflexivity.
Qed.

Lemma contains_none : forall c s, lacksb c s = true -> contains_char c s = false.
Proof.
  intros c. induction s as [|a s IH]; intros H; [reflexivity|].
  cbn [lacksb forallb] in H. apply andb_true_iff in H. destruct H as [H1 H2]. apply negb_true_iff in H1.
  cbn [contains_char existsb]. rewrite H1. cbn [orb]. apply IH. exact H2.
Qed.

Lemma contains_found : forall c pre post, contains_char c (pre ++ c :: post) = true.
Proof.
  intros c pre post. unfold contains_char. rewrite existsb_app. cbn [existsb]. rewrite Ascii.eqb_refl, orb_true_r. reflexivity.
Qed.

Lemma parse_usize_digits : forall n, parse_usize (digits_of n) = Some n.
Proof.
  intros n. destruct (digits_of_ok n) as [D1 D2 _ _]. destruct (digits_of_nonempty n) as (c & t & E & Hc & Ht).
  unfold parse_usize. rewrite E in *.
  assert (Ascii.eqb c "+" = false) as Hp by (apply digit_not_plus; exact Hc).
  destruct c as [[] [] [] [] [] [] [] []]; try discriminate Hp; rewrite D1, D2; reflexivity.
Qed.
