(* C19 — a decision table drawn as text is recognised exactly as drawn: property theorems (plane level).
   Models in C19/Model.v (recognize_horizontal = recognizer.rs over plane.rs queries; layout_h = the plane a drawing denotes),
   proofs in C19/Proofs.v.  The character grid -> plane step (canvas.rs) is not modelled: see the correspondence check. *)
From Coq Require Import List NArith Bool Arith.
From DV Require Import C19.Model C19.Proofs.
Import ListNotations.

(* headline, unbounded: for EVERY well-shaped table (any numbers of inputs, outputs, annotations and rules, any texts, with or
   without output label and allowed values) the plane-level recogniser reads back exactly the table that was laid out *)
Theorem C19_plane_roundtrip_h : forall t, wf t = true -> recognize_horizontal (layout_h t) = Some (fields_of t).
Proof. exact roundtrip_h. Qed.

(* where the recogniser finds the crossings of a laid-out table *)
Theorem C19_crossings : forall t, wf t = true ->
  find_plane is_main (layout_h t) = Some (length (t_inputs t), hdr t) /\
  find_plane is_hcross (layout_h t) = match t_annotations t with [] => None | _ => Some (length (t_inputs t) + 1 + length (t_outputs t), hdr t) end.
Proof. intros t Hwf. split; [apply main_position | apply hcross_position]. Qed.

(* the header-row-count based detection of the allowed-values line is exact *)
Theorem C19_values_line_detected : forall t, wf t = true ->
  input_values_present (layout_h t) (length (t_inputs t)) (hdr t) = Some (t_values t).
Proof. exact ivp_eq. Qed.

(* PARTIAL (kept as a cross-check of the general proof): the round trip is proved for every table SHAPE within the bounds of the property's quantifier
   (1..5 inputs, 1..3 outputs, 0..2 annotations, 1..8 rules, with/without output label, with/without allowed values)
   over pairwise distinct texts, by a finite sweep; what is missing is the generalisation to unbounded sizes and
   to arbitrary (possibly coinciding) texts.  Also shown per shape: pivot is involutive on the laid-out plane. *)
Theorem C19_plane_roundtrip_bounded_partial : forall n_in n_out n_ann n_rules lbl vals,
  1 <= n_in <= 5 -> 1 <= n_out <= 3 -> n_ann <= 2 -> 1 <= n_rules <= 8 ->
  let t := shape_table n_in n_out n_ann n_rules lbl vals in
  recognize_horizontal (layout_h t) = Some (fields_of t) /\ pivot (pivot (layout_h t)) = layout_h t.
Proof. exact plane_roundtrip_bounded. Qed.

(* for all cells / rows / tables *)
Theorem C19_pivot_cell_involutive : forall c, pivot_cell (pivot_cell c) = c.
Proof. exact pivot_cell_involutive. Qed.

Theorem C19_main_crossing_column : forall t, find_cell is_main (cross_row t) = Some (length (t_inputs t)).
Proof. exact main_crossing_column. Qed.

Theorem C19_input_block_query : forall (a : list cell) x b, cols 0 (length a) (a ++ x :: b) = a.
Proof. exact cols_block. Qed.

Theorem C19_output_block_query : forall (a : list cell) x b y c, cols (S (length a)) (S (length a) + length b) (a ++ x :: b ++ y :: c) = b.
Proof. exact cols_block2. Qed.

Theorem C19_region_texts : forall (l : list (N * N)), texts (map (fun x => Region (1%N, fst x) (snd x)) l) = Some (map snd l).
Proof. intros l. exact (texts_regions (fun x => (1%N, fst x)) snd l). Qed.

Example C19_nonvacuous :
  let t := shape_table 2 2 1 2 true true in
  f_label (fields_of t) = Some 5000%N /\ f_components (fields_of t) = [3000%N; 3001%N] /\ length (layout_h t) = 6 /\
  recognize_horizontal (layout_h t) = Some (fields_of t).
Proof. exact nonvacuous19. Qed.

Print Assumptions C19_plane_roundtrip_h.
Print Assumptions C19_crossings.
Print Assumptions C19_values_line_detected.
Print Assumptions C19_plane_roundtrip_bounded_partial.
Print Assumptions C19_pivot_cell_involutive.
Print Assumptions C19_main_crossing_column.
Print Assumptions C19_input_block_query.
Print Assumptions C19_output_block_query.
Print Assumptions C19_region_texts.
Print Assumptions C19_nonvacuous.
