#!/bin/bash
# MANIFEST.setup_cmd: build the framework from files on disk only (offline).
set -e
cd "$(dirname "$0")"
export CARGO_NET_OFFLINE=true
mkdir -p build evidence replays
[ -f harness/Cargo.lock ] || cp /repo/Cargo.lock harness/Cargo.lock
( cd harness && RUSTFLAGS="--cfg dmntk_verif" cargo build --offline 2>&1 | tail -3 )
python3 translators/run_all.py
( cd coq && coq_makefile -f _CoqProject -o Makefile >/dev/null && timeout 3000 make -j16 2>&1 | tail -5 )
echo "setup done"
