(* C19 — rules as COLUMNS, unbounded: on the plane of a rules-as-columns drawing (the pivoted table plane with the
   marker / rule-number line below) the recogniser finds the hit-policy marker in the bottom-left corner and the rule
   numbers after the double line, for every table, under two hypotheses on the texts (boolean predicates):
   the first input expression is not read as a marker, the first text of the top output line is not read as a number.
   Needs: which cells a transposed plane contains (first row, first column, membership). *)
From Coq Require Import List NArith Bool Arith Lia.
From DV Require Import C19.Model C19.Proofs.
Import ListNotations.

(* ---------------- the two hypotheses ---------------- *)
(* the text in the top-left cell of the output block: the label (single output, or several outputs with a label line),
   else the name of the first output component *)
Definition first_out_text (t : table) : N :=
  if multi t && negb (label_row t) then match t_outputs t with (n, _) :: _ => n | [] => 0%N end else lbl_text t.

Definition first_input_not_marker (parse_hp : N -> option N) (t : table) : bool :=
  match t_inputs t with
  | (e, _) :: _ => match parse_hp e with None => true | Some _ => false end
  | [] => false
  end.

Definition first_output_not_number (parse_num : N -> option nat) (t : table) : bool :=
  match parse_num (first_out_text t) with None => true | Some _ => false end.

(* ---------------- cells of a transposed plane ---------------- *)
Lemma in_heads p : forall c, In c (heads p) -> exists r, In r p /\ In c r.
Proof. induction p as [|[|x r] p IH]; intros c Hc; cbn [heads] in Hc.
  - destruct Hc.
  - destruct (IH c Hc) as [r' [A B]]. exists r'. split; [right; exact A|exact B].
  - destruct Hc as [<-|Hc]; [exists (x :: r); split; left; reflexivity|].
    destruct (IH c Hc) as [r' [A B]]. exists r'. split; [right; exact A|exact B]. Qed.

Lemma in_tails p : forall r c, In r (tails p) -> In c r -> exists r', In r' p /\ In c r'.
Proof. intros r c Hr Hc. unfold tails in Hr. apply in_map_iff in Hr. destruct Hr as [r' [<- Hr']]. exists r'. split; [exact Hr'|].
  destruct r' as [|x r']; [destruct Hc|right; exact Hc]. Qed.

Lemma in_transpose w : forall p r c, In r (transpose w p) -> In c r -> exists r', In r' p /\ In c r'.
Proof. induction w as [|w IH]; intros p r c Hr Hc; cbn [transpose] in Hr; [destruct Hr|].
  destruct Hr as [<-|Hr]; [apply in_heads; exact Hc|].
  destruct (IH _ _ _ Hr Hc) as [r1 [A B]]. apply (in_tails p r1 c A B). Qed.

Lemma in_pivot p r c : In r (pivot p) -> In c r -> exists r' c', In r' p /\ In c' r' /\ c = pivot_cell c'.
Proof. unfold pivot. intros Hr Hc. apply in_map_iff in Hr. destruct Hr as [r0 [<- Hr0]]. apply in_map_iff in Hc. destruct Hc as [c' [<- Hc']].
  destruct (in_transpose _ _ _ _ Hr0 Hc') as [r' [A B]]. exists r', c'. tauto. Qed.

(* first row of the pivoted plane = the first column of the plane *)
Lemma pivot_first_row p : 0 < width p -> exists rest, pivot p = map pivot_cell (heads p) :: rest.
Proof. intros Hw. unfold pivot. destruct (width p) as [|w]; [lia|]. cbn [transpose map]. eexists. reflexivity. Qed.

(* first column of the pivoted plane = the first row of the plane *)
Lemma heads_transpose r p : heads (transpose (length r) (r :: p)) = r.
Proof. rewrite (transpose_cons (length r) r p eq_refl). apply heads_zipcons. rewrite transpose_length. reflexivity. Qed.

Lemma pivot_first_column r p : heads (pivot (r :: p)) = map pivot_cell r.
Proof. unfold pivot. rewrite heads_map. cbn [width]. rewrite heads_transpose. reflexivity. Qed.

Lemma heads_app a b : heads (a ++ b) = heads a ++ heads b.
Proof. induction a as [|[|x r] a IH]; cbn [app heads]; [reflexivity|exact IH|]. rewrite IH. reflexivity. Qed.

Lemma after_block f a x r : (forall c, In c a -> f c = false) -> f x = true -> after f (a ++ x :: r) = r.
Proof. intros Ha Hx. induction a as [|c a IH]; cbn [app after]; [rewrite Hx; reflexivity|].
  rewrite (Ha c (or_introl eq_refl)). apply IH. intros c' Hc'. apply Ha. right. exact Hc'. Qed.

Lemma forallb_impl {A} (P Q : A -> bool) l : (forall x, P x = true -> Q x = true) -> forallb P l = true -> forallb Q l = true.
Proof. intros H. rewrite !forallb_forall. intros HP x Hx. apply H. apply HP. exact Hx. Qed.

(* ---------------- the layout has no vertical crossing ---------------- *)
Lemma layout_no_vcross t row c : In row (layout_h t) -> In c row -> is_vcross c = false.
Proof. intros Hrow Hc. assert (F : forallb (fun c => negb (is_vcross c)) row = true).
  { unfold layout_h in Hrow. apply in_app_or in Hrow. destruct Hrow as [Hh|[<-|Hh]].
    - apply in_map_iff in Hh. destruct Hh as [k [<- _]]. apply (forallb_impl plain); [|apply header_plain].
      intros x Hx. rewrite (plain_vcross x Hx). reflexivity.
    - unfold cross_row, sep_ann. rewrite forallb_app. cbn [forallb is_vcross negb]. rewrite forallb_app.
      rewrite !forallb_map_true by reflexivity. destruct (t_annotations t); [reflexivity|]. cbn [forallb is_vcross negb]. rewrite forallb_map_true; reflexivity.
    - apply in_map_iff in Hh. destruct Hh as [ir [<- _]]. apply (forallb_impl plain); [|apply rule_plain].
      intros x Hx. rewrite (plain_vcross x Hx). reflexivity. }
  rewrite forallb_forall in F. specialize (F c Hc). apply negb_true_iff in F. exact F. Qed.

Lemma hcross_pivot_cell c : is_hcross (pivot_cell c) = is_vcross c.
Proof. destruct c; reflexivity. Qed.

Lemma find_cell_none_in f row : (forall c, In c row -> f c = false) -> find_cell f row = None.
Proof. intros H. apply find_cell_none. apply forallb_forall. intros c Hc. rewrite (H c Hc). reflexivity. Qed.

(* ---------------- placement of the marker: generic shape ---------------- *)
Lemma hp_placement_bottom parse_hp hp c1 r1 rest c2 r2 :
  cell_hp parse_hp c1 = None -> cell_hp parse_hp c2 = Some hp ->
  hp_placement parse_hp (((c1 :: r1) :: rest) ++ [c2 :: r2]) = Some (BottomLeft hp).
Proof. intros H1 H2. unfold hp_placement.
  change (((c1 :: r1) :: rest) ++ [c2 :: r2]) with ((c1 :: r1) :: (rest ++ [c2 :: r2])). cbv iota beta. rewrite H1.
  change ((c1 :: r1) :: (rest ++ [c2 :: r2])) with (((c1 :: r1) :: rest) ++ [c2 :: r2]). rewrite last_last. rewrite H2. reflexivity. Qed.

Section Columns.
Variable parse_hp : N -> option N.
Variable parse_num : N -> option nat.
Variables (hp_text hp : N) (num_text : nat -> N).
Hypothesis Hhp : parse_hp hp_text = Some hp.
Hypothesis Hnum : forall k, parse_num (num_text k) = Some k.
Variable t : table.
Hypothesis Hwf : wf t = true.
Hypothesis Hrules : t_rules t <> [].
Hypothesis Hin : first_input_not_marker parse_hp t = true.
Hypothesis Hout : first_output_not_number parse_num t = true.

Local Notation bottom := (repeat (marker hp_text) (hdr t) ++ VOut :: numbers_cells num_text t).
Local Notation P := (layout_columns hp_text num_text t).

(* the plane of the table: its first line and its first column *)
Lemma layout_first_row : exists rest, layout_h t = header_row t 0 :: rest.
Proof. unfold layout_h. pose proof (H_pos t) as HP. destruct (hdr t) as [|h]; [lia|]. cbn [seq map app]. eexists. reflexivity. Qed.

Lemma first_input_cell : exists e v l i, t_inputs t = (e, v) :: l /\ parse_hp e = None /\ exists r, header_row t 0 = Region i e :: r.
Proof. pose proof Hin as H. unfold first_input_not_marker in H. destruct (t_inputs t) as [|[e v] l] eqn:E; [discriminate|].
  destruct (parse_hp e) eqn:Ep; [discriminate|]. exists e, v, l, (1%N, N.of_nat 0). split; [reflexivity|]. split; [exact Ep|].
  unfold header_row, h_ins. rewrite E. unfold indexed. cbn [length seq map combine app fst snd].
  pose proof (top_rows_pos t) as HT. destruct (Nat.ltb_spec 0 (top_rows t)) as [_|HF]; [|lia]. eexists. reflexivity. Qed.

Lemma first_output_cell : exists i l, h_outs t 0 = Region i (first_out_text t) :: l.
Proof. destruct (wf_parts19 t Hwf) as [_ [Ho _]]. pose proof (top_rows_pos t) as HT.
  unfold h_outs, first_out_text. destruct (Nat.ltb_spec 0 (top_rows t)) as [_|HF]; [|lia].
  destruct (t_outputs t) as [|[n v] os] eqn:Eo; [cbn [length] in Ho; lia|].
  unfold indexed. cbn [length seq map combine fst snd Nat.eqb].
  destruct (multi t); [destruct (label_row t)|]; cbn [andb negb]; eexists; eexists; reflexivity. Qed.

Lemma P_shape : exists c1 r1 rest c2 r2, P = ((c1 :: r1) :: rest) ++ [c2 :: r2] /\ cell_hp parse_hp c1 = None /\ cell_hp parse_hp c2 = Some hp.
Proof. unfold layout_columns. destruct (pivot_first_row (layout_h t)) as [rest Ep].
  { rewrite (width_layout t). unfold W. lia. }
  destruct layout_first_row as [rest0 E0]. destruct first_input_cell as [e [v [l [i [_ [Hp [r Hr]]]]]]].
  rewrite Ep, E0, Hr. cbn [heads map pivot_cell].
  pose proof (H_pos t) as HP. destruct (hdr t) as [|h]; [lia|]. cbn [repeat app].
  exists (Region i e), (map pivot_cell (heads rest0)), rest, (marker hp_text), (repeat (marker hp_text) h ++ VOut :: numbers_cells num_text t).
  split; [reflexivity|]. split; [exact Hp|exact Hhp]. Qed.

Lemma hp_columns : hp_placement parse_hp P = Some (BottomLeft hp).
Proof. destruct P_shape as [c1 [r1 [rest [c2 [r2 [-> [H1 H2]]]]]]]. apply hp_placement_bottom; assumption. Qed.

Lemma last_P : last P [] = bottom.
Proof. unfold layout_columns. apply last_last. Qed.

(* first column of the whole plane: the pivoted top line of the table, then the marker *)
Lemma heads_P_columns : exists i l rest,
  heads P = map pivot_cell (h_ins t 0) ++ HOut :: (Region i (first_out_text t) :: l) ++ rest.
Proof. unfold layout_columns. rewrite heads_app. destruct layout_first_row as [rest0 ->]. rewrite pivot_first_column.
  unfold header_row. rewrite map_app. cbn [map pivot_cell]. rewrite map_app.
  destruct first_output_cell as [i [l ->]]. cbn [map pivot_cell].
  exists i, (map pivot_cell l). eexists. rewrite <- !app_assoc. cbn [app]. rewrite <- !app_assoc. reflexivity. Qed.

Lemma numbers_cells_eq : numbers parse_num 1 (numbers_cells num_text t) = Some (Some (length (t_rules t))).
Proof. unfold numbers_cells. rewrite (numbers_seq parse_num num_text Hnum _ 0). reflexivity. Qed.

Lemma rn_columns : rn_placement parse_num P = Some (RightAfter (length (t_rules t))).
Proof. unfold rn_placement. destruct heads_P_columns as [i [l [rest ->]]].
  rewrite after_block.
  2:{ intros c Hc. apply in_map_iff in Hc. destruct Hc as [c' [<- Hc']]. unfold h_ins in Hc'. apply in_map_iff in Hc'. destruct Hc' as [ie [<- _]].
      destruct (Nat.ltb 0 (top_rows t)); reflexivity. }
  2:{ reflexivity. }
  cbn [app numbers]. pose proof Hout as Ho. unfold first_output_not_number in Ho.
  destruct (parse_num (first_out_text t)); [discriminate|].
  rewrite last_P, after_repeat by reflexivity. rewrite numbers_cells_eq.
  destruct (t_rules t) as [|r rs]; [congruence|]. reflexivity. Qed.

Lemma no_hcross_columns : present is_hcross P = false.
Proof. unfold present. rewrite find_plane_none; [reflexivity|]. intros r Hr. apply find_cell_none_in. intros c Hc.
  unfold layout_columns in Hr. apply in_app_or in Hr. destruct Hr as [Hr|[<-|[]]].
  - destruct (in_pivot _ _ _ Hr Hc) as [r' [c' [A [B ->]]]]. rewrite hcross_pivot_cell. apply (layout_no_vcross t r' c' A B).
  - apply in_app_or in Hc. destruct Hc as [Hc|[<-|Hc]]; [apply repeat_spec in Hc; subst; reflexivity|reflexivity|].
    unfold numbers_cells in Hc. apply in_map_iff in Hc. destruct Hc as [k [<- _]]. reflexivity. Qed.

Theorem orientation_columns : orientation parse_hp parse_num P = Some (AsColumn, hp, length (t_rules t)).
Proof. unfold orientation. rewrite hp_columns, rn_columns, no_hcross_columns. destruct (present is_vcross P); reflexivity. Qed.

Theorem roundtrip_columns : recognize_plane parse_hp parse_num P = Some (AsColumn, hp, length (t_rules t), fields_of t).
Proof. unfold recognize_plane. rewrite orientation_columns, (columns_normalise hp_text num_text t Hwf), (roundtrip_h t Hwf). reflexivity. Qed.
End Columns.

(* ---------------- the hypotheses are met by the sweep tables, and they are needed ---------------- *)
Example columns_nonvacuous :
  let t := shape_table 2 2 1 2 true true in
  wf t = true /\ first_input_not_marker sw_parse_hp t = true /\ first_output_not_number sw_parse_num t = true /\
  first_out_text t = 5000%N /\ first_out_text (shape_table 2 2 1 2 false true) = 3000%N /\
  length (layout_columns 77%N sw_num_text t) = 8 /\
  recognize_plane sw_parse_hp sw_parse_num (layout_columns 77%N sw_num_text t) = Some (AsColumn, 1%N, 2, fields_of t).
Proof. vm_compute. repeat split. Qed.

(* a table whose first input expression reads as a marker (text 77), resp. whose first output name reads as the number 2:
   the hypotheses fail and the rules-as-columns plane is rejected (None = Err), not misread *)
Definition marker_first_table : table :=
  {| t_inputs := [(77%N, 2000%N); (1001%N, 2001%N)]; t_outputs := [(3000%N, 4000%N)]; t_label := Some 5000%N; t_values := false;
     t_annotations := []; t_rules := [ {| r_in := [10000%N; 10001%N]; r_out := [20000%N]; r_ann := [] |} ] |}.
Definition number_first_table : table :=
  {| t_inputs := [(1000%N, 2000%N)]; t_outputs := [(90002%N, 4000%N); (3001%N, 4001%N)]; t_label := None; t_values := false;
     t_annotations := []; t_rules := [ {| r_in := [10000%N]; r_out := [20000%N; 20001%N]; r_ann := [] |} ] |}.

Example columns_hypotheses_needed :
  wf marker_first_table = true /\ first_input_not_marker sw_parse_hp marker_first_table = false /\
  recognize_plane sw_parse_hp sw_parse_num (layout_columns 77%N sw_num_text marker_first_table) = None /\
  wf number_first_table = true /\ first_output_not_number sw_parse_num number_first_table = false /\
  recognize_plane sw_parse_hp sw_parse_num (layout_columns 77%N sw_num_text number_first_table) = None.
Proof. vm_compute. repeat split. Qed.
