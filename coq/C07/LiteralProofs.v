(* C07 — proofs about coq/C07/Literal.v: a number text is read as exactly the value it denotes when it has at most 34 significant
   digits (and the value lies in the decimal128 range), and as the correctly rounded value (C02/Exact.v correctly_rounded)
   otherwise; the grammar the reader accepts; the printed text is a JSON number by the grammar of RFC 8259. *)
From Coq Require Import String ZArith NArith Bool List Ascii Lia.
From DV Require Import Base.Dec Base.DecFacts Base.DecRound C07.Model C07.Digits C07.Proofs C07.Reader C07.ReadBack C07.Literal.
From DV Require Import C02.Exact C02.Nearest.
Import ListNotations.
Open Scope char_scope.
Open Scope Z_scope.

(* ---------------------------------------------------------------- the positional value is what the reader accumulates *)
Lemma weigh_digits_val : forall s, weigh s = digits_val s.
Proof. induction s as [|c t IH]; [reflexivity|]. cbn [weigh]. unfold digits_val in *. cbn [digits_acc].
  rewrite (digits_acc_lin t (0 * 10 + digit_val c)), IH. lia. Qed.

Lemma text_num_reader : forall n, text_num n = digits_val (n_int n ++ n_frac n).
Proof. intros n. unfold text_num. rewrite digits_val_app, !weigh_digits_val. reflexivity. Qed.

Lemma weigh_bound : forall s, (weigh s < 10 ^ N.of_nat (length s))%N.
Proof. induction s as [|c t IH]; cbn [weigh length]; [cbn; lia|].
  pose proof (digit_val_lt10 c). rewrite Nat2N.inj_succ, N.pow_succ_r'. nia. Qed.

Lemma strip_zeros_left_val : forall s, digits_val (strip_zeros_left s) = digits_val s.
Proof. induction s as [|c t IH]; [reflexivity|]. cbn [strip_zeros_left].
  destruct (Ascii.eqb_spec c "0") as [->|NE].
  - rewrite IH, digits_val_cons0. reflexivity.
  - destruct c as [[] [] [] [] [] [] [] []]; try reflexivity. contradiction. Qed.

Lemma sig_digits_bound : forall n k, (sig_digits n <= k)%nat -> (text_num n < 10 ^ N.of_nat k)%N.
Proof. intros n k H. rewrite text_num_reader, <- strip_zeros_left_val, <- weigh_digits_val.
  eapply N.lt_le_trans; [apply weigh_bound|]. apply N.pow_le_mono_r; [lia|]. unfold sig_digits in H. lia. Qed.

Lemma read_numeral_round : forall n, read_numeral n = round34 (n_neg n) (text_num n) (- text_scale n).
Proof. intros n. unfold read_numeral, text_scale. rewrite text_num_reader. f_equal. lia. Qed.

(* ---------------------------------------------------------------- at most 34 significant digits: exact *)
(* the reader returns the datum whose coefficient is the digits of the text and whose exponent is minus the scale: nothing is
   rounded, nothing is normalised *)
Theorem numeral_exact_upto_34 : forall n, (sig_digits n <= 34)%nat -> ETINY <= - text_scale n <= ETOP ->
  read_numeral n = Some (denoted n) /\ in_format (denoted n) = true.
Proof. intros n Hs He. pose proof (sig_digits_bound n 34 Hs) as Hb. rewrite read_numeral_round. split.
  - apply round34_id; [exact Hb | exact He].
  - apply in_format_intro; [exact Hb | exact He]. Qed.

(* wider: a value above the largest exponent 6111 that still fits (1E6144 = 1000...0E6111) is read with a clamped exponent, same value *)
Lemma round34_exact_wide : forall s m e, (m < 10 ^ PREC)%N -> ETINY <= e ->
  (m = 0%N \/ e + Z.of_N (ndigits m) - 1 <= EMAX) ->
  exists d, round34 s m e = Some d /\ veq d (mkdec s m e) /\ neg d = s /\ in_format d = true.
Proof. intros s m e Hm He Hr. unfold round34. destruct (m =? 0)%N eqn:E0.
  - apply N.eqb_eq in E0. subst m. eexists. split; [reflexivity|]. split; [|split; [reflexivity|]].
    + unfold veq, scaled, sval. cbn [neg coef expo]. destruct s; cbn; reflexivity.
    + apply in_format_intro; [vm_compute; reflexivity | unfold clamp_exp, ETINY, ETOP; lia].
  - apply N.eqb_neq in E0. assert (Hp : (0 < m)%N) by lia. destruct Hr as [Hr|Hr]; [lia|].
    pose proof (ndigits_le m PREC Hp Hm) as Hnd. destruct (ndigits_spec m Hp) as [[Lm Um] Hnd1].
    assert (Ht : target_exp m e = e) by (unfold target_exp; unfold PREC in *; lia).
    rewrite Ht, Z.sub_diag. cbn [Z.to_N]. change (round_half_even m 0) with m.
    destruct (m =? 10 ^ PREC)%N eqn:E1; [apply N.eqb_eq in E1; lia|].
    assert (EMAX <? e + Z.of_N (ndigits m) - 1 = false) as -> by (apply Z.ltb_ge; lia).
    destruct (ETOP <? e) eqn:Et.
    + apply Z.ltb_lt in Et. eexists. split; [reflexivity|]. split; [|split; [reflexivity|]].
      * unfold veq, scaled, sval, emin2. cbn [neg coef expo]. rewrite Z.min_l by lia. rewrite Z.sub_diag, Z.pow_0_r.
        rewrite N2Z.inj_mul, N2Z.inj_pow, Z2N.id by lia. change (Z.of_N 10) with 10. destruct s; lia.
      * apply in_format_intro; [|unfold ETINY, ETOP; lia].
        assert (Hle : (ndigits m + Z.to_N (e - ETOP) <= PREC)%N) by (unfold EMAX, ETOP, PREC in *; lia).
        assert ((10 ^ (ndigits m + Z.to_N (e - ETOP)) <= 10 ^ PREC)%N) by (apply N.pow_le_mono_r; lia).
        rewrite N.pow_add_r in H.
        assert ((0 < 10 ^ Z.to_N (e - ETOP))%N) by (apply N.neq_0_lt_0, N.pow_nonzero; lia). nia.
    + apply Z.ltb_ge in Et. eexists. split; [reflexivity|]. split; [apply veq_refl|]. split; [reflexivity|].
      apply in_format_intro; [exact Hm | lia]. Qed.

Theorem numeral_exact_wide : forall n, (sig_digits n <= 34)%nat -> ETINY <= - text_scale n ->
  (text_num n = 0%N \/ - text_scale n + Z.of_N (ndigits (text_num n)) - 1 <= EMAX) ->
  exists d, read_numeral n = Some d /\ veq d (denoted n) /\ neg d = n_neg n /\ in_format d = true.
Proof. intros n Hs He Hr. rewrite read_numeral_round. apply round34_exact_wide; [exact (sig_digits_bound n 34 Hs) | exact He | exact Hr]. Qed.

(* ---------------------------------------------------------------- any number of digits: correctly rounded *)
(* the exact magnitude the text denotes is text_num / 1 * 10^(- text_scale); the reader's answer is THE correctly rounded decimal128
   value of it (nearest, ties to even, subnormal grid, clamping), and Err (None) exactly when the magnitude reaches the overflow
   threshold (10^34 - 1/2) * 10^6111 *)
Theorem numeral_correctly_rounded : forall n,
  correctly_rounded (Quot (text_num n) 1 (- text_scale n)) (n_neg n) (read_numeral n).
Proof. intros n. rewrite read_numeral_round. apply round34_correctly_rounded. Qed.

(* the same in integers, about the RESULT d (C02/Nearest.v round34_nearest_even_result): d is c units of the quantum 10^e1 fixed by the
   text (34 digits kept, not below the subnormal grid), c * 10^e1 lies within half a quantum of the denoted value, c is even on an
   exact tie, and nothing is rounded when no digit is dropped *)
Theorem numeral_nearest_even : forall n d, (0 < text_num n)%N -> read_numeral n = Some d ->
  let e := - text_scale n in let e1 := target_exp (text_num n) e in let b := Z.min e ETINY in
  neg d = n_neg n /\ ETINY <= expo d <= ETOP /\
  exists c : N,
    Z.of_N (coef d) * 10 ^ (expo d - b) = Z.of_N c * 10 ^ (e1 - b) /\
    2 * Z.abs (Z.of_N c * 10 ^ (e1 - b) - Z.of_N (text_num n) * 10 ^ (e - b)) <= 10 ^ (e1 - b) /\
    (2 * Z.abs (Z.of_N c * 10 ^ (e1 - b) - Z.of_N (text_num n) * 10 ^ (e - b)) = 10 ^ (e1 - b) -> N.even c = true) /\
    (e1 = e -> c = text_num n).
Proof. intros n d Hp H. rewrite read_numeral_round in H. exact (round34_nearest_even_result (n_neg n) (text_num n) (- text_scale n) d Hp H). Qed.

(* ---------------------------------------------------------------- the grammar: every spelled numeral is parsed as what it spells *)
Lemma digit_not_e : forall c, is_digit c = true -> Ascii.eqb c "e" = false.
Proof. intros c; ascii_cases c; cbn; intros H; try reflexivity; discriminate H. Qed.

Lemma split_exp_none : forall s, lacksb "E" s = true -> lacksb "e" s = true -> split_exp s = (s, None).
Proof. induction s as [|a s IH]; intros H1 H2; [reflexivity|].
  cbn [lacksb forallb] in H1, H2. apply andb_true_iff in H1. destruct H1 as [A1 B1]. apply andb_true_iff in H2. destruct H2 as [A2 B2].
  apply negb_true_iff in A1. apply negb_true_iff in A2. cbn [split_exp]. rewrite A1, A2, (IH B1 B2). reflexivity. Qed.

Lemma split_exp_found : forall pre ch post, lacksb "E" pre = true -> lacksb "e" pre = true -> ch = "E" \/ ch = "e" ->
  split_exp (pre ++ ch :: post) = (pre, Some post).
Proof. induction pre as [|a pre IH]; intros ch post H1 H2 Hc.
  - cbn [app split_exp]. destruct Hc as [-> | ->]; reflexivity.
  - cbn [lacksb forallb] in H1, H2. apply andb_true_iff in H1. destruct H1 as [A1 B1]. apply andb_true_iff in H2. destruct H2 as [A2 B2].
    apply negb_true_iff in A1. apply negb_true_iff in A2. cbn [app split_exp]. rewrite A1, A2, (IH ch post B1 B2 Hc). reflexivity. Qed.

Lemma take_sign_signed : forall sign c t, sign_ok sign -> Ascii.eqb c "-" = false -> Ascii.eqb c "+" = false ->
  take_sign (sign ++ c :: t) = (is_minus sign, c :: t).
Proof. intros sign c t [->|[->| ->]] Hm Hp; try reflexivity. cbn [app take_sign is_minus].
  ascii_cases c; try discriminate Hm; try discriminate Hp; reflexivity. Qed.

Lemma exp_value_spelled : forall p, exp_ok (Some p) -> exp_value (x_sign p ++ x_digits p) = Some (exp_val (Some p)).
Proof. intros p (_ & Hs & Hd & Hn). unfold exp_value, exp_val.
  destruct (x_digits p) as [|c ds] eqn:E; [contradiction|].
  assert (Hc : is_digit c = true) by (cbn in Hd; apply andb_true_iff in Hd; tauto).
  rewrite (take_sign_signed (x_sign p) c ds Hs (digit_not_minus c Hc) (digit_not_plus c Hc)). rewrite Hd. reflexivity. Qed.

Theorem parse_spelled : forall sign ip dot fp x,
  sign_ok sign -> all_digits ip = true -> all_digits fp = true -> (ip <> [] \/ fp <> []) -> (dot = false -> fp = []) -> exp_ok x ->
  parse_numeral (spelled sign ip dot fp x) = Some (mknum (is_minus sign) ip fp (exp_val x)).
Proof. intros sign ip dot fp x Hs Hi Hf Hne Hdot Hx. unfold spelled, parse_numeral.
  set (m := ip ++ (if dot then "." :: fp else [])).
  assert (Hm : exists c t, m = c :: t /\ Ascii.eqb c "-" = false /\ Ascii.eqb c "+" = false).
  { unfold m. destruct ip as [|c ip'].
    - destruct dot; [|destruct Hne as [H|H]; [contradiction | rewrite (Hdot eq_refl) in H; contradiction]].
      exists ".", fp. repeat split.
    - exists c, (ip' ++ (if dot then "." :: fp else [])). cbn in Hi. apply andb_true_iff in Hi. destruct Hi as [Hc _].
      split; [reflexivity|]. split; [apply digit_not_minus | apply digit_not_plus]; exact Hc. }
  destruct Hm as (c & t & Em & Hcm & Hcp).
  assert (Et : sign ++ ip ++ (if dot then "." :: fp else []) ++ exp_str x = sign ++ c :: (t ++ exp_str x)).
  { change (c :: t ++ exp_str x) with ((c :: t) ++ exp_str x). rewrite <- Em. unfold m. rewrite <- app_assoc. reflexivity. }
  rewrite Et.
  rewrite (take_sign_signed sign c (t ++ exp_str x) Hs Hcm Hcp).
  change (c :: t ++ exp_str x) with ((c :: t) ++ exp_str x). rewrite <- Em.
  assert (HE : lacksb "E" m = true /\ lacksb "e" m = true).
  { unfold m. rewrite !lacksb_app. rewrite (all_digits_lacks "E" digit_not_E ip Hi), (all_digits_lacks "e" digit_not_e ip Hi).
    destruct dot; [|split; reflexivity]. cbn [lacksb forallb]. fold (lacksb "E" fp). fold (lacksb "e" fp).
    rewrite (all_digits_lacks "E" digit_not_E fp Hf), (all_digits_lacks "e" digit_not_e fp Hf). split; reflexivity. }
  destruct HE as [HE1 HE2].
  assert (Hsp : split_char "." m = (ip, if dot then Some fp else None)).
  { unfold m. destruct dot.
    - apply split_char_found. apply (all_digits_lacks "." digit_not_dot ip Hi).
    - rewrite app_nil_r. apply split_char_none. apply (all_digits_lacks "." digit_not_dot ip Hi). }
  assert (Hok : numeral_ok (mknum (is_minus sign) ip fp 0) = true).
  { unfold numeral_ok. cbn [n_int n_frac]. rewrite Hi, Hf. destruct ip, fp; try reflexivity. destruct Hne; contradiction. }
  destruct x as [p|]; cbn [exp_str].
  - destruct Hx as (Hc & Hx'). rewrite (split_exp_found m (x_char p) (x_sign p ++ x_digits p) HE1 HE2 Hc). rewrite Hsp.
    assert (Hfp : (match (if dot then Some fp else None) with Some f => f | None => [] end) = fp)
      by (destruct dot; [reflexivity | symmetry; apply Hdot; reflexivity]).
    rewrite Hfp, Hok. rewrite (exp_value_spelled p (conj Hc Hx')). reflexivity.
  - rewrite app_nil_r. rewrite (split_exp_none m HE1 HE2). rewrite Hsp.
    assert (Hfp : (match (if dot then Some fp else None) with Some f => f | None => [] end) = fp)
      by (destruct dot; [reflexivity | symmetry; apply Hdot; reflexivity]).
    rewrite Hfp, Hok. reflexivity. Qed.

(* the text build_numeric makes of the token Numeric(before, after) — `12` becomes "12." — is read as the numeral before.after *)
Corollary parse_literal : forall b a, all_digits b = true -> all_digits a = true -> b <> [] ->
  parse_numeral (literal_text b a) = Some (literal_numeral b a).
Proof. intros b a Hb Ha Hn.
  pose proof (parse_spelled [] b true a None (or_introl eq_refl) Hb Ha (or_introl Hn) (fun H => match Bool.diff_true_false H with end) I) as H.
  unfold spelled in H. cbn [app exp_str] in H. rewrite app_nil_r in H. exact H. Qed.

Corollary literal_value_read : forall b a, all_digits b = true -> all_digits a = true -> b <> [] ->
  literal_value b a = read_numeral (literal_numeral b a).
Proof. intros b a Hb Ha Hn. unfold literal_value, from_text. rewrite (parse_literal b a Hb Ha Hn). reflexivity. Qed.

(* ---------------------------------------------------------------- the property's sentence for FEEL literals *)
(* `before.after` with at most 34 significant digits (leading zeros do not count) and at most 6176 fraction digits: the evaluator's
   number is the datum (all digits, minus the number of fraction digits): EXACTLY the value written, nothing rounded *)
Theorem literal_exact_upto_34 : forall b a, all_digits b = true -> all_digits a = true -> b <> [] ->
  (sig_digits (literal_numeral b a) <= 34)%nat -> len a <= 6176 ->
  literal_value b a = Some (denoted (literal_numeral b a)) /\ in_format (denoted (literal_numeral b a)) = true.
Proof. intros b a Hb Ha Hn Hs Hl. rewrite (literal_value_read b a Hb Ha Hn). apply numeral_exact_upto_34; [exact Hs|].
  unfold text_scale, literal_numeral, ETINY, ETOP. cbn [n_frac n_exp]. unfold len in *. lia. Qed.

(* any number of digits *)
Theorem literal_rounded_beyond_34 : forall b a, all_digits b = true -> all_digits a = true -> b <> [] ->
  correctly_rounded (Quot (text_num (literal_numeral b a)) 1 (- text_scale (literal_numeral b a))) false (literal_value b a).
Proof. intros b a Hb Ha Hn. rewrite (literal_value_read b a Hb Ha Hn). apply (numeral_correctly_rounded (literal_numeral b a)). Qed.

(* ---------------------------------------------------------------- ... for typed input data (and from_str in general) *)
Theorem text_exact_upto_34 : forall s n, parse_numeral s = Some n -> (sig_digits n <= 34)%nat -> ETINY <= - text_scale n <= ETOP ->
  from_text s = Some (denoted n) /\ in_format (denoted n) = true.
Proof. intros s n Hp Hs He. unfold from_text. rewrite Hp. apply numeral_exact_upto_34; assumption. Qed.

Theorem text_rounded_beyond_34 : forall s n, parse_numeral s = Some n ->
  correctly_rounded (Quot (text_num n) 1 (- text_scale n)) (n_neg n) (from_text s).
Proof. intros s n Hp. unfold from_text. rewrite Hp. apply numeral_correctly_rounded. Qed.

Theorem text_exact_wide : forall s n, parse_numeral s = Some n -> (sig_digits n <= 34)%nat -> ETINY <= - text_scale n ->
  (text_num n = 0%N \/ - text_scale n + Z.of_N (ndigits (text_num n)) - 1 <= EMAX) ->
  exists d, from_text s = Some d /\ veq d (denoted n) /\ neg d = n_neg n /\ in_format d = true.
Proof. intros s n Hp Hs He Hr. unfold from_text. rewrite Hp. apply numeral_exact_wide; assumption. Qed.

(* from_plain (C07/Reader.v, the reader of the read-back theorems) is this reader on the texts Display produces *)
Lemma strip_take_sign : forall s, is_plain s = true -> take_sign s = strip_sign s.
Proof. intros s H. destruct s as [|c t]; [reflexivity|]. unfold is_plain, strip_sign in H. cbn [take_sign strip_sign].
  ascii_cases c; try reflexivity. cbn [snd] in H. unfold unsigned_plain in H. cbn [split_char] in H.
  change (Ascii.eqb "+" ".") with false in H. cbv iota in H. destruct (split_char "." t) as [x [y|]]; cbn in H; discriminate H. Qed.

Lemma split_char_inv : forall c s a o, split_char c s = (a, o) ->
  s = a ++ match o with Some b => c :: b | None => [] end.
Proof. intros c. induction s as [|x s IH]; intros a o H; cbn [split_char] in H.
  - injection H as <- <-. reflexivity.
  - destruct (Ascii.eqb_spec x c) as [->|NE].
    + injection H as <- <-. reflexivity.
    + destruct (split_char c s) as [a' o'] eqn:E. injection H as <- <-. cbn [app]. f_equal. apply IH. reflexivity. Qed.

Lemma strip_sign_inv : forall s sg u, strip_sign s = (sg, u) -> s = (if sg then ["-"] else [] : str) ++ u.
Proof. intros s sg u H. destruct s as [|c t]; [injection H as <- <-; reflexivity|]. unfold strip_sign in H.
  ascii_cases c; injection H as <- <-; reflexivity. Qed.

Definition sgn (b : bool) : str := if b then ["-"] else [].
Definition tailp (fo : option str) : str := match fo with Some fp => "." :: fp | None => [] end.

(* the shape of a plain text: sign, integer digits, optional point and fraction digits *)
Lemma is_plain_shape : forall s, is_plain s = true ->
  exists sg ip (fo : option str), s = (sgn sg) ++ ip ++ (tailp fo) /\
    strip_sign s = (sg, ip ++ (tailp fo)) /\
    split_char "." (ip ++ (tailp fo)) = (ip, fo) /\
    ip <> [] /\ all_digits ip = true /\ match fo with Some fp => fp <> [] /\ all_digits fp = true | None => True end.
Proof. intros s H. unfold is_plain in H. destruct (strip_sign s) as [sg u] eqn:Ess. cbn [snd] in H. unfold unsigned_plain in H.
  destruct (split_char "." u) as [ip fo] eqn:Esp. pose proof (split_char_inv "." u ip fo Esp) as Eu.
  exists sg, ip, fo. change (u = ip ++ tailp fo) in Eu. rewrite <- Eu. split; [apply strip_sign_inv; exact Ess|]. split; [reflexivity|]. split; [exact Esp|].
  destruct fo as [fp|].
  - apply andb_true_iff in H. destruct H as [H H4]. apply andb_true_iff in H. destruct H as [H H3]. apply andb_true_iff in H. destruct H as [H1 H2].
    split; [intros ->; discriminate H1|]. split; [exact H2|]. split; [intros ->; discriminate H3 | exact H4].
  - apply andb_true_iff in H. destruct H as [H1 H2]. split; [intros ->; discriminate H1|]. split; [exact H2 | exact I]. Qed.

(* the reader of the read-back theorems (from_plain) is the text reader restricted to the texts Display produces *)
Theorem from_plain_is_from_text : forall s, is_plain s = true -> from_plain s = from_text s.
Proof. intros s H. destruct (is_plain_shape s H) as (sg & ip & fo & Es & Ess & Esp & Hn & Hi & Hf).
  unfold from_plain. rewrite H, Ess, Esp. unfold from_text.
  assert (P : parse_numeral s = Some (mknum sg ip (match fo with Some fp => fp | None => [] end) 0)).
  { rewrite Es. destruct fo as [fp|]; destruct Hf as [? ?] || idtac.
    - pose proof (parse_spelled (sgn sg) ip true fp None) as P. unfold spelled in P. cbn [exp_str exp_val] in P.
      rewrite app_nil_r in P. replace sg with (is_minus (sgn sg)) at 2 by (destruct sg; reflexivity).
      apply P; [destruct sg; unfold sign_ok; auto | exact Hi | tauto | left; exact Hn | discriminate | exact I].
    - pose proof (parse_spelled (sgn sg) ip false [] None) as P. unfold spelled in P. cbn [exp_str exp_val] in P.
      replace sg with (is_minus (sgn sg)) at 2 by (destruct sg; reflexivity).
      apply P; [destruct sg; unfold sign_ok; auto | exact Hi | reflexivity | left; exact Hn | reflexivity | exact I]. }
  rewrite P. unfold read_numeral. cbn [n_neg n_int n_frac n_exp]. destruct fo as [fp|].
  - f_equal.
  - rewrite app_nil_r. reflexivity. Qed.

(* ---------------------------------------------------------------- JSON *)
Theorem is_json_grammar : forall s, is_json s = true -> json_number s.
Proof. intros s H. unfold is_json in H. apply andb_true_iff in H. destruct H as [Hp Hz].
  destruct (is_plain_shape s Hp) as (sg & ip & fo & Es & Ess & _ & Hn & Hi & Hf). rewrite Ess in Hz. cbn [snd] in Hz.
  rewrite Es. replace ((tailp fo)) with ((tailp fo) ++ [])
    by apply app_nil_r.
  apply jn.
  - destruct sg; auto.
  - destruct ip as [|c ds]; [contradiction|]. cbn in Hi. apply andb_true_iff in Hi. destruct Hi as [Hc Hds]. fold (all_digits ds) in Hds.
    destruct (Ascii.eqb_spec c "0") as [->|NE].
    + destruct ds as [|d ds']; [apply ji_zero|]. exfalso. cbn in Hds. apply andb_true_iff in Hds. destruct Hds as [Hd _].
      cbn [app no_leading_zero] in Hz. rewrite Hd in Hz. discriminate Hz.
    + apply ji_pos; assumption.
  - destruct fo as [fp|]; [destruct Hf as [F1 F2]; apply jf_some; assumption | apply jf_none].
  - apply je_none. Qed.

(* the JSON rendering (jsonify = the same scientific_to_plain (dec_to_string d) as Display) of EVERY number is a JSON number by the
   grammar of RFC 8259 and denotes exactly the number's value *)
Theorem json_number_valid : forall d, exists s p,
  print d = Some s /\ json_number s /\ denotes s = Some p /\ neg p = neg d /\ veq p d.
Proof. intros d. destruct (plain_exact d) as (s & p & P & _ & J & D & S & V). exists s, p.
  split; [exact P|]. split; [apply is_json_grammar; exact J|]. auto. Qed.

(* the grammar is not trivially true: a recogniser that every JSON number passes, and texts it rejects *)
Lemma drop_digits_app : forall ds r, all_digits ds = true -> (forall c t, r = c :: t -> is_digit c = false) -> drop_digits (ds ++ r) = r.
Proof. induction ds as [|d ds IH]; intros r Hd Hr; cbn [app].
  - destruct r as [|c t]; [reflexivity|]. cbn [drop_digits]. rewrite (Hr c t eq_refl). reflexivity.
  - cbn in Hd. apply andb_true_iff in Hd. destruct Hd as [H1 H2]. cbn [drop_digits]. rewrite H1. apply IH; assumption. Qed.

Lemma json_exp_checked : forall x, json_exp x -> json_exp_check x = true /\ (forall c t, x = c :: t -> is_digit c = false /\ c <> ".").
Proof. intros x [|e sg ds He Hs Hn Hd]; [split; [reflexivity | discriminate]|]. split.
  - destruct ds as [|d ds']; [contradiction|]. assert (Hdd : is_digit d = true) by (cbn in Hd; apply andb_true_iff in Hd; tauto).
    unfold json_exp_check. replace (Ascii.eqb e "e" || Ascii.eqb e "E") with true by (destruct He as [-> | ->]; reflexivity). cbn [andb].
    destruct Hs as [->|[->| ->]]; cbn [app]; try (fold (all_digits (d :: ds')); rewrite Hd; reflexivity).
    ascii_cases d; try discriminate Hdd; cbn [is_nil negb andb]; exact Hd.
  - intros c t E. injection E as <- _. destruct He as [-> | ->]; split; (reflexivity || discriminate). Qed.

Lemma json_frac_checked : forall f x, json_frac f -> json_exp x ->
  json_frac_check (f ++ x) = true /\ (forall c t, f ++ x = c :: t -> is_digit c = false).
Proof. intros f x Hf Hx. destruct (json_exp_checked x Hx) as [Cx Hd]. destruct Hf as [|ds Hn Ha].
  - cbn [app]. split; [|intros c t E; apply (Hd c t E)]. destruct x as [|c t]; [reflexivity|]. destruct (Hd c t eq_refl) as [_ Hdot].
    unfold json_frac_check. ascii_cases c; try exact Cx. contradiction.
  - split; [|intros c t E; injection E as <- _; reflexivity]. destruct ds as [|d ds']; [contradiction|].
    cbn in Ha. apply andb_true_iff in Ha. destruct Ha as [H1 H2]. cbn [app json_frac_check]. rewrite H1. cbn [andb].
    rewrite (drop_digits_app ds' x H2); [exact Cx|]. intros c t E. apply (Hd c t E). Qed.

Theorem json_number_checked : forall s, json_number s -> json_check s = true.
Proof. intros s [m i f x Hm Hi Hf Hx]. destruct (json_frac_checked f x Hf Hx) as [Cf Hd].
  assert (U : json_check (i ++ f ++ x) = true /\ exists c t, i ++ f ++ x = c :: t /\ is_digit c = true).
  { destruct Hi as [|c ds Hc Hnz Hds].
    - split; [exact Cf | exists "0", (f ++ x); split; reflexivity].
    - split; [|exists c, (ds ++ f ++ x); split; [reflexivity | exact Hc]].
      cbn [app]. unfold json_check. assert (Hm' : Ascii.eqb c "-" = false) by (apply digit_not_minus; exact Hc).
      ascii_cases c; try discriminate Hc; try discriminate Hm'; try contradiction;
        cbn [is_digit andb]; rewrite (drop_digits_app ds (f ++ x) Hds Hd); exact Cf. }
  destruct U as [U (c & t & E & Hc)]. destruct Hm as [-> | ->]; [exact U|].
  cbn [app]. unfold json_check in *. rewrite E in *. ascii_cases c; try discriminate Hc; exact U. Qed.

Theorem json_number_rejects :
  ~ json_number (rd "0000") /\ ~ json_number (rd "0.000000-15") /\ ~ json_number (rd ".5") /\ ~ json_number (rd "5.") /\
  ~ json_number (rd "-") /\ ~ json_number (rd "+1") /\ ~ json_number (rd "1e") /\ ~ json_number (rd "01") /\
  json_number (rd "-0.00000015") /\ json_number (rd "0") /\ json_number (rd "1E+3").
Proof.
  assert (R : forall s, json_check s = false -> ~ json_number s) by (intros s H J; rewrite (json_number_checked s J) in H; discriminate H).
  repeat (split; [apply R; vm_compute; reflexivity|]). split; [|split].
  - apply (jn ["-"] ["0"] (rd ".00000015") []); [auto | apply ji_zero | apply jf_some; [discriminate | reflexivity] | apply je_none].
  - apply (jn [] ["0"] [] []); [auto | apply ji_zero | apply jf_none | apply je_none].
  - apply (jn [] ["1"] [] (rd "E+3")); [auto | apply ji_pos; [reflexivity | discriminate | reflexivity] | apply jf_none |].
    apply (je_some "E" ["+"] ["3"]); [auto | auto | discriminate | reflexivity].
Qed.
