"""C19 — a decision table drawn as text is recognised exactly as drawn.
Proof: coq/Props/C19.v (plane level: recognize_plane (layout t o) = t for every table and option set; pivot involutive).
Correspondence: tables are DRAWN as Unicode box text (props/c19draw.py), recognised by dmntk_recognizer::build, every field compared
with the drawing, the plane compared with the model's layout, the evaluation compared with the equivalent DMN XML; single-character
corruptions and arbitrary text must be recognised or rejected, never panic."""
import json

from vlib import core, coqterm
from props import c03, c19draw

HEADER = ('From Coq Require Import List NArith Bool.\nFrom DV Require Import C19.Model C19.Proofs.\nImport ListNotations.\nOpen Scope N_scope.\n')

MARKER = {'UNIQUE': 'U', 'ANY': 'A', 'PRIORITY': 'P', 'FIRST': 'F', 'RULE ORDER': 'R', 'OUTPUT ORDER': 'O', 'COLLECT': 'C',
          'C#': 'C#', 'C+': 'C+', 'C<': 'C<', 'C>': 'C>'}
AGG = {'C': 'LIST', 'C#': 'COUNT', 'C+': 'SUM', 'C<': 'MIN', 'C>': 'MAX'}
ANN_NAMES = ['Description', 'Reference', 'Note']
BOX = '┌┐└┘├┤┬┴┼─│═║╞╡╥╨╪╫╬╟╢╤╧'
NOISE = BOX + ' \n"<>=-,.019UACxé░╔╗╚╝╠╣╦╩'


def gen_case(rng):
    """a semantic table in the C03 fragment that can be drawn (no defaults, allowed values for all clauses or for none, >= 1 rule)"""
    t = c03.gen_table(rng, odd=False, max_in=5)
    if not t['rules']:
        t['rules'].append({'in': [c03.gen_utest(rng, ic['kind'], False) for ic in t['inputs']], 'out': [rng.choice(oc['pool']) for oc in t['outputs']]})
    values = rng.random() < 0.45
    for ic in t['inputs']:
        if values and ic['values'] is None:
            k = ic['kind']
            ic['values'] = ([('lit', ('b', True)), ('lit', ('b', False))] if k == 'b' else
                            [('rng', ('n', 0), True, ('n', 9), True, 0), ('cmp', 'lt', ('n', 0)), ('cmp', 'gt', ('n', 9))] if k == 'n' else
                            [('lit', ('s', i)) for i in range(len(c03.STRS))])
        if not values:
            ic['values'] = None
    for oc in t['outputs']:
        oc['default'] = None
        if values and oc['values'] is None:
            oc['values'] = list(dict.fromkeys(oc['pool']))
        if not values:
            oc['values'] = None
    multi = len(t['outputs']) > 1
    if not multi:
        t['outputs'][0]['name'] = None
    n_ann = rng.choice([0, 0, 1, 2])
    opts = {
        'orientation': rng.choice(['row', 'column']),
        'info': rng.choice([None, None, 'Order options', 'dec', 'Sell\noptions']),
        'label': (rng.choice([None, 'Order options', 'Result']) if multi else rng.choice(['', 'Result', 'dec'])),
        'annotations': ANN_NAMES[:n_ann],
        'values': values,
        'split_values_cells': rng.random() < 0.5,
    }
    return t, opts


def multiline(rng, text):
    if ', ' in text and rng.random() < 0.4:
        return text.replace(', ', ',\n')
    return text


def make_spec(rng, t, opts):
    spec = dict(opts)
    spec['hp'] = MARKER[t['hp']]
    spec['inputs'] = [(c03.INPUT_NAMES[i], multiline(rng, ', '.join(c03.feel_item(x) for x in ic['values'])) if ic['values'] is not None else None)
                      for i, ic in enumerate(t['inputs'])]
    # a component name of several words is also drawn wrapped over two lines or with a run of blanks: the name it denotes stays the normal form
    # (seeded change C19_d: the evaluator's result keys kept the inner line break / blanks of the drawn cell)
    def drawn_name(nm):
        if ' ' in nm and rng.random() < 0.6:
            return nm.replace(' ', rng.choice(['\n', '   ', ' \n ']))
        return nm
    spec['outputs'] = [(drawn_name(c03.NAMES[oc['name']]) if oc['name'] is not None else None,
                        multiline(rng, ', '.join(c03.feel_atom(a) for a in oc['values'])) if oc['values'] is not None else None) for oc in t['outputs']]
    rules = []
    for r, rule in enumerate(t['rules']):
        rules.append(([multiline(rng, c03.feel_utest(u)) for u in rule['in']], [c03.feel_atom(a) for a in rule['out']],
                      ['%s %d' % (a[:3], r) for a in opts['annotations']]))
    spec['rules'] = rules
    # merge equal adjacent input entries
    merge = []
    for i in range(len(t['inputs'])):
        r = 0
        while r < len(rules):
            b = r
            while b + 1 < len(rules) and rules[b + 1][0][i] == rules[r][0][i] and rng.random() < 0.5:
                b += 1
            if b > r:
                merge.append((i, r, b))
            r = b + 1
    spec['merge'] = merge
    return spec


def corrupt(rng, text):
    """one single-character corruption: replacement (mostly by another box character when a box character is hit), deletion or insertion"""
    pos = [i for i, ch in enumerate(text) if ch != '\n']
    k = rng.random()
    if k < 0.45:
        boxpos = [i for i in pos if text[i] in BOX]
        i = rng.choice(boxpos or pos)
        c = rng.choice(BOX)
        while c == text[i]:
            c = rng.choice(BOX + ' ')
        return text[:i] + c + text[i + 1:], i, c
    i = rng.choice(pos)
    if k < 0.7:
        c = rng.choice(NOISE)
        while c == text[i]:
            c = rng.choice(NOISE)
        return text[:i] + c + text[i + 1:], i, c
    if k < 0.85:
        return text[:i] + text[i + 1:], i, 'deleted'
    c = rng.choice(NOISE)
    return text[:i] + c + text[i:], i, 'inserted ' + c


def mangle(rng, text):
    """arbitrary text derived from a drawing: several corruptions, dropped / duplicated / swapped / truncated lines"""
    lines = text.split('\n')
    for _ in range(rng.randint(1, 3)):
        k = rng.random()
        if k < 0.3 and len(lines) > 1:
            lines.pop(rng.randrange(len(lines)))
        elif k < 0.45:
            i = rng.randrange(len(lines))
            lines.insert(i, lines[i])
        elif k < 0.6 and len(lines) > 1:
            i, j = rng.randrange(len(lines)), rng.randrange(len(lines))
            lines[i], lines[j] = lines[j], lines[i]
        elif k < 0.75:
            i = rng.randrange(len(lines))
            lines[i] = lines[i][:rng.randint(0, len(lines[i]))]
        else:
            t2, _, _ = corrupt(rng, '\n'.join(lines)) if any(l for l in lines) else ('', 0, '')
            lines = t2.split('\n')
    return '\n'.join(lines)


def random_text(rng):
    k = rng.random()
    if k < 0.3:
        return ''.join(rng.choice(NOISE) for _ in range(rng.randint(0, 120)))
    # box-like garbage: lines of box characters of equal or ragged width starting with the corner
    w, h = rng.randint(1, 14), rng.randint(1, 8)
    lines = []
    for y in range(h):
        n = w if rng.random() < 0.8 else rng.randint(1, w + 3)
        lines.append(''.join(rng.choice(BOX + '  ') for _ in range(n)))
    lines[0] = '┌' + lines[0][1:]
    if rng.random() < 0.7:
        lines[-1] = lines[-1][:-1] + '┘'
    if rng.random() < 0.6:
        y, x = rng.randrange(h), rng.randrange(max(1, len(lines[0])))
        lines[y] = lines[y][:x] + '╬' + lines[y][x + 1:]
        if rng.random() < 0.7:
            lines[0] = lines[0][:x] + '╥' + lines[0][x + 1:]
    return '\n'.join(lines)



# ------------------------------------------------------------------ the plane-level model (coq/C19/Model.v) on the same drawings
def coq_table19(exp, opts):
    """Coq `table` for a drawing; texts are coded by first occurrence.  Returns (term, code dict)."""
    codes = {}

    def code(s):
        if s not in codes:
            codes[s] = len(codes) + 100          # below the number texts (90000 + k) and not the marker text 77
        return codes[s]
    multi = len(exp['outputs']) > 1
    ins = '[' + '; '.join('(%d, %d)' % (code(e), code(v) if v is not None else 0) for e, v in exp['inputs']) + ']'
    outs = '[' + '; '.join('(%d, %d)' % (code(nm) if nm is not None else 0, code(v) if v is not None else 0) for nm, v, _ in exp['outputs']) + ']'
    label = 'None' if exp['output_label'] is None else '(Some %d)' % code(exp['output_label'])
    anns = '[' + '; '.join(str(code(a)) for a in exp['annotations']) + ']'
    rules = '[' + '; '.join('(Build_rule [%s] [%s] [%s])' % ('; '.join(str(code(x)) for x in r[0]), '; '.join(str(code(x)) for x in r[1]), '; '.join(str(code(x)) for x in r[2]))
                            for r in exp['rules']) + ']'
    term = '(Build_table %s %s %s %s %s %s)' % (ins, outs, label, 'true' if opts['values'] else 'false', anns, rules)
    return term, codes


def parse_dump(dump):
    """Plane Display dump -> rows of tokens: ('R', number) | 'VOut' | 'VAnn' | 'HOut' | 'HAnn' | 'Main' | 'HCross' | 'VCross'"""
    single = {'║': 'VOut', '│': 'VAnn', '╬': 'Main', '╪': 'HCross', '╫': 'VCross'}
    rows = []
    for line in dump.split('\n'):
        if not line:
            continue
        i, row = 0, []
        while i < len(line):
            ch = line[i]
            if ch == ' ':
                row.append(('R', int(line[i:i + 5].strip(), 16)))
                i += 5
            elif ch == '═':
                row.append('HOut')
                i += 5
            elif ch == '─':
                row.append('HAnn')
                i += 5
            else:
                row.append(single.get(ch, '?' + ch))
                i += 1
        rows.append(row)
    return rows


def canon_plane(rows, header_rows):
    """regions of the header lines numbered by first occurrence, other regions as 'R' (also the annotation name cells below the
    first line: a drawing may or may not split them at the allowed-values line, recognition reads the first line only)"""
    seen, out = {}, []
    for y, row in enumerate(rows):
        r = []
        for c in row:
            if isinstance(c, tuple):
                if y < header_rows and not (y > 0 and 'VAnn' in r):
                    r.append(seen.setdefault(c[1], len(seen)))
                else:
                    r.append('R')
            else:
                r.append(c)
        out.append(r)
    return out


def model_plane(term_rows):
    rows = []
    for row in term_rows:
        r = []
        for c in row:
            if c.name == 'Region':
                r.append(('R', tuple(c.args[0])))
            else:
                r.append(c.name)
        rows.append(r)
    return rows


def model_fields(f, decode):
    d = lambda x: decode.get(x, '?%s' % x)
    n_in = len(f['f_inputs'])
    vals = f['f_input_values']
    ovals = f['f_output_values']
    comps = f['f_components']
    n_out = len(f['f_output_entries'][0]) if f['f_output_entries'] else 0
    label = f['f_label']
    label = None if (hasattr(label, 'name') and label.name == 'None') else d(label.args[0])
    return {
        'output_label': label,
        'inputs': [[d(f['f_inputs'][i]), d(vals[i]) if vals else None] for i in range(n_in)],
        'outputs': [[d(comps[k]) if comps else None, d(ovals[k]) if ovals else None, None] for k in range(n_out)],
        'annotations': [d(a) for a in f['f_annotations']],
        'rules': [[[d(x) for x in f['f_input_entries'][r]], [d(x) for x in f['f_output_entries'][r]],
                   [d(x) for x in f['f_annotation_entries'][r]] if f['f_annotation_entries'] else []] for r in range(len(f['f_input_entries']))],
    }


def expected_fields(t, exp):
    e = dict(exp)
    e['aggregation'] = AGG.get(exp['hit_policy'])
    return e


# ------------------------------------------------------------------ characters -> plane: coq/C19/Canvas.v against canvas.rs (section owner: ext-canvas)
CANVAS_HEADER = 'From Coq Require Import List NArith Bool.\nFrom DV Require Import C19.Model C19.Canvas.\nImport ListNotations.\n'
CANVAS_CELLS = {'VOut': 'CVOut', 'VAnn': 'CVAnn', 'HOut': 'CHOut', 'HAnn': 'CHAnn', 'Main': 'CMain', 'HCross': 'CHCross', 'VCross': 'CVCross'}


def coq_points(s):
    return '([%s]%%N)' % '; '.join(str(ord(c)) for c in s)


def coq_outcome(r):
    """the answer of `dv canvas` as a term of type Canvas.outcome"""
    if 'panic' in r or 'crash' in r:
        return 'Panic'
    if 'err' in r:
        return 'Err'
    rows = []
    for row in r['plane']:
        cells = []
        for c in row:
            if isinstance(c, list):
                cells.append('CRegion %d (%d, %d, %d, %d) %s' % (c[1], c[2][0], c[2][1], c[2][2], c[2][3], coq_points(c[3])))
            else:
                cells.append(CANVAS_CELLS[c])
        rows.append('[' + '; '.join(cells) + ']')
    name = 'None' if r.get('name') is None else '(Some %s)' % coq_points(r['name'])
    return '(Ok (%s, [%s]))' % (name, '; '.join(rows))


def canvas_outcome_text(m):
    """model outcome (parsed term) -> the shape of a `dv canvas` answer"""
    if not hasattr(m, 'name') or m.name != 'Ok':
        return {'err' if getattr(m, 'name', '') == 'Err' else 'panic': True}
    name, plane = m.args[0]
    txt = lambda l: ''.join(chr(x) for x in l)
    inv = {v: k for k, v in CANVAS_CELLS.items()}
    return {'name': None if (hasattr(name, 'name') and name.name == 'None') else txt(name.args[0]),
            'plane': [[['R', c.args[0], list(c.args[1]), txt(c.args[2])] if c.name == 'CRegion' else inv[c.name] for c in row] for row in plane]}


def regular_drawings(ctx, n):
    """coq/C19/CanvasDraw.v against the code: for random regular tables (any widths from 0, random plain texts) the text `draw d` made by the
    Gallina drawing function is scanned by canvas.rs into exactly `expected_plane d` (the plane the theorems are about)."""
    rng = ctx.rng
    alphabet = 'abcXYZ019 -<>=",.()'
    terms = []
    for _ in range(n):
        ni, no, na, nr = rng.randint(1, 4), rng.randint(1, 3), rng.choice([0, 0, 1, 2]), rng.randint(1, 5)
        ws = [rng.randint(0, 6) for _ in range(1 + ni + no + na)]
        cell = lambda j: coq_points(''.join(rng.choice(alphabet) for _ in range(ws[j])))
        lst = lambda a, b: '[' + '; '.join(cell(j) for j in range(a, b)) + ']'
        rules = '; '.join('(%s, %s, %s, %s)' % (cell(0), lst(1, 1 + ni), lst(1 + ni, 1 + ni + no), lst(1 + ni + no, len(ws))) for _ in range(nr))
        terms.append('let d := table_drawing (Build_stable %s %s %s %s [%s]) in (wf_rdraw d, draw d, expected_plane d)'
                     % (cell(0), lst(1, 1 + ni), lst(1 + ni, 1 + ni + no), lst(1 + ni + no, len(ws)), rules))
    res = ctx.run_model(CANVAS_HEADER.replace('C19.Canvas.', 'C19.Canvas C19.CanvasDraw.'), terms, shard_size=10, tag='cvr')
    texts = [''.join(chr(c) for c in r[1]) for r in res]
    impl = ctx.run_impl('canvas', [{'text': t} for t in texts], shards=4)
    bad = 0
    for term, r, t, im in zip(terms, res, texts, impl):
        ctx.evaluations += 1
        ctx.corr_checked += 1
        want = canvas_outcome_text(coqterm.App('Ok', [(coqterm.App('None', []), r[2])]))
        if r[0] is not True or im.get('plane') != want['plane'] or im.get('name') is not None:
            bad += 1
            ctx.corr_broken('canvas.rs vs coq/C19/CanvasDraw.v (draw / expected_plane)', {'text': t}, im if 'plane' not in im else im['plane'][:2], want['plane'][:2])
    return bad


def canvas_correspondence(ctx, drawings, noise):
    """For every text: canvas_cplane text (Coq, vm_compute) = the outcome of scan + Canvas::plane (dv canvas): information item name,
    every cell of the plane with region number, rectangle and text; Err on both sides for rejected text; never Panic."""
    texts = [(t, 'drawing') for t in drawings] + [(t, 'noise') for t in noise]
    impl = ctx.run_impl('canvas', [{'text': t} for t, _ in texts], shards=16)
    same = ctx.run_model(CANVAS_HEADER, ['outcome_eqb (canvas_cplane %s) %s' % (coq_points(t), coq_outcome(r)) for (t, _), r in zip(texts, impl)],
                         shard_size=ctx.pick(40, 400), tag='cv')
    stats = {'drawing:ok': 0, 'noise:ok': 0, 'noise:err': 0, 'drawing:err': 0}
    differ = []
    for (t, kind), r, eq in zip(texts, impl, same):
        ctx.evaluations += 1
        ctx.corr_checked += 1
        if 'panic' in r or 'crash' in r:
            ctx.violation('text (%s) makes canvas.rs scan / plane panic: %s' % (kind, json.dumps(r)[:200]), {'text': t, 'meta': {'kind': kind, 'calls': []}}, impl=r)
            continue
        stats[kind + (':ok' if 'plane' in r else ':err')] += 1
        if kind == 'drawing' and 'plane' not in r:
            ctx.violation('scan / Canvas::plane rejects a well-formed drawing: %s' % r.get('err'), {'text': t, 'meta': {'kind': kind, 'calls': []}}, impl=r)
        if eq is not True:
            differ.append((t, kind, r))
    if differ:
        models = ctx.run_model(CANVAS_HEADER, ['canvas_cplane %s' % coq_points(t) for t, _, _ in differ[:5]], tag='cvd')
        for (t, kind, r), m in zip(differ[:5], models):
            mo = canvas_outcome_text(m)
            where = 'outcome'
            if 'plane' in r and 'plane' in mo:
                where = 'information item name' if r.get('name') != mo['name'] else 'plane shape'
                for y, (ra, rb) in enumerate(zip(r['plane'], mo['plane'])):
                    for x, (a, b) in enumerate(zip(ra, rb)):
                        if a != b and where == 'plane shape':
                            where = 'cell row %d column %d: code %s, model %s' % (y, x, json.dumps(a, ensure_ascii=False), json.dumps(b, ensure_ascii=False))
            ctx.corr_broken('canvas.rs vs coq/C19/Canvas.v (%s, %s)' % (kind, where), {'text': t},
                            r if 'plane' not in r else {'name': r.get('name'), 'plane': 'see text'}, mo if 'plane' not in mo else {'name': mo['name']})
    return stats, len(differ)



# ------------------------------------------------------------------ merged drawings: coq/C19/CanvasMerged.v, CanvasHeadersDraw.v, CanvasColumnsDraw.v against the code (section owner: ext-merged)
MERGED_HEADER = ('From Coq Require Import List NArith Bool Arith.\n'
                 'From DV Require Import C19.Model C19.Canvas C19.CanvasDraw C19.CanvasSweep C19.CanvasMerged C19.CanvasHeadersDraw C19.CanvasColumnsDraw C19.CanvasBoxDraw C19.CanvasHeadersSweep.\n'
                 'Import ListNotations.\n')


def mdraw_term(g, cv):
    """a c19draw Grid (after layout / render) as a term of type CanvasMerged.mdraw"""
    reg = [[None] * g.ncols for _ in range(g.nrows)]
    txt = [['[]'] * g.ncols for _ in range(g.nrows)]
    for (r0, c0, r1, c1, lines, align) in g.rects:
        for r in range(r0, r1):
            for c in range(c0, c1):
                reg[r][c] = '(%d, %d, %d, %d)' % (r0, c0, r1, c1)
        x0, x1 = g.X[c0] + 1, g.X[c1]
        y0, y1 = g.Y[r0] + 1, g.Y[r1]
        txt[r0][c0] = '[' + '; '.join(coq_points(''.join(cv[y][x0:x1])) for y in range(y0, y1)) + ']'
    dv = [j for j in range(g.ncols + 1) if g.vsep[j] == 'd']
    dh = [i for i in range(g.nrows + 1) if g.hsep[i] == 'd']
    opt = lambda l: 'None' if len(l) < 2 else '(Some %d)' % l[1]
    return ('(Build_mdraw [%s] [%s] (fun i j => nth j (nth i [%s] []) (0, 0, 0, 0)) (fun i j => nth j (nth i [%s] []) []) %d %s %d %s)'
            % ('; '.join(map(str, g.w)), '; '.join(map(str, g.h)),
               '; '.join('[' + '; '.join(r) + ']' for r in reg), '; '.join('[' + '; '.join(r) + ']' for r in txt),
               dv[0], opt(dv), dh[0], opt(dh)))


def merged_drawings(ctx, n):
    """Drawings of c19draw (both orientations, merged and multi-line cells, all option combinations; half of them with an information
    item name box) as merged drawings of coq/C19/CanvasMerged.v (+ box of coq/C19/CanvasBoxDraw.v): the drawing must be well formed
    (wf_mdraw, wf_ibox), the Gallina `drawm` / `drawb` must reproduce the drawn text character by character, and the name and plane
    canvas.rs builds from the text (dv canvas) must be `mplane` / (`bname`, `bplane`) - numbers, rectangles, texts, double-line cells
    (theorems C19_draw_roundtrip_merged / C19_draw_roundtrip_box: canvas_cplane of the drawn text = that plane for every well-formed drawing)."""
    rng = ctx.rng
    grids = {}
    orig = c19draw.Grid.render

    def render(self):
        cv, exp = orig(self)
        grids['g'], grids['cv'] = self, cv
        return cv, exp
    c19draw.Grid.render = render
    items = []
    try:
        while len(items) < n:
            t, opts = gen_case(rng)
            opts['info'] = rng.choice([None, None, 'Order options', 'dec', 'Sell\noptions', 'x'])
            spec = make_spec(rng, t, opts)
            text, exp = c19draw.draw(spec, rng)
            if text is None:
                continue
            g, cv = grids['g'], grids['cv']
            if opts['info'] is None:
                items.append((mdraw_term(g, cv), None, ''.join(''.join(r) + '\n' for r in cv), text, opts['orientation']))
            else:
                lines = [l[2:] for l in text.split('\n') if l.strip()]
                xr = lines[0].index('┐')
                m = next(k for k in range(1, len(lines)) if lines[k][0] == '├') - 1
                box = '(Build_ibox [%s] %d)' % ('; '.join(coq_points(lines[k][1:xr]) for k in range(1, m + 1)), xr)
                items.append((mdraw_term(g, cv), box, ''.join(l + '\n' for l in lines), text, opts['orientation']))
    finally:
        c19draw.Grid.render = orig
    impl = ctx.run_impl('canvas', [{'text': text} for (_, _, _, text, _) in items], shards=8)
    terms = [('let d := %s in (wf_mdraw d, all2 N.eqb (drawm d) %s, outcome_eqb (Ok (None, mplane d)) %s)' % (tm, coq_points(plain), coq_outcome(r))) if box is None else
             ('let d := %s in let b := %s in (wf_mdraw d && wf_ibox d b, all2 N.eqb (drawb d b) %s, outcome_eqb (Ok (Some (bname b), bplane d b)) %s)' % (tm, box, coq_points(plain), coq_outcome(r)))
             for (tm, box, plain, _, _), r in zip(items, impl)]
    res = ctx.run_model(MERGED_HEADER, terms, shard_size=max(1, n // 16 + 1), tag='mg')
    bad = 0
    for (tm, box, plain, text, o), r, im in zip(items, res, impl):
        ctx.evaluations += 1
        ctx.corr_checked += 1
        ctx.nontrivial.add(('merged', o, box is not None))
        if list(r) != [True, True, True]:
            bad += 1
            what = 'wf_mdraw / wf_ibox fails' if r[0] is not True else 'drawm / drawb differs from the drawn text' if r[1] is not True else 'canvas.rs name / plane differs from mplane / bplane'
            ctx.corr_broken('canvas.rs / c19draw vs coq/C19/CanvasMerged.v, CanvasBoxDraw.v (%s, %s, %s)' % (o, 'with box' if box else 'no box', what), {'text': text}, im if 'plane' not in im else 'plane', list(r))
    return bad


def gen_htable(rng, columns):
    """a random `htable` (coq/C19/CanvasHeadersDraw.v) with its expected recognised fields; drawn as rows (merged input entries) or columns"""
    alpha = 'abcdefgXYZ0123456789<>=,.()"'
    ni, no, na, nr = rng.randint(1, 3), rng.randint(1, 3), rng.choice([0, 0, 1, 2]), rng.randint(1, 3)
    multi = no > 1
    label = multi and rng.random() < 0.6
    values = rng.random() < 0.5
    hdr = 1 + (1 if label else 0) + (1 if values else 0)
    top = hdr - (1 if values else 0)
    nl = ni + no + na
    if columns:
        ws = [rng.randint(2, 6) for _ in range(hdr + nr)]
        hs = [rng.randint(1, 2) for _ in range(nl + 1)]
    else:
        ws = [rng.randint(2, 6) for _ in range(1 + nl)]
        hs = [rng.randint(1, 2) for _ in range(hdr + nr)]
    X = [0]
    for w in ws:
        X.append(X[-1] + w + 1)
    Y = [0]
    for h in hs:
        Y.append(Y[-1] + h + 1)

    def mk(R0, C0, R1, C1, token, junk=True):
        # arguments in the rules-as-rows convention (line, column; column 0 = marker / rule numbers)
        if not columns:
            r0, r1, c0, c1 = R0, R1, C0, C1
        elif C0 == 0:
            r0, r1, c0, c1 = nl, nl + 1, R0, R1
        else:
            r0, r1, c0, c1 = C0 - 1, C1 - 1, R0, R1
        w, h = X[c1] - X[c0] - 1, Y[r1] - Y[r0] - 1
        lines = [' ' * w for _ in range(h)]
        k = rng.randrange(h)
        off = rng.randint(0, w - len(token))
        lines[k] = ' ' * off + token + ' ' * (w - off - len(token))
        if junk and rng.random() < 0.3 and h > 1:
            lines[(k + 1) % h] = ''.join(rng.choice(alpha + '   ') for _ in range(w))
        return lines

    tok = lambda p: p + rng.choice(alpha[:7])
    hp = mk(0, 0, hdr, 1, 'U', False)
    ins = [(mk(0, 1 + i, top, 2 + i, tok('i')), mk(top, 1 + i, hdr, 2 + i, tok('v')) if values else [' ']) for i in range(ni)]
    oc0 = 1 + ni
    lab = mk(0, oc0, 1, oc0 + no, 'LB') if label else None
    nrow = 1 if label else 0
    if multi:
        outs = [(mk(nrow, oc0 + k, nrow + 1, oc0 + k + 1, tok('o')), mk(top, oc0 + k, hdr, oc0 + k + 1, tok('w')) if values else [' ']) for k in range(no)]
    else:
        outs = [(mk(0, oc0, top, oc0 + 1, tok('L')), mk(top, oc0, hdr, oc0 + 1, tok('w')) if values else [' '])]
    ac0 = oc0 + no
    anns = [mk(0, ac0 + k, hdr, ac0 + k + 1, tok('A')) for k in range(na)]
    merges, mblock = [], {}
    if not columns:
        for i in range(ni):
            r = 0
            while r < nr:
                b = r
                while b + 1 < nr and rng.random() < 0.35:
                    b += 1
                if b > r:
                    merges.append((i, r, b))
                    blk_ = mk(hdr + r, 1 + i, hdr + b + 1, 2 + i, tok('m'))
                    for q in range(r, b + 1):
                        mblock[(i, q)] = blk_
                r = b + 1
    rules = []
    for r in range(nr):
        y = hdr + r
        rules.append((mk(y, 0, y + 1, 1, str(r + 1), False), [mblock.get((i, r)) or mk(y, 1 + i, y + 1, 2 + i, tok('e')) for i in range(ni)],
                      [mk(y, oc0 + k, y + 1, oc0 + k + 1, tok('r')) for k in range(no)], [mk(y, ac0 + k, y + 1, ac0 + k + 1, tok('n')) for k in range(na)]))
    blk = lambda lines: '[' + '; '.join(coq_points(l) for l in lines) + ']'
    lst = lambda bs: '[' + '; '.join(blk(b) for b in bs) + ']'
    term = ('(Build_htable [%s] [%s] %s [%s] %s [%s] %s %s [%s] [%s])'
            % ('; '.join(map(str, ws)), '; '.join(map(str, hs)), blk(hp), '; '.join('(%s, %s)' % (blk(a), blk(b)) for a, b in ins),
               '(Some %s)' % blk(lab) if lab is not None else 'None', '; '.join('(%s, %s)' % (blk(a), blk(b)) for a, b in outs),
               lst(anns), 'true' if values else 'false',
               '; '.join('(%s, %s, %s, %s)' % (blk(n), lst(i), lst(o), lst(a)) for n, i, o, a in rules),
               '; '.join('(%d, %d, %d)' % m for m in merges)))
    J = lambda b: '\n'.join(b)
    box, bname = None, None
    if rng.random() < 0.4:
        dbl = {X[hdr]} if columns else ({X[oc0], X[ac0]} if na else {X[oc0]})
        cands = [x for x in range(3, X[-1] + 1) if x not in dbl]
        xr = rng.choice(cands)
        nm = ['N' + ''.join(rng.choice(alpha[:7]) for _ in range(rng.randint(0, xr - 2)))] + ([''] if rng.random() < 0.3 else [])
        nm = [l.ljust(xr - 1) for l in nm]
        box = '(Build_ibox [%s] %d)' % ('; '.join(coq_points(l) for l in nm), xr)
        bname = J(nm)
    exp = {'hit_policy': 'U', 'orientation': 'column' if columns else 'row', 'information_item_name': bname,
           'output_label': J(lab) if multi and lab is not None else (J(outs[0][0]) if not multi else None),
           'inputs': [[J(a), J(b) if values else None] for a, b in ins],
           'outputs': [[J(a) if multi else None, J(b) if values else None, None] for a, b in outs],
           'annotations': [J(a) for a in anns],
           'rules': [[[J(x) for x in i], [J(x) for x in o], [J(x) for x in a]] for n, i, o, a in rules]}
    return term, exp, (hdr, bool(merges), box is not None), box


def header_tables(ctx, n):
    """Random tables of coq/C19/CanvasHeadersDraw.v (`htable`: 1..3 header lines, output label over the output columns, allowed values,
    multi-line cells, merged input entries; 40 % with an information item name box at a random place of the top border) drawn by the
    Gallina functions as rules-as-rows (header_drawing) and rules-as-columns (column_drawing) text (drawm / drawb): the drawing must be well formed (wf_htable / wf_ctable: the hypothesis of C19_text_to_table_headers /
    C19_text_to_table_columns), the Coq chain text -> plane -> table must give the fields of the table, and the REAL recogniser on
    the same text must report exactly the drawn orientation, hit policy and fields."""
    rng = ctx.rng
    cases = [gen_htable(rng, k % 2 == 1) for k in range(n)]
    terms = []
    for term, exp, _, box in cases:
        col = exp['orientation'] == 'column'
        wf, ok, dr = ('wf_ctable', 'ctable_ok', 'column_drawing') if col else ('wf_htable', 'htable_ok', 'header_drawing')
        if box is None:
            terms.append('let s := %s in (%s s, %s s, drawm (%s s))' % (term, wf, ok, dr))
        else:
            terms.append('let s := %s in let b := %s in (%s s && wf_ibox (%s s) b, %s s && btable_ok s (%s s) b %s && bplane_ok (%s s) b, drawb (%s s) b)'
                         % (term, box, wf, dr, ok, dr, 'AsColumn' if col else 'AsRow', dr, dr))
    res = ctx.run_model(MERGED_HEADER, terms, shard_size=max(1, n // 16 + 1), tag='ht')
    texts = [''.join(chr(c) for c in r[2]) for r in res]
    impl = ctx.run_impl('recognize', [{'text': t, 'calls': []} for t in texts], shards=8)
    bad = 0
    for (term, exp, shape, box), r, t, im in zip(cases, res, texts, impl):
        ctx.evaluations += 1
        ctx.corr_checked += 1
        ctx.nontrivial.add(('htable', exp['orientation'], shape))
        if 'panic' in im or 'crash' in im:
            ctx.violation('the recogniser panicked on a well-formed drawing (Gallina header / column drawing): %s' % json.dumps(im)[:200], {'text': t, 'drawn': exp}, impl=im)
            continue
        wrong = [k for k, v in exp.items() if 'ok' not in im or im['ok'].get(k) != v]
        if r[0] is not True or r[1] is not True:
            bad += 1
            ctx.corr_broken('coq/C19/CanvasHeadersDraw.v / CanvasColumnsDraw.v: %s' % ('drawing not well formed' if r[0] is not True else 'model chain text -> table differs from the drawn table'),
                            {'text': t}, None, list(r[:2]))
        elif wrong:
            ctx.violation('a table drawn by the Gallina drawing function (well formed, read back by the model) is %s by the recogniser: %s'
                          % ('rejected' if 'ok' not in im else 'misread in ' + wrong[0], json.dumps(im.get('err') if 'ok' not in im else im['ok'].get(wrong[0]))[:200]),
                          {'text': t, 'drawn': exp}, impl=im.get('ok', im))
    return bad


# ------------------------------------------------------------------ directed probes of the listed finding columns-first-text-is-marker
ALL_MARKERS = ['U', 'A', 'P', 'F', 'R', 'O', 'C', 'C+', 'C<', 'C>', 'C#']


def known_probes(ctx):
    """The class of the known finding, on every run: well-formed rules-as-COLUMNS drawings (c19draw) whose first input expression is a
    hit-policy marker text, and whose first output name / label is a number other than 1.  Exactly the listed outcome - rejected with
    the specific error - is registered under the finding; a panic, a wrong table or another error is a VIOLATION; a correct
    recognition is accepted (and counted: the finding would then be obsolete).  The same tables drawn as ROWS must be recognised."""
    def spec(orientation, first_in, first_out, label):
        return {'orientation': orientation, 'hp': 'U', 'info': None, 'label': label,
                'inputs': [(first_in, None), ('Beta', None)], 'outputs': [(first_out, None), ('Other', None)],
                'annotations': [], 'values': False,
                'rules': [(['1', '2'], ['"a"', '"b"'], []), (['3', '4'], ['"c"', '"d"'], [])], 'merge': []}
    probes = [('marker', m, 'expected left-below rule numbers placement', lambda o, m=m: spec(o, m, 'Alpha', None)) for m in ALL_MARKERS]
    probes += [('number', n, 'invalid rule number', lambda o, n=n: spec(o, 'Age', n, None)) for n in ('2', '3', '17')]
    probes += [('number', n, 'invalid rule number', lambda o, n=n: spec(o, 'Age', 'Alpha', n)) for n in ('2', '40')]
    reqs, meta = [], []
    for kind, txt, msg, mk in probes:
        for o in ('column', 'row'):
            text, exp = c19draw.draw(mk(o), None)
            reqs.append({'text': text, 'calls': []})
            meta.append((kind, txt, msg, o, text, exp))
    res = ctx.run_impl('recognize', reqs)
    stats = {'known': 0, 'recognised_as_columns': 0, 'rows_ok': 0}
    for (kind, txt, msg, o, text, exp), r in zip(meta, res):
        ctx.evaluations += 1
        case = {'text': text, 'drawn': exp, 'class': 'first %s is %r, rules as %ss' % ('input expression' if kind == 'marker' else 'output name / label', txt, o)}
        if 'panic' in r or 'crash' in r:
            ctx.violation('the recogniser panicked on a well-formed drawing (%s): %s' % (case['class'], json.dumps(r)[:200]), case, impl=r)
            continue
        right = 'ok' in r and all(r['ok'].get(k) == v for k, v in exp.items())
        if o == 'row':
            if right:
                stats['rows_ok'] += 1
            else:
                ctx.violation('a well-formed rules-as-rows drawing (%s) is %s' % (case['class'], 'misread' if 'ok' in r else 'rejected: %s' % r.get('err')), case, impl=r.get('ok', r))
        elif right:
            stats['recognised_as_columns'] += 1          # the deviation did not show: nothing to report
        elif 'ok' in r:
            ctx.violation('a well-formed rules-as-columns drawing (%s) is recognised as a DIFFERENT table' % case['class'], case, impl=r['ok'])
        elif msg in str(r.get('err')):
            ctx.nontrivial.add(('known-probe', kind, txt))
            if ctx.known('columns-first-text-is-marker', case):
                stats['known'] += 1
            else:
                ctx.violation('a well-formed rules-as-columns drawing (%s) is rejected: %s' % (case['class'], r.get('err')), case, impl=r)
        else:
            ctx.violation('a well-formed rules-as-columns drawing (%s) is rejected with an error outside the listed finding: %s' % (case['class'], r.get('err')), case, impl=r)
    return stats

def run(ctx):
    ctx.proof_gate()
    ctx.build_harness()
    rng = ctx.rng
    n = ctx.pick(800, 40000)
    cases = []
    while len(cases) < n:
        t, opts = gen_case(rng)
        spec = make_spec(rng, t, opts)
        text, exp = c19draw.draw(spec, rng)
        if text is None:
            continue
        cases.append((t, opts, spec, text, expected_fields(t, exp), c03.gen_tuples(rng, t, 4, odd=False)))
    # ---- recognition of drawings, field by field, and evaluation against the XML-loaded equivalent
    rec = ctx.run_impl('recognize', [{'text': text, 'plane': True, 'calls': [c03.ctx_text(t, xs) for xs in tp]} for (t, _, _, text, _, tp) in cases], shards=16)
    xml = ctx.run_impl('model', [{'xml': c03.table_xml(t), 'calls': [['dec', c03.ctx_text(t, xs)] for xs in tp]} for (t, _, _, _, _, tp) in cases], shards=16)
    terms, decoders = [], []
    for (t, opts, spec, text, exp, tp) in cases:
        term, codes = coq_table19(exp, opts)
        terms.append('let t := %s in (recognize_horizontal (layout_h t), layout_h t, hdr t, recognize_plane sw_parse_hp sw_parse_num (%s 77 sw_num_text t))'
                     % (term, 'layout_rows' if opts['orientation'] == 'row' else 'layout_columns'))
        decoders.append({v: k for k, v in codes.items()})
    model = ctx.run_model(HEADER, terms, shard_size=ctx.pick(50, 400))
    hist = {}
    for (t, opts, spec, text, exp, tp), r, x, m, dec in zip(cases, rec, xml, model, decoders):
        ctx.evaluations += 1
        shape = (opts['orientation'], opts['info'] is not None, opts['values'], opts['label'] is not None and len(t['outputs']) > 1,
                 len(t['inputs']), len(t['outputs']), len(opts['annotations']), min(len(t['rules']), 4), bool(spec['merge']))
        ctx.nontrivial.add(shape)
        for k, v in (('orientation', opts['orientation']), ('inputs', len(t['inputs'])), ('outputs', len(t['outputs'])), ('annotations', len(opts['annotations'])),
                     ('rules', len(t['rules'])), ('hp', spec['hp']), ('values', opts['values']), ('info', opts['info'] is not None)):
            hist.setdefault(k, {})
            hist[k][str(v)] = hist[k].get(str(v), 0) + 1
        case = {'text': text, 'drawn': exp}
        if 'panic' in r or 'crash' in r:
            ctx.violation('the recogniser panicked on a well-formed drawing: %s' % json.dumps(r)[:200], case, impl=r)
            continue
        if 'ok' not in r:
            ctx.violation('a well-formed drawing was rejected: %s' % r.get('err'), case, impl=r)
            continue
        bad = [k for k in exp if r['ok'].get(k) != exp[k]]
        if bad:
            ctx.violation('recognised table differs from the drawing in %s: %s instead of %s' % (bad[0], json.dumps(r['ok'].get(bad[0]))[:200], json.dumps(exp[bad[0]])[:200]),
                          case, impl=r['ok'])
            continue
        # the plane-level model on the same table: its layout is the plane the code built, its recognition gives the same fields
        m_fields, m_plane, m_hdr, m_whole = m
        if hasattr(m_fields, 'name') and m_fields.name == 'Some':
            mf = model_fields(m_fields.args[0], dec)
            badm = [k for k in mf if r['ok'].get(k) != mf[k]]
        else:
            badm = ['(model rejects the plane)']
        got_plane = canon_plane(parse_dump(r.get('plane') or ''), m_hdr)
        want_plane = canon_plane(model_plane(m_plane), m_hdr)
        # orientation, marker and rule numbers: the model of recognize_orientation on the whole laid-out plane
        whole_ok = (hasattr(m_whole, 'name') and m_whole.name == 'Some' and
                    m_whole.args[0][0].name == ('AsRow' if r['ok']['orientation'] == 'row' else 'AsColumn') and m_whole.args[0][2] == len(r['ok']['rules']))
        if not whole_ok:
            badm = badm or ['(orientation / rule count: model %s)' % (m_whole,)]
        if badm or got_plane != want_plane:
            ctx.corr_broken('recognizer.rs/plane.rs vs coq/C19/Model.v (%s)' % (badm[0] if badm else 'plane differs from layout_h'),
                            {'text': text}, got_plane if not badm else r['ok'].get(badm[0]), want_plane if not badm else None)
        ctx.corr_checked += 1
        # evaluation: recognised table vs the XML-loaded equivalent
        if r.get('build') != 'ok' or x.get('build') != 'ok':
            if (r.get('build') == 'ok') != (x.get('build') == 'ok') or 'panic' in (r.get('build'), x.get('build')):
                ctx.violation('the drawn table and its XML equivalent do not both build: text %s (%s), xml %s (%s)' % (r.get('build'), r.get('build_msg'), x.get('build'), x.get('build_msg')),
                              dict(case, xml=c03.table_xml(t)), impl=r.get('build'))
            continue
        for xs, a, b in zip(tp, r['results'], x['results']):
            ca, cb = c03.canon_impl(a), c03.canon_impl(b)
            if ca != cb:
                ctx.violation('evaluating the recognised table gives %s, the equivalent table loaded from DMN XML gives %s' % (ca, cb),
                              dict(case, xml=c03.table_xml(t), context=c03.ctx_text(t, xs)), impl=list(ca), model=list(cb))
                break
        if len(ctx.samples) < 2 and len(t['rules']) <= 3 and len(t['inputs']) <= 2:
            ctx.sample({'drawing': text.split('\n'), 'recognised': r['ok']})
    # ---- single-character corruptions and arbitrary text: Ok or Err, never a panic
    noisy = []
    for (t, opts, spec, text, exp, tp) in cases[:ctx.pick(600, 20000)]:
        for _ in range(ctx.pick(8, 12)):
            txt, i, c = corrupt(rng, text)
            noisy.append(({'kind': 'corruption', 'position': i, 'char': c, 'calls': [c03.ctx_text(t, tp[0])] if tp else []}, txt))
    for _ in range(ctx.pick(2000, 100000)):
        noisy.append(({'kind': 'arbitrary', 'calls': []}, random_text(rng)))
    for _ in range(ctx.pick(4000, 200000)):
        (t, opts, spec, text, exp, tp) = rng.choice(cases)
        noisy.append(({'kind': 'mangled', 'calls': [c03.ctx_text(t, tp[0])] if tp else []}, mangle(rng, text)))
    res = ctx.run_impl('recognize', [{'text': txt, 'calls': meta['calls']} for meta, txt in noisy], shards=16)
    outcome = {}
    for (meta, txt), r in zip(noisy, res):
        ctx.evaluations += 1
        kind = 'panic' if ('panic' in r or 'crash' in r or r.get('build') == 'panic' or any('panic' in z for z in r.get('results', []))) else 'ok' if 'ok' in r else 'err'
        outcome[meta['kind'] + ':' + kind] = outcome.get(meta['kind'] + ':' + kind, 0) + 1
        if kind == 'panic':
            ctx.violation('text (%s) makes the recogniser / table builder panic instead of returning an error: %s' % (meta['kind'], json.dumps(r)[:300]),
                          {'text': txt, 'meta': meta}, impl=r)
    # ---- characters -> plane: the Coq transliteration of canvas.rs on the same drawings and on noise texts
    import time
    cv_t0 = time.time()
    cv_stats, cv_differ = canvas_correspondence(ctx, [c[3] for c in cases[:ctx.pick(300, 8000)]], [txt for _, txt in noisy[::max(1, len(noisy) // ctx.pick(400, 10000))]])
    cv_regular_bad = regular_drawings(ctx, ctx.pick(60, 2000))
    cv_merged_bad = merged_drawings(ctx, ctx.pick(32, 1500))
    cv_htable_bad = header_tables(ctx, ctx.pick(32, 1500))
    kp_stats = known_probes(ctx)
    return ctx.finish(
        rule='tables of the C03 fragment (1..5 inputs, 1..3 outputs, 0..2 annotations, 1..8 rules, all 11 hit-policy markers) drawn in both orientations with every '
             'combination of information item name / allowed values / output label / annotations, random cell widths, alignments, multi-line cells, merged input entries; '
             'every field compared with the drawing, evaluation compared with the XML equivalent on 4 tuples; then 8 single-character corruptions of each of 600 drawings, 2000 arbitrary texts '
             'and 4000 mangled drawings must give Ok or Err; non-trivial = distinct layout shapes',
        extra_cov={'exhaustive': False, 'drawings': len(cases), 'distribution': hist, 'noise_outcomes': outcome, 'canvas_model': dict(cv_stats, differ=cv_differ, regular_drawings_differ=cv_regular_bad, merged_drawings_differ=cv_merged_bad, header_tables_differ=cv_htable_bad, known_finding_probes=kp_stats, seconds=round(time.time() - cv_t0, 1))},
        assumptions=['cell texts contain no box-drawing characters', 'allowed values are drawn for all clauses or for none (the text format has one values line)',
                     'in a rules-as-columns table the first input expression is not a hit-policy marker and output names are not numbers (the recogniser would take them for the marker / rule numbers)'],
        trusted=['dv recognize (dmntk_recognizer::build, Recognizer::recognize, build_decision_table_evaluator)', 'dv canvas (dmntk_recognizer::scan, Canvas::plane; cells read through Plane::cell / region_number / region_text and the Debug text of the rectangle)', 'props/c19draw.py (the drawing conventions follow /repo/examples)'])


def replay(ctx, path):
    obj = json.load(open(path))
    case = obj['case']
    ctx.build_harness()
    calls = case.get('meta', {}).get('calls', []) or ([case['context']] if 'context' in case else [])
    r = ctx.run_impl('recognize', [{'text': case['text'], 'plane': True, 'calls': calls}])[0]
    print(case['text'])
    print('recogniser:', json.dumps(r)[:1500])
    fail = 'panic' in r or 'crash' in r or r.get('build') == 'panic' or any('panic' in z for z in r.get('results', []))
    if 'drawn' in case:
        fail = fail or 'ok' not in r or any(r['ok'].get(k) != v for k, v in case['drawn'].items())
        if 'xml' in case and 'context' in case and 'ok' in r:
            x = ctx.run_impl('model', [{'xml': case['xml'], 'calls': [['dec', case['context']]]}])[0]
            print('xml path  :', json.dumps(x)[:500])
            if r.get('build') == 'ok' and x.get('build') == 'ok':
                fail = fail or c03.canon_impl(r['results'][0]) != c03.canon_impl(x['results'][0])
            else:
                fail = True
    print('REPRODUCED' if fail else 'not reproduced')
    return 1 if fail else 0


MANIFEST = dict(
    technique='Coq model of the plane-level recogniser with unbounded round-trip theorems and of the characters -> plane scan (canvas.rs) with a totality theorem for every text and text -> plane / text -> table theorems for every well-formed drawing (regular, merged cells, several header lines, rules as columns, information item name box), plus correspondence on drawn Unicode text (drawing -> recogniser -> fields, plane, orientation, evaluation vs DMN XML) and corruption/arbitrary-text robustness runs',
    text='coq/Props/C19.v (closed under the global context): for EVERY well-shaped table - any numbers of inputs, outputs, annotations, rules, any texts, with/without output label and allowed values - '
         'recognize_horizontal (layout_h t) = fields_of t (C19_plane_roundtrip_h); with the marker / rule-number column the whole plane of a rules-as-rows drawing is read back including orientation, hit policy and rule count '
         '(C19_plane_roundtrip_rows, abstract text parsers); pivot is an involution on rectangular planes and a rules-as-columns plane normalises to the same plane (C19_pivot_involutive, C19_columns_normalise); '
         'every recognised shape passes builder.rs size validation (C19_size_validation_complete). The whole plane of a rules-as-columns drawing (pivoted plane + marker / rule-number line below) is read back too - orientation, '
         'bottom-left hit-policy marker, rule numbers after the double line, every field - for EVERY table and any text parsers (C19_plane_roundtrip_columns, coq/C19/Columns.v; lemmas on the cells of a pivoted plane: C19_pivot_cells, '
         'C19_pivot_first_line_and_column) under two boolean hypotheses: first_input_not_marker (the first input expression is not a marker text) and first_output_not_number (the top-left text of the output block is not a number); '
         'C19_columns_hypotheses_needed shows by computation that without them the plane is rejected (Err, same as the code), not misread. '
         'Every run DRAWS >= 800 tables (both orientations, all combinations of information item name / values / label / annotations, random widths, alignments, multi-line and merged cells) and requires every recognised field to equal the drawn text block, '
         'the built plane to equal the model layout, orientation / rule count / fields to equal the model recognition, and the evaluation to equal that of the equivalent DMN XML; about 5k single-character corruptions and 6k arbitrary/mangled texts must return Ok or Err. '
         'CHARACTERS -> PLANE: coq/C19/Canvas.v is an executable transliteration of canvas.rs (lines / trim / rectangle of characters, information item name, the three crossings, body rectangle, the THIN / BODY / GRID layers, region walk and numbering, '
         'the walk of Canvas::plane, text_from_rect, Plane::finalize; results Ok / Err / Panic); every run requires canvas_cplane text = the outcome of scan + plane of the code (dv canvas) on 300 drawings of all styles and 400 noise texts - information item name, every cell with region number, rectangle and text, Err exactly when the code rejects - '
         'and canvas.rs on the text of the Gallina draw function = expected_plane for 60 random regular tables. Proved for EVERY regular drawing (any numbers of columns and lines, any widths, any texts without box characters): the passes of scan succeed with exactly the drawn crossings, body rectangle = the drawing, THIN = BODY = GRID (C19_canvas_scan_regular); '
         'for every cell the region walk and the rectangle walk close on the drawn frame and the text read is the drawn text (C19_canvas_cells_regular); '
         'the text splits back into the lines of the grid (C19_scan_layers_regular) and the WHOLE chain text -> lines -> canvas -> regions -> walk of Canvas::plane -> finalize gives exactly the drawn plane - every cell with region number, rectangle and text, the double-line cells, the line of the crossings - '
         'canvas_cplane (draw d) = Ok (None, expected_plane d) (C19_draw_roundtrip_regular, coq/C19/CanvasAssembly.v); composed with the plane-level round trip through an erasure of region names (C19_recognize_plane_names_erased: with one header line no name is compared) '
         'it gives text -> table end to end for EVERY rules-as-rows table drawn in the regular style with one header line, any sizes / widths / plain texts, any text parsers that read the drawn hit-policy and rule-number cells (C19_text_to_table_regular, coq/C19/CanvasTable.v). '
         'TOTALITY: canvas_cplane text is never Panic for EVERY text (C19_canvas_total, coq/C19/CanvasTotal.v: the layers are rectangles, every point a search returns and every text area of a closed rectangle is inside), also for any rectangular grid given to the passes (C19_canvas_total_grid). '
         'The 81-shape vm_compute sweeps of coq/C19/CanvasSweep.v are subsumed and kept as an independent computation (C19_canvas_nonvacuous). '
         'MERGED CELLS (coq/C19/CanvasMerged.v): a merged drawing is a grid of any column widths and line heights tiled by rectangular merged cells with text blocks, double lines in front of / above any two columns / lines; for EVERY well-formed one '
         'the passes of scan succeed (GRID = the full grid: make_grid adds the missing separator pieces) and canvas_cplane (drawm d) = Ok (None, mplane d) (C19_canvas_scan_merged, C19_canvas_cells_merged, C19_draw_roundtrip_merged). '
         'The recogniser compares region names only between a header cell and the cell below it, so planes with the same cells up to names and the same partition of the header lines are recognised alike (C19_recognize_plane_same_partition, ..._columns, C19_recognize_plane_renamed). '
         'TEXT -> TABLE end to end for EVERY rules-as-rows table with 1..3 header lines (output label over all output columns, allowed values, cells spanning header lines, multi-line cells, merged input entries: C19_text_to_table_headers), '
         'for EVERY rules-as-columns table (C19_text_to_table_columns, hypotheses first_input_not_marker / first_output_not_number as at the plane level) and for both with an INFORMATION ITEM NAME box anywhere on the top border '
         '(C19_canvas_scan_box, C19_draw_roundtrip_box: name = the drawn name, plane = the table plane moved down with region numbers + 1; C19_text_to_table_headers_box, C19_text_to_table_columns_box). '
         'Every run converts 32 c19draw drawings (half with box) to these Coq drawings and requires well-formedness, drawm / drawb = the drawn text character by character and the name / plane of canvas.rs = mplane / bplane, '
         'and draws 32 random tables with the Gallina drawing functions (rows / columns, merged entries, boxes) which the real recogniser must read back exactly.',
    category='proof',
    note='the character grid -> plane step (canvas.rs) is modelled (coq/C19/Canvas.v), compared with the code cell by cell on every run, proved total (never Panic) for every text, and proved to read back the drawn plane and table for every well-formed drawing of the families: '
         'regular, merged cells of any rectangular tiling (plane), rules as rows with 1..3 header lines / multi-line cells / merged input entries, rules as columns, each with or without information item name box (table). PARTIAL only in: '
         'merged input entries in a rules-as-columns drawing and the drawing variant that splits the hit-policy / annotation cells at the values line are covered by the plane theorem C19_draw_roundtrip_merged and the correspondence, not by a table theorem; well-formedness of a drawing is a boolean hypothesis (computed for the examples and for every drawing of a run); '
         'totality is about the Panic points of the model, which the correspondence ties to the panics of canvas.rs; a rules-as-columns drawing whose first input expression is itself a marker text (U, A, P, F, R, O, C, C+ ...) or whose first output label/name is a number other than 1 '
         'is rejected with an error by the code and by the model (hypotheses of C19_plane_roundtrip_columns). One panic of the pinned commit was repaired (fix: non-rectangular plane).')
