(* C08 — property theorems only.  Proofs are in C08/Proofs.v.
   pos / nam : the positional and the named dispatch of the built-in functions (C08/Model.v) on the current code,
   pos_orig / nam_orig : at the pinned commit; Some v = the value, None = the evaluation traps;
   to_int c e = Some p : the number c * 10^e is the integer p (any scale: 1.0 is 1);
   spec_index n p : the 0-based index that position p denotes in a sequence of length n (1..n from the start, -1..-n from the end);
   fits n : n <= 2^64 - 1 (the length of a list that exists in memory);  teq : C09's equality. *)
From Coq Require Import List NArith ZArith Bool Arith Permutation.
From DV Require Import C09.Values C09.Model C08.Model C08.Proofs.
Import ListNotations.
Open Scope Z_scope.

Theorem C08_position_scale :
  forall p j, 0 <= j -> to_int (p * 10 ^ j) (- j) = Some p.
Proof. exact to_int_scale. Qed.
Theorem C08_sublist2 :
  forall xs c e p, fits (zlen xs) -> to_int c e = Some p ->
  pos Sublist [VList xs; VNum c e] =
  Some (match spec_index (zlen xs) p with Some i => VList (skipn (Z.to_nat i) xs) | None => VNull end).
Proof. exact sublist2_spec. Qed.
Theorem C08_sublist2_non_integer :
  forall xs c e, to_int c e = None -> pos Sublist [VList xs; VNum c e] = Some VNull.
Proof. exact sublist2_nonint. Qed.
Theorem C08_sublist3 :
  forall xs c e p lc le k, fits (zlen xs) -> to_int c e = Some p -> to_int lc le = Some k ->
  pos Sublist [VList xs; VNum c e; VNum lc le] =
  Some (match spec_index (zlen xs) p with
        | Some i => if (0 <=? k) && (i + k <=? zlen xs) then VList (firstn (Z.to_nat k) (skipn (Z.to_nat i) xs)) else VNull
        | None => VNull end).
Proof. exact sublist3_spec. Qed.
Theorem C08_remove :
  forall xs c e p, fits (zlen xs) -> to_int c e = Some p ->
  pos Remove [VList xs; VNum c e] =
  Some (match spec_index (zlen xs) p with Some i => VList (remove_at (Z.to_nat i) xs) | None => VNull end).
Proof. exact remove_spec. Qed.
Theorem C08_remove_non_integer :
  forall xs c e, to_int c e = None -> pos Remove [VList xs; VNum c e] = Some VNull.
Proof. exact remove_nonint. Qed.
Theorem C08_remove_at_length :
  forall A (l : list A) i, (i < length l)%nat -> length (remove_at i l) = (length l - 1)%nat.
Proof. exact remove_at_length. Qed.
Theorem C08_remove_at_nth :
  forall A (l : list A) i j d, (i < length l)%nat ->
  nth j (remove_at i l) d = if (j <? i)%nat then nth j l d else nth (S j) l d.
Proof. exact remove_at_nth. Qed.
Theorem C08_insert_before :
  forall xs c e p x, fits (zlen xs) -> to_int c e = Some p ->
  pos InsertBefore [VList xs; VNum c e; x] =
  Some (match spec_index (zlen xs) p with Some i => VList (insert_at (Z.to_nat i) x xs) | None => VNull end).
Proof. exact insert_before_spec. Qed.
Theorem C08_insert_at_length :
  forall A (l : list A) i x, length (insert_at i x l) = S (length l).
Proof. exact insert_at_length. Qed.
Theorem C08_insert_at_nth :
  forall A (l : list A) i j x d, (i <= length l)%nat ->
  nth j (insert_at i x l) d = if (j <? i)%nat then nth j l d else if (j =? i)%nat then x else nth (j - 1) l d.
Proof. exact insert_at_nth. Qed.
Theorem C08_substring2 :
  forall cs p, zlen cs <= I64MAX -> I64MIN <= p <= I64MAX ->
  pos Substring [VStr cs; VNum p 0] =
  Some (match spec_index (zlen cs) p with Some i => VStr (skipn (Z.to_nat i) cs) | None => VNull end).
Proof. exact substring2_spec. Qed.
Theorem C08_substring3 :
  forall cs p k, zlen cs <= I64MAX -> I64MIN <= p <= I64MAX ->
  pos Substring [VStr cs; VNum p 0; VNum k 0] =
  Some (match spec_index (zlen cs) p with
        | Some i => if (1 <=? k) && (i + k <=? zlen cs) then VStr (firstn (Z.to_nat k) (skipn (Z.to_nat i) cs)) else VNull
        | None => VNull end).
Proof. exact substring3_spec. Qed.
Theorem C08_substring_non_integer :
  forall cs c e len, to_int c e = None -> b_substring to_int (VStr cs) (VNum c e) len = VNull.
Proof. exact substring_nonint. Qed.
Theorem C08_named_eq_positional :
  forall b args pn,
  param_names b (length args) = Some pn -> named_domain b args ->
  nam b (combine pn args) = pos b args.
Proof. exact named_eq_positional. Qed.
Theorem C08_named_order_irrelevant :
  forall b ps ps', NoDup (map fst ps) -> Permutation ps ps' -> nam b ps = nam b ps'.
Proof. exact named_order_irrelevant. Qed.
Theorem C08_all_is_kleene_conjunction :
  forall vs, b_all false vs = fold_right v_and (VBool true) vs.
Proof. exact all_is_kleene_conjunction. Qed.
Theorem C08_any_on_booleans :
  forall vs, forallb is_bool vs = true -> b_any vs = fold_right v_or (VBool false) vs.
Proof. exact any_on_booleans. Qed.
Theorem C08_any_with_non_boolean :
  forall vs, forallb is_bool vs = false -> b_any vs = VNull.
Proof. exact any_with_non_boolean. Qed.
Theorem C08_reverse_involutive :
  forall xs, b_reverse (b_reverse (VList xs)) = VList xs.
Proof. exact reverse_involutive. Qed.
Theorem C08_reverse_nth :
  forall xs i, (i < length xs)%nat ->
  b_reverse (VList xs) = VList (rev xs) /\ nth i (rev xs) VNull = nth (length xs - S i) xs VNull.
Proof. exact reverse_nth. Qed.
Theorem C08_count :
  forall xs, b_count (VList xs) = VNum (Z.of_nat (length xs)) 0.
Proof. exact count_is_length. Qed.
Theorem C08_concatenate :
  forall ls, b_concatenate (map VList ls) = VList (concat ls).
Proof. exact concatenate_spec. Qed.
Theorem C08_append :
  forall xs vs, b_append (VList xs) vs = VList (xs ++ vs).
Proof. exact append_spec. Qed.
Theorem C08_flatten_no_lists :
  forall v, Forall (fun x => is_list x = false) (flatten_value v).
Proof. exact flatten_no_lists. Qed.
Theorem C08_flatten_idempotent :
  forall xs, b_flatten (b_flatten (VList xs)) = b_flatten (VList xs).
Proof. exact flatten_idempotent. Qed.
Theorem C08_flatten_order :
  forall xs ys, flatten_value (VList (xs ++ ys)) = flatten_value (VList xs) ++ flatten_value (VList ys).
Proof. exact flatten_app. Qed.
Theorem C08_index_of :
  forall xs x v,
  b_index_of (VList xs) x = VList (index_of_from 1 xs x) /\
  positions_asc 1 (index_of_from 1 xs x) /\
  (In v (index_of_from 1 xs x) <->
   exists i, (i < length xs)%nat /\ v = VNum (1 + Z.of_nat i) 0 /\ teq (nth i xs VNull) x = Some true).
Proof. exact index_of_spec. Qed.
Theorem C08_list_contains :
  forall xs x, b_list_contains (VList xs) x = VBool true <-> exists y, In y xs /\ teq y x = Some true.
Proof. exact list_contains_spec. Qed.
Theorem C08_distinct_values :
  forall xs, exists res,
  b_distinct_values (VList xs) = VList res /\ distinct_list res /\
  (forall r, In r res -> In r xs) /\
  (forall x, In x xs -> In x res \/ exists r, In r res /\ teq r x = Some true).
Proof. exact distinct_values_spec. Qed.
Theorem C08_union :
  forall ls, exists res,
  b_union (map VList ls) = VList res /\ distinct_list res /\
  (forall r, In r res -> In r (concat ls)) /\
  (forall x, In x (concat ls) -> In x res \/ exists r, In r res /\ teq r x = Some true).
Proof. exact union_spec. Qed.
Theorem C08_contains :
  forall s m, b_contains (VStr s) (VStr m) = VBool true <-> exists a b, s = a ++ m ++ b.
Proof. exact contains_spec. Qed.
Theorem C08_starts_with :
  forall s m, b_starts_with (VStr s) (VStr m) = VBool true <-> exists t, s = m ++ t.
Proof. exact starts_with_spec. Qed.
Theorem C08_ends_with :
  forall s m, b_ends_with (VStr s) (VStr m) = VBool true <-> exists a, s = a ++ m.
Proof. exact ends_with_spec. Qed.
Theorem C08_substring_before_after :
  forall s m,
  (exists a b, s = a ++ m ++ b) ->
  exists before after,
    b_substring_before (VStr s) (VStr m) = VStr before /\ b_substring_after (VStr s) (VStr m) = VStr after /\
    s = before ++ m ++ after /\
    (forall j, (j < length before)%nat -> prefixb m (skipn j s) = false).
Proof. exact substring_before_after_spec. Qed.
Theorem C08_substring_before_after_no_match :
  forall s m,
  b_contains (VStr s) (VStr m) = VBool false ->
  b_substring_before (VStr s) (VStr m) = VStr [] /\ b_substring_after (VStr s) (VStr m) = VStr [].
Proof. exact substring_before_after_no_match. Qed.
Theorem C08_string_length :
  forall s, b_string_length (VStr s) = VNum (Z.of_nat (length s)) 0.
Proof. exact string_length_spec. Qed.
Theorem C08_sum :
  forall n ns, b_sum (map vnum (n :: ns)) = vnum (fold_left nadd (n :: ns) (0, 0)).
Proof. exact sum_spec. Qed.
Theorem C08_mean :
  forall n ns,
  b_mean (map vnum (n :: ns)) = vnum (ndiv (fold_left nadd (n :: ns) (0, 0)) (Z.of_nat (length (n :: ns)), 0)).
Proof. exact mean_spec. Qed.
Theorem C08_median :
  forall n ns,
  let s := nsort (n :: ns) in let k := (length s / 2)%nat in
  b_median (map vnum (n :: ns)) =
  if Nat.even (length s) then vnum (ndiv (nadd (nth (k - 1) s (0, 0)) (nth k s (0, 0))) (2, 0)) else vnum (nth k s (0, 0)).
Proof. exact median_spec. Qed.
Theorem C08_sort_permutation :
  forall l, Permutation (nsort l) l.
Proof. exact nsort_perm. Qed.
Theorem C08_sort_ascending :
  forall l, ascending (nsort l).
Proof. exact nsort_ascending. Qed.
Theorem C08_aggregates_empty :
  b_sum [] = VNull /\ b_mean [] = VNull /\ b_median [] = VNull /\ b_min [] = VNull /\ b_max false [] = VNull /\ b_mode [] = VList [].
Proof. exact aggregates_empty. Qed.
Theorem C08_aggregates_non_number :
  forall f pre x post, In f [b_sum; b_mean; b_median; b_mode] ->
  (match x with VNum _ _ => False | _ => True end) -> f (map vnum pre ++ x :: post) = VNull.
Proof. exact aggregates_non_number. Qed.
Theorem C08_max_numbers :
  forall ns m, exists r,
  max_num false m (map vnum ns) = vnum r /\ In r (m :: ns) /\
  (forall x, In x (m :: ns) -> is_le (ncmp (fst x) (snd x) (fst r) (snd r)) = true).
Proof. exact max_numbers_spec. Qed.
Theorem C08_min_numbers :
  forall ns m, exists r,
  min_num m (map vnum ns) = vnum r /\ In r (m :: ns) /\
  (forall x, In x (m :: ns) -> is_le (ncmp (fst r) (snd r) (fst x) (snd x)) = true).
Proof. exact min_numbers_spec. Qed.
Theorem C08_min_max_null_item :
  forall m pre post,
  max_num false m (map vnum pre ++ VNull :: post) = VNull /\ min_num m (map vnum pre ++ VNull :: post) = VNull.
Proof. exact min_max_null_item. Qed.
Theorem C08_get_value :
  forall es k, b_get_value (VCtx es) (VStr k) = match lookup k es with Some v => v | None => VNull end.
Proof. exact get_value_spec. Qed.
Theorem C08_get_entries :
  forall es, b_get_entries (VCtx es) = VList (map (fun e => VCtx [(KEY, VStr (fst e)); (VALUE, snd e)]) es).
Proof. exact get_entries_spec. Qed.
Theorem C08_not :
  forall v, b_not v = match v with VBool b => VBool (negb b) | _ => VNull end.
Proof. exact not_spec. Qed.
Theorem C08_wrong_arity_null :
  forall a1 a2 a3 a4 r,
  pos Contains [a1; a2; a3] = Some VNull /\ pos Count [] = Some VNull /\ pos Count [a1; a2] = Some VNull /\
  pos Sublist [a1] = Some VNull /\ pos Sublist (a1 :: a2 :: a3 :: a4 :: r) = Some VNull /\
  pos Substring [a1] = Some VNull /\ pos Substring (a1 :: a2 :: a3 :: a4 :: r) = Some VNull /\
  pos InsertBefore [a1; a2] = Some VNull /\ pos Remove [a1] = Some VNull /\ pos Not [] = Some VNull /\
  pos All [] = Some VNull /\ pos Max [] = Some VNull /\ pos Append [a1] = Some VNull /\ pos Union [] = Some VNull.
Proof. exact fixed_arity_null. Qed.
Theorem C08_orig_scaled_position_refuted :
  pos_orig Sublist [l123; VNum 10 (-1)] = Some VNull /\ pos Sublist [l123; VNum 10 (-1)] = Some l123 /\
  pos_orig Substring [VStr [97; 98]%N; VNum 10 (-1)] = Some VNull /\ pos Substring [VStr [97; 98]%N; VNum 10 (-1)] = Some (VStr [97; 98]%N).
Proof. exact orig_scaled_position_refuted. Qed.
Theorem C08_orig_sublist_trap_refuted :
  pos_orig Sublist [l123; VNum (-4) 0; VNum 1 0] = None /\ pos Sublist [l123; VNum (-4) 0; VNum 1 0] = Some VNull.
Proof. exact orig_sublist_trap_refuted. Qed.
Theorem C08_orig_max_min_null_refuted :
  pos_orig Max [VList [VNum 1 0; VNull; VNum 3 0]] = Some (VNum 3 0) /\ pos_orig Min [VList [VNum 1 0; VNull; VNum 3 0]] = Some VNull.
Proof. exact orig_max_min_null_refuted. Qed.
Theorem C08_orig_all_order_refuted :
  pos_orig All [VList [VNull; VBool false]] = Some VNull /\ pos_orig All [VList [VBool false; VNull]] = Some (VBool false).
Proof. exact orig_all_order_refuted. Qed.
Theorem C08_orig_named_mean_refuted :
  let l := VList [VNum 0 0; VNum 2 0; VNum 100 0] in
  nam_orig Mean [(PList, l)] = Some (VNum 2 0) /\
  match pos_orig Mean [l] with Some (VNum c e) => ncmp c e 34 0 | _ => Lt end = Eq.
Proof. exact orig_named_mean_refuted. Qed.
Theorem C08_max_strings :
  forall ss m, exists r,
  max_str false m (map VStr ss) = VStr r /\ In r (m :: ss) /\ (forall x, In x (m :: ss) -> is_le (lcmp x r) = true).
Proof. exact max_strings_spec. Qed.
Theorem C08_min_strings :
  forall ss m, exists r,
  min_str m (map VStr ss) = VStr r /\ In r (m :: ss) /\ (forall x, In x (m :: ss) -> is_le (lcmp r x) = true).
Proof. exact min_strings_spec. Qed.
Theorem C08_min_max_dispatch :
  forall c e s r,
  b_max false (VNum c e :: r) = max_num false (c, e) r /\ b_max false (VStr s :: r) = max_str false s r /\
  b_min (VNum c e :: r) = min_num (c, e) r /\ b_min (VStr s :: r) = min_str s r /\
  b_max false (VNull :: r) = VNull /\ b_min (VNull :: r) = VNull /\ b_max false (VBool true :: r) = VNull /\ b_min (VBool true :: r) = VNull.
Proof. exact min_max_dispatch. Qed.
(* partial: membership only; that the results are exactly the most frequent values in ascending order is checked by the correspondence, not proved *)
Theorem C08_mode_members_partial :
  forall n ns, exists rs,
  b_mode (map vnum (n :: ns)) = VList (map vnum rs) /\ (forall r, In r rs -> In r (n :: ns)).
Proof. exact mode_members_partial. Qed.

Example C08_nonvacuous :
  let l := VList [VNum 1 0; VNum 10 (-1); VNull; VList [VNum 2 0]; VNum 1 0] in
  pos Sublist [l; VNum (-20) (-1); VNum 1 0] = Some (VList [VList [VNum 2 0]]) /\
  pos IndexOf [l; VNum 100 (-2)] = Some (VList [VNum 1 0; VNum 2 0; VNum 5 0]) /\
  pos DistinctValues [l] = Some (VList [VNum 1 0; VNull; VList [VNum 2 0]]) /\
  pos Flatten [l] = Some (VList [VNum 1 0; VNum 10 (-1); VNull; VNum 2 0; VNum 1 0]) /\
  nam Substring [(PLength, VNum 2 0); (PString, VStr [97; 128512; 98]%N); (PStartPosition, VNum (-2) 0)] = Some (VStr [128512; 98]%N) /\
  match pos Mean [VNum 1 0; VNum 2 0] with Some (VNum c e) => ncmp c e 15 (-1) | _ => Lt end = Eq.
Proof. exact nonvacuous. Qed.

Print Assumptions C08_position_scale.
Print Assumptions C08_sublist2.
Print Assumptions C08_sublist2_non_integer.
Print Assumptions C08_sublist3.
Print Assumptions C08_remove.
Print Assumptions C08_remove_non_integer.
Print Assumptions C08_remove_at_length.
Print Assumptions C08_remove_at_nth.
Print Assumptions C08_insert_before.
Print Assumptions C08_insert_at_length.
Print Assumptions C08_insert_at_nth.
Print Assumptions C08_substring2.
Print Assumptions C08_substring3.
Print Assumptions C08_substring_non_integer.
Print Assumptions C08_named_eq_positional.
Print Assumptions C08_named_order_irrelevant.
Print Assumptions C08_all_is_kleene_conjunction.
Print Assumptions C08_any_on_booleans.
Print Assumptions C08_any_with_non_boolean.
Print Assumptions C08_reverse_involutive.
Print Assumptions C08_reverse_nth.
Print Assumptions C08_count.
Print Assumptions C08_concatenate.
Print Assumptions C08_append.
Print Assumptions C08_flatten_no_lists.
Print Assumptions C08_flatten_idempotent.
Print Assumptions C08_flatten_order.
Print Assumptions C08_index_of.
Print Assumptions C08_list_contains.
Print Assumptions C08_distinct_values.
Print Assumptions C08_union.
Print Assumptions C08_contains.
Print Assumptions C08_starts_with.
Print Assumptions C08_ends_with.
Print Assumptions C08_substring_before_after.
Print Assumptions C08_substring_before_after_no_match.
Print Assumptions C08_string_length.
Print Assumptions C08_sum.
Print Assumptions C08_mean.
Print Assumptions C08_median.
Print Assumptions C08_sort_permutation.
Print Assumptions C08_sort_ascending.
Print Assumptions C08_aggregates_empty.
Print Assumptions C08_aggregates_non_number.
Print Assumptions C08_max_numbers.
Print Assumptions C08_min_numbers.
Print Assumptions C08_min_max_null_item.
Print Assumptions C08_get_value.
Print Assumptions C08_get_entries.
Print Assumptions C08_not.
Print Assumptions C08_wrong_arity_null.
Print Assumptions C08_orig_scaled_position_refuted.
Print Assumptions C08_orig_sublist_trap_refuted.
Print Assumptions C08_orig_max_min_null_refuted.
Print Assumptions C08_orig_all_order_refuted.
Print Assumptions C08_orig_named_mean_refuted.
Print Assumptions C08_max_strings.
Print Assumptions C08_min_strings.
Print Assumptions C08_min_max_dispatch.
Print Assumptions C08_mode_members_partial.
Print Assumptions C08_nonvacuous.
