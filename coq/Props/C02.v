(* C02 — property theorems only.  Proofs are in C02/Proofs.v. *)
From Coq Require Import ZArith NArith Bool List.
From DV Require Import Base.Dec Base.DecRound C02.Model C02.Proofs.
Import ListNotations.
Open Scope Z_scope.

Theorem C02_mod_steps_refuted : exists a b, mod_known a b = true /\ f_mod a b = Some (mkdec false 1 0) /\ f_mod_steps a b = Some (mkdec false 1 6).
Proof. exact mod_steps_refuted. Qed.

Example C02_nonvacuous :
  f_add (mkdec false 15 (-1)) (mkdec false 25 (-1)) = Some (mkdec false 4 0) /\
  f_div (mkdec false 2 0) (mkdec true 3 0) = Some (mkdec true 6666666666666666666666666666666667 (-34)) /\
  f_mul (mkdec false 1 6144) (mkdec false 10 0) = None /\
  f_mul (mkdec false 1 (-3100)) (mkdec false 15 (-3077)) = Some (mkdec false 2 (-6176)) /\
  f_cmp (mkdec false 10 (-1)) (mkdec false 100 (-2)) = Eq.
Proof. exact model_nontrivial. Qed.

Print Assumptions C02_mod_steps_refuted.
Print Assumptions C02_nonvacuous.
