(* C14 — temporal literals denote exactly what is written and print back losslessly.
   ImplModel: hand-written recognisers for the regular expressions of feel/src/temporal/mod.rs:55-73,
   dt_duration.rs, ym_duration.rs; the TryFrom<&str>/FromStr conversions and the Display implementations of
   FeelDate, FeelTime, FeelZone, FeelDateTime, FeelDaysAndTimeDuration, FeelYearsAndMonthsDuration, transliterated.
   Texts are Coq strings (the regular expressions only accept ASCII).  The zone database (chrono-tz) is a
   section variable `tzdb`: only membership is used.  Functions named *_orig are the code at the pinned commit
   where a defect was repaired.  No proofs in this file. *)
From Coq Require Import ZArith Bool List String Ascii.
From DV Require Import Base.Calendar C15.Model.
Import ListNotations.
Open Scope string_scope.
Open Scope Z_scope.

(* ---------------- characters and numerals ---------------- *)
Definition digit_val (c : ascii) : option Z :=
  match c with
  | "0"%char => Some 0 | "1"%char => Some 1 | "2"%char => Some 2 | "3"%char => Some 3 | "4"%char => Some 4
  | "5"%char => Some 5 | "6"%char => Some 6 | "7"%char => Some 7 | "8"%char => Some 8 | "9"%char => Some 9
  | _ => None
  end.

Definition digit_char (d : Z) : ascii :=
  match d with
  | 1 => "1" | 2 => "2" | 3 => "3" | 4 => "4" | 5 => "5" | 6 => "6" | 7 => "7" | 8 => "8" | 9 => "9" | _ => "0"
  end%char.

(* the longest prefix of digits (values, most significant first) and the rest *)
Fixpoint span_digits (s : string) : list Z * string :=
  match s with
  | String c r => match digit_val c with
                  | Some d => let (ds, rest) := span_digits r in (d :: ds, rest)
                  | None => ([], s)
                  end
  | EmptyString => ([], s)
  end.

Definition num (ds : list Z) : Z := fold_left (fun a d => 10 * a + d) ds 0.

(* exactly two digits *)
Definition two (s : string) : option (Z * string) :=
  match s with
  | String a (String b r) =>
    match digit_val a, digit_val b with Some x, Some y => Some (10 * x + y, r) | _, _ => None end
  | _ => None
  end.

Fixpoint digits_fuel (fuel : nat) (n : Z) (acc : list Z) : list Z :=
  match fuel with
  | O => acc
  | S f => let acc' := (n mod 10) :: acc in if n <? 10 then acc' else digits_fuel f (n / 10) acc'
  end.
(* decimal digits of n >= 0 *)
Definition digits (n : Z) : list Z := digits_fuel (S (Z.to_nat (Z.log2 n))) n [].
Definition str_of_digits (ds : list Z) := fold_right (fun d s => String (digit_char d) s) "" ds.
Definition dec (n : Z) := str_of_digits (digits n).
Definition pad2 (n : Z) := String (digit_char (n / 10)) (String (digit_char (n mod 10)) "").
(* {:04} of a non-negative number *)
Definition pad4 (n : Z) :=
  let ds := digits n in str_of_digits (app (repeat 0 (4 - List.length ds)) ds).

Definition u64_max : Z := 18446744073709551615.

(* ---------------- values ---------------- *)
Inductive zone := ZUtc | ZLocal | ZOffset (seconds : Z) | ZNamed (id : string).
Record time := { t_h : Z; t_mi : Z; t_s : Z; t_ns : Z; t_zone : zone }.
Definition datetime := (date * time)%type.

(* ---------------- dates ---------------- *)
(* [1-9][0-9]{3,8}  (pinned commit)   and   [1-9][0-9]{3,8}|0[0-9]{3}  (after the fix) *)
Definition year_digits_ok_orig (ds : list Z) : bool :=
  match ds with d :: _ => negb (d =? 0) && (4 <=? Z.of_nat (List.length ds)) && (Z.of_nat (List.length ds) <=? 9) | [] => false end.
Definition year_digits_ok (ds : list Z) : bool :=
  match ds with
  | d :: _ => if d =? 0 then Z.of_nat (List.length ds) =? 4 else (4 <=? Z.of_nat (List.length ds)) && (Z.of_nat (List.length ds) <=? 9)
  | [] => false
  end.

Section DatePattern.
Variable year_ok : list Z -> bool.
(* DATE_PATTERN at the start of s: (year, month, day, rest) *)
Definition p_date (s : string) : option (Z * Z * Z * string) :=
  let (neg, s1) := match s with String "-"%char r => (true, r) | _ => (false, s) end in
  let (ds, s2) := span_digits s1 in
  if year_ok ds then
    match s2 with
    | String "-"%char s3 =>
      match two s3 with
      | Some (m, String "-"%char s4) =>
        match two s4 with
        | Some (d, s5) => Some ((if neg then - num ds else num ds), m, d, s5)
        | None => None
        end
      | _ => None
      end
    | _ => None
    end
  else None.
End DatePattern.

Section DateParse.
Variable year_ok : list Z -> bool.
Variable date_ok : Z -> Z -> Z -> bool.
Definition parse_date_gen (s : string) : option date :=
  match p_date year_ok s with
  | Some (y, m, d, "") => if date_ok y m d then Some (y, m, d) else None
  | _ => None
  end.
End DateParse.

Definition parse_date : string -> option date := parse_date_gen year_digits_ok is_valid_date.
Definition parse_date_orig : string -> option date := parse_date_gen year_digits_ok_orig is_valid_date_orig.

(* Display: "{}{:04}-{:02}-{:02}" with the sign written separately (after the fix) *)
Definition print_date (a : date) :=
  let '(y, m, d) := a in
  (if y <? 0 then "-" else "") ++ pad4 (Z.abs y) ++ "-" ++ pad2 m ++ "-" ++ pad2 d.
(* pinned commit: "{:04}" of the signed year: the sign counts as one of the four characters *)
Definition print_date_orig (a : date) :=
  let '(y, m, d) := a in
  (if y <? 0 then "-" ++ str_of_digits (app (repeat 0 (3 - List.length (digits (Z.abs y)))) (digits (Z.abs y))) else pad4 y)
  ++ "-" ++ pad2 m ++ "-" ++ pad2 d.

(* ---------------- zones ---------------- *)
Definition zone_char_orig (c : ascii) : bool :=
  let n := Z.of_N (N_of_ascii c) in
  ((65 <=? n) && (n <=? 90)) || ((97 <=? n) && (n <=? 122)) || (n =? 95) || (n =? 47).
(* after the fix also digits, '+' and '-' (Etc/GMT+1, America/Port-au-Prince, EST5EDT) *)
Definition zone_char (c : ascii) : bool :=
  let n := Z.of_N (N_of_ascii c) in
  zone_char_orig c || ((48 <=? n) && (n <=? 57)) || (n =? 43) || (n =? 45).

Fixpoint all_chars (f : ascii -> bool) (s : string) : bool :=
  match s with String c r => f c && all_chars f r | EmptyString => true end.

Definition zone_new (off : Z) : zone := if off =? 0 then ZUtc else ZOffset off.

Section Zone.
Variable tzdb : string -> bool.
Variable zchar : ascii -> bool.
Variable minsec_ok : Z -> bool.     (* range test on offset minutes and seconds: after the fix `< 60`, before: none *)
(* the optional zone suffix up to the end of the text (FeelZone::from_captures) *)
Definition p_zone (s : string) : option zone :=
  match s with
  | "" => Some ZLocal
  | String c r =>
    if ((c =? "z") || (c =? "Z"))%char then (if String.eqb r "" then Some ZUtc else None)
    else if (c =? "@")%char then
      (if negb (String.eqb r "") && all_chars zchar r then (if tzdb r then Some (ZNamed r) else None) else None)
    else if ((c =? "+") || (c =? "-"))%char then
      match two r with
      | Some (hh, String ":"%char r2) =>
        match two r2 with
        | Some (mm, r3) =>
          let fin (ss : Z) :=
            let off := 3600 * hh + 60 * mm + ss in
            let off := if (c =? "-")%char then - off else off in
            if (14 <? hh) || negb (minsec_ok mm) || negb (minsec_ok ss) then None else Some (zone_new off) in
          match r3 with
          | "" => fin 0
          | String ":"%char r4 => match two r4 with Some (ss, "") => fin ss | _ => None end
          | _ => None
          end
        | None => None
        end
      | _ => None
      end
    else None
  end.
End Zone.

(* Display of FeelZone *)
Definition print_zone (z : zone) :=
  match z with
  | ZUtc => "Z"
  | ZLocal => ""
  | ZOffset off =>
    let a := Z.abs off in
    (if off <? 0 then "-" else "+") ++ pad2 (a / 3600) ++ ":" ++ pad2 (a mod 3600 / 60) ++
    (if 0 <? a mod 3600 mod 60 then ":" ++ pad2 (a mod 3600 mod 60) else "")
  | ZNamed id => "@" ++ id
  end.
(* pinned commit: "{:+03}" of offset / 3600 (truncating): the sign of -00:30 is lost *)
Definition print_zone_orig (z : zone) :=
  match z with
  | ZOffset off =>
    let a := Z.abs off in
    (if Z.quot off 3600 <? 0 then "-" else "+") ++ pad2 (a / 3600) ++ ":" ++ pad2 (a mod 3600 / 60) ++
    (if 0 <? a mod 3600 mod 60 then ":" ++ pad2 (a mod 3600 mod 60) else "")
  | _ => print_zone z
  end.

(* ---------------- times ---------------- *)
(* fraction digits -> nanoseconds, digit by digit, digits after the ninth dropped (fraction_to_nanos) *)
Fixpoint frac_nanos (ds : list Z) (scale : Z) : Z :=
  match ds with [] => 0 | d :: r => d * scale + frac_nanos r (scale / 10) end.

Definition is_valid_time (h mi s : Z) : bool := (h <? 24) && (mi <? 60) && (s <? 60).

Section Time.
Variable pz : string -> option zone.
(* TIME_PATTERN followed by the optional zone, to the end of the text *)
Definition p_time (s : string) : option time :=
  match two s with
  | Some (h, String ":"%char s1) =>
    match two s1 with
    | Some (mi, String ":"%char s2) =>
      match two s2 with
      | Some (sec, s3) =>
        let fin (ns : Z) (rest : string) :=
          match pz rest with
          | Some z => if is_valid_time h mi sec then Some {| t_h := h; t_mi := mi; t_s := sec; t_ns := ns; t_zone := z |} else None
          | None => None
          end in
        match s3 with
        | String "."%char s4 =>
          let (ds, s5) := span_digits s4 in
          match ds with [] => None | _ => fin (frac_nanos ds 100000000) s5 end
        | _ => fin 0 s3
        end
      | None => None
      end
    | _ => None
    end
  | _ => None
  end.

Variable year_ok : list Z -> bool.
Variable date_ok : Z -> Z -> Z -> bool.
Definition p_datetime (s : string) : option datetime :=
  match p_date year_ok s with
  | Some (y, m, d, String "T"%char r) =>
    match p_time r with
    | Some t => if date_ok y m d then Some ((y, m, d), t) else None
    | None => None
    end
  | _ => None
  end.
End Time.

Section WithDb.
Variable tzdb : string -> bool.
Definition lt60 (x : Z) : bool := x <? 60.
Definition parse_zone := p_zone tzdb zone_char lt60.
Definition parse_zone_orig := p_zone tzdb zone_char_orig (fun _ => true).
Definition parse_time : string -> option time := p_time parse_zone.
Definition parse_time_orig : string -> option time := p_time parse_zone_orig.
Definition parse_datetime : string -> option datetime := p_datetime parse_zone year_digits_ok is_valid_date.
Definition parse_datetime_orig : string -> option datetime := p_datetime parse_zone_orig year_digits_ok_orig is_valid_date_orig.
(* the built-in function date and time(text) also accepts a date: midnight, no zone (bifs/core.rs date_and_time_1) *)
Definition bif_date_and_time (s : string) : option datetime :=
  match parse_datetime s with
  | Some x => Some x
  | None => match parse_date s with
            | Some d => Some (d, {| t_h := 0; t_mi := 0; t_s := 0; t_ns := 0; t_zone := ZLocal |})
            | None => None
            end
  end.
End WithDb.

(* nanoseconds_to_string: nine digits, trailing zeros stripped *)
Fixpoint strip_zeros_rev (ds : list Z) : list Z :=
  match ds with 0 :: r => strip_zeros_rev r | _ => ds end.
Definition pad9 (n : Z) : list Z := let ds := digits n in app (repeat 0 (9 - List.length ds)) ds.
Definition nanos_str (ns : Z) := str_of_digits (rev (strip_zeros_rev (rev (pad9 (ns mod 1000000000))))).

Section Print.
Variable pzone : zone -> string.
Definition print_time_gen (t : time) :=
  pad2 (t_h t) ++ ":" ++ pad2 (t_mi t) ++ ":" ++ pad2 (t_s t) ++
  (if 0 <? t_ns t then "." ++ nanos_str (t_ns t) else "") ++ pzone (t_zone t).
End Print.
Definition print_time := print_time_gen print_zone.
Definition print_time_orig := print_time_gen print_zone_orig.
Definition print_datetime (x : datetime) := print_date (fst x) ++ "T" ++ print_time (snd x).

(* ---------------- durations ---------------- *)
(* an optional component: digits followed by the unit character; None = the text is not of that shape *)
Definition p_comp (unit : ascii) (s : string) : option (option Z) * string :=
  let (ds, r) := span_digits s in
  match ds, r with
  | _ :: _, String c r' => if (c =? unit)%char then (Some (Some (num ds)), r') else (None, s)
  | _, _ => (None, s)
  end.
(* the component is absent (None, s) or present (Some (Some value)); `comp_fits`: the digits parse as a u64 *)
Definition comp_val (c : option (option Z)) : Z := match c with Some (Some v) => v | _ => 0 end.
Definition comp_present (c : option (option Z)) : bool := match c with Some _ => true | None => false end.
Definition comp_fits (c : option (option Z)) : bool := match c with Some (Some v) => v <=? u64_max | _ => true end.
Definition i64_max : Z := 9223372036854775807.

(* ^-?P([0-9]+Y)?([0-9]+M)?$
   reject_oversized = true (after the fix): a written component that does not fit u64 makes the literal invalid;
   false (before): such a component was skipped (`if let Ok(years) = ...parse::<u64>() { .. }`) and the rest of the literal was
   read as if it had not been written.  In both variants the total number of months must fit i64
   (i64::try_from(years), checked_mul(12), checked_add; i64::try_from(months), checked_add), else the literal is invalid. *)
Section Ymd.
Variable reject_oversized : bool.
Definition parse_ymd_gen (s : string) : option Z :=
  let (neg, s1) := match s with String "-"%char r => (true, r) | _ => (false, s) end in
  match s1 with
  | String "P"%char s2 =>
    let (cy, s3) := p_comp "Y" s2 in
    let (cm, s4) := p_comp "M" s3 in
    if String.eqb s4 "" && (comp_present cy && comp_fits cy || comp_present cm && comp_fits cm) then
      if reject_oversized && negb (comp_fits cy && comp_fits cm) then None else
      let y := if comp_fits cy then comp_val cy else 0 in
      let m := if comp_fits cm then comp_val cm else 0 in
      if (y <=? i64_max) && (y * 12 <=? i64_max) && (m <=? i64_max) && (y * 12 + m <=? i64_max) then
        let total := y * 12 + m in
        Some (if neg then - total else total)
      else None
    else None
  | _ => None
  end.
End Ymd.
Definition parse_ymd := parse_ymd_gen true.
(* the code before the repair of the oversized components *)
Definition parse_ymd_orig := parse_ymd_gen false.

Definition print_ymd (n : Z) :=
  let a := Z.abs n in let y := a / 12 in let m := a mod 12 in
  let sg := if n <? 0 then "-" else "" in
  match 0 <? y, 0 <? m with
  | false, false => "P0M"
  | false, true => sg ++ "P" ++ dec m ++ "M"
  | true, false => sg ++ "P" ++ dec y ++ "Y"
  | true, true => sg ++ "P" ++ dec y ++ "Y" ++ dec m ++ "M"
  end.

(* REGEX_DAYS_AND_TIME: -?P (digits D)? (T (digits H)? (digits M)? (digits (. digits-or-nothing)? S)?)? ; after the fix a text ending in T is rejected.
   reject_oversized = true (after the fix): a written days / hours / minutes / seconds number that does not fit u64 makes the
   literal invalid; false (before): it was skipped and the other components were read as if it had not been written. *)
Section Dtd.
Variable trailing_t_ok : bool.
Variable reject_oversized : bool.
Definition parse_dtd_gen (s : string) : option Z :=
  let (neg, s1) := match s with String "-"%char r => (true, r) | _ => (false, s) end in
  match s1 with
  | String "P"%char s2 =>
    let (cd, s3) := p_comp "D" s2 in
    let fin (ch cmi : option (option Z)) (sec : option (Z * Z)) (any_t : bool) :=
      let ok c := comp_present c && comp_fits c in
      let sec_ok := match sec with Some (v, _) => v <=? u64_max | None => false end in
      let sec_fits := match sec with Some (v, _) => v <=? u64_max | None => true end in
      if reject_oversized && negb (comp_fits cd && comp_fits ch && comp_fits cmi && sec_fits) then None else
      if ok cd || ok ch || ok cmi || sec_ok then
        let v c := if comp_fits c then comp_val c else 0 in
        let total := v cd * DAY_NS + v ch * HOUR_NS + v cmi * MIN_NS +
                     match sec with Some (sv, f) => (if sv <=? u64_max then sv * NS else 0) + f | None => 0 end in
        Some (if neg then - total else total)
      else None in
    match s3 with
    | "" => fin None None None false
    | String "T"%char s4 =>
      let (ch, s5) := p_comp "H" s4 in
      let (cmi, s6) := p_comp "M" s5 in
      let (ds, s7) := span_digits s6 in
      match ds, s7 with
      | [], "" => if String.eqb s4 "" && negb trailing_t_ok then None else fin ch cmi None true
      | _ :: _, String "S"%char "" => fin ch cmi (Some (num ds, 0)) true
      | _ :: _, String "."%char s8 =>
        let (fs, s9) := span_digits s8 in
        match s9 with
        | String "S"%char "" => fin ch cmi (Some (num ds, frac_nanos fs 100000000)) true
        | _ => None
        end
      | _, _ => None
      end
    | _ => None
    end
  | _ => None
  end.
End Dtd.
Definition parse_dtd := parse_dtd_gen false true.
(* the pinned commit: a trailing T accepted, oversized components skipped *)
Definition parse_dtd_orig := parse_dtd_gen true false.
(* the code before the repair of the oversized components (trailing T already rejected) *)
Definition parse_dtd_skip := parse_dtd_gen false false.

Definition print_dtd (n : Z) :=
  let a := Z.abs n in
  let d := dtd_days n in let h := dtd_hours n in let mi := dtd_minutes n in let s := dtd_seconds n in let f := dtd_subsec n in
  if a =? 0 then "PT0S" else
  (if n <? 0 then "-" else "") ++ "P" ++ (if 0 <? d then dec d ++ "D" else "") ++
  (if (0 <? h) || (0 <? mi) || (0 <? s) || (0 <? f) then
     "T" ++ (if 0 <? h then dec h ++ "H" else "") ++ (if 0 <? mi then dec mi ++ "M" else "") ++
     (if (0 <? s) || (0 <? f) then dec s ++ (if 0 <? f then "." ++ nanos_str f else "") ++ "S" else "")
   else "").

(* duration(text): years-and-months first, then days-and-time *)
Inductive dur := DYm (months : Z) | DDt (nanos : Z).
Section Duration.
Variable pymd pdtd : string -> option Z.
Definition parse_duration_gen (s : string) : option dur :=
  match pymd s with
  | Some n => Some (DYm n)
  | None => match pdtd s with Some n => Some (DDt n) | None => None end
  end.
End Duration.
Definition parse_duration := parse_duration_gen parse_ymd parse_dtd.
(* before the repair of the oversized components *)
Definition parse_duration_orig := parse_duration_gen parse_ymd_orig parse_dtd_skip.
