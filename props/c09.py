"""C09 — three-valued logic, equality and ordering obey their laws on all values.
Proof: coq/Props/C09.v (all values of any nesting depth).  Correspondence: every operator of the property is run
through parse + evaluate of the working tree on all ordered pairs / triples of a value alphabet and on random values
of the ordered kinds; the laws are evaluated on the implementation's own answers, and the answers are compared with
coq/C09/Model.v (the transliteration of builders.rs the theorems are about)."""
import itertools
import json
import os

from vlib import core

HEADER = ('From Coq Require Import List NArith ZArith Bool.\nFrom DV Require Import C09.Values C09.Model.\n'
          'Import ListNotations.\nOpen Scope Z_scope.\n')
ORIG = os.environ.get('C09_MODEL', '') == 'orig'      # development aid: compare with the model of the pinned commit
OPS9 = 'ops9_orig' if ORIG else 'ops9'
TRI = 'tri_orig' if ORIG else 'tri'

OPS = ['=', '!=', '<', '<=', '>', '>=', 'and', 'or', 'in']
EQ, NE, LT, LE, GT, GE, AND, OR, IN = range(9)
TRI_NAMES = ['x between a and b', 'x in [a..b]', 'x in (a..b]', 'x in [a..b)', 'x in (a..b)',
             'a <= x and x <= b', 'a < x and x <= b', 'a <= x and x < b', 'a < x and x < b']
PAIR_EXPR = '[va = vb, va != vb, va < vb, va <= vb, va > vb, va >= vb, va and vb, va or vb, va in vb]'
TRI_EXPR = ('[vx between va and vb, vx in [va..vb], vx in (va..vb], vx in [va..vb), vx in (va..vb), '
            'va <= vx and vx <= vb, va < vx and vx <= vb, va <= vx and vx < vb, va < vx and vx < vb]')
NULL, FALSE, TRUE, OTHER = 0, 1, 2, 3
SHOW = {0: 'null', 1: 'false', 2: 'true', 3: '?'}


# ------------------------------------------------------------------ values: (feel text, coq term, kind)
class V:
    __slots__ = ('feel', 'coq', 'kind')

    def __init__(self, feel, coq, kind):
        self.feel, self.coq, self.kind = feel, coq, kind

    def __repr__(self):
        return self.feel


def z(n):
    return str(n) if n >= 0 else '(%d)' % n


def num(text):
    t = text.lstrip('-')
    neg = text.startswith('-')
    if '.' in t:
        ip, fp = t.split('.')
        c, e = int(ip + fp), -len(fp)
    else:
        c, e = int(t), 0
    if neg:
        c = -c
    return V(text, '(VNum %s %s)' % (z(c), z(e)), 'num')


def cps(s):
    return '[%s]' % '; '.join('%d%%N' % ord(ch) for ch in s)


def st(s):
    assert '"' not in s and '\\' not in s
    return V('"%s"' % s, '(VStr %s)' % cps(s), 'str')


def ytext(y):
    return ('%04d' % y) if y >= 0 else '-%04d' % (-y)


def date(y, m, d):
    return V('date("%s-%02d-%02d")' % (ytext(y), m, d), '(VDate %s %d %d)' % (z(y), m, d), 'date')


def off_text(off):
    if off == 0:
        return 'Z'
    a = abs(off)
    return '%s%02d:%02d' % ('+' if off > 0 else '-', a // 3600, a % 3600 // 60)


def tod_text(h, mi, s, half):
    return '%02d:%02d:%02d%s' % (h, mi, s, '.5' if half else '')


def tod_ns(h, mi, s, half):
    return (h * 3600 + mi * 60 + s) * 10 ** 9 + (5 * 10 ** 8 if half else 0)


def time(h, mi, s, off, half=False):
    return V('time("%s%s")' % (tod_text(h, mi, s, half), off_text(off)), '(VTime %d %s)' % (tod_ns(h, mi, s, half), z(off)), 'time')


def dt(y, m, d, h, mi, s, off, half=False):
    return V('date and time("%s-%02d-%02dT%s%s")' % (ytext(y), m, d, tod_text(h, mi, s, half), off_text(off)),
             '(VDateTime %s %d %d %d %s)' % (z(y), m, d, tod_ns(h, mi, s, half), z(off)), 'datetime')


def dtd(text, secs):
    return V('duration("%s")' % text, '(VDtd %s)' % z(secs * 10 ** 9), 'dtd')


def ymd(text, months):
    return V('duration("%s")' % text, '(VYmd %s)' % z(months), 'ymd')


def lst(*vs):
    return V('[%s]' % ', '.join(v.feel for v in vs), '(VList [%s])' % '; '.join(v.coq for v in vs), 'list')


def cx(**kv):
    es = sorted(kv.items())
    return V('{%s}' % ', '.join('%s: %s' % (k, v.feel) for k, v in kv.items()),
             '(VCtx [%s])' % '; '.join('(%s, %s)' % (cps(k), v.coq) for k, v in es), 'context')


def rng(lo, lc, hi, hc):
    return V('%s%s..%s%s' % ('[' if lc else '(', lo.feel, hi.feel, ']' if hc else ')'),
             '(VRange %s %s %s %s)' % (lo.coq, 'true' if lc else 'false', hi.coq, 'true' if hc else 'false'), 'range')


def fun(params, body):
    return V('function(%s) %s' % (', '.join(params), body), '(VFun %d%%N)' % len(params), 'function')


VNULL = V('null', 'VNull', 'null')
VTRUE = V('true', '(VBool true)', 'boolean')
VFALSE = V('false', '(VBool false)', 'boolean')
ORDERED = ('num', 'str', 'date')


def alphabet():
    A = [VNULL, VTRUE, VFALSE]
    A += [num(t) for t in ['-1', '0', '-0', '1', '1.0', '1.00', '2', '0.1', '0.10', '1.5',
                           '12345678901234567890123456789012', '-12345678901234567890123456789012']]
    # a negative zero cannot be written (the literal -0 evaluates to +0): it only comes out of arithmetic; it equals every zero (seeded change C09_d)
    A += [V('(0 * -1)', '(VNum 0 0)', 'num'), V('(0.00 / -5)', '(VNum 0 0)', 'num')]
    A += [st(s) for s in ['', 'a', 'ab', 'b', 'B', '1', '\u00e9', '\ufffd', '\U0001F600']]
    # pairs that share two of the three components (seeded change C09_h: date equality compared the month with itself)
    A += [date(2021, 2, 1), date(2022, 1, 1), date(2020, 2, 28)]
    A += [date(2021, 1, 1), date(2021, 1, 2), date(2020, 2, 29), date(2020, 12, 31), date(-2021, 1, 1),
          date(999999999, 1, 1), date(999999999, 1, 2), date(-999999999, 12, 31)]
    A += [time(10, 0, 0, 0), time(11, 0, 0, 3600), time(10, 0, 0, 3600), time(10, 0, 0, 0, half=True), time(23, 59, 59, -5 * 3600)]
    A += [dt(2021, 1, 1, 10, 0, 0, 0), dt(2021, 1, 1, 11, 0, 0, 3600), dt(2021, 1, 2, 1, 0, 0, 14 * 3600), dt(2020, 12, 31, 23, 0, 0, -11 * 3600),
          dt(2021, 1, 1, 10, 0, 0, 0, half=True)]
    A += [dtd('P1D', 86400), dtd('PT24H', 86400), dtd('PT1H', 3600), dtd('-PT1H', -3600), dtd('PT0S', 0)]
    A += [ymd('P1Y', 12), ymd('P12M', 12), ymd('P1M', 1), ymd('-P1M', -1)]
    one, two, onez, a_, null = num('1'), num('2'), num('1.0'), st('a'), VNULL
    # lists of one boolean: a non-boolean operand of and / or counts as null even where a singleton list would be unwrapped for a function
    # argument (seeded change C09_f: and / or passed their operands through the boolean coercion)
    A += [lst(VTRUE), lst(VFALSE), lst(lst(VTRUE)), lst(VTRUE, VFALSE)]
    A += [lst(), lst(one), lst(onez), lst(null), lst(one, two), lst(two, one), lst(lst(one)), lst(one, a_), lst(a_), lst(rng(one, True, two, True))]
    A += [cx(), cx(a=one), cx(a=onez), cx(a=null), cx(b=one), cx(a=one, b=two), cx(b=two, a=one), cx(a=one, c=a_), cx(c=one, d=one),
          cx(a=cx(b=null)), cx(a=cx(b=one)), cx(a=lst(one))]
    A += [rng(one, True, two, True), rng(one, False, two, False), rng(a_, True, st('b'), False), rng(date(2021, 1, 1), True, date(2021, 1, 2), True)]
    A += [fun(['p'], 'p'), fun([], '1')]
    return A


def rand_num(r):
    k = r.random()
    if k < 0.3:
        c, e = r.randint(-30, 30), r.choice([0, 0, 1, 2, 3])
    elif k < 0.6:
        c, e = r.randint(-10 ** 6, 10 ** 6), r.randint(0, 6)
    else:
        c, e = r.randint(-10 ** 33, 10 ** 33), r.randint(0, 33)
    neg = c < 0
    digits = str(abs(c))
    if e:
        digits = digits.rjust(e + 1, '0')
        text = digits[:-e] + '.' + digits[-e:]
    else:
        text = digits
    # at most 34 significant digits so that the literal is exact
    return num(('-' if neg else '') + text)


def same_value_other_scale(r, v):
    if '.' in v.feel:
        return num(v.feel + '0' * r.randint(1, 2)) if len(v.feel) < 33 else v
    return num(v.feel + '.' + '0' * r.randint(1, 3)) if len(v.feel) < 30 else v


CHARS = ['a', 'b', 'c', 'A', 'Z', '0', ' ', '~', '\u00e9', '\u00ff', '\u0100', '\u07ff', '\u0800', '\u20ac', '\ud7ff', '\ue000', '\ufffd', '\uffff',
         '\U00010000', '\U0001F600', '\U0010FFFF']


def rand_str(r):
    return st(''.join(r.choice(CHARS) for _ in range(r.choice([0, 1, 1, 2, 2, 3, 5]))))


def rand_date(r):
    k = r.random()
    if k < 0.5:
        y = r.randint(1995, 2030)
    elif k < 0.7:
        y = r.choice([-1, 1]) * r.randint(1000, 9999)
    elif k < 0.85:
        y = r.choice([-1, 1]) * r.choice([262141, 262142, 262143, 262144, 262145])
    else:
        y = r.choice([-1, 1]) * r.randint(10 ** 5, 999999999)
    m = r.randint(1, 12)
    return date(y, m, r.randint(1, 28))


def rand_group(r, kind, n):
    gen = {'num': rand_num, 'str': rand_str, 'date': rand_date}[kind]
    g = [gen(r) for _ in range(n)]
    # equal values and near neighbours
    base = g[0]
    if kind == 'num':
        g[1] = same_value_other_scale(r, base)
    elif kind == 'str':
        g[1] = st(base.feel[1:-1] + r.choice(CHARS))
        g[2] = st(base.feel[1:-1])
    else:
        g[1] = V(base.feel, base.coq, 'date')
    return g


# ------------------------------------------------------------------ laws on the implementation's own answers
def not3(x):
    return {NULL: NULL, FALSE: TRUE, TRUE: FALSE}.get(x, OTHER)


def cls(v):
    return TRUE if v is VTRUE or v.feel == 'true' else FALSE if v.feel == 'false' else NULL


def kleene_and(a, b):
    if a == FALSE or b == FALSE:
        return FALSE
    if a == TRUE and b == TRUE:
        return TRUE
    return NULL


def kleene_or(a, b):
    if a == TRUE or b == TRUE:
        return TRUE
    if a == FALSE and b == FALSE:
        return FALSE
    return NULL


def pair_laws(a, b, rab, rba):
    """laws that involve the ordered pair (a, b) and its mirror; yields descriptions of failures"""
    if rab[AND] != kleene_and(cls(a), cls(b)):
        yield "'and' differs from the three-valued table (non-booleans as null): %s" % SHOW[rab[AND]]
    if rab[OR] != kleene_or(cls(a), cls(b)):
        yield "'or' differs from the three-valued table (non-booleans as null): %s" % SHOW[rab[OR]]
    if rab[EQ] != rba[EQ]:
        yield 'a = b is %s but b = a is %s' % (SHOW[rab[EQ]], SHOW[rba[EQ]])
    if rab[NE] != not3(rab[EQ]):
        yield 'a != b is %s but a = b is %s' % (SHOW[rab[NE]], SHOW[rab[EQ]])
    if rab[LT] != rba[GT]:
        yield 'a < b is %s but b > a is %s' % (SHOW[rab[LT]], SHOW[rba[GT]])
    if rab[LE] != rba[GE]:
        yield 'a <= b is %s but b >= a is %s' % (SHOW[rab[LE]], SHOW[rba[GE]])
    if a.kind == b.kind and a.kind in ORDERED:
        three = [rab[LT], rab[EQ], rab[GT]]
        if sorted(three) != [FALSE, FALSE, TRUE]:
            yield 'not exactly one of a < b, a = b, a > b is true: %s' % [SHOW[x] for x in three]
        if rab[LE] != kleene_or(rab[LT], rab[EQ]):
            yield 'a <= b is %s but (a < b or a = b) is %s' % (SHOW[rab[LE]], SHOW[kleene_or(rab[LT], rab[EQ])])


def tri_laws(x, a, b, r):
    if x.kind == a.kind == b.kind and x.kind in ORDERED:
        for i, j in ((0, 1), (0, 5), (2, 6), (3, 7), (4, 8)):
            if r[i] != r[j] or r[i] not in (TRUE, FALSE):
                yield "'%s' is %s but '%s' is %s" % (TRI_NAMES[i], SHOW[r[i]], TRI_NAMES[j], SHOW[r[j]])


def far(v):
    """dates outside the year range of chrono (class of the date-ordering finding, if it is listed rather than repaired)"""
    if v.kind != 'date':
        return False
    y = int(v.coq.split()[1].strip('()'))
    return not (-262143 <= y <= 262142)



# ------------------------------------------------------------------ date-times and times in named zones (laws on the implementation's answers + zoneinfo oracle)
ZPAIR_EXPR = ('[va = vb, va != vb, va < vb, va <= vb, va > vb, va >= vb, va and vb, va or vb, va in vb, '
              'va in (< vb), va in (<= vb), va in (> vb), va in (>= vb)]')
ULT, ULE, UGT, UGE = 9, 10, 11, 12
ZOPS = OPS + ['in (< b)', 'in (<= b)', 'in (> b)', 'in (>= b)']
ZTRI_EXPR = ('[vx between va and vb, vx in [va..vb], vx in (va..vb], vx in [va..vb), vx in (va..vb), '
             'vx in (>= va) and vx in (<= vb), vx in (> va) and vx in (<= vb), vx in (>= va) and vx in (< vb), vx in (> va) and vx in (< vb)]')
ZTRI_NAMES = TRI_NAMES[:5] + ['x in (>= a) and x in (<= b)', 'x in (> a) and x in (<= b)', 'x in (>= a) and x in (< b)', 'x in (> a) and x in (< b)']
# (zone, date of an offset change, local wall-clock minutes before the gap/overlap, after it) — both hemispheres, 1990..2021
TRANSITIONS = [
    ('Europe/Warsaw', (2021, 3, 28), [(1, 30), (1, 59)], [(3, 0), (3, 10), (3, 30)]),          # 02:00 -> 03:00
    ('Europe/Warsaw', (2021, 10, 31), [(1, 30), (1, 59)], [(3, 0), (3, 30)]),                 # 03:00 -> 02:00 (02:xx ambiguous, not used)
    ('America/New_York', (2021, 3, 14), [(1, 30), (1, 45)], [(3, 0), (3, 15)]),
    ('America/New_York', (2021, 11, 7), [(0, 30), (0, 59)], [(2, 0), (2, 30)]),
    ('Australia/Sydney', (2021, 4, 4), [(1, 30), (1, 59)], [(3, 0), (3, 20)]),                # southern hemisphere: 03:00 -> 02:00 in April
    ('Australia/Sydney', (2021, 10, 3), [(1, 30), (1, 50)], [(3, 0), (3, 10)]),               # 02:00 -> 03:00 in October
    ('Pacific/Auckland', (1999, 10, 3), [(1, 30)], [(3, 0), (3, 25)]),
    ('Europe/London', (1996, 3, 31), [(0, 30), (0, 59)], [(2, 0), (2, 20)]),
]


class ZV(V):
    __slots__ = ('instant', 'cluster')


def zoned_values():
    """clusters of date-times around an offset change: the named-zone spelling, the same instant with Z and with its explicit offset"""
    import datetime
    import zoneinfo
    utc = datetime.timezone.utc
    out = []
    for ci, (zone, (y, mo, d), before, after) in enumerate(TRANSITIONS):
        z = zoneinfo.ZoneInfo(zone)
        for h, mi in before + after:
            naive = datetime.datetime(y, mo, d, h, mi, 0)
            a0, a1 = naive.replace(tzinfo=z, fold=0), naive.replace(tzinfo=z, fold=1)
            if a0.utcoffset() != a1.utcoffset() or a0.astimezone(utc).astimezone(z).replace(tzinfo=None) != naive:
                continue        # ambiguous or skipped local time: excepted by the property
            u = a0.astimezone(utc)
            inst = int(u.timestamp())
            off = int(a0.utcoffset().total_seconds())
            texts = ['%04d-%02d-%02dT%02d:%02d:00@%s' % (y, mo, d, h, mi, zone),
                     u.strftime('%Y-%m-%dT%H:%M:%SZ'),
                     '%04d-%02d-%02dT%02d:%02d:00%s' % (y, mo, d, h, mi, off_text(off))]
            if ci % 2 == 0:
                texts.append(u.strftime('%Y-%m-%dT%H:%M:%S@Etc/UTC'))
            for t in texts:
                v = ZV('date and time("%s")' % t, None, 'zdt')
                v.instant, v.cluster = inst, ci
                out.append(v)
    return out


def zoned_times():
    ts = []
    for t in ['10:00:00@Europe/Warsaw', '10:00:00@Etc/UTC', '10:00:00Z', '09:00:00@Europe/London', '04:00:00@America/New_York', '20:00:00@Australia/Sydney',
              '08:00:00Z', '09:00:00Z', '10:00:00+02:00', '10:00:00+01:00', '22:00:00@Pacific/Auckland', '05:00:00@America/New_York']:
        v = ZV('time("%s")' % t, None, 'ztime')
        v.instant, v.cluster = None, -1
        ts.append(v)
    return ts


def zpair_laws(a, b, rab, rba):
    if rab[EQ] != rba[EQ]:
        yield 'a = b is %s but b = a is %s' % (SHOW[rab[EQ]], SHOW[rba[EQ]])
    if rab[NE] != not3(rab[EQ]):
        yield 'a != b is %s but a = b is %s' % (SHOW[rab[NE]], SHOW[rab[EQ]])
    if rab[LT] != rba[GT]:
        yield 'a < b is %s but b > a is %s' % (SHOW[rab[LT]], SHOW[rba[GT]])
    if rab[LE] != rba[GE]:
        yield 'a <= b is %s but b >= a is %s' % (SHOW[rab[LE]], SHOW[rba[GE]])
    if rab[AND] != NULL or rab[OR] != NULL:
        yield "'and' / 'or' of two non-booleans is not null"
    if a.kind == b.kind:
        if rab[ULT] != rba[UGT]:
            yield 'a in (< b) is %s but b in (> a) is %s' % (SHOW[rab[ULT]], SHOW[rba[UGT]])
        if rab[ULE] != rba[UGE]:
            yield 'a in (<= b) is %s but b in (>= a) is %s' % (SHOW[rab[ULE]], SHOW[rba[UGE]])
        three = [rab[ULT], rab[EQ], rab[UGT]]
        if sorted(three) != [FALSE, FALSE, TRUE]:
            yield 'not exactly one of a in (< b), a = b, a in (> b) is true: %s' % [SHOW[x] for x in three]
        if rab[ULE] != kleene_or(rab[ULT], rab[EQ]):
            yield 'a in (<= b) is %s but (a in (< b) or a = b) is %s' % (SHOW[rab[ULE]], SHOW[kleene_or(rab[ULT], rab[EQ])])
        if rab[IN] != rab[EQ]:
            yield 'a in b is %s but a = b is %s' % (SHOW[rab[IN]], SHOW[rab[EQ]])


def b3(x):
    return TRUE if x else FALSE


def zoned_section(ctx):
    Z = zoned_values()
    T = zoned_times()
    n_pairs = n_tri = 0
    for group, label in ((Z, 'date-times in named zones'), (T, 'times in named zones')):
        pairs = [(a, b) for a in group for b in group]
        reqs = [{'ctx': '{va: %s, vb: %s}' % (a.feel, b.feel), 'e': ZPAIR_EXPR} for a, b in pairs]
        table = {}
        for (a, b), r in zip(pairs, ctx.run_impl('feel', reqs, shards=16)):
            v = r.get('v')
            table[(a.feel, b.feel)] = [code(x) for x in v] if isinstance(v, list) and len(v) == 13 else ('fail', r)
        for a, b in pairs:
            ctx.evaluations += 1
            n_pairs += 1
            rab, rba = table[(a.feel, b.feel)], table[(b.feel, a.feel)]
            case = {'a': a.feel, 'b': b.feel, 'expr': ZPAIR_EXPR, 'operators': ZOPS}
            if rab[0] == 'fail' or rba[0] == 'fail':
                bad = rab if rab[0] == 'fail' else rba
                ctx.violation('evaluation of the operators failed or panicked: %s' % (bad[1],), case, impl=bad[1])
                continue
            ctx.nontrivial.add((a.feel, b.feel))
            fails = list(zpair_laws(a, b, rab, rba))
            if fails:
                ctx.violation('%s  [a = %s, b = %s]' % (fails[0], a.feel, b.feel), case,
                              impl={'a op b': dict(zip(ZOPS, [SHOW[x] for x in rab])), 'b op a': dict(zip(ZOPS, [SHOW[x] for x in rba]))}, laws_failed=fails)
                continue
            ctx.corr_checked += 1
            if a.instant is not None:
                want = {EQ: b3(a.instant == b.instant), ULT: b3(a.instant < b.instant), ULE: b3(a.instant <= b.instant),
                        UGT: b3(a.instant > b.instant), UGE: b3(a.instant >= b.instant)}
                diff = [ZOPS[i] for i, w in want.items() if rab[i] != w]
                if diff:
                    ctx.corr_broken('%s: operators %s differ from the instants computed with zoneinfo' % (label, diff), case,
                                    [SHOW[x] for x in rab], {ZOPS[i]: SHOW[w] for i, w in want.items()})
    # triples inside a cluster (values less than two hours apart around one offset change, in all spellings)
    triples = []
    for ci in sorted(set(v.cluster for v in Z)):
        g = [v for v in Z if v.cluster == ci]
        if ctx.quick:
            g = g[::2] if len(g) > 10 else g
        triples += [(x, a, b) for x in g for a in g for b in g]
    reqs = [{'ctx': '{vx: %s, va: %s, vb: %s}' % (x.feel, a.feel, b.feel), 'e': ZTRI_EXPR} for x, a, b in triples]
    for (x, a, b), r in zip(triples, ctx.run_impl('feel', reqs, shards=16)):
        ctx.evaluations += 1
        n_tri += 1
        case = {'x': x.feel, 'a': a.feel, 'b': b.feel, 'expr': ZTRI_EXPR, 'names': ZTRI_NAMES}
        v = r.get('v')
        if not isinstance(v, list) or len(v) != 9:
            ctx.violation('evaluation of between / in failed or panicked: %s' % (r,), case, impl=r)
            continue
        c = [code(t) for t in v]
        fails = ["'%s' is %s but '%s' is %s" % (ZTRI_NAMES[i], SHOW[c[i]], ZTRI_NAMES[j], SHOW[c[j]])
                 for i, j in ((0, 1), (0, 5), (2, 6), (3, 7), (4, 8)) if c[i] != c[j] or c[i] not in (TRUE, FALSE)]
        if fails:
            ctx.violation('%s  [x = %s, a = %s, b = %s]' % (fails[0], x.feel, a.feel, b.feel), case, impl=dict(zip(ZTRI_NAMES, [SHOW[t] for t in c])), laws_failed=fails)
            continue
        ctx.corr_checked += 1
        ctx.nontrivial.add((x.feel, a.feel, b.feel))
        want = b3(a.instant <= x.instant <= b.instant)
        if c[0] != want:
            ctx.corr_broken('date-times in named zones: between differs from the instants computed with zoneinfo', case, SHOW[c[0]], SHOW[want])
    ctx.sample({'zoned_pair': {'a': Z[0].feel, 'b': Z[5].feel}})
    return {'zoned_date_times': len(Z), 'zoned_times': len(T), 'zoned_pairs': n_pairs, 'zoned_triples': n_tri, 'zones': sorted(set(t[0] for t in TRANSITIONS))}


# ------------------------------------------------------------------ running
def utf8_section(ctx):
    """coq/C09/Utf8.v proves that the byte order of `encode` is the code-point order; here the Coq `utf8` function is
    compared with an independent encoder (CPython) on both ends of every length class, of the surrogate gap and on random scalars."""
    r = ctx.rng
    pts = [0, 1, 0x41, 0x7F, 0x80, 0xE9, 0x7FF, 0x800, 0x20AC, 0xD7FF, 0xE000, 0xFFFD, 0xFFFF, 0x10000, 0x1F600, 0x3FFFF, 0x40000, 0xFFFFF, 0x100000, 0x10FFFF]
    while len(pts) < ctx.pick(400, 4000):
        c = r.choice([r.randrange(0x80), r.randrange(0x80, 0x800), r.randrange(0x800, 0x10000), r.randrange(0x10000, 0x110000)])
        if not 0xD800 <= c <= 0xDFFF:
            pts.append(c)
    hdr = 'From Coq Require Import List NArith.\nFrom DV Require Import C09.Utf8.\nImport ListNotations.\nOpen Scope N_scope.\n'
    got = ctx.run_model(hdr, ['map utf8 [%s]' % '; '.join(str(c) for c in pts)], tag='utf8%d' % os.getpid())[0]
    for c, m in zip(pts, got):
        want = list(chr(c).encode('utf-8'))
        if list(m) != want:
            ctx.corr_broken('the Coq utf8 function differs from the UTF-8 encoding', {'code_point': c}, want, list(m))
    return {'utf8_points_compared': len(pts)}


def code(j):
    return NULL if j is None else TRUE if j is True else FALSE if j is False else OTHER


def impl_pairs(ctx, pairs):
    reqs = [{'ctx': '{va: %s, vb: %s}' % (a.feel, b.feel), 'e': PAIR_EXPR} for a, b in pairs]
    out = []
    for (a, b), r in zip(pairs, ctx.run_impl('feel', reqs)):
        v = r.get('v')
        if not isinstance(v, list) or len(v) != 9:
            out.append(('fail', r))
        else:
            out.append([code(x) for x in v])
    return out


def impl_triples(ctx, triples):
    reqs = [{'ctx': '{vx: %s, va: %s, vb: %s}' % (x.feel, a.feel, b.feel), 'e': TRI_EXPR} for x, a, b in triples]
    out = []
    for r in ctx.run_impl('feel', reqs, shards=16):
        v = r.get('v')
        if not isinstance(v, list) or len(v) != 9:
            out.append(('fail', r))
        else:
            out.append([code(x) for x in v])
    return out


def case_pair(a, b):
    return {'a': a.feel, 'b': b.feel, 'expr': PAIR_EXPR, 'operators': OPS}


def case_tri(x, a, b):
    return {'x': x.feel, 'a': a.feel, 'b': b.feel, 'expr': TRI_EXPR}


def check_pairs(ctx, items, table, model, label):
    """items: list of (a, b, key_ab, key_ba); table: key -> impl codes; model: key -> model codes"""
    for a, b, kab, kba in items:
        rab, rba = table[kab], table[kba]
        ctx.evaluations += 1
        if rab[0] == 'fail' or rba[0] == 'fail':
            bad = rab if rab[0] == 'fail' else rba
            ctx.violation('evaluation of the operators failed or panicked: %s' % (bad[1],), case_pair(a, b), impl=bad[1])
            continue
        if a.kind == b.kind or NULL not in (rab[EQ], rab[LT]) or a.kind in ('null', 'boolean') or b.kind in ('null', 'boolean'):
            ctx.nontrivial.add((a.feel, b.feel))
        fails = list(pair_laws(a, b, rab, rba))
        if fails:
            ctx.violation('%s  [a = %s, b = %s]' % (fails[0], a.feel, b.feel), case_pair(a, b),
                          impl={'a op b': dict(zip(OPS, [SHOW[x] for x in rab])), 'b op a': dict(zip(OPS, [SHOW[x] for x in rba]))}, laws_failed=fails)
        ctx.corr_checked += 1
        m = model[kab]
        if m != rab:
            diff = [OPS[i] for i in range(9) if m[i] != rab[i]]
            ctx.corr_broken('%s operators %s' % (label, diff), case_pair(a, b), [SHOW[x] for x in rab], [SHOW[x] for x in m])


def check_triples(ctx, triples, impl, model, label):
    for (x, a, b), r, m in zip(triples, impl, model):
        ctx.evaluations += 1
        if r[0] == 'fail':
            ctx.violation('evaluation of between / in failed or panicked: %s' % (r[1],), case_tri(x, a, b), impl=r[1])
            continue
        if x.kind == a.kind == b.kind:
            ctx.nontrivial.add((x.feel, a.feel, b.feel))
        fails = list(tri_laws(x, a, b, r))
        if fails:
            ctx.violation('%s  [x = %s, a = %s, b = %s]' % (fails[0], x.feel, a.feel, b.feel), case_tri(x, a, b),
                          impl=dict(zip(TRI_NAMES, [SHOW[v] for v in r])), laws_failed=fails)
        ctx.corr_checked += 1
        if m != r:
            diff = [TRI_NAMES[i] for i in range(9) if m[i] != r[i]]
            ctx.corr_broken('%s %s' % (label, diff), case_tri(x, a, b), [SHOW[v] for v in r], [SHOW[v] for v in m])


def run(ctx):
    ctx.proof_gate()
    ctx.build_harness()
    r = ctx.rng
    A = alphabet()
    n = len(A)
    udef = HEADER + 'Definition U : list value := [%s].\n' % ';\n '.join(v.coq for v in A)
    # ---- all ordered pairs of the alphabet x 9 operators
    pairs = [(a, b) for a in A for b in A]
    impl = impl_pairs(ctx, pairs)
    rows = ctx.run_model(udef, ['map (fun b => %s %s b) U' % (OPS9, a.coq) for a in A], shard_size=max(1, n // 16 + 1), tag='pairs%d' % os.getpid())
    table = {(i, j): impl[i * n + j] for i in range(n) for j in range(n)}
    model = {(i, j): rows[i][j] for i in range(n) for j in range(n)}
    check_pairs(ctx, [(A[i], A[j], (i, j), (j, i)) for i in range(n) for j in range(n)], table, model, 'alphabet pair:')
    ctx.sample({'pair': case_pair(A[4], A[8]), 'impl': dict(zip(OPS, [SHOW[x] for x in table[(4, 8)]]))})
    # ---- triples: all triples of the ordered-kind values, a sample (quick) or all (thorough) of the mixed ones
    oidx = [i for i in range(n) if A[i].kind in ORDERED]
    tset = [(i, j, k) for i in oidx for j in oidx for k in oidx if A[i].kind == A[j].kind == A[k].kind]
    seen = set(tset)
    if ctx.quick:
        extra = set()
        want = 6000
        while len(extra) < want:
            t = (r.randrange(n), r.randrange(n), r.randrange(n))
            if r.random() < 0.5:      # same kind for the two bounds
                same = [k for k in range(n) if A[k].kind == A[t[1]].kind]
                t = (t[0], t[1], r.choice(same))
            if r.random() < 0.5:
                same = [k for k in range(n) if A[k].kind == A[t[1]].kind]
                t = (r.choice(same), t[1], t[2])
            if t not in seen:
                extra.add(t)
        tset += sorted(extra)
    else:
        tset += [t for t in itertools.product(range(n), repeat=3) if t not in seen]
    triples = [(A[i], A[j], A[k]) for i, j, k in tset]
    timpl = impl_triples(ctx, triples)
    tmodel = ctx.run_model(udef + 'Definition u (i : nat) := nth i U VNull.\n', ['%s (u %d) (u %d) (u %d)' % (TRI, i, j, k) for i, j, k in tset], shard_size=max(250, len(tset) // 16 + 1), tag='tri%d' % os.getpid())
    check_triples(ctx, triples, timpl, tmodel, 'alphabet triple:')
    ctx.sample({'triple': case_tri(*triples[7]), 'impl': dict(zip(TRI_NAMES, [SHOW[v] for v in timpl[7]]))})
    # ---- random values of each ordered kind: groups of 5, all ordered pairs and triples within a group
    groups = []
    for _ in range(ctx.pick(40, 400)):
        for kind in ORDERED:
            groups.append(rand_group(r, kind, 5))
    rp, rt = [], []
    for g in groups:
        rp += [(a, b) for a in g for b in g]
        rt += [(x, a, b) for x in g for a in g for b in g]
    rimpl = impl_pairs(ctx, rp)
    rmodel = ctx.run_model(HEADER, ['%s %s %s' % (OPS9, a.coq, b.coq) for a, b in rp], shard_size=max(250, len(rp) // 16 + 1), tag='rpairs%d' % os.getpid())
    table = {}
    for (a, b), ri in zip(rp, rimpl):
        table[(a.feel, b.feel)] = ri
    model = {}
    for (a, b), rm in zip(rp, rmodel):
        model[(a.feel, b.feel)] = rm
    check_pairs(ctx, [(a, b, (a.feel, b.feel), (b.feel, a.feel)) for a, b in rp], table, model, 'random pair:')
    rtimpl = impl_triples(ctx, rt)
    rtmodel = ctx.run_model(HEADER, ['%s %s %s %s' % (TRI, x.coq, a.coq, b.coq) for x, a, b in rt], shard_size=max(250, len(rt) // 16 + 1), tag='rtri%d' % os.getpid())
    check_triples(ctx, rt, rtimpl, rtmodel, 'random triple:')
    ctx.sample({'random_group': [v.feel for v in groups[-1]]})
    zcov = zoned_section(ctx)
    zcov.update(utf8_section(ctx))
    kinds = {}
    for v in A:
        kinds[v.kind] = kinds.get(v.kind, 0) + 1
    return ctx.finish(
        rule='all ordered pairs of a %d-value alphabet (%s) x 9 operators (= != < <= > >= and or in) exhaustively; all same-kind triples of its numbers, strings and dates and '
             '%s for between / in [a..b] (a..b] [a..b) (a..b) / the four conjunctions; random groups of 5 numbers (scales 0..33, equal values with different scale), strings over '
             'ASCII / BMP / supplementary planes, dates (near and far beyond the chrono year range) with all pairs and triples inside a group. Laws (Kleene tables with non-booleans as null, '
             '= symmetric, != negation, < / > and <= / >= mirrored, trichotomy, <= iff < or =, between = in = conjunction) are evaluated on the implementation\'s own answers; '
             'all answers are compared with the Coq model. Date-times in named IANA zones (Warsaw, London, New York, Sydney, Auckland, Etc/UTC) just before / after an offset change, '
             'the same instants written with Z and with explicit offsets, and times in named zones: all ordered pairs x 13 operators (the 9 plus in (< b), (<= b), (> b), (>= b)) and all triples inside a change for between / in / '
             'conjunction of unary tests, laws on the implementation\'s answers, truth values against instants computed with zoneinfo. non-trivial = same-kind pair / triple, an operand that is null or boolean, or a non-null comparison'
             % (n, ', '.join('%d %s' % (c, k) for k, c in sorted(kinds.items())), 'a sample of 6000 mixed-kind triples' if ctx.quick else 'all other triples of the alphabet'),
        extra_cov={'exhaustive': not ctx.quick, 'exhaustive_note': 'pairs of the alphabet: yes; triples: %s' % ('ordered kinds only + sample' if ctx.quick else 'yes'), 'alphabet_size': n, 'alphabet_kinds': kinds,
                   'alphabet_triples': len(tset), 'random_groups': len(groups), 'model_variant': 'orig' if ORIG else 'current', **zcov},
        assumptions=['the Coq model covers times and date-times with explicit offsets or Z; named zones are checked by laws and a zoneinfo oracle (years 1990..2021, no ambiguous or skipped local times); local times depend on the host and are not used',
                     'context keys are plain single-part names'],
        trusted=['String::cmp / Name::cmp compare the UTF-8 bytes of a Rust String (language / std guarantee); that the lexicographic byte order of the encodings equals the code-point order '
                 'of the model is PROVED for all strings of scalar values (C09_utf8_order_is_code_point_order, coq/C09/Utf8.v); the Coq utf8 function is compared with an independent encoder on all class boundaries',
                 'decNumber compare is exact (modelled as exact comparison of c*10^e); chrono instants of date-times (modelled with days_from_civil)'])


def replay(ctx, path):
    obj = json.load(open(path))
    ctx.build_harness()
    c = obj.get('case')
    if not c:
        print(json.dumps(obj, indent=1))
        return 1
    if 'x' in c:
        reqs = [{'ctx': '{vx: %s, va: %s, vb: %s}' % (c['x'], c['a'], c['b']), 'e': c.get('expr', TRI_EXPR)}]
        names = c.get('names', TRI_NAMES)
    else:
        e = c.get('expr', PAIR_EXPR)
        reqs = [{'ctx': '{va: %s, vb: %s}' % (c['a'], c['b']), 'e': e}, {'ctx': '{va: %s, vb: %s}' % (c['b'], c['a']), 'e': e}]
        names = c.get('operators', OPS)
    print('what:', obj.get('what'))
    for q, ans in zip(reqs, ctx.run_impl('feel', reqs)):
        print('context:', q['ctx'])
        v = ans.get('v')
        if isinstance(v, list):
            for nme, x in zip(names, v):
                print('   %-22s %s' % (nme, json.dumps(x)))
        else:
            print('   ', ans)
    return 1


MANIFEST = dict(
    technique='Coq proof (transliteration of eval_ternary_equality and the comparison / logic / between / in evaluators; symmetry, negation, mirror, Kleene, trichotomy and between/in/conjunction laws for all values) with exhaustive-alphabet model/code correspondence',
    text="Theorems (coq/Props/C09.v, closed under the global context) hold for all values of any nesting depth (contexts with unique sorted keys): 'and'/'or' are the Kleene tables with every non-boolean as null; a = b and b = a agree; != is the negation; < / > and <= / >= are mirror images for all pairs including mixed kinds; strings are ordered by code point and this is proved to be the order of their UTF-8 bytes (what Rust compares) for all strings; for numbers, strings and dates exactly one of <, =, > holds, <= is (< or =), and between, in [a..b] and the conjunction agree with open ends as strict comparisons. The independently written evaluator model of C01 (coq/C01/Syntax.v: veq, cmp_lt/cmp_le, and3/or3, between_eval, in_range, in_eval) is proved to be the same functions on all values both models express (coq/C09/LinkC01.v, C09_equality_is_evaluator_equality ... C09_in_is_evaluator_in), so these laws also hold for C01's evaluator (C09_evaluator_equality_symmetric, C09_evaluator_trichotomy, C09_evaluator_between_is_conjunction, ...). Tied to feel-evaluator/src/builders.rs by running all ordered pairs x 9 operators and the triples of a value alphabet plus random numbers / strings / dates through parse + evaluate; the laws are evaluated on the implementation's own answers and all answers are compared with the model.",
    note='Trusted: Coq kernel + vm_compute, hand-written model of builders.rs and of the comparison primitives (correspondence-checked), Rust strings being UTF-8 and compared bytewise (byte order = code-point order is proved, not trusted), exactness of decNumber compare, harness. Local times / named zones are out of scope (C14/C15).')
