(* C12 — proofs over coq/C12/Model.v.  (owner: builder-total) *)
From Coq Require Import List Arith Bool PeanoNat Lia.
From DV Require Import C12.Model.
Import ListNotations.

(* ------------------------------------------------------------------ tables: build *)
Lemma all_in_bounds_iff : forall n len, all_in_bounds n len = true <-> n <= len.
Proof.
  intros n len. unfold all_in_bounds. rewrite forallb_forall. split.
  - intros H. destruct n as [|k]; [lia|]. specialize (H k). rewrite in_seq in H. apply Nat.ltb_lt in H; lia.
  - intros H i Hi. apply in_seq in Hi. apply Nat.ltb_lt. lia.
Qed.

Lemma all_in_bounds_refl : forall n, all_in_bounds n n = true.
Proof. intros n. apply all_in_bounds_iff. lia. Qed.

Lemma table_build_rules_total : forall ic oc rs, table_build_rules ic oc rs = Ok \/ table_build_rules ic oc rs = Err.
Proof.
  induction rs as [|r rest IH]; cbn [table_build_rules]; [left; reflexivity|].
  destruct (in_entries r =? ic) eqn:E1; cbn [negb]; [|right; reflexivity].
  destruct (out_entries r =? oc) eqn:E2; cbn [negb]; [|right; reflexivity].
  apply Nat.eqb_eq in E1, E2. rewrite E1, E2, !all_in_bounds_refl. cbn [negb]. exact IH.
Qed.

Lemma table_build_total : forall t, table_build t = Ok \/ table_build t = Err.
Proof. intros t. apply table_build_rules_total. Qed.

Lemma table_build_ok_iff : forall t, table_build t = Ok <-> Forall (fun r => in_entries r = in_clauses t /\ out_entries r = out_clauses t) (rules t).
Proof.
  intros [pol ic os rs]. unfold table_build, out_clauses. cbn [in_clauses outs rules]. generalize (length os) as oc. intros oc.
  induction rs as [|r rest IH]; cbn [table_build_rules]; [split; [constructor | reflexivity]|].
  destruct (in_entries r =? ic) eqn:E1; cbn [negb].
  - destruct (out_entries r =? oc) eqn:E2; cbn [negb].
    + apply Nat.eqb_eq in E1, E2. rewrite E1, E2, !all_in_bounds_refl. cbn [negb]. rewrite IH.
      split; [intros H; constructor; auto | intros H; inversion H; assumption].
    + apply Nat.eqb_neq in E2. split; [discriminate | intros H; inversion H as [|? ? [_ Ho] _]; contradiction].
  - apply Nat.eqb_neq in E1. split; [discriminate | intros H; inversion H as [|? ? [Hi _] _]; contradiction].
Qed.

(* the pinned builder panics exactly when some rule is shorter than the clauses *)
Lemma table_build_orig_crash_iff : forall t,
  (exists s, table_build_orig t = Panic s) <-> Exists (fun r => in_entries r < in_clauses t \/ out_entries r < out_clauses t) (rules t).
Proof.
  intros [pol ic os rs]. unfold table_build_orig, out_clauses. cbn [in_clauses outs rules]. generalize (length os) as oc. intros oc.
  induction rs as [|r rest IH]; cbn [table_build_rules_orig].
  - split; [intros [s H]; discriminate | intros H; inversion H].
  - destruct (all_in_bounds ic (in_entries r)) eqn:E1; cbn [negb].
    + apply all_in_bounds_iff in E1. destruct (all_in_bounds oc (out_entries r)) eqn:E2; cbn [negb].
      * apply all_in_bounds_iff in E2. rewrite IH. split; [intros H; right; exact H | intros H; inversion H as [? ? [Hx|Hx]|]; [lia | lia | assumption]].
      * assert (Hlt : out_entries r < oc). { destruct (Nat.le_gt_cases oc (out_entries r)) as [Hle|Hgt]; [apply all_in_bounds_iff in Hle; congruence | exact Hgt]. }
        split; [intros _; left; right; exact Hlt | intros _; eexists; reflexivity].
    + assert (Hlt : in_entries r < ic). { destruct (Nat.le_gt_cases ic (in_entries r)) as [Hle|Hgt]; [apply all_in_bounds_iff in Hle; congruence | exact Hgt]. }
      split; [intros _; left; left; exact Hlt | intros _; eexists; reflexivity].
Qed.

(* ------------------------------------------------------------------ tables: evaluation.  Every index site of the current code is guarded where
   it stands (a length test or an emptiness test right before it), so the evaluation gives a value for EVERY table, built or not *)
Definition got {A : Type} (x : res A) : Prop := exists a, x = Got a.

Lemma got_bind : forall (A B : Type) (x : res A) (k : A -> res B), got x -> (forall a, got (k a)) -> got (bind x k).
Proof. intros A B x k [a ->] Hk. cbn [bind]. apply Hk. Qed.

Lemma got_map_res : forall (A B : Type) (f : A -> res B) l, (forall x, got (f x)) -> got (map_res f l).
Proof.
  intros A B f l Hf. induction l as [|x r IH]; cbn [map_res]; [eexists; reflexivity|].
  apply got_bind; [apply Hf|]. intros y. apply got_bind; [exact IH|]. intros ys. eexists; reflexivity.
Qed.

Lemma got_at0 : forall (A B : Type) (l : list A) site (k : A -> res B), is_empty l = false -> (forall a, got (k a)) -> got (at0 l site k).
Proof. intros A B [|x l] site k He Hk; [discriminate | apply Hk]. Qed.

Lemma get_result_got : forall n r, got (get_result n r).
Proof.
  intros n r. unfold get_result. destruct (1 <? length (outv r)).
  - destruct (length (outv r) =? n) eqn:E; cbn [negb]; [|eexists; reflexivity].
    apply Nat.eqb_eq in E. rewrite <- E, all_in_bounds_refl. eexists; reflexivity.
  - destruct (outv r); eexists; reflexivity.
Qed.

Lemma default_value_got : forall t, got (default_value t).
Proof.
  intros t. unfold default_value. destruct (forallb is_none (map odefault (outs t))); [eexists; reflexivity|].
  destruct (length (map odefault (outs t)) =? 1) eqn:E1.
  - apply Nat.eqb_eq in E1. destruct (map odefault (outs t)) as [|d ds]; [discriminate|]. eexists; reflexivity.
  - destruct (negb (length (map odefault (outs t)) =? names t)); eexists; reflexivity.
Qed.

Lemma any_loop_got : forall n first l, got (any_loop get_result n first l).
Proof.
  intros n first l. induction l as [|r rest IH]; cbn [any_loop]; [eexists; reflexivity|].
  apply got_bind; [apply get_result_got|]. intros x. destruct (result_eqb x first); [exact IH | eexists; reflexivity].
Qed.

(* with get_result as it is now, whatever computes the first output values for the aggregators: a panic of the evaluation is a panic of that
   computation, under hit policy COLLECT with SUM / MIN / MAX, at most one named output clause and at least one matching rule *)
Lemma table_eval_with_panic : forall fv t m s, table_eval_with get_result fv t m = EvalPanic s ->
  is_aggregate (policy t) = true /\ names t <= 1 /\ fv (matching_rules (rules t) m) = EvalPanic s.
Proof.
  intros fv t m s. unfold table_eval_with.
  set (matching := matching_rules (rules t) m). set (sorted := prioritized (map ovalues (outs t)) matching).
  assert (Hone : forall l : list rule, got (if is_empty l then default_value t else at0 l site_matching0 (fun r => bind (get_result (names t) r) (fun x => Got (One x))))).
  { intros l. destruct (is_empty l) eqn:E; [apply default_value_got|]. apply got_at0; [exact E|].
    intros r. apply got_bind; [apply get_result_got | intros x; eexists; reflexivity]. }
  assert (Hall : forall l : list rule, got (if is_empty l then default_value t else bind (map_res (get_result (names t)) l) (fun xs => Got (Many xs)))).
  { intros l. destruct (is_empty l); [apply default_value_got|]. apply got_bind; [apply got_map_res; apply get_result_got | intros xs; eexists; reflexivity]. }
  assert (Hno : forall (P : Prop) (x : res value), got x -> x = EvalPanic s -> P).
  { intros P x [v ->] H. discriminate. }
  assert (Hagg : forall a, is_aggregate (Collect a) = true ->
            (if 1 <? names t then Got (One RNull) else if is_empty matching then default_value t
             else bind (fv matching) (fun o => match o with Some vs => Got (One (aggregate a vs)) | None => Got (One RNull) end)) = EvalPanic s ->
            is_aggregate (Collect a) = true /\ names t <= 1 /\ fv matching = EvalPanic s).
  { intros a Ha. destruct (1 <? names t) eqn:En; [discriminate|]. apply Nat.ltb_ge in En.
    destruct (is_empty matching); [apply Hno; apply default_value_got|].
    destruct (fv matching) as [[vs|]|s']; cbn [bind]; try discriminate. intros H. injection H as ->. auto. }
  destruct (policy t) as [| | | | | |a].
  - apply Hno. destruct (is_empty matching) eqn:E; [apply default_value_got|]. destruct (1 <? length matching); [eexists; reflexivity|].
    specialize (Hone matching). rewrite E in Hone. exact Hone.
  - apply Hno. destruct (is_empty matching) eqn:E; [apply default_value_got|]. apply got_at0; [exact E|]. intros r.
    apply got_bind; [apply get_result_got|]. intros first. apply got_bind; [apply any_loop_got | intros x; eexists; reflexivity].
  - apply Hno, Hone.
  - apply Hno, Hone.
  - apply Hno, Hall.
  - apply Hno, Hall.
  - destruct a.
    + apply Hno, Hall.
    + apply Hno. destruct (is_empty matching); [apply default_value_got | eexists; reflexivity].
    + apply Hagg. reflexivity.
    + apply Hagg. reflexivity.
    + apply Hagg. reflexivity.
Qed.

Lemma table_eval_total : forall t matches site, table_eval t matches <> EvalPanic site.
Proof. intros t m site H. apply table_eval_with_panic in H. destruct H as (_ & _ & H). discriminate. Qed.

Lemma table_eval_got : forall t m, got (table_eval t m).
Proof. intros t m. destruct (table_eval t m) as [v|s] eqn:E; [eexists; reflexivity | exfalso; exact (table_eval_total t m s E)]. Qed.

(* the code before d6b0858: output_entry_values[0] of every matching rule *)
Lemma first_values_orig_cases : forall l,
  (Exists (fun r => outv r = []) l /\ first_values_orig l = EvalPanic site_aggregate_value0) \/
  (~ Exists (fun r => outv r = []) l /\ got (first_values_orig l)).
Proof.
  unfold first_values_orig. induction l as [|r rest IH]; cbn [map_res bind].
  - right. split; [intros H; inversion H | eexists; reflexivity].
  - destruct (outv r) as [|v vs] eqn:Er; cbn [at0 bind].
    + left. split; [left; exact Er | reflexivity].
    + destruct IH as [[Hex Hp] | [Hno [o Ho]]].
      * left. split; [right; exact Hex|]. destruct (map_res _ rest); cbn [bind] in *; [discriminate | exact Hp].
      * right. split; [intros H; inversion H; subst; [congruence | contradiction]|].
        destruct (map_res _ rest); cbn [bind] in *; [eexists; reflexivity | discriminate].
Qed.

Lemma exists_not_empty : forall (A : Type) (P : A -> Prop) l, Exists P l -> is_empty l = false.
Proof. intros A P l H. destruct H; reflexivity. Qed.

Lemma table_eval_orig2_panic_iff : forall t m,
  (exists s, table_eval_orig2 t m = EvalPanic s) <->
  is_aggregate (policy t) = true /\ names t <= 1 /\ Exists (fun r => outv r = []) (matching_rules (rules t) m).
Proof.
  intros t m. split.
  - intros [s H]. apply table_eval_with_panic in H. destruct H as (Ha & Hn & Hf). split; [exact Ha|]. split; [exact Hn|].
    destruct (first_values_orig_cases (matching_rules (rules t) m)) as [[Hex _] | [_ [o Ho]]]; [exact Hex | congruence].
  - intros (Ha & Hn & Hex). exists site_aggregate_value0.
    destruct (first_values_orig_cases (matching_rules (rules t) m)) as [[_ Hp] | [Hno _]]; [|contradiction].
    pose proof (exists_not_empty _ _ _ Hex) as He. apply Nat.ltb_ge in Hn.
    unfold table_eval_orig2, table_eval_with. destruct (policy t) as [| | | | | |[| | | |]]; try discriminate; rewrite Hn, He, Hp; reflexivity.
Qed.

(* ------------------------------------------------------------------ recursion over requirements *)
Definition stepf (f : nat) (g : graph) : outcome -> nat -> outcome :=
  fun acc m => match acc with
               | Ok => match targets g m with Some _ => follow f g m | None => Ok end
               | other => other
               end.

Lemma follow_S : forall f g n, follow (S f) g n = match targets g n with None => Ok | Some ts => fold_left (stepf f g) ts Ok end.
Proof. reflexivity. Qed.

Lemma fold_stuck : forall f g ts, fold_left (stepf f g) ts Diverge = Diverge.
Proof. induction ts as [|t ts IH]; cbn [fold_left]; [reflexivity | exact IH]. Qed.

Lemma follow_ok_or_diverge : forall f g n, follow f g n = Ok \/ follow f g n = Diverge.
Proof.
  induction f as [|f IH]; intros g n; [right; reflexivity|]. rewrite follow_S.
  destruct (targets g n) as [ts|]; [|left; reflexivity].
  assert (H : forall acc, acc = Ok \/ acc = Diverge -> fold_left (stepf f g) ts acc = Ok \/ fold_left (stepf f g) ts acc = Diverge).
  { induction ts as [|t ts IHt]; intros acc Hacc; cbn [fold_left]; [exact Hacc|].
    apply IHt. destruct Hacc as [-> | ->]; cbn [stepf]; [|right; reflexivity].
    destruct (targets g t); [apply IH | left; reflexivity]. }
  apply H. left. reflexivity.
Qed.

Lemma fold_diverge_in : forall f g ts m, In m ts -> targets g m <> None -> follow f g m = Diverge -> fold_left (stepf f g) ts Ok = Diverge.
Proof.
  induction ts as [|t ts IH]; intros m Hin Hnode Hd; [inversion Hin|].
  cbn [fold_left]. destruct Hin as [-> | Hin].
  - cbn [stepf]. destruct (targets g m); [|congruence]. rewrite Hd. apply fold_stuck.
  - cbn [stepf]. destruct (targets g t).
    + destruct (follow_ok_or_diverge f g t) as [-> | ->]; [eapply IH; eauto | apply fold_stuck].
    + eapply IH; eauto.
Qed.

Lemma path_source_node : forall g a b, path g a b -> targets g a <> None.
Proof. intros g a b H. inversion H; subst; congruence. Qed.

(* on a cyclic graph the recursion of the pinned code never ends, whatever the stack: a node on a cycle diverges for every fuel *)
Lemma cycle_diverges : forall g n, on_cycle g n -> forall fuel, follow fuel g n = Diverge.
Proof.
  intros g n Hc fuel.
  assert (H : forall fuel a k, path g a k -> on_cycle g k -> follow fuel g a = Diverge).
  { induction fuel0 as [|f IH]; intros a k Hp Hk; [reflexivity|].
    rewrite follow_S. inversion Hp as [? ? ts Ht Hin | ? m ? ts Ht Hin Hmk]; subst; rewrite Ht.
    - eapply fold_diverge_in; [exact Hin | exact (path_source_node g k k Hk) | exact (IH k k Hk Hk)].
    - eapply fold_diverge_in; [exact Hin | exact (path_source_node g m k Hmk) | exact (IH m k Hmk Hk)]. }
  exact (H fuel n n Hc Hc).
Qed.

(* with a rank that strictly decreases along every requirement between nodes the recursion ends within rank+1 frames *)
Lemma ranked_follow_ok : forall g (rank : nat -> nat),
  (forall n ts m, targets g n = Some ts -> In m ts -> targets g m <> None -> rank m < rank n) ->
  forall fuel n, rank n < fuel -> follow fuel g n = Ok.
Proof.
  intros g rank Hr. induction fuel as [|f IH]; intros n Hn; [lia|].
  rewrite follow_S. destruct (targets g n) as [ts|] eqn:Ht; [|reflexivity].
  assert (H : forall l, (forall m, In m l -> In m ts) -> fold_left (stepf f g) l Ok = Ok).
  { induction l as [|m l IHl]; intros Hl; cbn [fold_left]; [reflexivity|].
    assert (Hm : stepf f g Ok m = Ok).
    { cbn [stepf]. destruct (targets g m) as [tm|] eqn:Hm; [|reflexivity].
      apply IH. assert (rank m < rank n) by (eapply Hr; [exact Ht | apply Hl; left; reflexivity | rewrite Hm; discriminate]). lia. }
    rewrite Hm. apply IHl. intros x Hx. apply Hl. right. exact Hx. }
  apply H. auto.
Qed.

(* a graph with such a rank has no cycle *)
Lemma ranked_no_cycle : forall g (rank : nat -> nat),
  (forall n ts m, targets g n = Some ts -> In m ts -> targets g m <> None -> rank m < rank n) -> forall n, ~ on_cycle g n.
Proof.
  intros g rank Hr n Hc. pose proof (cycle_diverges g n Hc (S (rank n))) as Hd.
  rewrite (ranked_follow_ok g rank Hr (S (rank n)) n ltac:(lia)) in Hd. discriminate.
Qed.

(* ------------------------------------------------------------------ the whole build / evaluation *)
Lemma first_not_ok_tables : forall ts, first_not_ok (map table_build ts) = Ok \/ first_not_ok (map table_build ts) = Err.
Proof.
  induction ts as [|t ts IH]; cbn [map first_not_ok]; [left; reflexivity|].
  destruct (table_build_total t) as [-> | ->]; [exact IH | right; reflexivity].
Qed.

Lemma first_not_ok_app_ok : forall a b, first_not_ok a = Ok -> first_not_ok (a ++ b) = first_not_ok b.
Proof.
  induction a as [|o a IH]; intros b H; cbn [app first_not_ok] in *; [reflexivity|].
  destruct o; try discriminate. apply IH. exact H.
Qed.

Lemma first_not_ok_app_err : forall a b, first_not_ok a = Err -> first_not_ok (a ++ b) = Err.
Proof.
  induction a as [|o a IH]; intros b H; cbn [app first_not_ok] in *; [discriminate|].
  destruct o; try discriminate; [apply IH; exact H | reflexivity].
Qed.

Lemma first_not_ok_all_ok : forall l, Forall (fun o => o = Ok) l -> first_not_ok l = Ok.
Proof. induction l as [|o l IH]; intros H; cbn [first_not_ok]; [reflexivity|]. inversion H; subst. apply IH. assumption. Qed.

(* build never crashes; it does not diverge when the search stays within its fuel and the graph admits a rank below the stack fuel *)
Lemma build_total : forall fuel d (rank : nat -> nat),
  has_cycle (deps d) <> DfsFuel ->
  (forall n ts m, targets (deps d) n = Some ts -> In m ts -> targets (deps d) m <> None -> rank m < rank n) ->
  (forall n, rank n < fuel) ->
  build fuel d = Ok \/ build fuel d = Err.
Proof.
  intros fuel d rank Hf Hr Hb. unfold build. destruct (has_cycle (deps d)) eqn:E; [right; reflexivity | | congruence].
  destruct (first_not_ok_tables (tables d)) as [H | H].
  - rewrite (first_not_ok_app_ok _ _ H). left. apply first_not_ok_all_ok.
    apply Forall_forall. intros o Ho. apply in_map_iff in Ho. destruct Ho as (n & <- & _).
    apply (ranked_follow_ok _ rank Hr). apply Hb.
  - right. apply first_not_ok_app_err. exact H.
Qed.

Lemma eval_tables_ok : forall ts ms, first_not_ok (eval_tables table_eval ts ms) = Ok.
Proof.
  induction ts as [|t ts IH]; intros ms; cbn [eval_tables first_not_ok]; [reflexivity|].
  destruct (table_eval_got t (hd [] ms)) as [v ->]. cbn [eval_outcome]. apply IH.
Qed.

Lemma evaluate_total : forall fuel d (rank : nat -> nat) ms n,
  (forall n ts m, targets (deps d) n = Some ts -> In m ts -> targets (deps d) m <> None -> rank m < rank n) ->
  rank n < fuel -> evaluate fuel d ms n = Ok.
Proof.
  intros fuel d rank ms n Hr Hn. unfold evaluate, evaluate_with. cbn [first_not_ok]. rewrite (ranked_follow_ok _ rank Hr fuel n Hn).
  apply eval_tables_ok.
Qed.

(* the pinned code on a cyclic model: building diverges (stack overflow) for every stack size *)
Lemma build_orig_cycle_diverges : forall fuel d n, on_cycle (deps d) n -> Forall (fun t => table_build_orig t = Ok) (tables d) ->
  build_orig fuel d = Diverge.
Proof.
  intros fuel d n Hc Ht. unfold build_orig.
  rewrite first_not_ok_app_ok.
  2:{ apply first_not_ok_all_ok. apply Forall_forall. intros o Ho. apply in_map_iff in Ho. destruct Ho as (t & <- & Hin).
      rewrite Forall_forall in Ht. apply Ht. exact Hin. }
  assert (Hin : In n (map fst (deps d))).
  { pose proof (path_source_node _ _ _ Hc) as Hn. clear Hc. induction (deps d) as [|[m ts] g IH]; cbn [targets] in Hn; [congruence|].
    cbn [map fst]. destruct (m =? n) eqn:E; [left; apply Nat.eqb_eq; exact E | right; apply IH; exact Hn]. }
  induction (map fst (deps d)) as [|x l IH]; [inversion Hin|].
  cbn [map first_not_ok]. destruct (follow_ok_or_diverge fuel (deps d) x) as [E | E]; rewrite E; [|reflexivity].
  destruct Hin as [-> | Hin]; [rewrite (cycle_diverges _ _ Hc fuel) in E; discriminate | apply IH; exact Hin].
Qed.

(* ------------------------------------------------------------------ the cycle search: exhaustive over all graphs with at most 3 defined nodes
   and targets among 0..3 (3 dangling): it answers within its fuel and finds a cycle exactly when one exists *)
Definition dfs_agrees (g : graph) : bool := dfs_in_fuel g && Bool.eqb (dfs_says_cycle g) (cyclic_ref g).

Lemma dfs_sweep : forallb dfs_agrees (graphs_upto 1 ++ graphs_upto 2 ++ graphs_upto 3) = true.
Proof. vm_compute. reflexivity. Qed.

Lemma dfs_correct_upto_3 : forall g, In g (graphs_upto 1 ++ graphs_upto 2 ++ graphs_upto 3) ->
  has_cycle g <> DfsFuel /\ (has_cycle g = Cycle <-> cyclic_ref g = true).
Proof.
  intros g Hg. pose proof (proj1 (forallb_forall dfs_agrees _) dfs_sweep g Hg) as H.
  unfold dfs_agrees, dfs_in_fuel, dfs_says_cycle in H. apply andb_true_iff in H. destruct H as [H1 H2].
  destruct (has_cycle g) eqn:E; try discriminate.
  - split; [discriminate|]. apply Bool.eqb_prop in H2. split; [intros _; symmetry; exact H2 | reflexivity].
  - split; [discriminate|]. apply Bool.eqb_prop in H2. split; [discriminate | intros Hc; rewrite Hc in H2; discriminate].
Qed.

(* ------------------------------------------------------------------ the confirmed defects: witnesses *)
Definition o_plain := mk_out false [] None.
Definition t_short_rule := mk_table First 2 [o_plain] [mk_rule 1 [1]].                 (* two input clauses, a rule with one input entry *)
Definition t_short_rule_out := mk_table First 1 [o_plain; o_plain] [mk_rule 1 [1]].    (* two output clauses, a rule with one output entry *)
Definition t_no_output := mk_table First 1 [] [mk_rule 1 []].                          (* no output clause, the rule has no output entry *)
Definition t_no_output_agg (a : aggregator) := mk_table (Collect a) 1 [] [mk_rule 1 []].
Definition g_two_cycle : graph := [(0, [1]); (1, [0])].

Lemma table_build_orig_refuted :
  table_build_orig t_short_rule = Panic site_input_entry /\ table_build t_short_rule = Err /\
  table_build_orig t_short_rule_out = Panic site_output_entry /\ table_build t_short_rule_out = Err.
Proof. repeat split; vm_compute; reflexivity. Qed.

(* a table that BUILDS and whose evaluation panicked: in the pinned commit under every policy that takes the result of a rule (here FIRST);
   after 012211c still under COLLECT with SUM, MIN, MAX (found by the audit, repaired in this round); now null *)
Lemma table_eval_orig_refuted :
  table_build t_no_output = Ok /\ table_eval_orig t_no_output [true] = EvalPanic site_output_value0 /\ table_eval t_no_output [true] = Got (One RNull) /\
  (forall a, table_build (t_no_output_agg a) = Ok) /\
  table_eval_orig2 (t_no_output_agg ASum) [true] = EvalPanic site_aggregate_value0 /\
  table_eval_orig2 (t_no_output_agg AMin) [true] = EvalPanic site_aggregate_value0 /\
  table_eval_orig2 (t_no_output_agg AMax) [true] = EvalPanic site_aggregate_value0 /\
  (forall a, table_eval (t_no_output_agg a) [false] = Got (One RNull)) /\
  table_eval (t_no_output_agg ASum) [true] = Got (One RNull) /\ table_eval (t_no_output_agg AMin) [true] = Got (One RNull) /\
  table_eval (t_no_output_agg AMax) [true] = Got (One RNull).
Proof. repeat split; try (intros a; destruct a); vm_compute; reflexivity. Qed.

Lemma orig_refuted_short_rule : build_orig 100 (mk_defs [t_short_rule] []) = Panic site_input_entry /\ build 100 (mk_defs [t_short_rule] []) = Err.
Proof. split; vm_compute; reflexivity. Qed.
Lemma orig_refuted_no_output : build_orig 100 (mk_defs [t_no_output] [(0, [])]) = Ok /\ evaluate_orig 100 (mk_defs [t_no_output] [(0, [])]) [[true]] 0 = Panic site_output_value0
  /\ evaluate 100 (mk_defs [t_no_output] [(0, [])]) [[true]] 0 = Ok.
Proof. repeat split; vm_compute; reflexivity. Qed.
(* the model built (current builder) and its evaluation panicked with the aggregators as they were before d6b0858 *)
Lemma orig2_refuted_no_output_aggregate :
  build 100 (mk_defs [t_no_output_agg ASum] [(0, [])]) = Ok /\
  evaluate_orig2 100 (mk_defs [t_no_output_agg ASum] [(0, [])]) [[true]] 0 = Panic site_aggregate_value0 /\
  evaluate 100 (mk_defs [t_no_output_agg ASum] [(0, [])]) [[true]] 0 = Ok.
Proof. repeat split; vm_compute; reflexivity. Qed.
Lemma orig_refuted_cycle : on_cycle g_two_cycle 0 /\ (forall fuel, build_orig fuel (mk_defs [] g_two_cycle) = Diverge) /\ (forall fuel ms, evaluate_orig fuel (mk_defs [] g_two_cycle) ms 0 = Diverge)
  /\ (forall fuel, build fuel (mk_defs [] g_two_cycle) = Err).
Proof.
  assert (Hc : on_cycle g_two_cycle 0).
  { eapply path_step with (m := 1) (ts := [1]); [reflexivity | left; reflexivity |]. eapply path_one with (ts := [0]); [reflexivity | left; reflexivity]. }
  split; [exact Hc|]. split; [|split].
  - intros fuel. apply (build_orig_cycle_diverges fuel (mk_defs [] g_two_cycle) 0 Hc). constructor.
  - intros fuel ms. unfold evaluate_orig, evaluate_with. cbn [deps tables eval_tables first_not_ok]. rewrite (cycle_diverges _ _ Hc fuel). reflexivity.
  - intros fuel. reflexivity.
Qed.

(* a table with values: two named output clauses with output values, three rules, every hit policy *)
Definition t_sample (p : hit_policy) := mk_table p 1 [mk_out true [3; 2; 1] None; mk_out true [] (Some 4)] [mk_rule 1 [1; 5]; mk_rule 1 [2; 6]; mk_rule 1 [3; 7]].
Lemma table_examples :
  (forall p, table_build (t_sample p) = Ok) /\
  table_eval (t_sample Priority) [true; false; true] = Got (One (RCtx [Some 3; Some 7])) /\
  table_eval (t_sample OutputOrder) [true; true; true] = Got (Many [RCtx [Some 3; Some 7]; RCtx [Some 2; Some 6]; RCtx [Some 1; Some 5]]) /\
  table_eval (t_sample RuleOrder) [true; true; false] = Got (Many [RCtx [Some 1; Some 5]; RCtx [Some 2; Some 6]]) /\
  table_eval (t_sample Unique) [true; true; false] = Got (One RNull) /\
  table_eval (t_sample Unique) [false; false; false] = Got (One (RCtx [None; Some 4])) /\
  table_eval (t_sample (Collect ACount)) [true; true; false] = Got (One (RNum 2)) /\
  table_eval (t_sample (Collect ASum)) [true; true; true] = Got (One RNull) /\
  table_eval (mk_table (Collect ASum) 1 [o_plain] [mk_rule 1 [4]; mk_rule 1 [5]]) [true; true] = Got (One (RNum 9)) /\
  table_eval (mk_table (Collect AMin) 1 [o_plain] [mk_rule 1 [4]; mk_rule 1 [5]]) [true; true] = Got (One (RNum 4)) /\
  table_eval (mk_table Any 1 [o_plain] [mk_rule 1 [4]; mk_rule 1 [5]]) [true; true] = Got (One RNull) /\
  table_eval (mk_table Any 1 [o_plain] [mk_rule 1 [4]; mk_rule 1 [4]]) [true; true] = Got (One (RNum 4)).
Proof. repeat split; try (intros p; destruct p as [| | | | | |[| | | |]]); vm_compute; reflexivity. Qed.

(* ------------------------------------------------------------------ item definition trees of any depth *)
Section itemdef_induction.
  Variable P : itemdef -> Prop.
  Hypothesis step : forall n r cs, Forall P cs -> P (ItemDef n r cs).
  Fixpoint itemdef_nested_ind (t : itemdef) : P t :=
    match t with
    | ItemDef n r cs =>
      step n r cs ((fix go (l : list itemdef) : Forall P l :=
                      match l with [] => Forall_nil P | x :: xs => Forall_cons x (itemdef_nested_ind x) (go xs) end) cs)
    end.
End itemdef_induction.

(* the recursive collection reaches every type reference of the tree, at any nesting depth, and nothing else *)
Lemma collect_refs_complete : forall t x, occurs x t <-> In x (collect_refs t).
Proof.
  intros t x. induction t as [n r cs IH] using itemdef_nested_ind. cbn [collect_refs]. split.
  - intros H. inversion H as [? ? | ? ? ? c Hin Hc]; subst.
    + left. reflexivity.
    + apply in_or_app. right. apply in_flat_map. exists c. split; [exact Hin|].
      rewrite Forall_forall in IH. apply (IH c Hin). exact Hc.
  - intros H. apply in_app_or in H. destruct H as [H | H].
    + destruct r as [y|]; [|inversion H]. destruct H as [-> | []]. constructor.
    + apply in_flat_map in H. destruct H as (c & Hin & Hc). rewrite Forall_forall in IH.
      eapply occ_deep; [exact Hin | apply (IH c Hin); exact Hc].
Qed.

(* so a reference at any depth is an edge of the dependency graph the cycle search runs on *)
Lemma nested_reference_is_edge : forall t rest x, occurs x t ->
  exists ts, targets (item_graph (t :: rest)) (item_name t) = Some ts /\ In x ts.
Proof.
  intros t rest x H. exists (collect_refs t). split; [|apply collect_refs_complete; exact H].
  unfold item_graph. cbn [map targets fst snd]. rewrite Nat.eqb_refl. reflexivity.
Qed.

Lemma nested_occurs : forall d x, occurs x (nested d x).
Proof. induction d as [|d IH]; intros x; cbn [nested]; [constructor|]. eapply occ_deep; [left; reflexivity | apply IH]. Qed.

(* a definition that refers to itself through a chain of components of ANY depth is on a cycle of the graph the search runs on *)
Lemma nested_self_reference_cycle : forall d n cs rest,
  on_cycle (item_graph (ItemDef n None (nested d n :: cs) :: rest)) n.
Proof.
  intros d n cs rest. set (t := ItemDef n None (nested d n :: cs)).
  destruct (nested_reference_is_edge t rest n) as (ts & Ht & Hin).
  { eapply occ_deep; [left; reflexivity | apply nested_occurs]. }
  eapply path_one; [exact Ht | exact Hin].
Qed.

(* a flat collection (definition + direct components only) misses a reference two levels down *)
Lemma flat_refs_refuted : exists t x, occurs x t /\ ~ In x (flat_refs t) /\ In x (collect_refs t).
Proof.
  exists (ItemDef 7 None [nested 1 7]), 7. split; [|split].
  - eapply occ_deep; [left; reflexivity | apply nested_occurs].
  - vm_compute. intuition discriminate.
  - vm_compute. tauto.
Qed.

(* and the search finds the cycle for every nesting depth up to 6 (finite; the general statement needs the general correctness of the search) *)
Lemma nested_cycle_found_upto_6 : forallb (fun d => match has_cycle (item_graph [ItemDef 5 None [nested d 5]]) with Cycle => true | _ => false end) (seq 0 7) = true.
Proof. vm_compute. reflexivity. Qed.
