(* C02 — proofs about the specification model Base/DecRound.v and coq/C02/Model.v. *)
From Coq Require Import ZArith NArith Bool List Lia.
From DV Require Import Base.Dec Base.DecRound C02.Model.
Import ListNotations.
Open Scope Z_scope.

Lemma model_nontrivial :
  f_add (mkdec false 15 (-1)) (mkdec false 25 (-1)) = Some (mkdec false 4 0) /\
  f_div (mkdec false 2 0) (mkdec true 3 0) = Some (mkdec true 6666666666666666666666666666666667 (-34)) /\
  f_mul (mkdec false 1 6144) (mkdec false 10 0) = None /\
  f_mul (mkdec false 1 (-3100)) (mkdec false 15 (-3077)) = Some (mkdec false 2 (-6176)) /\
  f_cmp (mkdec false 10 (-1)) (mkdec false 100 (-2)) = Eq.
Proof. vm_compute. repeat split. Qed.

(* modulo as the code computes it (every step rounded) is not a - b*floor(a/b): modulo(1E+40, 3) *)
Lemma mod_steps_refuted : exists a b, mod_known a b = true /\ f_mod a b = Some (mkdec false 1 0) /\ f_mod_steps a b = Some (mkdec false 1 6).
Proof. exists (mkdec false 1 40), (mkdec false 3 0). vm_compute. repeat split. Qed.
