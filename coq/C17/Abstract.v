(* C17 — the ABSTRACT workspace, written independently of the ImplModel of C17/Model.v.
   A state is a SET of stored documents (namespace, name, builds?, document identity) and the relation "name k is
   served by document d"; both are predicates.  Every operation is specified by a predicate on the membership of
   the state before and after it — no list, no filter, no index map, no function of the ImplModel is used (only the
   record mdl with its projections and the types op / out of the operations and their observable results).
   The choice made by the specification, stated here and nowhere derived: remove (n, k) takes away EVERY stored
   document whose namespace is n OR whose name is k (this is what Workspace::remove does, workspace.rs:114-125).
   Definitions only; the proofs are in C17/AbstractProofs.v. *)
From Coq Require Import List NArith Bool.
From DV Require Import C17.Model.
Import ListNotations.
Open Scope N_scope.

Record astate := { stored : mdl -> Prop; served : N -> N -> Prop }.

(* states are compared by what they contain *)
Definition aeq (a b : astate) : Prop :=
  (forall x, stored a x <-> stored b x) /\ (forall k d, served a k d <-> served b k d).

Definition aempty : astate := {| stored := fun _ => False; served := fun _ _ => False |}.

(* no stored document has the namespace or the name of m *)
Definition free (a : astate) (m : mdl) : Prop := forall x, stored a x -> ns x <> ns m /\ nm x <> nm m.
Definition nothing_served (a : astate) : Prop := forall k d, ~ served a k d.

(* add succeeds iff both keys are free, and then the set gains exactly that element; a refused add changes nothing *)
Definition spec_add (a : astate) (m : mdl) (a' : astate) (r : bool) : Prop :=
  (free a m /\ r = true /\ (forall x, stored a' x <-> stored a x \/ x = m) /\ nothing_served a') \/
  (~ free a m /\ r = false /\ aeq a a').

(* remove n k = the set minus every element whose namespace is n or whose name is k *)
Definition spec_remove (a : astate) (n k : N) (a' : astate) : Prop :=
  (forall x, stored a' x <-> stored a x /\ ns x <> n /\ nm x <> k) /\ nothing_served a'.

(* replace = remove by both keys of the document, then add it *)
Definition spec_replace (a : astate) (m : mdl) (a' : astate) (r : bool) : Prop :=
  exists a1, spec_remove a (ns m) (nm m) a1 /\ spec_add a1 m a' r.

Definition spec_clear (a' : astate) : Prop := (forall x, ~ stored a' x) /\ nothing_served a'.

(* deploy makes evaluable exactly the stored documents that build, each under its name and served by itself *)
Definition spec_deploy (a a' : astate) : Prop :=
  (forall x, stored a' x <-> stored a x) /\
  (forall k d, served a' k d <-> exists x, stored a x /\ builds x = true /\ nm x = k /\ doc x = d).

(* an evaluation changes nothing; it is answered by the document served under the name, or "not deployed" *)
Definition spec_eval (a : astate) (k : N) (a' : astate) (r : option N) : Prop :=
  aeq a a' /\ match r with Some d => served a k d | None => forall d, ~ served a k d end.

Definition aspec (a : astate) (o : op) (a' : astate) (x : out) : Prop :=
  match o with
  | Add m => exists r, x = OAdd r /\ spec_add a m a' r
  | Remove n k => x = OUnit /\ spec_remove a n k a'
  | Replace m => exists r, x = OAdd r /\ spec_replace a m a' r
  | Clear => x = OUnit /\ spec_clear a'
  | Deploy => x = OUnit /\ spec_deploy a a'
  | Eval k => exists r, x = OEval r /\ spec_eval a k a' r
  end.

(* a history: the operations one after the other *)
Inductive aruns : astate -> list op -> astate -> list out -> Prop :=
| aruns_nil : forall a a', aeq a a' -> aruns a [] a' []
| aruns_cons : forall a o a1 x r a2 xs, aspec a o a1 x -> aruns a1 r a2 xs -> aruns a (o :: r) a2 (x :: xs).

(* what the abstract workspace guarantees in every state a history leads to *)
Definition AInv (a : astate) : Prop :=
  (forall x y, stored a x -> stored a y -> ns x = ns y -> x = y) /\
  (forall x y, stored a x -> stored a y -> nm x = nm y -> x = y) /\
  (forall k d, served a k d -> exists x, stored a x /\ builds x = true /\ nm x = k /\ doc x = d).

(* an operation that modifies the workspace: an accepted add, a remove, a replace, a clear *)
Definition modifies (o : op) (x : out) : Prop :=
  match o with
  | Add _ => x = OAdd true
  | Remove _ _ | Replace _ | Clear => True
  | Deploy | Eval _ => False
  end.

(* the abstraction function from the ImplModel: the stored list read as a set, the evaluator map read as a relation *)
Definition abs (s : ws) : astate :=
  {| stored := fun x => In x (defs s); served := fun k d => lookup k (evs s) = Some d |}.
