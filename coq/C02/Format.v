(* C02 — every number the model produces is a decimal128 datum, or the operation yields null (None).
   round34_in_format (C02/Proofs.v) covers the rounding step.  Here: the operations that do NOT end with the rounding step
   (reduce-after-operation, negation, abs, floor, ceiling, truncation, decimal()) keep a datum in format, and every operator /
   method of C02/Model.v applied to data in format gives None or a datum in format (coefficient < 10^34, exponent -6176..6111).
   Also: the rounding step gives None exactly when the exact value reaches the overflow threshold (10^34 - 1/2) * 10^6111,
   so null is not a way out for a result that lies in the range. *)
From Coq Require Import ZArith NArith Bool List Lia.
From DV Require Import Base.Dec Base.DecFacts Base.DecRound C02.Model C02.Proofs.
Open Scope Z_scope.

Lemma in_format_iff : forall d, in_format d = true <-> ((coef d < 10 ^ 34)%N /\ ETINY <= expo d <= ETOP).
Proof.
  intros d. unfold in_format. rewrite !andb_true_iff, N.ltb_lt, !Z.leb_le. change (10 ^ PREC)%N with (10 ^ 34)%N. tauto.
Qed.

(* None, or a datum in format *)
Definition fmt_ok (o : option dec) : Prop := forall r, o = Some r -> in_format r = true.

Lemma fmt_ok_none : fmt_ok None.
Proof. intros r H. discriminate H. Qed.

Lemma fmt_ok_some : forall d, in_format d = true -> fmt_ok (Some d).
Proof. intros d H r E. apply some_inj in E. subst r. exact H. Qed.

Lemma fmt_ok_round34 : forall s m e, fmt_ok (round34 s m e).
Proof. intros s m e r H. exact (round34_in_format _ _ _ _ H). Qed.

(* ---------------------------------------------------------------- reduce-after-operation *)
Lemma strip_zeros_bounds : forall f c e c' e', strip_zeros f c e = (c', e') ->
  (c' <= c)%N /\ e <= e' /\ (e <= ETOP -> e' <= ETOP).
Proof.
  induction f as [|f IH]; intros c e c' e' H.
  - cbn [strip_zeros] in H. injection H as <- <-. repeat split; lia.
  - cbn [strip_zeros] in H. destruct ((c mod 10 =? 0)%N && (e <? ETOP)) eqn:E.
    + apply andb_true_iff in E. destruct E as [_ E2]. apply Z.ltb_lt in E2.
      destruct (IH _ _ _ _ H) as (B1 & B2 & B3).
      assert (Hd : (c / 10 <= c)%N) by (apply N.div_le_upper_bound; lia).
      repeat split; lia.
    + injection H as <- <-. repeat split; lia.
Qed.

Lemma dreduce_in_format : forall d, in_format d = true -> in_format (dreduce d) = true.
Proof.
  intros d H. apply in_format_iff in H. destruct H as [Hc He]. unfold dreduce.
  destruct (dis_zero d).
  - apply in_format_iff. cbn [coef expo]. unfold ETINY, ETOP. split; lia.
  - destruct (strip_zeros (N.to_nat (N.size (coef d))) (coef d) (expo d)) as [c e] eqn:S.
    destruct (strip_zeros_bounds _ _ _ _ _ S) as (B1 & B2 & B3).
    apply in_format_iff. cbn [coef expo]. split; lia.
Qed.

Lemma fmt_ok_reduced : forall o, fmt_ok o -> fmt_ok (reduced o).
Proof.
  intros [d|] H r E; unfold reduced in E; cbn [option_map] in E; [|discriminate E].
  apply some_inj in E. subst r. apply dreduce_in_format. apply H. reflexivity.
Qed.

(* ---------------------------------------------------------------- operations that end with the rounding step: any operands *)
Lemma clamp_zero_in_format : forall s e, in_format (mkdec s 0 (clamp_exp e)) = true.
Proof. intros s e. apply in_format_iff. cbn [coef expo]. unfold clamp_exp, ETINY, ETOP. split; lia. Qed.

Lemma dadd_fmt : forall a b, fmt_ok (dadd a b).
Proof. intros a b. rewrite dadd_exact_then_round. unfold round_Z. apply fmt_ok_round34. Qed.

Lemma dsub_fmt : forall a b, fmt_ok (dsub a b).
Proof. intros a b. unfold dsub. apply dadd_fmt. Qed.

Lemma dmul_fmt : forall a b, fmt_ok (dmul a b).
Proof. intros a b. unfold dmul. apply fmt_ok_round34. Qed.

Lemma ddiv_fmt : forall a b, fmt_ok (ddiv a b).
Proof.
  intros a b. unfold ddiv. destruct (dis_zero b); [apply fmt_ok_none|].
  destruct (dis_zero a); [apply fmt_ok_some, clamp_zero_in_format|]. cbv zeta. apply fmt_ok_round34.
Qed.

Lemma dmod_fmt : forall a b, fmt_ok (dmod a b).
Proof.
  intros a b. unfold dmod. destruct (dis_zero b); [apply fmt_ok_none|]. cbv zeta. unfold round_Z. apply fmt_ok_round34.
Qed.

Lemma dmod_steps_fmt : forall a b, fmt_ok (dmod_steps a b).
Proof.
  intros a b. unfold dmod_steps. destruct (dis_zero b); [apply fmt_ok_none|].
  destruct (ddiv a b) as [q|]; cbn [obind]; [|apply fmt_ok_none].
  destruct (dmul b (dfloor q)) as [p|]; cbn [obind]; [|apply fmt_ok_none]. apply dsub_fmt.
Qed.

Lemma dsqrt_fmt : forall a, fmt_ok (dsqrt a).
Proof.
  intros a. unfold dsqrt. destruct (dis_zero a); [apply fmt_ok_some, clamp_zero_in_format|].
  destruct (neg a); [apply fmt_ok_none|]. cbv zeta. apply fmt_ok_round34.
Qed.

Lemma dpow_nat_fmt : forall a n, fmt_ok (dpow_nat a n).
Proof. intros a n. unfold dpow_nat. apply fmt_ok_round34. Qed.

(* ---------------------------------------------------------------- sign operations, integral values: data in format stay in format *)
Lemma dminus_in_format : forall d, in_format d = true -> in_format (dminus d) = true.
Proof.
  intros d H. apply in_format_iff in H. destruct H as [Hc He]. unfold dminus, dflip.
  destruct (dis_zero d); apply in_format_iff; cbn [coef expo]; split; lia.
Qed.

Lemma dabsolute_in_format : forall d, in_format d = true -> in_format (dabsolute d) = true.
Proof.
  intros d H. apply in_format_iff in H. apply in_format_iff. unfold dabsolute. cbn [coef expo]. exact H.
Qed.

Lemma of_Z_in_format : forall m, Z.abs m < 10 ^ 34 -> in_format (of_Z m 0) = true.
Proof.
  intros m H. apply in_format_iff. unfold of_Z. cbn [coef expo]. split; [|unfold ETINY, ETOP; lia].
  apply N2Z.inj_lt. rewrite N2Z.inj_abs_N. exact H.
Qed.

Lemma sval_abs : forall d, Z.abs (sval d) = Z.of_N (coef d).
Proof. intros d. unfold sval. destruct (neg d); lia. Qed.

Lemma div_abs_le : forall s P, 1 <= P -> Z.abs (s / P) <= Z.abs s.
Proof.
  intros s P HP. pose proof (Z.div_mod s P ltac:(lia)) as DM. pose proof (Z.mod_pos_bound s P ltac:(lia)) as MB.
  set (q := s / P) in *. set (r := s mod P) in *. clearbody q r.
  destruct (Z.le_gt_cases 0 q) as [Hq|Hq].
  - assert (q <= P * q) by nia. lia.
  - assert (P * (q + 1) <= q + 1) by nia. lia.
Qed.

Lemma quot_abs_le : forall s P, 1 <= P -> Z.abs (Z.quot s P) <= Z.abs s.
Proof.
  intros s P HP. rewrite <- Z.quot_abs by lia. rewrite (Z.abs_eq P) by lia.
  rewrite Z.quot_div_nonneg by lia. pose proof (div_abs_le (Z.abs s) P HP) as H.
  assert (0 <= Z.abs s / P) by (apply Z.div_pos; lia). lia.
Qed.

Lemma pow10_ge_1 : forall k, 0 <= k -> 1 <= 10 ^ k.
Proof. intros k Hk. assert (0 < 10 ^ k) by (apply Z.pow_pos_nonneg; lia). lia. Qed.

Lemma dfloor_in_format : forall d, in_format d = true -> in_format (dfloor d) = true.
Proof.
  intros d H. unfold dfloor. destruct (0 <=? expo d) eqn:E; [exact H|]. apply Z.leb_gt in E.
  apply in_format_iff in H. destruct H as [Hc He]. apply of_Z_in_format.
  unfold zfloor. assert (0 <=? expo d = false) as -> by (apply Z.leb_gt; exact E).
  pose proof (div_abs_le (sval d) (10 ^ (- expo d)) (pow10_ge_1 (- expo d) ltac:(lia))) as B. rewrite sval_abs in B. lia.
Qed.

Lemma dceil_in_format : forall d, in_format d = true -> in_format (dceil d) = true.
Proof.
  intros d H. unfold dceil. destruct (0 <=? expo d) eqn:E; [exact H|]. apply Z.leb_gt in E.
  apply in_format_iff in H. destruct H as [Hc He]. apply of_Z_in_format.
  unfold zceil. assert (0 <=? expo d = false) as -> by (apply Z.leb_gt; exact E).
  pose proof (div_abs_le (- sval d) (10 ^ (- expo d)) (pow10_ge_1 (- expo d) ltac:(lia))) as B.
  rewrite Z.abs_opp, sval_abs in B. lia.
Qed.

Lemma dtrunc_in_format : forall d, in_format d = true -> in_format (dtrunc d) = true.
Proof.
  intros d H. unfold dtrunc. destruct (0 <=? expo d) eqn:E; [exact H|]. apply Z.leb_gt in E.
  apply in_format_iff in H. destruct H as [Hc He]. apply of_Z_in_format.
  unfold ztrunc. assert (0 <=? expo d = false) as -> by (apply Z.leb_gt; exact E).
  pose proof (quot_abs_le (sval d) (10 ^ (- expo d)) (pow10_ge_1 (- expo d) ltac:(lia))) as B. rewrite sval_abs in B. lia.
Qed.

(* ---------------------------------------------------------------- decimal(n, scale) *)
Lemma drescale_in_format : forall d scale, in_format d = true -> -6111 <= scale < 6176 -> in_format (drescale d scale) = true.
Proof.
  intros d scale H Hs. pose proof H as H0. apply in_format_iff in H. destruct H as [Hc He]. unfold drescale. cbv zeta.
  destruct (- scale <=? expo d) eqn:E1.
  - destruct (ndigits (coef d * 10 ^ Z.to_N (expo d - - scale)) <=? PREC)%N eqn:E2; [|exact H0].
    apply N.leb_le in E2. unfold PREC in E2. apply in_format_iff. cbn [coef expo]. split; [|unfold ETINY, ETOP; lia].
    set (x := (coef d * 10 ^ Z.to_N (expo d - - scale))%N) in *.
    destruct (N.eq_dec x 0) as [Z0|NZ]; [rewrite Z0; lia|].
    destruct (ndigits_spec x ltac:(lia)) as [[_ U] _]. eapply N.lt_le_trans; [exact U|]. apply N.pow_le_mono_r; [lia|exact E2].
  - apply Z.leb_gt in E1. apply in_format_iff. cbn [coef expo]. split; [|unfold ETINY, ETOP; lia].
    assert (B : (round_half_even (coef d) (Z.to_N (- scale - expo d)) <= 10 ^ 33)%N).
    { apply round_half_even_bound. eapply N.lt_le_trans; [exact Hc|]. apply N.pow_le_mono_r; lia. }
    lia.
Qed.

(* ---------------------------------------------------------------- every operator and method of C02/Model.v *)
Theorem results_in_format : forall a b, in_format a = true -> in_format b = true ->
  (forall r, f_add a b = Some r -> in_format r = true) /\
  (forall r, f_sub a b = Some r -> in_format r = true) /\
  (forall r, f_mul a b = Some r -> in_format r = true) /\
  (forall r, f_div a b = Some r -> in_format r = true) /\
  (forall r, f_mod a b = Some r -> in_format r = true) /\
  (forall r, f_mod_steps a b = Some r -> in_format r = true) /\
  (forall r, f_neg a = Some r -> in_format r = true) /\
  (forall r, f_abs a = Some r -> in_format r = true) /\
  (forall r, f_floor a = Some r -> in_format r = true) /\
  (forall r, f_ceiling a = Some r -> in_format r = true) /\
  (forall r, f_trunc a = Some r -> in_format r = true) /\
  (forall r, f_sqrt a = Some r -> in_format r = true) /\
  (forall scale r, f_decimal a scale = Some r -> in_format r = true) /\
  (forall n r, f_pow_nat a n = Some r -> in_format r = true).
Proof.
  intros a b Ha Hb.
  split; [exact (fmt_ok_reduced _ (dadd_fmt a b))|].
  split; [exact (fmt_ok_reduced _ (dsub_fmt a b))|].
  split; [exact (fmt_ok_reduced _ (dmul_fmt a b))|].
  split; [exact (fmt_ok_reduced _ (ddiv_fmt a b))|].
  split; [exact (fmt_ok_reduced _ (dmod_fmt a b))|].
  split; [exact (fmt_ok_reduced _ (dmod_steps_fmt a b))|].
  split; [exact (fmt_ok_some _ (dminus_in_format a Ha))|].
  split; [exact (fmt_ok_some _ (dabsolute_in_format a Ha))|].
  split; [exact (fmt_ok_some _ (dreduce_in_format _ (dfloor_in_format a Ha)))|].
  split; [exact (fmt_ok_some _ (dreduce_in_format _ (dceil_in_format a Ha)))|].
  split; [exact (fmt_ok_some _ (dtrunc_in_format a Ha))|].
  split; [exact (fmt_ok_reduced _ (dsqrt_fmt a))|].
  split.
  - intros scale r H. unfold f_decimal in H.
    destruct ((-6111 <=? scale) && (scale <? 6176)) eqn:E; [|discriminate H].
    apply andb_true_iff in E. destruct E as [E1 E2]. apply Z.leb_le in E1. apply Z.ltb_lt in E2.
    apply some_inj in H. subst r. apply drescale_in_format; [exact Ha|lia].
  - intros n r H. unfold f_pow_nat in H. destruct (dis_zero a && (n =? 0)%N); [discriminate H|].
    exact (fmt_ok_reduced _ (dpow_nat_fmt a n) r H).
Qed.

(* the operations that end with the rounding step need no hypothesis on the operands (coefficients of any size, any exponent) *)
Theorem rounded_results_in_format : forall a b,
  (forall r, f_add a b = Some r -> in_format r = true) /\
  (forall r, f_sub a b = Some r -> in_format r = true) /\
  (forall r, f_mul a b = Some r -> in_format r = true) /\
  (forall r, f_div a b = Some r -> in_format r = true) /\
  (forall r, f_mod a b = Some r -> in_format r = true) /\
  (forall r, f_mod_steps a b = Some r -> in_format r = true) /\
  (forall r, f_sqrt a = Some r -> in_format r = true) /\
  (forall n r, f_pow_nat a n = Some r -> in_format r = true).
Proof.
  intros a b.
  split; [exact (fmt_ok_reduced _ (dadd_fmt a b))|].
  split; [exact (fmt_ok_reduced _ (dsub_fmt a b))|].
  split; [exact (fmt_ok_reduced _ (dmul_fmt a b))|].
  split; [exact (fmt_ok_reduced _ (ddiv_fmt a b))|].
  split; [exact (fmt_ok_reduced _ (dmod_fmt a b))|].
  split; [exact (fmt_ok_reduced _ (dmod_steps_fmt a b))|].
  split; [exact (fmt_ok_reduced _ (dsqrt_fmt a))|].
  intros n r H. unfold f_pow_nat in H. destruct (dis_zero a && (n =? 0)%N); [discriminate H|].
  exact (fmt_ok_reduced _ (dpow_nat_fmt a n) r H).
Qed.

(* ---------------------------------------------------------------- null exactly on overflow *)
(* The rounding step returns None if and only if the exact value m * 10^e is at least (10^34 - 1/2) * 10^6111, the point from which
   round-half-even at the largest quantum 10^6111 reaches 10^6145 (IEEE 754-2008 7.4: overflow is decided on the result rounded as if
   the exponent range were unbounded).  Both sides are written at the base exponent b = min e ETINY, as in round34_nearest_even. *)
Lemma pow10_le : forall a b, 0 <= a <= b -> 10 ^ a <= 10 ^ b.
Proof. intros a b H. apply Z.pow_le_mono_r; lia. Qed.

Lemma pow10_le_inv : forall a b, 0 <= b -> 10 ^ a <= 10 ^ b -> a <= b.
Proof. intros a b Hb H. apply (Z.pow_le_mono_r_iff 10); [lia|exact Hb|exact H]. Qed.

Lemma N_even_Z_even : forall c, N.even c = Z.even (Z.of_N c).
Proof. intros [|[p|p|]]; reflexivity. Qed.

(* the data of the rounding step: target exponent, size of the exact value V, the rounded coefficient C1 at the quantum Q *)
Lemma round34_rounded_facts : forall m e, (0 < m)%N ->
  let nd := Z.of_N (ndigits m) in
  let e1 := target_exp m e in let b := Z.min e ETINY in
  let C1 := Z.of_N (round_half_even m (Z.to_N (e1 - e))) in
  let V := Z.of_N m * 10 ^ (e - b) in let Q := 10 ^ (e1 - b) in
  e1 = Z.max ETINY (Z.max e (e + nd - 1 - 33)) /\
  (10 ^ (e + nd - 1 - b) <= V < 10 ^ (e + nd - 1 + 1 - b)) /\
  2 * Z.abs (C1 * Q - V) <= Q /\
  (2 * Z.abs (C1 * Q - V) = Q -> Z.even C1 = true) /\
  (e1 = e -> C1 * Q = V) /\ 1 <= nd.
Proof.
  intros m e Hm. cbv zeta.
  destruct (ndigits_spec m Hm) as [[L U] P1].
  destruct (target_exp_ge m e) as [T1 T2].
  set (nd := Z.of_N (ndigits m)). set (e1 := target_exp m e) in *. set (b := Z.min e ETINY).
  assert (Hb : b <= e /\ b <= ETINY) by (unfold b; lia).
  assert (Hnd : 1 <= nd) by (unfold nd; lia).
  assert (He1 : e1 = Z.max ETINY (Z.max e (e + nd - 1 - 33))) by (unfold e1, target_exp, PREC, nd; lia).
  assert (LZ : 10 ^ (nd - 1) <= Z.of_N m).
  { apply N2Z.inj_le in L. rewrite N2Z.inj_pow, N2Z.inj_sub in L by exact P1. exact L. }
  assert (UZ : Z.of_N m < 10 ^ nd).
  { apply N2Z.inj_lt in U. rewrite N2Z.inj_pow in U. exact U. }
  assert (HS : 0 < 10 ^ (e - b)) by (apply Z.pow_pos_nonneg; lia).
  split; [exact He1|]. split.
  { replace (e + nd - 1 - b) with ((nd - 1) + (e - b)) by lia. replace (e + nd - 1 + 1 - b) with (nd + (e - b)) by lia.
    rewrite !pow10_split by lia. split; [apply Z.mul_le_mono_nonneg_r; lia | apply Z.mul_lt_mono_pos_r; lia]. }
  assert (HQ : 10 ^ (e1 - b) = 10 ^ (e1 - e) * 10 ^ (e - b)) by (rewrite <- pow10_split by lia; f_equal; lia).
  destruct (Z.eq_dec e1 e) as [Eq|Ne].
  - rewrite Eq, Z.sub_diag. cbn [Z.to_N]. rewrite round_half_even_zero_drop.
    rewrite Z.sub_diag, Z.abs_0. split; [lia|]. split; [lia|]. split; [reflexivity | exact Hnd].
  - assert (Hd : (0 < Z.to_N (e1 - e))%N) by lia.
    destruct (round_half_even_spec m (Z.to_N (e1 - e)) Hd) as [R1 R2]. cbv zeta in R1, R2.
    rewrite N2Z.inj_pow, Z2N.id in R1, R2 by lia. change (Z.of_N 10) with 10 in R1, R2.
    set (c1 := round_half_even m (Z.to_N (e1 - e))) in *.
    assert (Hfac : Z.of_N c1 * 10 ^ (e1 - b) - Z.of_N m * 10 ^ (e - b) = (Z.of_N c1 * 10 ^ (e1 - e) - Z.of_N m) * 10 ^ (e - b)) by (rewrite HQ; ring).
    rewrite Hfac, Z.abs_mul, (Z.abs_eq (10 ^ (e - b))) by lia. rewrite HQ.
    split; [nia|]. split; [|split; [intros; lia | exact Hnd]].
    intros T. rewrite <- N_even_Z_even. apply R2. nia.
Qed.

(* step 1: None <-> the rounded value (exponent unbounded) reaches 10^6145 *)
Lemma round34_none_iff_rounded : forall s m e, (0 < m)%N ->
  let e1 := target_exp m e in let b := Z.min e ETINY in
  let C1 := Z.of_N (round_half_even m (Z.to_N (e1 - e))) in
  round34 s m e = None <-> 10 ^ (6145 - b) <= C1 * 10 ^ (e1 - b).
Proof.
  intros s m e Hm. cbv zeta.
  destruct (round34_rounded_facts m e Hm) as (He1 & [VL VU] & R1 & R2 & R3 & Hnd). cbv zeta in *.
  unfold round34. assert (m =? 0 = false)%N as -> by (apply N.eqb_neq; lia).
  destruct (target_exp_ge m e) as [T1 T2].
  destruct (ndigits_spec m Hm) as [[_ Um] _].
  set (nd := Z.of_N (ndigits m)) in *. set (e1 := target_exp m e) in *. set (b := Z.min e ETINY) in *.
  assert (Hb : b <= e /\ b <= ETINY) by (unfold b; lia).
  assert (Hc1 : (round_half_even m (Z.to_N (e1 - e)) <= 10 ^ PREC)%N).
  { apply round_half_even_bound. eapply N.lt_le_trans; [exact Um|]. apply N.pow_le_mono_r; [lia|]. unfold PREC, nd in *. lia. }
  set (c1 := round_half_even m (Z.to_N (e1 - e))) in *. clearbody c1.
  assert (HQp : 0 < 10 ^ (e1 - b)) by (apply Z.pow_pos_nonneg; lia).
  assert (HTp : 0 < 10 ^ (6145 - b)) by (apply Z.pow_pos_nonneg; unfold ETINY in *; lia).
  destruct (c1 =? 10 ^ PREC)%N eqn:Ec.
  - apply N.eqb_eq in Ec. change (ndigits (10 ^ (PREC - 1))) with 34%N.
    rewrite Ec. change (Z.of_N (10 ^ PREC)) with (10 ^ 34).
    rewrite <- pow10_split by (unfold ETINY in *; lia).
    destruct (EMAX <? e1 + 1 + Z.of_N 34 - 1) eqn:Eo.
    + apply Z.ltb_lt in Eo. split; [intros _|reflexivity]. apply pow10_le. unfold EMAX, ETINY in *. lia.
    + apply Z.ltb_ge in Eo. split.
      * destruct (ETOP <? e1 + 1); intros H; discriminate H.
      * intros H. exfalso. apply pow10_le_inv in H; unfold EMAX, ETINY in *; lia.
  - apply N.eqb_neq in Ec. assert (Hlt : (c1 < 10 ^ 34)%N) by (unfold PREC in *; lia).
    destruct (N.eq_dec c1 0) as [Z0|NZ].
    + (* rounded to zero: only on the subnormal grid *)
      subst c1. change (ndigits 0) with 1%N. change (Z.of_N 0) with 0 in *. rewrite Z.mul_0_l in *.
      assert (HA : e + nd - 1 < e1).
      { destruct (Z.lt_ge_cases (e + nd - 1) e1) as [G|G]; [exact G|exfalso].
        assert (10 ^ (e1 - b) <= 10 ^ (e + nd - 1 - b)) by (apply pow10_le; lia).
        assert (0 < 10 ^ (e + nd - 1 - b)) by (apply Z.pow_pos_nonneg; lia). lia. }
      assert (E1 : e1 = ETINY) by lia.
      assert (EMAX <? e1 + Z.of_N 1 - 1 = false) as -> by (apply Z.ltb_ge; unfold EMAX, ETINY in *; lia).
      split; [destruct (ETOP <? e1); intros H; discriminate H | intros H; exfalso; lia].
    + destruct (ndigits_spec c1 ltac:(lia)) as [[L1 U1] P1].
      set (j := Z.of_N (ndigits c1)).
      assert (L1Z : 10 ^ (j - 1) <= Z.of_N c1).
      { apply N2Z.inj_le in L1. rewrite N2Z.inj_pow, N2Z.inj_sub in L1 by exact P1. exact L1. }
      assert (U1Z : Z.of_N c1 < 10 ^ j).
      { apply N2Z.inj_lt in U1. rewrite N2Z.inj_pow in U1. exact U1. }
      assert (Hj : 1 <= j) by (unfold j; lia).
      destruct (EMAX <? e1 + j - 1) eqn:Eo.
      * apply Z.ltb_lt in Eo. split; [intros _|reflexivity].
        eapply Z.le_trans; [|apply Z.mul_le_mono_nonneg_r; [lia|exact L1Z]].
        rewrite <- pow10_split by lia. apply pow10_le. unfold EMAX, ETINY in *. lia.
      * apply Z.ltb_ge in Eo. split; [destruct (ETOP <? e1); intros H; discriminate H|].
        intros H. exfalso.
        assert (B1 : Z.of_N c1 * 10 ^ (e1 - b) < 10 ^ j * 10 ^ (e1 - b)) by (apply Z.mul_lt_mono_pos_r; [exact HQp|exact U1Z]).
        rewrite <- pow10_split in B1 by lia.
        assert (B2 : 10 ^ (j + (e1 - b)) <= 10 ^ (6145 - b)) by (apply pow10_le; unfold EMAX, ETINY in *; lia).
        lia.
Qed.

(* step 2: the rounded value reaches 10^6145 <-> the exact value reaches (10^34 - 1/2) * 10^6111 *)
Lemma rounded_overflow_iff : forall m e, (0 < m)%N ->
  let e1 := target_exp m e in let b := Z.min e ETINY in
  let C1 := Z.of_N (round_half_even m (Z.to_N (e1 - e))) in
  10 ^ (6145 - b) <= C1 * 10 ^ (e1 - b) <-> (2 * 10 ^ 34 - 1) * 10 ^ (ETOP - b) <= 2 * Z.of_N m * 10 ^ (e - b).
Proof.
  intros m e Hm. cbv zeta.
  destruct (round34_rounded_facts m e Hm) as (He1 & [VL VU] & R1 & R2 & R3 & Hnd). cbv zeta in *.
  destruct (target_exp_ge m e) as [T1 T2].
  set (nd := Z.of_N (ndigits m)) in *. set (e1 := target_exp m e) in *. set (b := Z.min e ETINY) in *.
  assert (Hb : b <= e /\ b <= ETINY) by (unfold b; lia).
  assert (HC1 : 0 <= Z.of_N (round_half_even m (Z.to_N (e1 - e)))) by lia.
  set (C1 := Z.of_N (round_half_even m (Z.to_N (e1 - e)))) in *. clearbody C1.
  set (A := e + nd - 1) in *.
  unfold ETOP. unfold ETINY in Hb, He1, T2.
  assert (HTT : 10 ^ (6145 - b) = 10 ^ 34 * 10 ^ (6111 - b)).
  { rewrite <- pow10_split by lia. f_equal. lia. }
  assert (HH : 0 < 10 ^ (6111 - b)) by (apply Z.pow_pos_nonneg; lia).
  assert (HQp : 0 < 10 ^ (e1 - b)) by (apply Z.pow_pos_nonneg; lia).
  rewrite <- (Z.mul_assoc 2).
  split.
  - (* the rounded value overflows -> the exact value is at least the threshold *)
    intros HR. destruct (Z.le_gt_cases e1 6111) as [Le|Gt].
    + assert (HQH : 10 ^ (e1 - b) <= 10 ^ (6111 - b)) by (apply pow10_le; lia). lia.
    + destruct (Z.eq_dec e1 e) as [Eq|Ne].
      * specialize (R3 Eq). lia.
      * assert (EA : e1 = A - 33) by lia.
        assert (HTA : 10 ^ (6145 - b) <= 10 ^ (A - b)) by (apply pow10_le; lia). lia.
  - (* the exact value is at least the threshold -> the rounded value overflows *)
    intros HT.
    assert (HA : 6144 <= A).
    { destruct (Z.le_gt_cases 6144 A) as [G|L]; [exact G|exfalso].
      assert (B1 : 10 ^ (A + 1 - b) <= 10 ^ (6144 - b)) by (apply pow10_le; lia).
      assert (E33 : 10 ^ (6144 - b) = 10 ^ 33 * 10 ^ (6111 - b)) by (rewrite <- pow10_split by lia; f_equal; lia).
      lia. }
    rewrite HTT.
    destruct (Z.eq_dec e1 e) as [Eq|Ne].
    + (* nothing is dropped: the value is a multiple of 10^6111 *)
      specialize (R3 Eq). rewrite R3.
      assert (He : 6111 <= e) by lia.
      assert (EV : Z.of_N m * 10 ^ (e - b) = Z.of_N m * 10 ^ (e - 6111) * 10 ^ (6111 - b)).
      { rewrite <- Z.mul_assoc, <- pow10_split by lia. f_equal. f_equal. lia. }
      rewrite EV in *. set (W := Z.of_N m * 10 ^ (e - 6111)) in *. set (H := 10 ^ (6111 - b)) in *. clearbody W H.
      assert (HW : 10 ^ 34 <= W).
      { destruct (Z.le_gt_cases (10 ^ 34) W) as [G|L]; [exact G|exfalso].
        assert (W * H <= (10 ^ 34 - 1) * H) by (apply Z.mul_le_mono_nonneg_r; lia). lia. }
      apply Z.mul_le_mono_nonneg_r; lia.
    + assert (EA : e1 = A - 33) by lia.
      destruct (Z.eq_dec A 6144) as [A4|A5].
      * (* the quantum is 10^6111 *)
        assert (EQ : 10 ^ (e1 - b) = 10 ^ (6111 - b)) by (f_equal; lia).
        rewrite EQ in *. set (H := 10 ^ (6111 - b)) in *. clearbody H.
        assert (HC : 10 ^ 34 - 1 <= C1).
        { destruct (Z.le_gt_cases (10 ^ 34 - 1) C1) as [G|L]; [exact G|exfalso].
          assert (C1 * H <= (10 ^ 34 - 2) * H) by (apply Z.mul_le_mono_nonneg_r; lia). lia. }
        destruct (Z.eq_dec C1 (10 ^ 34 - 1)) as [Eo|No].
        -- exfalso. subst C1. assert (Tie : 2 * Z.abs ((10 ^ 34 - 1) * H - Z.of_N m * 10 ^ (e - b)) = H) by lia.
           specialize (R2 Tie). vm_compute in R2. discriminate R2.
        -- apply Z.mul_le_mono_nonneg_r; lia.
      * (* A >= 6145: already the leading digit is beyond the range *)
        assert (EVA : 10 ^ (A - b) = 10 ^ 33 * 10 ^ (e1 - b)) by (rewrite <- pow10_split by lia; f_equal; lia).
        assert (HTA : 10 ^ (6145 - b) <= 10 ^ (A - b)) by (apply pow10_le; lia).
        rewrite HTT in HTA. rewrite EVA in *.
        set (Q := 10 ^ (e1 - b)) in *. set (H := 10 ^ (6111 - b)) in *. clearbody Q H.
        assert (HC : 10 ^ 33 <= C1).
        { destruct (Z.le_gt_cases (10 ^ 33) C1) as [G|L]; [exact G|exfalso].
          assert (C1 * Q <= (10 ^ 33 - 1) * Q) by (apply Z.mul_le_mono_nonneg_r; lia). lia. }
        assert (10 ^ 33 * Q <= C1 * Q) by (apply Z.mul_le_mono_nonneg_r; lia). lia.
Qed.

Theorem round34_none_iff_overflow : forall s m e, let b := Z.min e ETINY in
  round34 s m e = None <-> (2 * 10 ^ 34 - 1) * 10 ^ (ETOP - b) <= 2 * Z.of_N m * 10 ^ (e - b).
Proof.
  intros s m e. cbv zeta. destruct (N.eq_dec m 0) as [Z0|NZ].
  - subst m. unfold round34. cbn [N.eqb]. change (Z.of_N 0) with 0. rewrite Z.mul_0_r, Z.mul_0_l.
    assert (0 < 10 ^ (ETOP - Z.min e ETINY)) by (apply Z.pow_pos_nonneg; unfold ETOP, ETINY; lia).
    split; [intros H0; discriminate H0 | intros H0; exfalso; lia].
  - etransitivity; [apply round34_none_iff_rounded; lia | apply rounded_overflow_iff; lia].
Qed.

(* so a value below the threshold always has a result (a datum in format, by round34_in_format) *)
Corollary round34_defined_iff_in_range : forall s m e, let b := Z.min e ETINY in
  (exists r, round34 s m e = Some r) <-> 2 * Z.of_N m * 10 ^ (e - b) < (2 * 10 ^ 34 - 1) * 10 ^ (ETOP - b).
Proof.
  intros s m e. cbv zeta. pose proof (round34_none_iff_overflow s m e) as H. cbv zeta in H.
  destruct (round34 s m e) as [r|].
  - split; [intros _ | intros _; exists r; reflexivity].
    destruct (Z.lt_ge_cases (2 * Z.of_N m * 10 ^ (e - Z.min e ETINY)) ((2 * 10 ^ 34 - 1) * 10 ^ (ETOP - Z.min e ETINY))) as [L|G]; [exact L|].
    apply H in G. discriminate G.
  - split; [intros [r Hr]; discriminate Hr|]. intros L. exfalso. assert (E : @None dec = None) by reflexivity. apply H in E. lia.
Qed.

(* instances: product, sum and integer power are null exactly when the exact product / sum / power reaches the threshold *)
Lemma dmul_none_iff_overflow : forall a b, let e := expo a + expo b in let b0 := Z.min e ETINY in
  dmul a b = None <-> (2 * 10 ^ 34 - 1) * 10 ^ (ETOP - b0) <= 2 * Z.of_N (coef a * coef b) * 10 ^ (e - b0).
Proof. intros a b. cbv zeta. unfold dmul. apply round34_none_iff_overflow. Qed.

Lemma dadd_none_iff_overflow : forall a b, let e := emin2 a b in let b0 := Z.min e ETINY in
  dadd a b = None <-> (2 * 10 ^ 34 - 1) * 10 ^ (ETOP - b0) <= 2 * Z.abs (scaled a e + scaled b e) * 10 ^ (e - b0).
Proof.
  intros a b. cbv zeta. rewrite dadd_exact_then_round. unfold round_Z.
  rewrite <- (N2Z.inj_abs_N (scaled a (emin2 a b) + scaled b (emin2 a b))). apply round34_none_iff_overflow.
Qed.

Example overflow_examples :
  round34 false 9999999999999999999999999999999999 6111 = Some (mkdec false 9999999999999999999999999999999999 6111) /\
  round34 false 99999999999999999999999999999999994 6110 = Some (mkdec false 9999999999999999999999999999999999 6111) /\
  round34 false 99999999999999999999999999999999995 6110 = None /\
  round34 false 1 6144 = Some (mkdec false 1000000000000000000000000000000000 6111) /\
  round34 false 1 6145 = None /\
  dmul (mkdec false 1 6144) (mkdec false 10 0) = None /\
  dadd (mkdec false 9999999999999999999999999999999999 6111) (mkdec false 5 6110) = None /\
  dadd (mkdec false 9999999999999999999999999999999999 6111) (mkdec false 4 6110) = Some (mkdec false 9999999999999999999999999999999999 6111).
Proof. vm_compute. repeat split. Qed.

(* data at the edges of the format stay in format: floor(-0.5) = -1, ceiling(-0.5) = -0, decimal() carrying into a 34th digit, decimal() of a
   number that cannot be written at the asked scale (returned as it is), reduce stopping at the largest exponent, -0, the largest datum
   negated, the smallest subnormal halved (zero), integer powers at the edge and one that is rounded (3^72 has 35 digits); and the data are in format *)
Example format_examples :
  f_floor (mkdec true 5 (-1)) = Some (mkdec true 1 0) /\
  f_ceiling (mkdec true 5 (-1)) = Some (mkdec false 0 0) /\
  f_decimal (mkdec false 9999999999999999999999999999999999 0) (-1) = Some (mkdec false 1000000000000000000000000000000000 1) /\
  f_decimal (mkdec false 1 20) 20 = Some (mkdec false 1 20) /\
  f_decimal (mkdec false 1 0) 6176 = None /\
  f_mul (mkdec false 1000000000000000000000000000000000 6111) (mkdec false 1 0) = Some (mkdec false 1000000000000000000000000000000000 6111) /\
  f_neg (mkdec true 0 (-6176)) = Some (mkdec false 0 (-6176)) /\
  f_neg (mkdec false 9999999999999999999999999999999999 6111) = Some (mkdec true 9999999999999999999999999999999999 6111) /\
  f_div (mkdec false 1 (-6176)) (mkdec false 2 0) = Some (mkdec false 0 0) /\
  f_pow_nat (mkdec false 1 3072) 2 = Some (mkdec false 1000000000000000000000000000000000 6111) /\
  f_pow_nat (mkdec false 10 3072) 2 = None /\
  f_pow_nat (mkdec true 3 0) 72 = Some (mkdec false 2252839954493917441184014787477264 1) /\
  in_format (mkdec false 9999999999999999999999999999999999 6111) = true /\
  in_format (mkdec true 0 (-6176)) = true /\
  in_format (mkdec false 10000000000000000000000000000000000 0) = false /\
  in_format (mkdec false 1 6112) = false.
Proof. vm_compute. repeat split. Qed.
