#!/usr/bin/env python3
"""Prints a markdown status table: per property the obligations, cases of the last quick run, fixes, known findings, seeds."""
import glob, json, os, re
root = os.path.dirname(os.path.dirname(os.path.abspath(__file__)))
kf = open(os.path.join(root, 'known_findings.txt')).read().split('\n')
seeds = {}
for p in glob.glob(os.path.join(root, 'seeded', '*', 'meta.json')):
    m = json.load(open(p))
    seeds.setdefault(m['property'], []).append((m['id'], m['check_result'].split(':')[0]))
print('| id | obligations (all discharged) | quick-run cases / non-trivial | `fix:` commits in /repo | known findings | seeded changes (result) |')
print('|---|---|---|---|---|---|')
for i in range(1, 21):
    pid = 'C%02d' % i
    ev = os.path.join(root, 'evidence', pid + '.json')
    if not os.path.exists(ev):
        print('| %s | not built | | | | |' % pid)
        continue
    e = json.load(open(ev))
    c = e['coverage']
    fixed = [re.match(r'fixed: property=%s (\S+)' % pid, l).group(1) for l in kf if re.match(r'fixed: property=%s ' % pid, l)]
    known = [re.match(r'known: property=%s key=(\S+)' % pid, l).group(1) for l in kf if re.match(r'known: property=%s ' % pid, l)]
    sd = ', '.join('%s (%s)' % s for s in sorted(seeds.get(pid, [])))
    print('| %s | %s/%s | %s / %s | %s | %s | %s |' % (pid, c.get('discharged'), c.get('obligations'), c.get('evaluations'), c.get('distinct_nontrivial'),
                                                ' '.join(fixed) or '—', ', '.join(known) or '—', sd or '—'))
