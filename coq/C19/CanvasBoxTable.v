(* C19 — text -> table for drawings with an information item name box (coq/C19/CanvasBoxDraw.v): the box changes the plane only by the
   numbers of the regions (all raised by one) and the rectangles; the plane-level recogniser gives the same table.
   (owner: ext-merged) *)
From Coq Require Import List NArith Bool Arith Lia.
From DV Require Import C19.Model C19.Canvas C19.CanvasDraw C19.Proofs C19.Columns C19.CanvasTable C19.CanvasPartition.
From DV Require Import C19.CanvasMerged C19.CanvasMergedPlane C19.CanvasHeadersDraw C19.CanvasHeaders C19.CanvasColumnsDraw C19.CanvasColumns.
From DV Require Import C19.CanvasBoxDraw C19.CanvasBox.
Import ListNotations.

(* raising the first component of every region name by one *)
Definition rename_S (c : cell) : cell := match c with Region (a, b) t => Region (N.succ a, b) t | _ => c end.
Definition RN (p : plane) : plane := map (map rename_S) p.

Lemma abs_shift code b c : abs_cell code (shift_cell b c) = rename_S (abs_cell code c).
Proof. destruct c; cbn [shift_cell abs_cell rename_S]; try reflexivity. now rewrite Nnat.Nat2N.inj_succ. Qed.
Lemma abs_bplane code d b : map (map (abs_cell code)) (bplane d b) = RN (map (map (abs_cell code)) (mplane d)).
Proof. unfold bplane, RN. rewrite !map_map. apply map_ext. intro r. rewrite !map_map. apply map_ext. intro c. apply abs_shift. Qed.

Lemma erase_rename c : erase (rename_S c) = erase c.
Proof. destruct c as [[a b] t| | | | | | |]; reflexivity. Qed.
Lemma E_RN p : E (RN p) = E p.
Proof. unfold E, RN. rewrite map_map. apply map_ext. intro r. rewrite map_map. apply map_ext. intro c. apply erase_rename. Qed.
Lemma same_id_rename a b : same_id (rename_S a) (rename_S b) = same_id a b.
Proof.
  destruct a as [[a1 a2] ta| | | | | | |], b as [[b1 b2] tb| | | | | | |]; try reflexivity. cbn [rename_S same_id]. unfold rid_eqb. cbn [fst snd].
  f_equal. destruct (N.eqb_spec a1 b1) as [->|Hne]; [apply N.eqb_refl|]. apply N.eqb_neq. intro E'. apply N.succ_inj in E'. contradiction.
Qed.
Lemma zipw_rename a : forall b, zipw same_id (map rename_S a) (map rename_S b) = zipw same_id a b.
Proof. induction a as [|x a IH]; intros [|y b]; cbn [map zipw]; try reflexivity. now rewrite same_id_rename, IH. Qed.
Lemma row_at_RN p k : row_at (RN p) k = map rename_S (row_at p k).
Proof. unfold row_at, RN. change (@nil cell) with (map rename_S []) at 1. apply map_nth. Qed.
Lemma pattern_RN p k : below_pattern (RN p) k = below_pattern p k.
Proof. unfold below_pattern. rewrite !row_at_RN. apply zipw_rename. Qed.

Lemma pivot_cell_rename c : pivot_cell (rename_S c) = rename_S (pivot_cell c).
Proof. destruct c as [[a b] t| | | | | | |]; reflexivity. Qed.
Lemma width_RN p : width (RN p) = width p.
Proof. destruct p as [|r p]; [reflexivity|]. cbn [RN map width]. apply map_length. Qed.
Lemma pivot_RN p : pivot (RN p) = RN (pivot p).
Proof.
  unfold pivot. rewrite width_RN. unfold RN at 1. rewrite transpose_map. unfold RN. rewrite !map_map. apply map_ext. intro r.
  rewrite !map_map. apply map_ext. intro c. apply pivot_cell_rename.
Qed.
Lemma removelast_RN p : removelast (RN p) = RN (removelast p).
Proof. induction p as [|r p IH]; [reflexivity|]. destruct p as [|r' p]; [reflexivity|]. cbn [removelast RN map] in *. now rewrite IH. Qed.

(* the recogniser gives the same result on a plane whose region names are all raised *)
Theorem recognize_plane_RN parse_hp parse_num p res : recognize_plane parse_hp parse_num p = Some res -> recognize_plane parse_hp parse_num (RN p) = Some res.
Proof.
  intro Hr. rewrite <- Hr. unfold recognize_plane in Hr.
  destruct (orientation parse_hp parse_num p) as [[[[|] hp] n]|] eqn:Eo; [| |discriminate].
  - destruct (recognize_horizontal (tails p)) as [f|] eqn:Eh; [|discriminate].
    assert (exists px py, find_plane is_main (tails p) = Some (px, py)) as (px & py & Em).
    { unfold recognize_horizontal in Eh. destruct (find_plane is_main (tails p)) as [[px py]|]; [now exists px, py|discriminate]. }
    apply (recognize_plane_partition parse_hp parse_num p (RN p) hp n px py); try assumption.
    split; [now rewrite E_RN|]. intros k _. now rewrite pattern_RN.
  - destruct (recognize_horizontal (pivot (removelast p))) as [f|] eqn:Eh; [|discriminate].
    assert (exists px py, find_plane is_main (pivot (removelast p)) = Some (px, py)) as (px & py & Em).
    { unfold recognize_horizontal in Eh. destruct (find_plane is_main (pivot (removelast p))) as [[px py]|]; [now exists px, py|discriminate]. }
    apply (recognize_plane_partition_columns parse_hp parse_num p (RN p) hp n px py); try assumption.
    + now rewrite E_RN.
    + intros k _. now rewrite removelast_RN, pivot_RN, pattern_RN.
Qed.

(* ================================================================== the two table theorems with a box *)
Theorem text_to_table_headers_box code s b : wf_htable s = true -> wf_ibox (header_drawing s) b = true ->
  forall parse_hp parse_num hp, parse_hp (bc code (ht_hp s)) = Some hp ->
  (forall k n i o a, nth_error (ht_rules s) k = Some (n, i, o, a) -> parse_num (bc code n) = Some (S k)) ->
  canvas_cplane (drawb (header_drawing s) b) = Ok (Some (bname b), bplane (header_drawing s) b) /\
  exists p, canvas_to_plane code (drawb (header_drawing s) b) = Some p /\
            recognize_plane parse_hp parse_num p = Some (AsRow, hp, h_nr s, fields_of (abs_htable s code)).
Proof.
  intros Hs Hb parse_hp parse_num hp Hhp Hnum.
  assert (wf_mdraw (header_drawing s) = true) as Hd by (unfold wf_htable in Hs; rewrite !andb_true_iff in Hs; tauto).
  destruct (draw_roundtrip_box code (header_drawing s) b Hd Hb) as [C1 C2]. split; [assumption|].
  exists (map (map (abs_cell code)) (bplane (header_drawing s) b)). split; [assumption|].
  destruct (text_to_table_headers code s Hs parse_hp parse_num hp Hhp Hnum) as (p & P1 & P2).
  rewrite (proj2 (draw_roundtrip_merged code (header_drawing s) Hd)) in P1. injection P1 as <-.
  rewrite abs_bplane. now apply recognize_plane_RN.
Qed.

Theorem text_to_table_columns_box code s b : wf_ctable s = true -> wf_ibox (column_drawing s) b = true ->
  forall parse_hp parse_num hp, parse_hp (bc code (ht_hp s)) = Some hp ->
  (forall k n i o a, nth_error (ht_rules s) k = Some (n, i, o, a) -> parse_num (bc code n) = Some (S k)) ->
  first_input_not_marker parse_hp (abs_htable s code) = true -> first_output_not_number parse_num (abs_htable s code) = true ->
  canvas_cplane (drawb (column_drawing s) b) = Ok (Some (bname b), bplane (column_drawing s) b) /\
  exists p, canvas_to_plane code (drawb (column_drawing s) b) = Some p /\
            recognize_plane parse_hp parse_num p = Some (AsColumn, hp, h_nr s, fields_of (abs_htable s code)).
Proof.
  intros Hs Hb parse_hp parse_num hp Hhp Hnum Hin Hout.
  assert (wf_mdraw (column_drawing s) = true) as Hd by (unfold wf_ctable in Hs; rewrite !andb_true_iff in Hs; tauto).
  destruct (draw_roundtrip_box code (column_drawing s) b Hd Hb) as [C1 C2]. split; [assumption|].
  exists (map (map (abs_cell code)) (bplane (column_drawing s) b)). split; [assumption|].
  destruct (text_to_table_columns code s Hs parse_hp parse_num hp Hhp Hnum Hin Hout) as (p & P1 & P2).
  rewrite (proj2 (draw_roundtrip_merged code (column_drawing s) Hd)) in P1. injection P1 as <-.
  rewrite abs_bplane. now apply recognize_plane_RN.
Qed.
