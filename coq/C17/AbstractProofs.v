(* C17 — the ImplModel (list + two index maps + evaluator map, C17/Model.v) refines the predicate-shaped abstract
   workspace of C17/Abstract.v through the abstraction function abs, for every history; the abstract workspace is
   deterministic and keeps its invariant; the sentences of the property as corollaries about the abstract workspace,
   and their transfer to the ImplModel. *)
From Coq Require Import List NArith Bool Lia.
From DV Require Import C17.Model C17.Proofs C17.Abstract.
Import ListNotations.
Open Scope N_scope.

(* ------------------------------------------------------------------ the specification respects equal states *)
Lemma aeq_refl a : aeq a a.
Proof. split; intros; tauto. Qed.

Lemma aeq_sym a b : aeq a b -> aeq b a.
Proof. intros [H1 H2]. split; intros; [rewrite H1|rewrite H2]; tauto. Qed.

Lemma aeq_trans a b c : aeq a b -> aeq b c -> aeq a c.
Proof. intros [H1 H2] [H3 H4]. split; intros; [rewrite H1, H3|rewrite H2, H4]; tauto. Qed.

Lemma free_aeq a b m : aeq a b -> free a m -> free b m.
Proof. intros [H1 _] Hf x Hx. apply Hf. apply H1. exact Hx. Qed.

Lemma spec_add_aeq_l a b m a' r : aeq a b -> spec_add a m a' r -> spec_add b m a' r.
Proof. intros E [(Hf & Hr & Hs & Hn)|(Hf & Hr & He)].
  - left. split; [exact (free_aeq a b m E Hf)|]. split; [exact Hr|]. split; [|exact Hn].
    intros x. rewrite Hs. destruct E as [E1 _]. rewrite E1. tauto.
  - right. split; [intro Hb; apply Hf; exact (free_aeq b a m (aeq_sym _ _ E) Hb)|]. split; [exact Hr|].
    exact (aeq_trans _ _ _ (aeq_sym _ _ E) He). Qed.

Lemma spec_remove_aeq_l a b n k a' : aeq a b -> spec_remove a n k a' -> spec_remove b n k a'.
Proof. intros [E1 _] [Hs Hn]. split; [|exact Hn]. intros x. rewrite Hs, E1. tauto. Qed.

Lemma aspec_aeq_l a b o a' x : aeq a b -> aspec a o a' x -> aspec b o a' x.
Proof. intros E. destruct o as [m|n k|m| | |k]; cbn [aspec].
  - intros [r [Hx H]]. exists r. split; [exact Hx|exact (spec_add_aeq_l a b m a' r E H)].
  - intros [Hx H]. split; [exact Hx|exact (spec_remove_aeq_l a b n k a' E H)].
  - intros [r [Hx [a1 [H1 H2]]]]. exists r. split; [exact Hx|]. exists a1. split; [|exact H2].
    exact (spec_remove_aeq_l a b _ _ a1 E H1).
  - tauto.
  - intros [Hx [Hs Hv]]. split; [exact Hx|]. destruct E as [E1 E2]. split.
    + intros y. rewrite Hs, E1. tauto.
    + intros j d. rewrite Hv. split; intros [y Hy]; exists y; [rewrite <- E1|rewrite E1]; exact Hy.
  - intros [r [Hx [He Hr]]]. exists r. split; [exact Hx|]. split; [exact (aeq_trans _ _ _ (aeq_sym _ _ E) He)|].
    destruct E as [_ E2]. destruct r as [d|]; [apply E2; exact Hr|]. intros d Hd. apply (Hr d). apply E2. exact Hd. Qed.

Lemma spec_add_aeq_r a m a' b' r : aeq a' b' -> spec_add a m a' r -> spec_add a m b' r.
Proof. intros E [(Hf & Hr & Hs & Hn)|(Hf & Hr & He)].
  - left. split; [exact Hf|]. split; [exact Hr|]. destruct E as [E1 E2]. split.
    + intros x. rewrite <- E1. apply Hs.
    + intros k d Hd. apply (Hn k d). apply E2. exact Hd.
  - right. split; [exact Hf|]. split; [exact Hr|]. exact (aeq_trans _ _ _ He E). Qed.

Lemma aspec_aeq_r a o a' b' x : aeq a' b' -> aspec a o a' x -> aspec a o b' x.
Proof. intros E. destruct o as [m|n k|m| | |k]; cbn [aspec].
  - intros [r [Hx H]]. exists r. split; [exact Hx|exact (spec_add_aeq_r a m a' b' r E H)].
  - intros [Hx [Hs Hn]]. split; [exact Hx|]. destruct E as [E1 E2]. split.
    + intros y. rewrite <- E1. apply Hs.
    + intros j d Hd. apply (Hn j d). apply E2. exact Hd.
  - intros [r [Hx [a1 [H1 H2]]]]. exists r. split; [exact Hx|]. exists a1. split; [exact H1|].
    exact (spec_add_aeq_r a1 m a' b' r E H2).
  - intros [Hx [Hs Hn]]. split; [exact Hx|]. destruct E as [E1 E2]. split.
    + intros y Hy. apply (Hs y). apply E1. exact Hy.
    + intros j d Hd. apply (Hn j d). apply E2. exact Hd.
  - intros [Hx [Hs Hv]]. split; [exact Hx|]. destruct E as [E1 E2]. split.
    + intros y. rewrite <- E1. apply Hs.
    + intros j d. rewrite <- E2. apply Hv.
  - intros [r [Hx [He Hr]]]. exists r. split; [exact Hx|]. split; [exact (aeq_trans _ _ _ He E)|exact Hr]. Qed.

Lemma aruns_nil_inv a a' xs : aruns a [] a' xs -> aeq a a' /\ xs = [].
Proof. intros H. inversion H; subst. split; [assumption|reflexivity]. Qed.

Lemma aruns_cons_inv a o r a' xs : aruns a (o :: r) a' xs ->
  exists a1 x xs', aspec a o a1 x /\ aruns a1 r a' xs' /\ xs = x :: xs'.
Proof. intros H. inversion H; subst. eexists _, _, _. split; [eassumption|]. split; [eassumption|reflexivity]. Qed.

Lemma aruns_aeq_l ops : forall a b a' xs, aeq a b -> aruns a ops a' xs -> aruns b ops a' xs.
Proof. destruct ops as [|o r]; intros a b a' xs E H.
  - apply aruns_nil_inv in H. destruct H as [He Hx]. subst xs. constructor. exact (aeq_trans _ _ _ (aeq_sym _ _ E) He).
  - apply aruns_cons_inv in H. destruct H as (a1 & x & xs' & Hs & Hr & Hx). subst xs.
    econstructor; [exact (aspec_aeq_l a b o a1 x E Hs)|exact Hr]. Qed.

(* ------------------------------------------------------------------ the invariant of the abstract workspace *)
Lemma AInv_empty : AInv aempty.
Proof. unfold AInv, aempty; cbn. repeat split; intros; contradiction. Qed.

Lemma AInv_aeq a b : aeq a b -> AInv a -> AInv b.
Proof. intros [E1 E2] (H1 & H2 & H3). split; [|split].
  - intros x y Hx Hy. apply H1; apply E1; assumption.
  - intros x y Hx Hy. apply H2; apply E1; assumption.
  - intros k d Hd. apply E2 in Hd. destruct (H3 k d Hd) as [x Hx]. exists x. rewrite <- E1. exact Hx. Qed.

Lemma AInv_add a m a' r : AInv a -> spec_add a m a' r -> AInv a'.
Proof. intros HI [(Hf & Hr & Hs & Hn)|(Hf & Hr & He)]; [|exact (AInv_aeq a a' He HI)].
  destruct HI as (H1 & H2 & H3). split; [|split].
  - intros x y Hx Hy E. apply Hs in Hx. apply Hs in Hy. destruct Hx as [Hx|Hx]; destruct Hy as [Hy|Hy]; subst.
    + apply H1; assumption.
    + destruct (Hf x Hx). congruence.
    + destruct (Hf y Hy). congruence.
    + reflexivity.
  - intros x y Hx Hy E. apply Hs in Hx. apply Hs in Hy. destruct Hx as [Hx|Hx]; destruct Hy as [Hy|Hy]; subst.
    + apply H2; assumption.
    + destruct (Hf x Hx). congruence.
    + destruct (Hf y Hy). congruence.
    + reflexivity.
  - intros k d Hd. destruct (Hn k d Hd). Qed.

Lemma AInv_remove a n k a' : AInv a -> spec_remove a n k a' -> AInv a'.
Proof. intros (H1 & H2 & H3) [Hs Hn]. split; [|split].
  - intros x y Hx Hy. apply Hs in Hx. apply Hs in Hy. apply H1; tauto.
  - intros x y Hx Hy. apply Hs in Hx. apply Hs in Hy. apply H2; tauto.
  - intros j d Hd. destruct (Hn j d Hd). Qed.

Lemma AInv_step a o a' x : AInv a -> aspec a o a' x -> AInv a'.
Proof. intros HI. destruct o as [m|n k|m| | |k]; cbn [aspec].
  - intros [r [_ H]]. exact (AInv_add a m a' r HI H).
  - intros [_ H]. exact (AInv_remove a n k a' HI H).
  - intros [r [_ [a1 [H1 H2]]]]. exact (AInv_add a1 m a' r (AInv_remove a _ _ a1 HI H1) H2).
  - intros [_ [Hs Hn]]. split; [|split].
    + intros y z Hy. destruct (Hs y Hy).
    + intros y z Hy. destruct (Hs y Hy).
    + intros j d Hd. destruct (Hn j d Hd).
  - intros [_ [Hs Hv]]. destruct HI as (H1 & H2 & H3). split; [|split].
    + intros y z Hy Hz. apply H1; apply Hs; assumption.
    + intros y z Hy Hz. apply H2; apply Hs; assumption.
    + intros j d Hd. apply Hv in Hd. destruct Hd as [y Hy]. exists y. rewrite Hs. exact Hy.
  - intros [r [_ [He _]]]. exact (AInv_aeq a a' He HI). Qed.

Lemma AInv_runs ops : forall a a' xs, AInv a -> aruns a ops a' xs -> AInv a'.
Proof. induction ops as [|o r IH]; intros a a' xs HI H.
  - apply aruns_nil_inv in H. destruct H as [He _]. exact (AInv_aeq a a' He HI).
  - apply aruns_cons_inv in H. destruct H as (a1 & x & xs' & Hs & Hr & _).
    exact (IH a1 a' xs' (AInv_step a o a1 x HI Hs) Hr). Qed.

Theorem abstract_invariant ops a xs : aruns aempty ops a xs -> AInv a.
Proof. apply AInv_runs. exact AInv_empty. Qed.

(* under the invariant a name is served by at most one document *)
Lemma served_functional a k d1 d2 : AInv a -> served a k d1 -> served a k d2 -> d1 = d2.
Proof. intros (_ & H2 & H3) Hd1 Hd2. destruct (H3 k d1 Hd1) as [x (Hx & _ & Hk & Hd)].
  destruct (H3 k d2 Hd2) as [y (Hy & _ & Hk' & Hd')]. assert (x = y) by (apply H2; congruence). congruence. Qed.

(* ------------------------------------------------------------------ the abstract workspace is deterministic *)
Lemma spec_add_det a m a1 r1 a2 r2 : spec_add a m a1 r1 -> spec_add a m a2 r2 -> aeq a1 a2 /\ r1 = r2.
Proof. intros [(Hf & Hr & Hs & Hn)|(Hf & Hr & He)] [(Hf' & Hr' & Hs' & Hn')|(Hf' & Hr' & He')]; try contradiction.
  - split; [|congruence]. split.
    + intros x. rewrite Hs, Hs'. tauto.
    + intros k d. split; intros H; [destruct (Hn k d H)|destruct (Hn' k d H)].
  - split; [|congruence]. exact (aeq_trans _ _ _ (aeq_sym _ _ He) He'). Qed.

Lemma spec_remove_det a n k a1 a2 : spec_remove a n k a1 -> spec_remove a n k a2 -> aeq a1 a2.
Proof. intros [Hs Hn] [Hs' Hn']. split.
  - intros x. rewrite Hs, Hs'. tauto.
  - intros j d. split; intros H; [destruct (Hn j d H)|destruct (Hn' j d H)]. Qed.

Theorem aspec_deterministic a o a1 x1 a2 x2 : AInv a -> aspec a o a1 x1 -> aspec a o a2 x2 -> aeq a1 a2 /\ x1 = x2.
Proof. intros HI. destruct o as [m|n k|m| | |k]; cbn [aspec].
  - intros [r1 [Hx1 H1]] [r2 [Hx2 H2]]. destruct (spec_add_det a m a1 r1 a2 r2 H1 H2). split; congruence.
  - intros [Hx1 H1] [Hx2 H2]. split; [exact (spec_remove_det a n k a1 a2 H1 H2)|congruence].
  - intros [r1 [Hx1 [b1 [H1 H1']]]] [r2 [Hx2 [b2 [H2 H2']]]].
    pose proof (spec_remove_det a _ _ b1 b2 H1 H2) as E.
    destruct (spec_add_det b2 m a1 r1 a2 r2 (spec_add_aeq_l b1 b2 m a1 r1 E H1') H2'). split; congruence.
  - intros [Hx1 [Hs1 Hn1]] [Hx2 [Hs2 Hn2]]. split; [|congruence]. split.
    + intros y. split; intros H; [destruct (Hs1 y H)|destruct (Hs2 y H)].
    + intros j d. split; intros H; [destruct (Hn1 j d H)|destruct (Hn2 j d H)].
  - intros [Hx1 [Hs1 Hv1]] [Hx2 [Hs2 Hv2]]. split; [|congruence]. split.
    + intros y. rewrite Hs1, Hs2. tauto.
    + intros j d. rewrite Hv1, Hv2. tauto.
  - intros [r1 [Hx1 [He1 Hr1]]] [r2 [Hx2 [He2 Hr2]]]. split; [exact (aeq_trans _ _ _ (aeq_sym _ _ He1) He2)|].
    subst x1 x2. f_equal. destruct r1 as [d1|], r2 as [d2|].
    + f_equal. exact (served_functional a k d1 d2 HI Hr1 Hr2).
    + destruct (Hr2 d1 Hr1).
    + destruct (Hr1 d2 Hr2).
    + reflexivity. Qed.

Theorem aruns_deterministic ops : forall a a1 xs1 a2 xs2, AInv a ->
  aruns a ops a1 xs1 -> aruns a ops a2 xs2 -> aeq a1 a2 /\ xs1 = xs2.
Proof. induction ops as [|o r IH]; intros a a1 xs1 a2 xs2 HI H1 H2.
  - apply aruns_nil_inv in H1. apply aruns_nil_inv in H2. destruct H1 as [E1 X1], H2 as [E2 X2]. subst xs1 xs2.
    split; [exact (aeq_trans _ _ _ (aeq_sym _ _ E1) E2)|reflexivity].
  - apply aruns_cons_inv in H1. apply aruns_cons_inv in H2.
    destruct H1 as (b1 & x1 & ys1 & Hs1 & Hr1 & X1), H2 as (b2 & x2 & ys2 & Hs2 & Hr2 & X2). subst xs1 xs2.
    destruct (aspec_deterministic a o b1 x1 b2 x2 HI Hs1 Hs2) as [E Ex]. subst x2.
    destruct (IH b2 a1 ys1 a2 ys2 (AInv_step a o b2 x1 HI Hs2) (aruns_aeq_l r b1 b2 a1 ys1 E Hr1) Hr2) as [E' Exs].
    split; [exact E'|congruence]. Qed.

(* ------------------------------------------------------------------ refinement: one step *)
Lemma abs_add s m : Inv s -> spec_add (abs s) m (abs (fst (add s m))) (snd (add s m)).
Proof. intros (H1 & H2 & _). unfold add.
  destruct (mem (ns m) (by_ns s)) eqn:E1.
  { right. cbn [fst snd]. split; [|split; [reflexivity|apply aeq_refl]]. intros Hf.
    apply mem_In, H1, in_map_iff in E1. destruct E1 as [x [Ex Hx]]. destruct (Hf x Hx). congruence. }
  destruct (mem (nm m) (by_nm s)) eqn:E2.
  { right. cbn [fst snd]. split; [|split; [reflexivity|apply aeq_refl]]. intros Hf.
    apply mem_In, H2, in_map_iff in E2. destruct E2 as [x [Ex Hx]]. destruct (Hf x Hx). congruence. }
  left. cbn [fst snd]. apply mem_false in E1. apply mem_false in E2. split; [|split; [reflexivity|split]].
  - intros x Hx. cbn [abs stored] in Hx. split; intro He.
    + apply E1, H1, in_map_iff. exists x. tauto.
    + apply E2, H2, in_map_iff. exists x. tauto.
  - intros x. cbn [abs stored defs]. rewrite in_app_iff. cbn [In]. intuition congruence.
  - intros k d. cbn [abs served evs lookup]. discriminate. Qed.

Lemma abs_remove s n k : spec_remove (abs s) n k (abs (remove s n k)).
Proof. split.
  - intros x. cbn [abs stored remove defs]. rewrite filter_In. unfold retained.
    rewrite andb_true_iff, !negb_true_iff, !N.eqb_neq. tauto.
  - intros j d. cbn [abs served remove evs lookup]. discriminate. Qed.

Theorem abs_step s o : Inv s -> aspec (abs s) o (abs (fst (step remove s o))) (snd (step remove s o)).
Proof. intros HI. destruct o as [m|n k|m| | |k]; cbn [step aspec].
  - pose proof (abs_add s m HI) as H. destruct (add s m) as [s' ok]. cbn [fst snd] in *. exists ok. split; [reflexivity|exact H].
  - cbn [fst snd]. split; [reflexivity|apply abs_remove].
  - pose proof (abs_add _ m (Inv_remove s (ns m) (nm m) HI)) as H. destruct (add _ m) as [s' ok]. cbn [fst snd] in *.
    exists ok. split; [reflexivity|]. exists (abs (remove s (ns m) (nm m))). split; [apply abs_remove|exact H].
  - cbn [fst snd]. split; [reflexivity|]. split; [intros x []|intros j d; cbn; discriminate].
  - cbn [fst snd]. split; [reflexivity|]. split.
    + intros x. cbn [abs stored deploy defs]. tauto.
    + intros j d. destruct HI as (_ & _ & _ & H4 & _). cbn [abs served stored]. apply deploy_serves. exact H4.
  - cbn [fst snd]. exists (lookup k (evs s)). split; [reflexivity|]. split; [apply aeq_refl|].
    cbn [abs served]. destruct (lookup k (evs s)) as [d|]; [reflexivity|intros d; discriminate]. Qed.

Lemma abs_run ops : forall s, Inv s -> aruns (abs s) ops (abs (fst (run remove s ops))) (snd (run remove s ops)).
Proof. induction ops as [|o r IH]; intros s HI; cbn [run].
  - cbn [fst snd]. constructor. apply aeq_refl.
  - pose proof (abs_step s o HI) as H1. pose proof (Inv_step s o HI) as HI1.
    destruct (step remove s o) as [s1 x]. cbn [fst snd] in *. specialize (IH s1 HI1).
    destruct (run remove s1 r) as [s2 xs]. cbn [fst snd] in *. econstructor; [exact H1|exact IH]. Qed.

Lemma abs_init : aeq (abs init) aempty.
Proof. split; [intros x; cbn; tauto|]. intros k d. cbn. split; [discriminate|tauto]. Qed.

(* THE REFINEMENT: for every history the states and the results of the ImplModel are a run of the abstract workspace
   started empty (and, the abstract workspace being deterministic, the only one) *)
Theorem refines_abstract_spec ops :
  aruns aempty ops (abs (fst (run remove init ops))) (snd (run remove init ops)).
Proof. apply (aruns_aeq_l ops (abs init) aempty); [exact abs_init|]. apply abs_run. exact Inv_init. Qed.

Theorem refines_abstract_spec_unique ops a xs : aruns aempty ops a xs ->
  aeq a (abs (fst (run remove init ops))) /\ xs = snd (run remove init ops).
Proof. intros H. exact (aruns_deterministic ops aempty _ _ _ _ AInv_empty H (refines_abstract_spec ops)). Qed.

(* ------------------------------------------------------------------ the sentences of the property, about the abstract workspace *)
(* a model can be added if and only if no stored model has its namespace or its name; then the set gains exactly it *)
Theorem abs_add_iff_free a m a' r : aspec a (Add m) a' (OAdd r) ->
  (r = true <-> free a m) /\
  (r = true -> (forall x, stored a' x <-> stored a x \/ x = m) /\ nothing_served a') /\
  (r = false -> aeq a a').
Proof. cbn [aspec]. intros [r' [Hx H]]. injection Hx as Hx. subst r'.
  destruct H as [(Hf & Hr & Hs & Hn)|(Hf & Hr & He)]; subst r.
  - split; [tauto|]. split; [tauto|discriminate].
  - split; [split; [discriminate|contradiction]|]. split; [discriminate|tauto]. Qed.

(* remove (n, k): exactly the stored models with another namespace AND another name stay *)
Theorem abs_remove_exactly a n k a' x : aspec a (Remove n k) a' x ->
  (forall y, stored a' y <-> stored a y /\ ns y <> n /\ nm y <> k) /\ nothing_served a'.
Proof. cbn [aspec]. intros [_ H]. exact H. Qed.

(* no stale reservation: neither key of a model that a remove dropped is held by a model that stayed *)
Theorem abs_remove_no_stale_key a n k a' x : AInv a -> aspec a (Remove n k) a' x ->
  forall z, stored a z -> ~ stored a' z -> forall y, stored a' y -> ns y <> ns z /\ nm y <> nm z.
Proof. cbn [aspec]. intros (H1 & H2 & _) [_ [Hs _]] z Hz Hnz y Hy. pose proof Hy as Hy'. apply Hs in Hy'.
  split; intro E; apply Hnz.
  - assert (y = z) by (apply H1; tauto). subst z. exact Hy.
  - assert (y = z) by (apply H2; tauto). subst z. exact Hy. Qed.

(* after remove (n, k) neither key is reserved: a model with that namespace and that name can be added *)
Theorem abs_remove_then_add a n k a1 x m a2 r : aspec a (Remove n k) a1 x -> ns m = n -> nm m = k ->
  aspec a1 (Add m) a2 (OAdd r) -> r = true.
Proof. intros H1 En Ek H2. apply (abs_add_iff_free a1 m a2 r H2). intros y Hy.
  cbn [aspec] in H1. destruct H1 as [_ [Hs _]]. apply Hs in Hy. subst n k. tauto. Qed.

(* replace never fails; it leaves the new document and exactly the stored models that share neither key with it *)
Theorem abs_replace a m a' x : aspec a (Replace m) a' x ->
  x = OAdd true /\ (forall y, stored a' y <-> y = m \/ (stored a y /\ ns y <> ns m /\ nm y <> nm m)) /\ nothing_served a'.
Proof. cbn [aspec]. intros [r [Hx [a1 [[Hs Hn] Ha]]]].
  assert (Hf : free a1 m) by (intros y Hy; apply Hs in Hy; tauto).
  destruct Ha as [(_ & Hr & Hs' & Hn')|(Hnf & _)]; [|contradiction]. subst r. split; [exact Hx|]. split; [|exact Hn'].
  intros y. rewrite Hs', Hs. tauto. Qed.

Theorem abs_clear a a' x : aspec a Clear a' x -> (forall y, ~ stored a' y) /\ nothing_served a'.
Proof. cbn [aspec]. unfold spec_clear. tauto. Qed.

(* any modification makes nothing evaluable *)
Theorem abs_modification_undeploys a o a' x : aspec a o a' x -> modifies o x -> nothing_served a'.
Proof. destruct o as [m|n k|m| | |k]; cbn [aspec modifies]; intros H Hm; try contradiction.
  - subst x. destruct H as [r [Hx [(_ & _ & _ & Hn)|(_ & Hr & _)]]]; [exact Hn|congruence].
  - destruct H as [_ [_ Hn]]. exact Hn.
  - destruct (abs_replace a m a' x H) as (_ & _ & Hn). exact Hn.
  - destruct H as [_ [_ Hn]]. exact Hn. Qed.

(* deploy makes evaluable exactly the stored models that build; an evaluation is answered by the document served *)
Theorem abs_deploy_exactly a a' x : aspec a Deploy a' x ->
  (forall y, stored a' y <-> stored a y) /\
  (forall k d, served a' k d <-> exists y, stored a y /\ builds y = true /\ nm y = k /\ doc y = d).
Proof. cbn [aspec]. unfold spec_deploy. tauto. Qed.

Theorem abs_eval_answer a k a' r : AInv a -> aspec a (Eval k) a' (OEval r) ->
  aeq a a' /\ (forall d, r = Some d <-> served a k d).
Proof. cbn [aspec]. intros HI [r' [Hx [He Hr]]]. injection Hx as Hx. subst r'. split; [exact He|]. intros d.
  destruct r as [d'|].
  - split; [intros E; injection E as E; subst d'; exact Hr|]. intros Hd. f_equal. exact (served_functional a k d' d HI Hr Hd).
  - split; [discriminate|]. intros Hd. destruct (Hr d Hd). Qed.

Lemma aruns_app_inv l1 : forall a l2 a' xs, aruns a (l1 ++ l2) a' xs ->
  exists am xs1 xs2, aruns a l1 am xs1 /\ aruns am l2 a' xs2 /\ xs = xs1 ++ xs2.
Proof. induction l1 as [|o r IH]; intros a l2 a' xs H.
  - exists a, [], xs. split; [constructor; apply aeq_refl|]. split; [exact H|reflexivity].
  - cbn [app] in H. apply aruns_cons_inv in H. destruct H as (a1 & x & xs' & Hs & Hr & Hx). subst xs.
    destruct (IH a1 l2 a' xs' Hr) as (am & xs1 & xs2 & Ha & Hb & Hc).
    exists am, (x :: xs1), xs2. split; [econstructor; eassumption|]. split; [exact Hb|]. subst xs'. reflexivity. Qed.

Lemma aruns_evals post : forallb is_eval post = true -> forall a a' xs, aruns a post a' xs -> aeq a a'.
Proof. induction post as [|o r IH]; cbn [forallb]; intros Hp a a' xs H.
  - apply aruns_nil_inv in H. tauto.
  - apply aruns_cons_inv in H. destruct H as (a1 & x & xs' & Hs & Hr' & _).
    apply andb_true_iff in Hp. destruct Hp as [Ho Hr]. destruct o; try discriminate. cbn [aspec] in Hs.
    destruct Hs as [r0 [_ [He _]]]. exact (aeq_trans _ _ _ He (IH Hr a1 a' xs' Hr')). Qed.

(* evaluation is possible exactly for the models that were stored at the last deploy and built, no modification since *)
Theorem abs_evaluable_exactly pre post a xs k d : forallb is_eval post = true ->
  aruns aempty (pre ++ Deploy :: post) a xs ->
  exists a0 xs0, aruns aempty pre a0 xs0 /\
    (served a k d <-> exists y, stored a0 y /\ builds y = true /\ nm y = k /\ doc y = d).
Proof. intros Hp H. destruct (aruns_app_inv pre aempty (Deploy :: post) a xs H) as (a0 & xs0 & xs2 & H0 & H1 & _).
  exists a0, xs0. split; [exact H0|]. apply aruns_cons_inv in H1. destruct H1 as (a1 & x & xs' & Hs & Hr & _).
  cbn [aspec] in Hs. destruct Hs as [_ [_ Hv]].
  destruct (aruns_evals post Hp a1 a xs' Hr) as [_ E2]. rewrite <- E2. apply Hv. Qed.

(* ------------------------------------------------------------------ transfer to the ImplModel *)
Lemma run_app rm l1 : forall s l2,
  run rm s (l1 ++ l2) = (fst (run rm (fst (run rm s l1)) l2), snd (run rm s l1) ++ snd (run rm (fst (run rm s l1)) l2)).
Proof. induction l1 as [|o r IH]; intros s l2; cbn [app run fst snd].
  - destruct (run rm s l2); reflexivity.
  - destruct (step rm s o) as [s1 x]. rewrite IH. destruct (run rm s1 r) as [s2 xs]. reflexivity. Qed.

(* replace, deploy, evaluate: the NEW document answers, whatever the history before, whichever document of the same
   namespace and name (or any other in its way) was stored *)
Theorem replace_serves_new_document pre m : builds m = true ->
  snd (run remove init (pre ++ [Replace m; Deploy; Eval (nm m)])) =
  snd (run remove init pre) ++ [OAdd true; OUnit; OEval (Some (doc m))].
Proof. intros Hb. rewrite run_app. cbn [snd]. f_equal.
  pose proof (reachable_inv pre) as HI. set (s := fst (run remove init pre)) in *.
  pose proof (abs_step s (Replace m) HI) as H1. pose proof (Inv_step s (Replace m) HI) as HI1.
  cbn [run]. destruct (step remove s (Replace m)) as [s1 x1]. cbn [fst snd] in *.
  destruct (abs_replace _ _ _ _ H1) as (Hx1 & Hs1 & _). subst x1.
  pose proof (abs_step s1 Deploy HI1) as H2. pose proof (Inv_step s1 Deploy HI1) as HI2.
  cbn [step] in *. cbn [fst snd] in *.
  destruct (abs_deploy_exactly _ _ _ H2) as (_ & Hv2).
  assert (Hl : lookup (nm m) (evs (deploy s1)) = Some (doc m)).
  { apply (Hv2 (nm m) (doc m)). exists m. split; [apply Hs1; left; reflexivity|]. tauto. }
  rewrite Hl. reflexivity. Qed.

(* a model that does not build is stored by replace and is not evaluable *)
Theorem replace_not_building pre m : builds m = false ->
  snd (run remove init (pre ++ [Replace m; Deploy; Eval (nm m)])) =
  snd (run remove init pre) ++ [OAdd true; OUnit; OEval None].
Proof. intros Hb. rewrite run_app. cbn [snd]. f_equal.
  pose proof (reachable_inv pre) as HI. set (s := fst (run remove init pre)) in *.
  pose proof (abs_step s (Replace m) HI) as H1. pose proof (Inv_step s (Replace m) HI) as HI1.
  cbn [run]. destruct (step remove s (Replace m)) as [s1 x1]. cbn [fst snd] in *.
  destruct (abs_replace _ _ _ _ H1) as (Hx1 & Hs1 & _). subst x1.
  pose proof (abs_step s1 Deploy HI1) as H2. pose proof (Inv_step s1 Deploy HI1) as (_ & _ & _ & HN & _).
  cbn [step] in *. cbn [fst snd] in *.
  destruct (abs_deploy_exactly _ _ _ H2) as (_ & Hv2).
  destruct (lookup (nm m) (evs (deploy s1))) as [d|] eqn:El; [|reflexivity]. exfalso.
  apply (Hv2 (nm m) d) in El. destruct El as [y (Hy & Hby & Hk & _)]. cbn [abs stored] in Hy.
  assert (Hm : In m (defs s1)) by (apply (Hs1 m); left; reflexivity).
  assert (y = m) by (apply (nm_inj (defs s1)); assumption). subst y. congruence. Qed.

(* the sentences of the property for the ImplModel, read through abs, for every history *)
Theorem impl_add_iff_free ops m : let s := fst (run remove init ops) in
  snd (step remove s (Add m)) = OAdd true <-> (forall x, In x (defs s) -> ns x <> ns m /\ nm x <> nm m).
Proof. cbn zeta. pose proof (abs_step _ (Add m) (reachable_inv ops)) as H. set (s := fst (run remove init ops)) in *.
  cbn [step] in *. destruct (add s m) as [s' ok]. cbn [fst snd] in *.
  destruct (abs_add_iff_free _ _ _ _ H) as [Hiff _]. unfold free in Hiff. cbn [abs stored] in Hiff.
  rewrite <- Hiff. split; [intros E; injection E as E; exact E|intros E; subst ok; reflexivity]. Qed.

Theorem impl_remove_exactly ops n k x : let s := fst (run remove init ops) in
  In x (defs (fst (step remove s (Remove n k)))) <-> In x (defs s) /\ ns x <> n /\ nm x <> k.
Proof. cbn zeta. pose proof (abs_step _ (Remove n k) (reachable_inv ops)) as H.
  destruct (abs_remove_exactly _ _ _ _ _ H) as [Hs _]. exact (Hs x). Qed.

(* after a remove that dropped z, a model with the namespace and the name of z is accepted *)
Theorem impl_remove_frees_both_keys ops n k z m : let s := fst (run remove init ops) in
  In z (defs s) -> ~ In z (defs (remove s n k)) -> ns m = ns z -> nm m = nm z ->
  snd (add (remove s n k) m) = true.
Proof. cbn zeta. intros Hz Hnz En Ek. set (s := fst (run remove init ops)) in *.
  pose proof (reachable_inv ops) as HI. fold s in HI.
  pose proof (abs_step s (Remove n k) HI) as H1. cbn [step fst snd] in H1.
  assert (HA : AInv (abs s)).
  { apply (AInv_aeq (abs s) (abs s) (aeq_refl _)). apply (abstract_invariant ops _ _ (refines_abstract_spec ops)). }
  pose proof (abs_remove_no_stale_key _ _ _ _ _ HA H1 z Hz Hnz) as Hk.
  pose proof (abs_add (remove s n k) m (Inv_remove s n k HI)) as [(_ & Hr & _)|(Hnf & _)]; [exact Hr|].
  exfalso. apply Hnf. intros y Hy. rewrite En, Ek. apply Hk. exact Hy. Qed.

(* non-vacuity: A and A' share namespace and name; the history serves first A, after the replace A' *)
Definition mA' := {| ns := 1; nm := 11; builds := true; doc := 105 |}.
Example abstract_nonvacuous :
  snd (run remove init [Add mA; Deploy; Eval 11; Replace mA'; Eval 11; Deploy; Eval 11; Add mA; Eval 11]) =
  [OAdd true; OUnit; OEval (Some 101); OAdd true; OEval None; OUnit; OEval (Some 105); OAdd false; OEval (Some 105)] /\
  aruns aempty [Add mA; Deploy; Eval 11; Replace mA']
    (abs (fst (run remove init [Add mA; Deploy; Eval 11; Replace mA'])))
    [OAdd true; OUnit; OEval (Some 101); OAdd true] /\
  stored (abs (fst (run remove init [Add mA; Deploy; Eval 11; Replace mA']))) mA' /\
  ~ stored (abs (fst (run remove init [Add mA; Deploy; Eval 11; Replace mA']))) mA.
Proof. split; [vm_compute; reflexivity|]. split; [exact (refines_abstract_spec [Add mA; Deploy; Eval 11; Replace mA'])|].
  split; [vm_compute; auto|]. vm_compute. intros [H|[]]. discriminate. Qed.
