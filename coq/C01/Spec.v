(* C01 — Spec: environment-passing big-step semantics of the FEEL core fragment.  The environment is
   a list of contexts searched from the head (innermost binding first); a construct that binds
   names evaluates its sub-expression in an extended environment and nothing is ever mutated.
   Multi-variable for/some/every range over the cartesian product `cart` of their domains in
   declaration order (empty as soon as one domain is empty).
   Interpretive choices taken from the implementation (see DESIGN.md §6 C01): `if` on a non-boolean
   non-null condition is null; a boolean filter keeping exactly one element yields that element;
   a range domain whose bounds are not integers contributes no variable; extra positional
   arguments are ignored; function bodies see the caller's environment (dynamic scoping: a listed
   known finding — for bodies that only use their own parameters it coincides with lexical scoping).
   Out of fuel = VPoison (excluded by the statements: the check never accepts a poisoned value). *)
From Coq Require Import List ZArith NArith Bool.
From DV Require Import C01.Syntax.
Import ListNotations.
Open Scope Z_scope.

Definition test_eval (ev : expr -> value) (t : test) : value :=
  match t with
  | TVal e => ev e
  | TCmp o e => VUnary o (ev e)
  | TRange lo lc hi hc => VRange (ev lo) lc (ev hi) hc
  end.

(* the contexts a filter pushes for one list element *)
Definition filter_env (v : value) : list ctx :=
  match v with
  | VCtx c => match ctx_get n_item c with Some _ => [c] | None => [[(n_item, v)]; c] end
  | _ => [[(n_item, v)]]
  end.

(* iteration domain of one variable: None = the variable is skipped (range with non-integer bounds) *)
Definition dom_eval (ev : expr -> value) (d : dom) : option (list value) :=
  match d with
  | DList e => Some (dom_values (ev e))
  | DRange lo hi => match ev lo, ev hi with
                    | VNum a, VNum b => match num_int a, num_int b with Some x, Some y => Some (range_values x y) | _, _ => None end
                    | _, _ => None end
  end.
Definition dom_poison (ev : expr -> value) (d : dom) : bool :=
  match d with DList e => false | DRange lo hi => poison (ev lo) || poison (ev hi) end.

Definition doms_eval (ev : expr -> value) (ds : list (N * dom)) : list (N * list value) :=
  flat_map (fun nd => match dom_eval ev (snd nd) with Some vs => [(fst nd, vs)] | None => [] end) ds.

Definition mk_args (ps : list (N * C16.Model.ftype)) (vs : list value) : option ctx :=
  if Nat.ltb (length vs) (length ps) then None
  else Some (fold_left (fun c pv => ctx_set (fst (fst pv)) (coerced1 (snd (fst pv)) (snd pv)) c) (combine ps vs) []).

Fixpoint assoc (k : N) (l : list (N * value)) : option value :=
  match l with [] => None | (k', v) :: r => if N.eqb k k' then Some v else assoc k r end.
Fixpoint mk_named (ps : list (N * C16.Model.ftype)) (nvs : list (N * value)) (acc : ctx) : option ctx :=
  match ps with
  | [] => Some acc
  | (p, t) :: r => match assoc p nvs with Some v => mk_named r nvs (ctx_set p (coerced1 t v) acc) | None => None end
  end.

(* some / every: three-valued or / and over the results (a non-boolean result counts as null) *)
Definition is_false (v : value) : bool := match v with VBool false => true | _ => false end.
Definition is_boolean (v : value) : bool := match v with VBool _ => true | _ => false end.
Definition quant_some (rs : list value) : value :=
  if existsb poison rs then VPoison
  else if existsb is_true rs then VBool true
  else if forallb is_boolean rs then VBool false else VNull.
Definition quant_every (rs : list value) : value :=
  if existsb poison rs then VPoison
  else if existsb is_false rs then VBool false
  else if forallb is_boolean rs then VBool true else VNull.

(* the folds as they were at the pinned commit: non-boolean results were ignored *)
Definition quant_some_orig (rs : list value) : value :=
  if existsb poison rs then VPoison else VBool (existsb is_true rs).
Definition quant_every_orig (rs : list value) : value :=
  if existsb poison rs then VPoison else VBool (negb (existsb is_false rs)).

Section Sem.
(* the enumeration of iteration tuples: `cart` for the Spec, `cart_impl` for the code as it is *)
Variable cartf : list (N * list value) -> list ctx.

Fixpoint eval (fuel : nat) (S : stack) (e : expr) : value :=
  match fuel with O => VPoison | Datatypes.S f =>
  let ev := eval f S in
  match e with
  | ENull => VNull | EBool b => VBool b | ENum z => VNum z | EStr s => VStr s
  | EName n => match lookup n S with Some v => v | None => VNull end
  | EBin o a b => binop_eval o (ev a) (ev b)
  | ENeg a => neg_eval (ev a)
  | EIf c t e' => match ev c with VBool true => ev t | VBool false | VNull => ev e' | VPoison => VPoison | _ => VNull end
  | EBetween x lo hi => between_eval (ev x) (ev lo) (ev hi)
  | EIn x ts => match ts with [t] => in_eval (ev x) (test_eval ev t) | _ => in_tests_eval (ev x) (map (test_eval ev) ts) end
  | EInList x l => in_eval (ev x) (ev l)
  | EList es => VList (map ev es)
  | ECtx es => VCtx (fold_left (fun acc ke => ctx_set (fst ke) (eval f (acc :: S) (snd ke)) acc) es [])
  | EPath e' k => path_eval (ev e') k
  | EFilter e' fe =>
      match ev e' with
      | VList items =>
          let rs := map (fun v => eval f (filter_env v ++ S) fe) items in
          if existsb poison rs then VPoison else
          filter_finish items (map fst (filter (fun vr => is_true (snd vr)) (combine items rs))) (ev fe)
      | VPoison => VPoison
      | (VNum _ | VBool _ | VStr _ | VCtx _) as v => filter_scalar v (ev fe)
      | _ => VNull
      end
  | EFor ds body =>
      if existsb (fun nd => dom_poison ev (snd nd)) ds then VPoison else
      match doms_eval ev ds with
      | [] => VList []
      | doms => VList (fold_left (fun acc t => acc ++ [eval f (ctx_set n_partial (VList acc) t :: S) body]) (cartf doms) [])
      end
  | ESome ds body =>
      quant_some (map (fun t => eval f (t :: S) body) (cartf (map (fun nd => (fst nd, dom_values (ev (snd nd)))) ds)))
  | EEvery ds body =>
      quant_every (map (fun t => eval f (t :: S) body) (cartf (map (fun nd => (fst nd, dom_values (ev (snd nd)))) ds)))
  | EFun ps body => VFun ps body
  | ECall fe args =>
      match ev fe with
      | VFun ps body => match mk_args ps (map ev args) with Some c => eval f (c :: S) body | None => VNull end
      | VPoison => VPoison
      | _ => VNull
      end
  | ECallN fe nargs =>
      match ev fe with
      | VFun ps body => match mk_named ps (map (fun ne => (fst ne, ev (snd ne))) nargs) [] with Some c => eval f (c :: S) body | None => VNull end
      | VPoison => VPoison
      | _ => VNull
      end
  end end.
End Sem.

Definition eval_spec := eval cart.
