(* C04 — a decision's value is its logic evaluated over its requirement graph.
   Executable model of the closure wiring in
     model-evaluator/src/builders/decision.rs                   (build_decision_evaluator: the decision closure)
     model-evaluator/src/builders/business_knowledge_model.rs   (build_evaluator: the knowledge model closure)
     model-evaluator/src/builders/decision_service.rs           (the service closure, the service as function definition)
     model-evaluator/src/model_evaluator.rs                     (evaluate_decision / _business_knowledge_model / _decision_service)
   ImplModel [run]: the recursive closures (each requirement evaluated again by the closure that needs it), fuel = depth.
   Tabulation [spec_step]: the same closure body tabulated once per node along a topological order of the graph
   (no recursion, no fuel, every shared node has one entry).  It shares [body] with [run]: run = spec_step says that
   the recursion scheme does not matter, nothing more.  The independent Spec is [denote] of C04/Denote.v
   (theorems impl_is_denotation in C04/DenoteProofs.v).
   The wiring is modelled over an ABSTRACT expression evaluator [eval] (Section variable; the only thing assumed of it
   in the proofs is that it uses its service call-back extensionally).  [teval] is a tiny concrete evaluator
   (numbers, strings, + *, names, f(a,b), boxed invocation, boxed context, relation) used by the correspondence check,
   with the dynamic scoping of function bodies that the FEEL evaluator has; [teval_orig] keeps the entry leak of boxed
   contexts at the pinned commit.
   Numbers are decimal128 data (coq/Base/Dec.v) and + * are the correctly rounded operations of coq/Base/DecRound.v
   (the subject of C02; imported, not copied), as in coq/C01/Syntax.v; an overflow is null.  A string is its list of
   code points; + concatenates two strings; any other mix of operand kinds is null.
   Conventions: names and ids are numbers; a context is an association list with set = replace-or-append
   (only look-ups and the entry set are observed; the check compares contexts as sorted maps); input data are
   taken from the input context by name and number-typed (input_value; typing in general is C11's subject); output variables are untyped (coercion is C11/C16).
   No proofs in this file. *)
From Coq Require Import List NArith ZArith Bool Arith.
From DV Require Base.Dec Base.DecRound.
Import ListNotations.

Inductive expr :=
| ENull | ENum (d : Dec.dec) | EStr (s : list N) | EVar (n : N)
| EAdd (a b : expr) | EMul (a b : expr)
| ECall (f : N) (args : list expr)                      (* literal invocation  f(a, b) *)
| EInvoke (f : N) (binds : list (N * expr))             (* boxed invocation of the function named f, bindings by name *)
| ECtx (es : list (N * expr)) (res : option expr)       (* boxed context, optionally closed by a result entry *)
| ERel (cols : list N) (rows : list (list expr)).       (* boxed relation *)

Inductive value :=
| VNull | VNum (d : Dec.dec) | VStr (s : list N)
| VList (vs : list value)
| VCtx (es : list (N * value))
| VBkm (params : list N) (body : expr)                  (* Value::FunctionDefinition built from a knowledge model *)
| VSvc (id : N) (params : list N).                      (* Value::FunctionDefinition whose body is a decision service *)

Definition env := list (N * value).                     (* FeelContext *)

(* a number literal: the decimal128 nearest to the integer written (exact up to 34 digits, then rounded half-even
   as the literal parser of the code does: 99999999999999999999999999999999995 is 1E+35) *)
Definition num_lit (z : Z) : Dec.dec :=
  match DecRound.round_Z z 0 false with Some d => d | None => Dec.dzero end.
Definition enum (z : Z) : expr := ENum (num_lit z).
Definition vnum (z : Z) : value := VNum (num_lit z).
Definition of_num (o : option Dec.dec) : value := match o with Some d => VNum d | None => VNull end.

Fixpoint lookup (n : N) (e : env) : option value :=
  match e with [] => None | (k, v) :: r => if N.eqb n k then Some v else lookup n r end.
Definition getv (n : N) (e : env) : value := match lookup n e with Some v => v | None => VNull end.

(* FeelContext::set_entry *)
Fixpoint set (n : N) (v : value) (e : env) : env :=
  match e with [] => [(n, v)] | (k, x) :: r => if N.eqb n k then (k, v) :: r else (k, x) :: set n v r end.
(* FeelContext::zip: every entry of other is set in self *)
Definition zip (self other : env) : env := fold_left (fun acc kv => set (fst kv) (snd kv) acc) other self.
(* FeelContext::overwrite: entries of self that other also has take other's value *)
Definition overwrite (self other : env) : env :=
  map (fun kv => match lookup (fst kv) other with Some v => (fst kv, v) | None => kv end) self.

Definition mem (n : N) (l : list N) : bool := existsb (N.eqb n) l.

(* ---------------- the requirement graph ---------------- *)
Inductive node :=
| NInput (name : N)
| NDec (name : N) (logic : expr) (rk rd ri : list N) (callable : list N)
| NBkm (name : N) (params : list N) (body : expr) (rk : list N) (callable : list N)
| NSvc (name : N) (ins indecs encs outs : list N).
(* rk: required knowledge, rd: required decisions, ri: required inputs (element ids, in document order);
   callable: the decision services whose function value the logic may invoke = the services in the knowledge
   requirement closure (computed by [kclosure], checked by [callable_ok]). *)

Definition graph := list (N * node).

Fixpoint find (id : N) (G : graph) : option node :=
  match G with [] => None | (k, n) :: r => if N.eqb id k then Some n else find id r end.

Definition dec_names (G : graph) (ids : list N) : list N :=
  flat_map (fun id => match find id G with Some (NDec nm _ _ _ _ _) => [nm] | _ => [] end) ids.
Definition input_names (G : graph) (ids : list N) : list N :=
  flat_map (fun id => match find id G with Some (NInput nm) => [nm] | _ => [] end) ids.

(* formal parameters of a service as function: its input data, then its input decisions *)
Definition svc_params (G : graph) (ins indecs : list N) : list N := input_names G ins ++ dec_names G indecs.

(* DecisionServiceEvaluator::evaluate_as_function_definition *)
Definition svc_fn (G : graph) (s : N) (acc : env) : env :=
  match find s G with
  | Some (NSvc name ins indecs _ _) => set name (VSvc s (svc_params G ins indecs)) acc
  | _ => acc
  end.

(* the required inputs of a decision / a service, taken from the input context by the variable evaluator of the input data;
   input data are number-typed in this model (typeRef="number": anything but a number becomes null; typing in general is C11) *)
Definition input_value (nm : N) (inp : env) : value := match getv nm inp with VNum d => VNum d | _ => VNull end.
Definition inputs_into (G : graph) (ids : list N) (inp : env) (acc : env) : env :=
  fold_left (fun a nm => set nm (input_value nm inp) a) (input_names G ids) acc.

Inductive kind := KDec | KBkm | KSvc.

Section Wiring.
Variable eval : (N -> env -> value) -> env -> expr -> value.

(* the body of a service function value: evaluate the service on the parameter context, return its output entry *)
Definition svc_call (G : graph) (rec : kind -> N -> env -> env -> env) (callable : list N) : N -> env -> value :=
  fun sid x =>
    if mem sid callable then
      match find sid G with
      | Some (NSvc name _ _ _ _) => getv name (rec KSvc sid x [])
      | _ => VNull
      end
    else VNull.

(* One closure invocation.  rec k id inp out = "ask the evaluator registry of kind k for id" (a no-op when id is not of that kind).
   fixed = false: the pinned commit, where a knowledge model evaluates a required decision service eagerly as a value. *)
Definition body (fixed : bool) (G : graph) (rec : kind -> N -> env -> env -> env) (k : kind) (id : N) (inp out : env) : env :=
  match find id G, k with
  | Some (NDec name logic rk rd ri callable), KDec =>
      let k1 := fold_left (fun acc b => rec KBkm b inp acc) rk [] in              (* required knowledge: knowledge models *)
      let k2 := fold_left (fun acc s => svc_fn G s acc) rk k1 in                  (* required knowledge: services as functions *)
      let k3 := fold_left (fun acc d => rec KDec d inp acc) rd k2 in              (* required decisions *)
      let k4 := overwrite k3 inp in                                               (* may be overridden by input data *)
      let ric := inputs_into G ri inp [] in                                       (* required inputs *)
      let scope := zip ric k4 in
      set name (eval (svc_call G rec callable) scope logic) out
  | Some (NBkm name ps b rk _), KBkm =>
      let o1 := fold_left (fun acc r => let a := rec KBkm r inp acc in
                                        if fixed then svc_fn G r a else rec KSvc r inp a) rk out in
      set name (VBkm ps b) o1
  | Some (NSvc name ins indecs encs outs), KSvc =>
      (* the results of the input decisions are parameters of the service: taken from the provided input data and never
         evaluated here (decision_service.rs after /repo 6a3e4f8; before it they were evaluated first and the results
         always replaced by the provided values - same values, but an input decision invoking the service recursed) *)
      let idn := dec_names G indecs in
      let e2 := fold_left (fun acc nm => set nm (getv nm inp) acc) idn [] in
      let e3 := inputs_into G ins inp e2 in
      let c1 := fold_left (fun acc d => rec KDec d e3 acc) encs [] in
      let c2 := fold_left (fun acc d => rec KDec d e3 acc) outs c1 in
      match dec_names G outs with
      | [n] => match lookup n c2 with Some v => set name v out | None => out end
      | ons => set name (VCtx (fold_left (fun acc n => match lookup n c2 with Some v => set n v acc | None => acc end) ons [])) out
      end
  | _, _ => out
  end.

(* ImplModel: the closures call each other recursively *)
Fixpoint run (fixed : bool) (G : graph) (f : nat) (k : kind) (id : N) (inp out : env) {struct f} : env :=
  match f with O => out | S f' => body fixed G (run fixed G f') k id inp out end.

(* Spec: one table entry per node, built along a topological order *)
Definition stepfn := kind -> env -> env -> env.
Fixpoint tfind (id : N) (t : list (N * stepfn)) : option stepfn :=
  match t with [] => None | (k, s) :: r => if N.eqb id k then Some s else tfind id r end.
Definition tstep (t : list (N * stepfn)) : kind -> N -> env -> env -> env :=
  fun k id inp out => match tfind id t with Some s => s k inp out | None => out end.
Definition build (fixed : bool) (G : graph) (order : list N) : list (N * stepfn) :=
  fold_left (fun t id => t ++ [(id, fun k inp out => body fixed G (tstep t) k id inp out)]) order [].
Definition spec_step (fixed : bool) (G : graph) (order : list N) : kind -> N -> env -> env -> env :=
  tstep (build fixed G order).

(* ModelEvaluator::evaluate_invocable, given the step function of the registry *)
Definition invoke (G : graph) (step : kind -> N -> env -> env -> env) (id : N) (inp : env) : value :=
  match find id G with
  | Some (NDec name _ _ _ _ _) => getv name (step KDec id inp [])
  | Some (NSvc name _ _ _ _) => getv name (step KSvc id inp [])
  | Some (NBkm name _ _ _ callable) =>
      let out := step KBkm id inp [] in
      match lookup name out with
      | Some (VBkm ps b) =>
          let pc := fold_left (fun acc p => match lookup p inp with Some v => set p v acc | None => acc end) ps [] in
          eval (svc_call G step callable) (zip pc out) b
      | _ => VNull
      end
  | _ => VNull
  end.

Definition impl_invoke (fixed : bool) (G : graph) (f : nat) : N -> env -> value := invoke G (run fixed G f).
Definition spec_invoke (fixed : bool) (G : graph) (order : list N) : N -> env -> value := invoke G (spec_step fixed G order).
End Wiring.

(* ---------------- acyclicity: a topological order ---------------- *)
Definition refs (G : graph) (id : N) : list N :=
  match find id G with
  | Some (NDec _ _ rk rd _ callable) => rk ++ rd ++ callable
  | Some (NBkm _ _ _ rk callable) => rk ++ callable
  | Some (NSvc _ _ _ encs outs) => encs ++ outs            (* input decisions are parameters, not requirements (6a3e4f8) *)
  | _ => []
  end.

Definition is_none {A} (o : option A) : bool := match o with None => true | Some _ => false end.

Fixpoint topo_aux (G : graph) (seen : list N) (order : list N) : bool :=
  match order with
  | [] => true
  | id :: r => negb (mem id seen) && forallb (fun x => mem x seen || is_none (find x G)) (refs G id) && topo_aux G (seen ++ [id]) r
  end.
Definition topo_ok (G : graph) (order : list N) : bool := topo_aux G [] order.

(* the names a node's evaluation may read from the input context: tabulated along the order like the semantics *)
Definition own_names (G : graph) (id : N) : list N :=
  match find id G with
  | Some (NDec name _ _ _ ri _) => name :: input_names G ri
  | Some (NBkm name ps _ _ _) => name :: ps
  | Some (NSvc name ins indecs _ _) => name :: input_names G ins ++ dec_names G indecs
  | Some (NInput name) => [name]
  | None => []
  end.
Fixpoint nfind (id : N) (t : list (N * list N)) : list N :=
  match t with [] => [] | (k, l) :: r => if N.eqb id k then l else nfind id r end.
Definition closure_table (G : graph) (order : list N) : list (N * list N) :=
  fold_left (fun t id => t ++ [(id, own_names G id ++ flat_map (fun r => nfind r t) (refs G id))]) order [].
Definition closure_names (G : graph) (order : list N) (id : N) : list N := nfind id (closure_table G order).

(* the services in the knowledge requirement closure of a list of knowledge requirements (fuel = |G|) *)
Fixpoint kclosure (G : graph) (f : nat) (ids : list N) : list N :=
  match f with O => [] | S f' =>
  flat_map (fun id => match find id G with
                      | Some (NSvc _ _ _ _ _) => [id]
                      | Some (NBkm _ _ _ rk _) => kclosure G f' rk
                      | _ => [] end) ids
  end.
Definition same_set (a b : list N) : bool := forallb (fun x => mem x b) a && forallb (fun x => mem x a) b.
Definition callable_ok (G : graph) : bool :=
  forallb (fun e => match snd e with
                    | NDec _ _ rk _ _ c | NBkm _ _ _ rk c => same_set c (kclosure G (S (length G)) rk)
                    | _ => true end) G.

(* ---------------- a tiny concrete evaluator ---------------- *)
(* build_add / build_mul of feel-evaluator/src/builders.rs on the value kinds of this model: two numbers (decimal128,
   rounded once, null on overflow), two strings (+ only: concatenation), null for every other pair *)
Definition vadd (a b : value) : value :=
  match a, b with
  | VNum x, VNum y => of_num (DecRound.dadd x y)
  | VStr x, VStr y => VStr (x ++ y)
  | _, _ => VNull
  end.
Definition vmul (a b : value) : value :=
  match a, b with VNum x, VNum y => of_num (DecRound.dmul x y) | _, _ => VNull end.

(* eval_function_positional: the formal parameters are set one after the other in a fresh context (a repeated name keeps
   the LAST argument bound to it); fewer arguments than parameters: no call (null); surplus arguments are ignored *)
Fixpoint bind_pos_go (ps : list N) (args : list value) (acc : env) : option env :=
  match ps with
  | [] => Some acc
  | p :: pr => match args with a :: ar => bind_pos_go pr ar (set p a acc) | [] => None end
  end.
Definition bind_pos (ps : list N) (args : list value) : option env := bind_pos_go ps args [].

(* A scope is a stack of contexts; look-up searches from the top.  The model keeps the stack flattened:
   pushing a context = zip of the scope with it.  leaky = the pinned commit: a boxed context writes its entries
   into the enclosing context, so they stay visible after the context is closed (the evaluator returns the scope).
   One layer of the evaluator, over the evaluator [ev] for the sub-expressions: *)
Section TevStep.
Variable ev : env -> expr -> value * env.
Variable svc : N -> env -> value.
Variable leaky : bool.

(* arguments / cells are evaluated left to right, threading the scope (only a leaky context changes it) *)
Fixpoint evs (sc : env) (l : list expr) : list value * env :=
  match l with [] => ([], sc) | x :: r => let (v, sc1) := ev sc x in let (vs, sc2) := evs sc1 r in (v :: vs, sc2) end.

Fixpoint ctx_go (sc acc : env) (l : list (N * expr)) : env * env :=
  match l with
  | [] => (acc, sc)
  | (k, x) :: r => let (v, sc1) := ev sc x in ctx_go (set k v sc1) (set k v acc) r
  end.

Fixpoint rel_go (cols : list N) (sc : env) (rows : list (list expr)) : list value * env :=
  match rows with
  | [] => ([], sc)
  | row :: r =>
      let (vs, sc1) := evs sc row in
      let (rest, sc2) := rel_go cols sc1 r in
      (VCtx (fold_left (fun acc kv => set (fst kv) (snd kv) acc) (combine cols vs) []) :: rest, sc2)
  end.

Definition apply_fn (fv : value) (pc : option env) (sc : env) : value :=
  match pc with
  | None => VNull
  | Some pc =>
      match fv with
      | VBkm ps b => fst (ev (zip sc pc) b)                    (* dynamic scoping: the body sees the caller's scope *)
      | VSvc sid ps => svc sid pc
      | _ => VNull
      end
  end.

Definition tev_step (sc : env) (e : expr) : value * env :=
  match e with
  | ENull => (VNull, sc)
  | ENum d => (VNum d, sc)
  | EStr s => (VStr s, sc)
  | EVar n => (getv n sc, sc)
  | EAdd a b => let (x, sc1) := ev sc a in let (y, sc2) := ev sc1 b in (vadd x y, sc2)
  | EMul a b => let (x, sc1) := ev sc a in let (y, sc2) := ev sc1 b in (vmul x y, sc2)
  | ECall fn args =>
      let fv := getv fn sc in
      let (vs, sc1) := evs sc args in
      (match fv with
       | VBkm ps _ | VSvc _ ps => apply_fn fv (bind_pos ps vs) sc1
       | _ => VNull end, sc1)
  | EInvoke fn binds =>
      let (vs, sc1) := evs sc (map snd binds) in
      let pc := fold_left (fun acc kv => set (fst kv) (snd kv) acc) (combine (map fst binds) vs) [] in
      (apply_fn (getv fn sc1) (Some pc) sc1, sc1)
  | ECtx es res =>
      let (acc, sc1) := ctx_go sc [] es in
      let (v, sc2) := match res with Some r => ev sc1 r | None => (VCtx acc, sc1) end in
      (v, if leaky then sc2 else sc)
  | ERel cols rows => let (vs, sc1) := rel_go cols sc rows in (VList vs, sc1)
  end.
End TevStep.

Fixpoint tev (leaky : bool) (f : nat) (svc : N -> env -> value) (sc : env) (e : expr) {struct f} : value * env :=
  match f with O => (VNull, sc) | S f' => tev_step (tev leaky f' svc) svc leaky sc e end.

Definition TFUEL : nat := 60.
Definition teval (svc : N -> env -> value) (sc : env) (e : expr) : value := fst (tev false TFUEL svc sc e).
Definition teval_orig (svc : N -> env -> value) (sc : env) (e : expr) : value := fst (tev true TFUEL svc sc e).
