//! `dv threads`: stress evaluation of one shared ModelEvaluator from many threads (C20).
pub fn main() {
  eprintln!("dv threads: not built yet");
  std::process::exit(2);
}
