(* C15 — property theorems only.  Proofs are in Base/CalendarProofs.v and C15/Proofs.v. *)
From Coq Require Import ZArith Bool List.
From DV Require Import Base.Calendar Base.CalendarProofs C15.Model C15.Proofs.
Import ListNotations.
Open Scope Z_scope.

(* --- the calendar, for every year --- *)
Theorem C15_civil_roundtrip : forall y m d, valid y m d = true ->
  civil_from_days (days_from_civil y m d) = (y, m, d).
Proof. exact civil_roundtrip. Qed.

Theorem C15_days_roundtrip : forall z,
  valid3 (civil_from_days z) = true /\ days3 (civil_from_days z) = z.
Proof. exact civil_from_days_correct. Qed.

Theorem C15_days_monotone : forall a b, valid3 a = true -> valid3 b = true ->
  cmp3 a b = (days3 a ?= days3 b).
Proof. exact days_monotone. Qed.

Theorem C15_valid_iff : forall y m d,
  valid y m d = true <-> (1 <= m <= 12 /\ 1 <= d <= last_day y m).
Proof. exact valid_iff. Qed.

Theorem C15_leap_iff : forall y, leap y = true <-> (y mod 4 = 0 /\ (y mod 100 <> 0 \/ y mod 400 = 0)).
Proof. exact leap_iff. Qed.

Theorem C15_year_length : forall y,
  days_from_civil (y + 1) 1 1 = days_from_civil y 1 1 + (if leap y then 366 else 365) /\
  days_from_civil (y + 1) 1 1 = days_from_civil y 12 31 + 1.
Proof. exact year_length. Qed.

Theorem C15_next_day_next_month : forall y m, 1 <= m <= 11 ->
  days_from_civil y (m + 1) 1 = days_from_civil y m (last_day y m) + 1.
Proof. exact next_day_next_month. Qed.

Theorem C15_weekday_spec : forall z,
  1 <= weekday_of_days z <= 7 /\ weekday_of_days (z + 1) = weekday_of_days z mod 7 + 1 /\
  weekday 1970 1 1 = 4.
Proof. exact weekday_spec_all. Qed.

(* --- validity as implemented (after the day-0 fix) --- *)
Theorem C15_is_valid_date : forall y m d, is_valid_date y m d = feel_date y m d.
Proof. exact is_valid_date_spec. Qed.

Theorem C15_is_valid_date_orig_refuted : is_valid_date_orig 2021 1 0 = true /\ valid 2021 1 0 = false.
Proof. exact is_valid_date_orig_refuted. Qed.

(* --- date from numbers (after the range fix): exactly the rounded components when they form a date, else nothing --- *)
Theorem C15_date_from_numbers : forall y m d, date_from_numbers y m d = date_from_numbers_spec y m d.
Proof. exact date_from_numbers_correct. Qed.

Theorem C15_date_from_numbers_rejects : forall y m d yy mm dd,
  date_from_numbers y m d = Some (yy, mm, dd) ->
  yy = round_he10 y /\ mm = round_he10 m /\ dd = round_he10 d /\
  -999999999 <= yy <= 999999999 /\ 1 <= mm <= 12 /\ 1 <= dd <= last_day yy mm.
Proof. exact date_from_numbers_rejects. Qed.

Theorem C15_date_from_numbers_orig_refuted :
  date_from_numbers_orig 20210 2570 10 = Some (2021, 1, 1) /\ date_from_numbers_spec 20210 2570 10 = None /\
  date_from_numbers_orig 999999999990 20 30 = Some (0, 2, 3) /\ date_from_numbers_spec 999999999990 20 30 = None.
Proof. exact date_from_numbers_orig_refuted. Qed.

(* --- ordering of dates (after the fix: triples compared) = order of UTC-midnight instants, every year --- *)
Theorem C15_date_order : forall a b, valid3 a = true -> valid3 b = true ->
  date_partial_cmp a b = Some (days3 a ?= days3 b).
Proof. exact date_order_is_day_order. Qed.

Theorem C15_date_order_total : forall a b,
  lt_of (date_partial_cmp a b) = negb (ge_of (date_partial_cmp a b)) /\
  le_of (date_partial_cmp a b) = negb (gt_of (date_partial_cmp a b)) /\
  lt_of (date_partial_cmp a b) = gt_of (date_partial_cmp b a).
Proof. exact date_order_total. Qed.

Theorem C15_date_order_orig_refuted :
  let a := (999999999, 1, 1) in let b := (999999999, 1, 2) in
  feel_date 999999999 1 1 = true /\ feel_date 999999999 1 2 = true /\ cmp3 a b = Lt /\
  lt_of (date_partial_cmp_orig a b) = false /\ gt_of (date_partial_cmp_orig b a) = false.
Proof. exact date_partial_cmp_orig_refuted. Qed.

(* --- weekday (after the fix: the day number is computed by the code itself): the calendar's weekday for every year;
   the original went through chrono and answered null outside its year range --- *)
Theorem C15_weekday : forall a, valid3 a = true -> weekday_impl a = weekday_spec a.
Proof. exact weekday_impl_correct. Qed.

Theorem C15_weekday_in_range : forall a, chrono_date3 a = true -> weekday_orig a = weekday_spec a.
Proof. exact weekday_orig_in_range. Qed.

Theorem C15_weekday_far_refuted : feel_date 999999999 1 1 = true /\ weekday_orig (999999999, 1, 1) = None.
Proof. exact weekday_orig_refuted. Qed.

(* --- whole months between two dates (after the fix) --- *)
Theorem C15_ym_duration : forall from to, ym_duration to from = months_between from to.
Proof. exact ym_duration_correct. Qed.

Theorem C15_months_between_spec : forall a b, valid3 a = true -> valid3 b = true -> cmp3 a b <> Gt ->
  let k := months_between a b in
  0 <= k /\
  md_le (month_index a + k) (day_of a) (month_index b) (day_of b) /\
  md_lt (month_index b) (day_of b) (month_index a + k + 1) (day_of a) /\
  (forall k', md_le (month_index a + k') (day_of a) (month_index b) (day_of b) ->
              md_lt (month_index b) (day_of b) (month_index a + k' + 1) (day_of a) -> k' = k).
Proof. exact months_between_spec. Qed.

Theorem C15_months_between_antisym : forall a b, months_between b a = - months_between a b.
Proof. exact months_between_antisym. Qed.

Theorem C15_ym_duration_orig_refuted :
  ym_duration_orig d_2020_01_31 d_2020_03_01 = -2 /\ months_between d_2020_03_01 d_2020_01_31 = -1 /\
  ym_duration_orig (2020, 3, 1) (2020, 3, 15) = -1 /\ months_between (2020, 3, 15) (2020, 3, 1) = 0.
Proof. exact ym_duration_orig_refuted. Qed.

(* --- date-times on the UTC time line --- *)
Theorem C15_instant_sub_exact : forall a b,
  dt_subtract_spec a b =
  (days3 (dt_date a) - days3 (dt_date b)) * DAY_NS + (tod_ns a - tod_ns b) - (dt_off a - dt_off b) * NS.
Proof. exact instant_sub_exact. Qed.

Theorem C15_instant_order_same_offset : forall a b, valid3 (dt_date a) = true -> valid3 (dt_date b) = true ->
  valid_tod a = true -> valid_tod b = true -> dt_off a = dt_off b ->
  (instant a ?= instant b) =
  match cmp3 (dt_date a) (dt_date b) with Eq => tod_ns a ?= tod_ns b | c => c end.
Proof. exact instant_order_same_offset. Qed.

Theorem C15_instant_offset_shift : forall dte h mi s ns off k,
  instant {| dt_date := dte; dt_h := h; dt_mi := mi; dt_s := s; dt_ns := ns; dt_off := off + k |} =
  instant {| dt_date := dte; dt_h := h; dt_mi := mi; dt_s := s; dt_ns := ns; dt_off := off |} - k * NS.
Proof. exact instant_offset_shift. Qed.

(* inside chrono's range (known findings far-datetime, dt-sub-range outside) the code compares and subtracts instants *)
Theorem C15_dt_compare_subtract : forall a b, chrono_dt a = true -> chrono_dt b = true ->
  dt_compare_impl a b = Some (instant a ?= instant b) /\
  (fits_i64 (dt_subtract_spec a b) = true -> dt_subtract_impl a b = Some (dt_subtract_spec a b)) /\
  (forall n, dt_subtract_impl a b = Some n -> n = dt_subtract_spec a b).
Proof. exact dt_compare_subtract. Qed.

Theorem C15_dt_subtract_range_refuted :
  let a := {| dt_date := (2400, 1, 1); dt_h := 0; dt_mi := 0; dt_s := 0; dt_ns := 0; dt_off := 0 |} in
  let b := {| dt_date := (2000, 1, 1); dt_h := 0; dt_mi := 0; dt_s := 0; dt_ns := 0; dt_off := 0 |} in
  chrono_dt a = true /\ chrono_dt b = true /\ dt_subtract_impl a b = None /\ dt_subtract_spec a b = 146097 * DAY_NS.
Proof. exact dt_subtract_impl_refuted. Qed.

(* --- durations: components recombine to the total length --- *)
Theorem C15_dtd_components : forall n,
  dtd_days n * DAY_NS + dtd_hours n * HOUR_NS + dtd_minutes n * MIN_NS + dtd_seconds n * NS + dtd_subsec n = Z.abs n /\
  0 <= dtd_days n /\ 0 <= dtd_hours n < 24 /\ 0 <= dtd_minutes n < 60 /\ 0 <= dtd_seconds n < 60 /\ 0 <= dtd_subsec n < NS.
Proof. exact dtd_components. Qed.

Theorem C15_ymd_components : forall n,
  12 * ymd_years n + ymd_months n = n /\ -12 < ymd_months n < 12 /\
  (0 <= n -> 0 <= ymd_years n /\ 0 <= ymd_months n) /\ (n <= 0 -> ymd_years n <= 0 /\ ymd_months n <= 0).
Proof. exact ymd_components. Qed.

Example C15_nonvacuous :
  civil_from_days (days_from_civil 2024 2 29) = (2024, 2, 29) /\ weekday 2024 2 29 = 4 /\
  days_from_civil (-1) 12 31 + 1 = days_from_civil 0 1 1 /\
  date_from_numbers 20240 20 290 = Some (2024, 2, 29) /\ date_from_numbers 20230 20 290 = None /\
  months_between (2020, 1, 31) (2020, 3, 1) = 1 /\ ym_duration (2020, 1, 31) (2020, 3, 1) = -1 /\
  dtd_days (-129600000000000) = 1 /\ dtd_hours (-129600000000000) = 12 /\ ymd_years (-14) = -1 /\ ymd_months (-14) = -2.
Proof. exact model_nonvacuous. Qed.

Print Assumptions C15_civil_roundtrip.
Print Assumptions C15_days_roundtrip.
Print Assumptions C15_days_monotone.
Print Assumptions C15_valid_iff.
Print Assumptions C15_leap_iff.
Print Assumptions C15_year_length.
Print Assumptions C15_next_day_next_month.
Print Assumptions C15_weekday_spec.
Print Assumptions C15_is_valid_date.
Print Assumptions C15_is_valid_date_orig_refuted.
Print Assumptions C15_date_from_numbers.
Print Assumptions C15_date_from_numbers_rejects.
Print Assumptions C15_date_from_numbers_orig_refuted.
Print Assumptions C15_date_order.
Print Assumptions C15_date_order_total.
Print Assumptions C15_date_order_orig_refuted.
Print Assumptions C15_weekday.
Print Assumptions C15_weekday_in_range.
Print Assumptions C15_weekday_far_refuted.
Print Assumptions C15_ym_duration.
Print Assumptions C15_months_between_spec.
Print Assumptions C15_months_between_antisym.
Print Assumptions C15_ym_duration_orig_refuted.
Print Assumptions C15_instant_sub_exact.
Print Assumptions C15_instant_order_same_offset.
Print Assumptions C15_instant_offset_shift.
Print Assumptions C15_dt_compare_subtract.
Print Assumptions C15_dt_subtract_range_refuted.
Print Assumptions C15_dtd_components.
Print Assumptions C15_ymd_components.
Print Assumptions C15_nonvacuous.
