(* C18 — TCK round trip and well-formedness of every answer: proofs. *)
From Coq Require Import List NArith Bool Lia.
From DV Require Import C18.Model C18.Proofs C18.Service C18.Dto.
Import ListNotations.
Open Scope N_scope.

Lemma lex_lt_asym : forall a b, lex_lt a b = true -> lex_lt b a = false.
Proof.
  induction a as [|x a IH]; intros [|y b] H; cbn [lex_lt] in *; try reflexivity; try discriminate.
  destruct (x <? y) eqn:E1.
  - apply N.ltb_lt in E1. replace (y <? x) with false by (symmetry; apply N.ltb_ge; lia). reflexivity.
  - destruct (y <? x) eqn:E2; [discriminate|]. apply IH. exact H.
Qed.

Lemma set_entry_last : forall k v acc, forallb (fun kv => lex_lt (fst kv) k) acc = true -> set_entry k v acc = acc ++ [(k, v)].
Proof.
  intros k v. induction acc as [|[k' v'] r IH]; intros H; [reflexivity|].
  cbn [forallb fst] in H. apply andb_true_iff in H. destruct H as [H1 H2].
  cbn [set_entry]. rewrite (lex_lt_asym k' k H1). rewrite H1. rewrite (IH H2). reflexivity.
Qed.

Section RoundTrip.
Variable tyname : N -> text.
Variable parse_simple : text -> text -> option value.
Variable parse_name : text -> option text.
(* the leaves whose lexical form reads back (numbers: C07; dates, times, durations: C14) and the keys that are FEEL names *)
Variable ok_leaf : value -> Prop.
Variable ok_key : text -> Prop.
Hypothesis Hleaf : forall v ty tx, ok_leaf v -> to_dto tyname v = DSimple (Some ty) (Some tx) false -> parse_simple ty tx = Some v.
Hypothesis Hkey : forall k, ok_key k -> parse_name k = Some k.

Definition leaf (v : value) : bool :=
  match v with VBool _ | VNum _ | VStr _ | VOther _ _ => true | _ => false end.

Inductive ok : value -> Prop :=
| OkNull : ok VNull
| OkLeaf : forall v, leaf v = true -> ok_leaf v -> ok v
| OkList : forall l, Forall ok l -> ok (VList l)
| OkCtx : forall es, Forall (fun kv => ok_key (fst kv) /\ ok (snd kv)) es -> ok (VCtx es).

Lemma ok_leaf_inv : forall v, leaf v = true -> ok v -> ok_leaf v.
Proof. intros v Hl H. inversion H; subst; try discriminate. assumption. Qed.

Lemma ok_list : forall l, ok (VList l) -> Forall ok l.
Proof. intros l H. inversion H; subst; [discriminate|assumption]. Qed.

Lemma ok_ctx : forall es, ok (VCtx es) -> Forall (fun kv => ok_key (fst kv) /\ ok (snd kv)) es.
Proof. intros es H. inversion H; subst; [discriminate|assumption]. Qed.

Lemma components_roundtrip : forall es acc,
  Forall (fun kv => ok_key (fst kv) /\ from_dto parse_simple parse_name (to_dto tyname (snd kv)) = Some (snd kv)) es ->
  sorted_keys es = true ->
  forallb (fun a => forallb (fun kv => lex_lt (fst a) (fst kv)) es) acc = true ->
  from_components parse_name (from_dto parse_simple parse_name)
    (map (fun kv => (Some (fst kv), Some (to_dto tyname (snd kv)), false)) es) acc = Some (VCtx (acc ++ es)).
Proof.
  induction es as [|[k x] r IH]; intros acc Hall Hs Hacc.
  - cbn [map from_components]. rewrite app_nil_r. reflexivity.
  - inversion Hall as [|kv r' [Hk Hx] Hr]; subst. cbn [fst snd] in *.
    cbn [sorted_keys] in Hs. apply andb_true_iff in Hs. destruct Hs as [Hk_lt Hs].
    cbn [map from_components fst snd]. rewrite Hx. rewrite (Hkey k Hk).
    assert (Hlast : forallb (fun kv => lex_lt (fst kv) k) acc = true).
    { rewrite forallb_forall in Hacc |- *. intros a Ha. specialize (Hacc a Ha). cbn [forallb fst] in Hacc.
      apply andb_true_iff in Hacc. apply Hacc. }
    rewrite (set_entry_last k x acc Hlast).
    rewrite (IH (acc ++ [(k, x)]) Hr Hs).
    + rewrite <- app_assoc. reflexivity.
    + rewrite forallb_app. apply andb_true_iff. split.
      * rewrite forallb_forall in Hacc |- *. intros a Ha. specialize (Hacc a Ha). cbn [forallb] in Hacc.
        apply andb_true_iff in Hacc. apply Hacc.
      * cbn [forallb fst]. rewrite Hk_lt. reflexivity.
Qed.

(* typed values sent in TCK format and received back are unchanged *)
Theorem tck_roundtrip : forall v, tck_value v = true -> ok v -> from_dto parse_simple parse_name (to_dto tyname v) = Some v.
Proof.
  induction v as [|b|n|s|l IHl|es IHes|k0 d] using value_ind'; intros Ht Hok.
  - reflexivity.
  - apply (Hleaf (VBool b)); [apply ok_leaf_inv; [reflexivity|exact Hok]|reflexivity].
  - apply (Hleaf (VNum n)); [apply ok_leaf_inv; [reflexivity|exact Hok]|reflexivity].
  - apply (Hleaf (VStr s)); [apply ok_leaf_inv; [reflexivity|exact Hok]|reflexivity].
  - cbn [to_dto from_dto]. cbn [tck_value] in Ht. apply ok_list in Hok.
    rewrite (traverse_map_some (from_dto parse_simple parse_name) (to_dto tyname) (fun x => x) l).
    + rewrite map_id. reflexivity.
    + rewrite Forall_forall in *. rewrite forallb_forall in Ht. intros x Hx. apply (IHl x Hx (Ht x Hx) (Hok x Hx)).
  - cbn [to_dto from_dto]. cbn [tck_value] in Ht. apply andb_true_iff in Ht. destruct Ht as [Hs Ht]. apply ok_ctx in Hok.
    rewrite (components_roundtrip es [] ).
    + reflexivity.
    + rewrite Forall_forall in *. rewrite forallb_forall in Ht. intros x Hx. destruct (Hok x Hx) as [H1 H2].
      split; [exact H1|]. apply (IHes x Hx (Ht x Hx) H2).
    + exact Hs.
    + reflexivity.
  - cbn [tck_value] in Ht. cbn [to_dto]. destruct (xsd_of_kind k0) as [t|] eqn:E; [|discriminate].
    apply (Hleaf (VOther k0 d)); [apply ok_leaf_inv; [reflexivity|exact Hok]|]. cbn [to_dto]. rewrite E. reflexivity.
Qed.
End RoundTrip.

(* ---------------- every answer is a well-formed JSON document ---------------- *)
Section Bodies.
Variable txt : N -> text.
Variable msg : err -> text.
Variable result : N -> value.
Hypothesis Htxt : forall n, wf_text (txt n) = true.
Hypothesis Hmsg : forall e, wf_text (msg e) = true.
Hypothesis Hres : forall k, wf (result k) = true.

Lemma value_body : forall v, wf v = true ->
  json_parse (123 :: quote k_data ++ 58 :: jsonify v ++ [125]) = Some (JObj [(k_data, to_json v)]).
Proof.
  intros v Hwf. unfold json_parse.
  set (s := 123 :: quote k_data ++ 58 :: jsonify v ++ [125]).
  assert (Hlen : (depth v + 2 <= length s)%nat).
  { unfold s. cbn [length]. rewrite !app_length. cbn [length]. rewrite app_length. pose proof (depth_le_length [32] v). unfold rnd in H. unfold jsonify. lia. }
  destruct (length s) as [|n] eqn:En; [lia|]. destruct n as [|n]; [lia|].
  unfold s. rewrite pv_obj.
  change (skip_ws (quote k_data ++ 58 :: jsonify v ++ [125])) with (quote k_data ++ 58 :: jsonify v ++ [125]).
  change (quote k_data ++ 58 :: jsonify v ++ [125]) with (34 :: escape k_data ++ 34 :: 58 :: jsonify v ++ [125]).
  change (34 =? 125) with false. cbv iota.
  destruct (length (34 :: escape k_data ++ 34 :: 58 :: jsonify v ++ [125])) as [|m] eqn:Em; [discriminate|].
  cbn [parse_members skip_ws]. change (is_ws 34) with false. cbv iota. change (34 =? 34) with true. cbv iota.
  rewrite (parse_str_escape k_data (58 :: jsonify v ++ [125]) eq_refl).
  cbn [skip_ws]. change (is_ws 58) with false. cbv iota. change (58 =? 58) with true. cbv iota.
  unfold jsonify. fold (rnd [32]). rewrite (parse_render [32] ws_space v Hwf (S (S n)) [125] ltac:(lia) eq_refl).
  cbn [skip_ws]. change (is_ws 125) with false. cbv iota. reflexivity.
Qed.

(* the answer parses strictly; failures are reported in the errors member, everything else in the data member;
   the data member of an evaluation decodes to the evaluated value *)
Theorem every_answer_wellformed : forall r,
  exists j, json_parse (body txt msg result r) = Some (JObj [(if is_err r then k_errors else k_data, j)]) /\
            (forall k d, r = RValue k d -> decode j = Some (strip (result d))) /\
            (forall e, r = RErr e -> j = JArr [JObj [(k_details, JStr (msg e))]]).
Proof.
  intros [n k|c|k d|e]; cbn [body is_err].
  - exists (to_json (VCtx [(k_namespace, VStr (txt n)); (k_name, VStr (txt k))])).
    split; [rewrite compact_wellformed; [reflexivity|cbn; rewrite !Htxt; reflexivity]|]. split; intros; discriminate.
  - exists (to_json (VCtx [(k_status, VStr (txt c))])).
    split; [rewrite compact_wellformed; [reflexivity|cbn; rewrite !Htxt; reflexivity]|]. split; intros; discriminate.
  - exists (to_json (result d)). split; [apply value_body; apply Hres|]. split; [|intros; discriminate].
    intros k' d' E. injection E as E1 E2. subst k' d'. apply decode_to_json.
  - exists (to_json (VList [VCtx [(k_details, VStr (msg e))]])).
    split; [rewrite compact_wellformed; [reflexivity|cbn; rewrite !Hmsg; reflexivity]|]. split; [intros; discriminate|].
    intros e' E. injection E as E. subst e'. reflexivity.
Qed.
End Bodies.

(* the evaluate handler of the pinned commit answered a malformed document for a result holding a quotation mark *)
Theorem body_orig_refuted :
  json_parse (body_orig (fun _ => []) (fun _ => []) (fun _ => v_john) (RValue 0 0)) = None /\
  json_parse (body (fun _ => []) (fun _ => []) (fun _ => v_john) (RValue 0 0)) = Some (JObj [(k_data, to_json v_john)]).
Proof. vm_compute. split; reflexivity. Qed.
