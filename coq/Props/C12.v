(* C12 — loading any model text yields a usable model or an error: property theorems only.  Proofs: C12/Proofs.v.
   PARTIAL: the model (C12/Model.v) is the shape of a Definitions value — clause / entry counts of decision tables and the
   requirement / type-reference graph — with the outcomes Ok | Err | Crash site | Diverge.  The XML parser (roxmltree), the
   real stack size, FEEL parsing of the texts inside the model and the evaluation of expressions are not in it; they are covered by
   the fault-injection run of props/c12.py.  `rank` = any numbering of the nodes that decreases along every requirement between
   nodes (it exists iff the graph is acyclic); `fuel` = number of stack frames available. *)
From Coq Require Import List Arith Bool PeanoNat.
From DV Require Import C12.Model C12.Proofs.
Import ListNotations.

(* ---- decision tables: any numbers of clauses and entries *)
Theorem C12_table_build_total : forall t, table_build t = Ok \/ table_build t = Err.
Proof. exact table_build_total. Qed.
Theorem C12_table_build_ok_iff : forall t, table_build t = Ok <-> Forall (fun r => in_entries r = in_clauses t /\ out_entries r = out_clauses t) (rules t).
Proof. exact table_build_ok_iff. Qed.
Theorem C12_table_eval_total : forall t, table_eval t = Ok.
Proof. exact table_eval_total. Qed.

(* ---- the whole build / evaluation of an acyclic model: a model or an error, never a crash; depth bound = rank + 1 frames *)
Theorem C12_total_partial : forall fuel d (rank : nat -> nat),
  has_cycle (deps d) <> DfsFuel ->
  (forall n ts m, targets (deps d) n = Some ts -> In m ts -> targets (deps d) m <> None -> rank m < rank n) ->
  (forall n, rank n < fuel) ->
  build fuel d = Ok \/ build fuel d = Err.
Proof. exact build_total. Qed.
Theorem C12_evaluate_total : forall fuel d (rank : nat -> nat) n,
  (forall n ts m, targets (deps d) n = Some ts -> In m ts -> targets (deps d) m <> None -> rank m < rank n) ->
  rank n < fuel -> evaluate fuel d n = Ok.
Proof. exact evaluate_total. Qed.
Theorem C12_depth_bound : forall g (rank : nat -> nat),
  (forall n ts m, targets g n = Some ts -> In m ts -> targets g m <> None -> rank m < rank n) ->
  forall fuel n, rank n < fuel -> follow fuel g n = Ok.
Proof. exact ranked_follow_ok. Qed.
Theorem C12_ranked_no_cycle : forall g (rank : nat -> nat),
  (forall n ts m, targets g n = Some ts -> In m ts -> targets g m <> None -> rank m < rank n) -> forall n, ~ on_cycle g n.
Proof. exact ranked_no_cycle. Qed.

(* ---- cycles: the recursion of the builders / evaluators cannot end on ANY cyclic graph, for any stack size — so the pinned code
        (no check) aborts on every cyclic model; the check added in front of it is exact on all graphs with up to 3 nodes (finite sweep, 4164 graphs) *)
Theorem C12_cycle_diverges_without_check : forall g n, on_cycle g n -> forall fuel, follow fuel g n = Diverge.
Proof. exact cycle_diverges. Qed.
Theorem C12_build_orig_cycle_diverges : forall fuel d n, on_cycle (deps d) n -> Forall (fun t => table_build_orig t = Ok) (tables d) ->
  build_orig fuel d = Diverge.
Proof. exact build_orig_cycle_diverges. Qed.
Theorem C12_cycle_detected_upto_3 : forall g, In g (graphs_upto 1 ++ graphs_upto 2 ++ graphs_upto 3) ->
  has_cycle g <> DfsFuel /\ (has_cycle g = Cycle <-> cyclic_ref g = true).
Proof. exact dfs_correct_upto_3. Qed.

Example C12_nonvacuous :
  build 10 (mk_defs [mk_table 2 1 [mk_rule 2 1; mk_rule 2 1]] [(0, [1; 2]); (1, [2]); (2, [7])]) = Ok /\
  evaluate 10 (mk_defs [mk_table 2 1 [mk_rule 2 1]] [(0, [1; 2]); (1, [2]); (2, [7])]) 0 = Ok /\
  length (graphs_upto 1 ++ graphs_upto 2 ++ graphs_upto 3) = 4164 /\
  cyclic_ref [(0, [1]); (1, [2]); (2, [0])] = true /\ has_cycle [(0, [1]); (1, [2]); (2, [0])] = Cycle.
Proof. repeat split; vm_compute; reflexivity. Qed.

(* ---- the pinned commit: the four confirmed defects *)
Theorem C12_table_build_orig_crash_iff : forall t,
  (exists s, table_build_orig t = Crash s) <-> Exists (fun r => in_entries r < in_clauses t \/ out_entries r < out_clauses t) (rules t).
Proof. exact table_build_orig_crash_iff. Qed.
Theorem C12_orig_refuted_short_rule : build_orig 100 (mk_defs [t_short_rule] []) = Crash site_input_entry /\ build 100 (mk_defs [t_short_rule] []) = Err.
Proof. exact orig_refuted_short_rule. Qed.
Theorem C12_orig_refuted_no_output : build_orig 100 (mk_defs [t_no_output] [(0, [])]) = Ok /\ evaluate_orig 100 (mk_defs [t_no_output] [(0, [])]) 0 = Crash site_output_value0
  /\ evaluate 100 (mk_defs [t_no_output] [(0, [])]) 0 = Ok.
Proof. exact orig_refuted_no_output. Qed.
Theorem C12_orig_refuted_cycle : on_cycle g_two_cycle 0 /\ (forall fuel, build_orig fuel (mk_defs [] g_two_cycle) = Diverge) /\ (forall fuel, evaluate_orig fuel (mk_defs [] g_two_cycle) 0 = Diverge)
  /\ (forall fuel, build fuel (mk_defs [] g_two_cycle) = Err).
Proof. exact orig_refuted_cycle. Qed.
(* ---- item definitions are trees: the collection of type references reaches a reference at ANY nesting depth (and nothing else), so such a
        reference is an edge of the graph the cycle search runs on; a self reference through a chain of components of any depth is a cycle of it;
        a flat collection (definition + direct components) is refuted; the search finds the cycle for chains of depth 0..6 (finite sweep) *)
Theorem C12_collect_refs_complete : forall t x, occurs x t <-> In x (collect_refs t).
Proof. exact collect_refs_complete. Qed.
Theorem C12_nested_reference_is_edge : forall t rest x, occurs x t ->
  exists ts, targets (item_graph (t :: rest)) (item_name t) = Some ts /\ In x ts.
Proof. exact nested_reference_is_edge. Qed.
Theorem C12_nested_self_reference_cycle : forall d n cs rest, on_cycle (item_graph (ItemDef n None (nested d n :: cs) :: rest)) n.
Proof. exact nested_self_reference_cycle. Qed.
Theorem C12_flat_refs_refuted : exists t x, occurs x t /\ ~ In x (flat_refs t) /\ In x (collect_refs t).
Proof. exact flat_refs_refuted. Qed.
Theorem C12_nested_cycle_found_upto_6 :
  forallb (fun d => match has_cycle (item_graph [ItemDef 5 None [nested d 5]]) with Cycle => true | _ => false end) (seq 0 7) = true.
Proof. exact nested_cycle_found_upto_6. Qed.

Print Assumptions C12_table_build_total.
Print Assumptions C12_table_build_ok_iff.
Print Assumptions C12_table_eval_total.
Print Assumptions C12_total_partial.
Print Assumptions C12_evaluate_total.
Print Assumptions C12_depth_bound.
Print Assumptions C12_ranked_no_cycle.
Print Assumptions C12_cycle_diverges_without_check.
Print Assumptions C12_build_orig_cycle_diverges.
Print Assumptions C12_cycle_detected_upto_3.
Print Assumptions C12_nonvacuous.
Print Assumptions C12_table_build_orig_crash_iff.
Print Assumptions C12_orig_refuted_short_rule.
Print Assumptions C12_orig_refuted_no_output.
Print Assumptions C12_orig_refuted_cycle.
Print Assumptions C12_collect_refs_complete.
Print Assumptions C12_nested_reference_is_edge.
Print Assumptions C12_nested_self_reference_cycle.
Print Assumptions C12_flat_refs_refuted.
Print Assumptions C12_nested_cycle_found_upto_6.
