(* C10 — theorems about the name lexer model (all key sets, all inputs).  Owner: builder-parse. *)
From Coq Require Import List NArith Bool Arith Lia.
From DV Require Import C10.Model.
Import ListNotations.

(* a prefix of pc parts is bound when its flattened text is one of the scope keys *)
Definition bound (keys : list str) (parts : list str) (pc : nat) : Prop := mem (flatten_parts (firstn pc parts)) keys = true.

(* the loop returns the largest bound prefix, if there is one *)
Lemma search_some : forall keys parts n pc, search keys parts n = Some pc ->
  1 <= pc <= n /\ bound keys parts pc /\ forall j, pc < j <= n -> ~ bound keys parts j.
Proof.
  intros keys parts n. induction n as [|n IH]; intros pc H.
  - discriminate H.
  - cbn [search] in H. destruct (mem (flatten_parts (firstn (S n) parts)) keys) eqn:E.
    + inversion H; subst. split; [lia|]. split; [exact E|]. intros j Hj. lia.
    + destruct (IH pc H) as [Hr [Hb Hn]]. split; [lia|]. split; [exact Hb|].
      intros j Hj. destruct (Nat.eq_dec j (S n)) as [->|Hne].
      * unfold bound. rewrite E. discriminate.
      * apply Hn. lia.
Qed.

Lemma search_none : forall keys parts n, search keys parts n = None -> forall j, 1 <= j <= n -> ~ bound keys parts j.
Proof.
  intros keys parts n. induction n as [|n IH]; intros H j Hj.
  - lia.
  - cbn [search] in H. destruct (mem (flatten_parts (firstn (S n) parts)) keys) eqn:E; [discriminate H|].
    destruct (Nat.eq_dec j (S n)) as [->|Hne].
    + unfold bound. rewrite E. discriminate.
    + apply IH; [exact H|lia].
Qed.

Lemma search_complete : forall keys parts n j, 1 <= j <= n -> bound keys parts j -> exists pc, search keys parts n = Some pc /\ j <= pc.
Proof.
  intros keys parts n j Hj Hb. destruct (search keys parts n) as [pc|] eqn:E.
  - exists pc. split; [reflexivity|]. destruct (search_some _ _ _ _ E) as [_ [_ Hn]].
    destruct (le_lt_dec j pc) as [Hle|Hlt]; [exact Hle|]. exfalso. apply (Hn j); [lia|exact Hb].
  - exfalso. exact (search_none _ _ _ E j Hj Hb).
Qed.

(* the token: outside the `item` and `for .. in` tweaks the lexer returns the longest bound prefix and the position
   just after the last character of its last part; when no prefix is bound, all collected parts *)
Lemma lex_name_longest : forall keys inp pos parts cps endpos,
  collect inp pos = (parts, cps, endpos) ->
  (match parts with p :: _ => str_eqb p str_item | [] => false end) = false ->
  (forall pc, 1 <= pc <= length parts -> bound keys parts pc ->
     (forall j, pc < j <= length parts -> ~ bound keys parts j) ->
     lex_name keys false inp pos = LName (name_new (firstn pc parts)) (S (nth (pc - 1) cps 0))) /\
  ((forall j, 1 <= j <= length parts -> ~ bound keys parts j) ->
     lex_name keys false inp pos = LName (name_new parts) endpos).
Proof.
  intros keys inp pos parts cps endpos Hc Hitem. unfold lex_name, lex_name_gen. rewrite Hc. rewrite Hitem. cbn [index_of]. split.
  - intros pc Hr Hb Hmax.
    destruct (search_complete keys parts (length parts) pc Hr Hb) as [pc' [Hs Hle]].
    rewrite Hs. destruct (search_some _ _ _ _ Hs) as [Hr' [Hb' _]].
    assert (pc' = pc) as ->.
    { destruct (Nat.eq_dec pc' pc) as [e|ne]; [exact e|]. exfalso. apply (Hmax pc'); [lia|exact Hb']. }
    reflexivity.
  - intros Hnone. destruct (search keys parts (length parts)) as [pc|] eqn:E; [|reflexivity].
    exfalso. destruct (search_some _ _ _ _ E) as [Hr [Hb _]]. exact (Hnone pc Hr Hb).
Qed.

(* ------------------------------------------------------------------ the two normalisers *)

(* two additional symbols in a row, or a symbol at the end: the original flatten_name_parts kept a space that Name::new drops,
   so a name bound as `a+-b` or `a+` was looked up under a text that is never a scope key *)
Definition parts_a_plus_minus_b : list str := [[97]; [43]; [45]; [98]]%N.
Definition parts_a_plus : list str := [[97]; [43]]%N.

Lemma normal_form_refuted_witness :
  flatten_parts_orig parts_a_plus_minus_b <> name_new parts_a_plus_minus_b /\ flatten_parts_orig parts_a_plus <> name_new parts_a_plus.
Proof. split; vm_compute; discriminate. Qed.

(* after the repair both sides use one normal form *)
Lemma normal_form : forall ps, flatten_parts ps = name_new ps.
Proof. reflexivity. Qed.

(* only a and b are bound: `a-b` is a, minus, b;  when `a-b` is bound too it is one name *)
Definition key_a : str := [97%N].
Definition key_b : str := [98%N].
Definition key_a_minus_b : str := [97; 45; 98]%N.
Definition inp_a_minus_b : str := [97; 32; 45; 32; 98]%N.   (* "a - b" *)

Lemma operator_when_unbound_witness :
  lex_all [key_a; key_b] inp_a_minus_b = Some [KName key_a; KSym 45; KName key_b] /\
  lex_all [key_a; key_b; key_a_minus_b] inp_a_minus_b = Some [KName key_a_minus_b].
Proof. split; vm_compute; reflexivity. Qed.

(* only the first part is bound (e.g. a and b bound, `a - b` written): the token is that part alone and the lexer resumes right
   after it, so the symbol that follows is read as an operator *)
Lemma operator_when_unbound : forall keys inp pos parts cps endpos,
  collect inp pos = (parts, cps, endpos) ->
  (match parts with p :: _ => str_eqb p str_item | [] => false end) = false ->
  1 <= length parts -> bound keys parts 1 -> (forall j, 1 < j <= length parts -> ~ bound keys parts j) ->
  lex_name keys false inp pos = LName (name_new (firstn 1 parts)) (S (nth 0 cps 0)).
Proof.
  intros keys inp pos parts cps endpos Hc Hi Hl Hb Hn.
  destruct (lex_name_longest keys inp pos parts cps endpos Hc Hi) as [H _].
  exact (H 1 (conj (le_n 1) Hl) Hb Hn).
Qed.

(* `for in+x in ..`: the keyword `in` is the first part of the candidate; the original code computed consumed_positions[0 - 1] *)
Definition inp_in_plus_x : str := [105; 110; 43; 120]%N.   (* "in+x" *)

Lemma till_in_first_part_witness :
  lex_name_orig [] true inp_in_plus_x 0 = LCrash /\ lex_name [] true inp_in_plus_x 0 = LName inp_in_plus_x 4.
Proof. split; vm_compute; reflexivity. Qed.
