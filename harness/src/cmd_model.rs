//! `dv model`: one JSON request per line:
//!   {"xml": text, "calls": [[invocable-name, ctx-text], ...]}
//! answer:
//!   {"parse": "ok"|"err"|"panic", "build": "ok"|"err"|"panic"|"skipped", "results": [ {"v": canonical}|{"err":"ctx"}|{"panic": text} ... ],
//!    "parse_msg"/"build_msg": text of the error or panic (informational only, never compared)}
//! Each phase (parse, build, every single call) runs under its own catch_unwind.
//! ctx-text is a FEEL context literal (e.g. `{a: 1, b: "x"}`) evaluated with dmntk_feel_evaluator::evaluate_context.
//! (owner: builder-dt; used by C03, C19, C04, C11, C12)
use crate::canon::{canon, panic_text};
use dmntk_feel::Scope;
use serde_json::{json, Value as J};
use std::io::{BufRead, Write};
use std::panic::{catch_unwind, AssertUnwindSafe};

pub fn one(req: &J) -> J {
  let xml = req["xml"].as_str().unwrap_or("").to_string();
  let calls = req["calls"].as_array().cloned().unwrap_or_default();
  // phase 1: parse
  let defs = match catch_unwind(|| dmntk_model::parse(&xml)) {
    Ok(Ok(d)) => d,
    Ok(Err(e)) => return json!({"parse": "err", "parse_msg": e.to_string(), "build": "skipped", "results": []}),
    Err(e) => return json!({"parse": "panic", "parse_msg": panic_text(e), "build": "skipped", "results": []}),
  };
  // phase 2: build
  let me = match catch_unwind(AssertUnwindSafe(|| dmntk_model_evaluator::ModelEvaluator::new(&defs))) {
    Ok(Ok(m)) => m,
    Ok(Err(e)) => return json!({"parse": "ok", "build": "err", "build_msg": e.to_string(), "results": []}),
    Err(e) => return json!({"parse": "ok", "build": "panic", "build_msg": panic_text(e), "results": []}),
  };
  // phase 3: calls
  let mut results = vec![];
  for call in calls {
    let name = call[0].as_str().unwrap_or("").to_string();
    let ctx_text = call[1].as_str().unwrap_or("{}").to_string();
    let r = catch_unwind(AssertUnwindSafe(|| {
      let ctx = match dmntk_feel_evaluator::evaluate_context(&Scope::default(), &ctx_text) {
        Ok(c) => c,
        Err(_) => return json!({"err": "ctx"}),
      };
      let v = me.evaluate_invocable(&name, &ctx);
      json!({"v": canon(&v)})
    }))
    .unwrap_or_else(|e| json!({"panic": panic_text(e)}));
    results.push(r);
  }
  json!({"parse": "ok", "build": "ok", "results": results})
}

pub fn main() {
  let stdin = std::io::stdin();
  let stdout = std::io::stdout();
  let mut out = std::io::BufWriter::new(stdout.lock());
  for line in stdin.lock().lines() {
    let line = line.unwrap();
    if line.trim().is_empty() {
      continue;
    }
    let req: J = serde_json::from_str(&line).unwrap_or(J::Null);
    let r = catch_unwind(|| one(&req)).unwrap_or_else(|e| json!({"panic": panic_text(e)}));
    writeln!(out, "{}", r).unwrap();
    out.flush().unwrap();
  }
  out.flush().unwrap();
}
