(* C16 — property theorems only.  Proofs are in C16/Proofs.v.
   `wf` = context types have unique keys (a BTreeMap in the code); `wfv` likewise for context values. *)
From Coq Require Import List NArith Bool Arith.
From DV Require Import C16.Model C16.Proofs C16.Rel.
Import ListNotations.

Theorem C16_equiv_refl : forall t, wf t = true -> equivalent t t = true.
Proof. exact equivalent_refl. Qed.
Theorem C16_equiv_sym : forall a b, wf a = true -> wf b = true -> equivalent a b = true -> equivalent b a = true.
Proof. exact equivalent_sym. Qed.
Theorem C16_equiv_trans : forall a b c, wf a = true -> wf b = true -> wf c = true ->
  equivalent a b = true -> equivalent b c = true -> equivalent a c = true.
Proof. exact equivalent_trans. Qed.
Theorem C16_equiv_only_mutually_conformant : forall a b, wf a = true -> wf b = true -> equivalent a b = true ->
  conformant a b = true /\ conformant b a = true.
Proof. exact equivalent_conformant. Qed.
Theorem C16_conf_refl : forall t, wf t = true -> conformant t t = true.
Proof. exact conformant_refl. Qed.
Theorem C16_conf_any : forall t, conformant t (TS SAny) = true.
Proof. exact conformant_any. Qed.
Theorem C16_null_conf : forall t, conformant (TS SNull) t = true.
Proof. exact null_conformant. Qed.
Theorem C16_conf_trans : forall a b c, wf a = true -> wf b = true -> wf c = true ->
  conformant a b = true -> conformant b c = true -> conformant a c = true.
Proof. exact conformant_trans. Qed.
Theorem C16_list_covariant : forall a b, wf a = true -> wf b = true -> conformant (TList a) (TList b) = conformant a b.
Proof. exact list_covariant. Qed.
Theorem C16_range_covariant : forall a b, wf a = true -> wf b = true -> conformant (TRange a) (TRange b) = conformant a b.
Proof. exact range_covariant. Qed.
Theorem C16_context_covariant : forall ea eb, wf (TCtx ea) = true -> wf (TCtx eb) = true ->
  conformant (TCtx ea) (TCtx eb) =
  forallb (fun e => match lookup (fst e) ea with Some ta => conformant ta (snd e) | None => false end) eb.
Proof. exact context_covariant. Qed.
Theorem C16_function_variance : forall pa ra pb rb, wf (TFun pa ra) = true -> wf (TFun pb rb) = true ->
  conformant (TFun pa ra) (TFun pb rb) =
  Nat.eqb (length pa) (length pb) && all2 conformant pb pa && conformant ra rb.
Proof. exact function_variance. Qed.
Theorem C16_equiv_function_result : forall pa ra pb rb,
  equivalent (TFun pa ra) (TFun pb rb) = true -> equivalent ra rb = true.
Proof. exact equivalent_function_result. Qed.
Theorem C16_coerced_identity : forall T v, conformant (type_of v) T = true -> coerced T v = v.
Proof. exact coerced_identity. Qed.
Theorem C16_coerced_wrap : forall item v, conformant (type_of v) (TList item) = false -> conformant (type_of v) item = true ->
  coerced (TList item) v = VList [v].
Proof. exact coerced_wrap. Qed.
Theorem C16_coerced_unwrap : forall T x, conformant (type_of (VList [x])) T = false -> conformant (type_of x) T = true ->
  (forall item, T = TList item -> conformant (type_of (VList [x])) item = false) -> coerced T (VList [x]) = x.
Proof. exact coerced_unwrap. Qed.
Theorem C16_coerced_conforms_or_null : forall T v, wf T = true -> wfv v = true ->
  coerced T v = VNull \/ conformant (type_of (coerced T v)) T = true.
Proof. exact coerced_conforms_or_null. Qed.
Theorem C16_coerced_idempotent : forall T v, wf T = true -> wfv v = true -> coerced T (coerced T v) = coerced T v.
Proof. exact coerced_idempotent. Qed.
(* the two defects of the pinned commit, kept as refutations of the original code *)
Theorem C16_equiv_orig_refuted : exists ra rb,
  equivalent_orig (TFun [] ra) (TFun [] rb) = true /\ equivalent_orig ra rb = false.
Proof. exact equivalent_orig_refuted. Qed.
Theorem C16_coerced_orig_refuted : exists T x,
  conformant (type_of x) T = true /\ coerced_orig T (VList [x]) = VNull /\ coerced T (VList [x]) = x.
Proof. exact coerced_orig_refuted. Qed.
Example C16_nonvacuous :
  let a := TFun [TS SAny; TCtx [(1%N, TS SNumber)]] (TList (TS SNull)) in
  let b := TFun [TS SNumber; TCtx [(1%N, TS SNumber); (2%N, TS SString)]] (TList (TS SDate)) in
  wf a = true /\ wf b = true /\ conformant a b = true /\ conformant b a = false /\ equivalent a b = false.
Proof. exact nonvacuous_types. Qed.

(* ---------- fuel (audit problem 12): equiv / conf / teqb are transliterated with fuel and answer false when it runs out.
   Once the fuel covers the two types more fuel changes nothing, and the common value is the saturated function
   (equivalent / conformant) that every theorem above is about; C16_fuel_needed shows the bound matters. ---------- *)
Theorem C16_equiv_fuel_adequate : forall f k a b, size a + size b <= f -> equiv (f + k) a b = equiv f a b.
Proof. exact equiv_fuel_add. Qed.
Theorem C16_conf_fuel_adequate : forall f k a b, S (size a + size b) <= f -> conf (f + k) a b = conf f a b.
Proof. exact conf_fuel_add. Qed.
Theorem C16_type_eq_fuel_adequate : forall f k a b, size a + size b <= f -> teqb (f + k) a b = teqb f a b.
Proof. exact teqb_fuel_add. Qed.
Theorem C16_equiv_saturated : forall f a b, size a + size b <= f -> equiv f a b = equivalent a b.
Proof. exact equivalent_saturated. Qed.
Theorem C16_conf_saturated : forall f a b, S (size a + size b) <= f -> conf f a b = conformant a b.
Proof. exact conformant_saturated. Qed.
Example C16_fuel_needed :
  let t := TList (TList (TS SNumber)) in
  conformant t t = true /\ equivalent t t = true /\ conf 2 t t = false /\ equiv 2 t t = false /\
  size t + size t = 6 /\ conf 7 t t = true /\ equiv 6 t t = true.
Proof. exact fuel_needed. Qed.

(* ---------- the relation without fuel: Conf is an inductive relation (coq/C16/Rel.v) whose rules are the sentences of the
   property; the implementation's relation decides it, and the preorder / variance statements hold of it ---------- *)
Theorem C16_conformant_iff_Conf : forall a b, wf a = true -> wf b = true -> (conformant a b = true <-> Conf a b).
Proof. exact conformant_iff_Conf. Qed.
Theorem C16_conf_decides_Conf : forall f a b, wf a = true -> wf b = true -> S (size a + size b) <= f ->
  (conf f a b = true <-> Conf a b).
Proof. exact conf_decides_Conf. Qed.
Theorem C16_Conf_refl : forall t, wf t = true -> Conf t t.
Proof. exact Conf_refl. Qed.
Theorem C16_Conf_trans : forall a b c, Conf a b -> Conf b c -> Conf a c.
Proof. exact Conf_trans. Qed.
Theorem C16_Conf_null_bottom_any_top : forall t, Conf (TS SNull) t /\ Conf t (TS SAny).
Proof. exact (fun t => conj (CNull t) (CAny t)). Qed.
Theorem C16_Conf_list_covariant : forall a b, Conf (TList a) (TList b) <-> Conf a b.
Proof. exact Conf_list. Qed.
Theorem C16_Conf_range_covariant : forall a b, Conf (TRange a) (TRange b) <-> Conf a b.
Proof. exact Conf_range. Qed.
Theorem C16_Conf_context_covariant : forall ea eb,
  Conf (TCtx ea) (TCtx eb) <-> (forall k tb, In (k, tb) eb -> exists ta, lookup k ea = Some ta /\ Conf ta tb).
Proof. exact Conf_context. Qed.
Theorem C16_Conf_function_variance : forall pa ra pb rb,
  Conf (TFun pa ra) (TFun pb rb) <-> Forall2 Conf pb pa /\ Conf ra rb.
Proof. exact Conf_function. Qed.
Theorem C16_equiv_only_mutually_Conf : forall a b, wf a = true -> wf b = true -> equivalent a b = true -> Conf a b /\ Conf b a.
Proof. exact equivalent_Conf. Qed.
Example C16_Conf_nonvacuous :
  let a := TFun [TS SAny; TCtx [(1%N, TS SNumber)]] (TList (TS SNull)) in
  let b := TFun [TS SNumber; TCtx [(1%N, TS SNumber); (2%N, TS SString)]] (TList (TS SDate)) in
  Conf a b /\ ~ Conf b a.
Proof. exact Conf_nonvacuous. Qed.

(* ---------- coercion as ONE equation (audit problem 6): coerced_spec T v = the first of  v, [v], (x when v = [x])  whose
   type conforms to T, else null (Definition coerced_spec / candidates in coq/C16/Rel.v, written with `find`, without
   looking at the branches of the model's coerced) ---------- *)
Theorem C16_coerced_characterisation : forall T v, wf T = true -> wfv v = true -> coerced T v = coerced_spec T v.
Proof. exact coerced_is_spec. Qed.
Theorem C16_coerced_cases : forall T v, wf T = true -> wfv v = true ->
  (conformant (type_of v) T = true -> coerced T v = v) /\
  (conformant (type_of v) T = false -> conformant (type_of (VList [v])) T = true -> coerced T v = VList [v]) /\
  (forall x, v = VList [x] -> conformant (type_of v) T = false -> conformant (type_of (VList [v])) T = false ->
     conformant (type_of x) T = true -> coerced T v = x) /\
  ((forall c, In c (candidates v) -> conformant (type_of c) T = false) -> coerced T v = VNull).
Proof. exact coerced_spec_cases. Qed.
Example C16_coerced_spec_nonvacuous :
  let n := VAtom SNumber 1%N in
  coerced_spec (TS SNumber) n = n /\ coerced_spec (TList (TS SNumber)) n = VList [n] /\
  coerced_spec (TS SNumber) (VList [n]) = n /\ coerced_spec (TS SString) n = VNull /\
  coerced_spec (TList (TList (TList (TS SNumber)))) (VList [VList [n]]) = VList [VList [VList [n]]].
Proof. exact coerced_spec_nonvacuous. Qed.

Print Assumptions C16_equiv_refl.
Print Assumptions C16_equiv_sym.
Print Assumptions C16_equiv_trans.
Print Assumptions C16_equiv_only_mutually_conformant.
Print Assumptions C16_conf_refl.
Print Assumptions C16_conf_any.
Print Assumptions C16_null_conf.
Print Assumptions C16_conf_trans.
Print Assumptions C16_list_covariant.
Print Assumptions C16_range_covariant.
Print Assumptions C16_context_covariant.
Print Assumptions C16_function_variance.
Print Assumptions C16_equiv_function_result.
Print Assumptions C16_coerced_identity.
Print Assumptions C16_coerced_wrap.
Print Assumptions C16_coerced_unwrap.
Print Assumptions C16_coerced_conforms_or_null.
Print Assumptions C16_coerced_idempotent.
Print Assumptions C16_equiv_orig_refuted.
Print Assumptions C16_coerced_orig_refuted.
Print Assumptions C16_nonvacuous.
Print Assumptions C16_equiv_fuel_adequate.
Print Assumptions C16_conf_fuel_adequate.
Print Assumptions C16_type_eq_fuel_adequate.
Print Assumptions C16_equiv_saturated.
Print Assumptions C16_conf_saturated.
Print Assumptions C16_fuel_needed.
Print Assumptions C16_conformant_iff_Conf.
Print Assumptions C16_conf_decides_Conf.
Print Assumptions C16_Conf_refl.
Print Assumptions C16_Conf_trans.
Print Assumptions C16_Conf_null_bottom_any_top.
Print Assumptions C16_Conf_list_covariant.
Print Assumptions C16_Conf_range_covariant.
Print Assumptions C16_Conf_context_covariant.
Print Assumptions C16_Conf_function_variance.
Print Assumptions C16_equiv_only_mutually_Conf.
Print Assumptions C16_Conf_nonvacuous.
Print Assumptions C16_coerced_characterisation.
Print Assumptions C16_coerced_cases.
Print Assumptions C16_coerced_spec_nonvacuous.
