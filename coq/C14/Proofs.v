(* C14 — proofs. *)
From Coq Require Import ZArith Bool List String Ascii Lia.
From DV Require Import Base.Calendar Base.CalendarProofs C15.Model C15.Proofs C14.Model.
Import ListNotations.
Open Scope string_scope.
Open Scope Z_scope.

Definition db0 (s : string) : bool := String.eqb s "Europe/Warsaw" || String.eqb s "Etc/GMT+1".

Theorem orig_refuted :
  parse_date_orig "2021-01-00" = Some (2021, 1, 0) /\ parse_date "2021-01-00" = None /\
  parse_date_orig "0999-01-01" = None /\ parse_date "0999-01-01" = Some (999, 1, 1) /\
  print_date_orig (-5, 1, 1) = "-005-01-01" /\ parse_date (print_date_orig (-5, 1, 1)) = None /\
  parse_date (print_date (-5, 1, 1)) = Some (-5, 1, 1) /\
  option_map print_time_orig (parse_time_orig db0 "10:00:00-00:30") = Some "10:00:00+00:30" /\
  option_map print_time (parse_time db0 "10:00:00-00:30") = Some "10:00:00-00:30" /\
  option_map print_time_orig (parse_time_orig db0 "10:00:00+01:75") = Some "10:00:00+02:15" /\ parse_time db0 "10:00:00+01:75" = None /\
  parse_time_orig db0 "10:00:00@Etc/GMT+1" = None /\ option_map print_time (parse_time db0 "10:00:00@Etc/GMT+1") = Some "10:00:00@Etc/GMT+1" /\
  parse_dtd_orig "P1DT" = Some DAY_NS /\ parse_dtd "P1DT" = None.
Proof. vm_compute. repeat split; reflexivity. Qed.
