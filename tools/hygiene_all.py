#!/usr/bin/env python3
"""Global hygiene: the forbidden words must not occur in ANY .v file of the development (each check enforces it on the files its
theorems depend on; this script covers the rest). Exit 1 on a hit."""
import os, sys
sys.path.insert(0, os.path.dirname(os.path.dirname(os.path.abspath(__file__))))
from vlib import core
bad = []
for d, _, fs in os.walk(core.COQ):
    for f in fs:
        if f.endswith('.v'):
            p = os.path.join(d, f)
            for i, line in enumerate(open(p, errors='replace'), 1):
                if core.HYGIENE_RE.search(line):
                    bad.append('%s:%d: %s' % (os.path.relpath(p, core.ROOT), i, line.strip()))
print('\n'.join(bad) if bad else 'hygiene: clean (%d files)' % len(core.coq_sources()))
sys.exit(1 if bad else 0)
