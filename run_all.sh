#!/bin/bash
# runs the quick tier of every registered check and prints one line per property
cd "$(dirname "$0")"
for id in $(python3 -c "import json; print(' '.join(c['property_id'] for c in json.load(open('MANIFEST.json'))['checks']))"); do
  s=$(date +%s)
  out=$(timeout 1200 ./check $id --tier quick 2>&1); rc=$?
  echo "$id rc=$rc $(( $(date +%s) - s ))s | $(echo "$out" | grep -E "^(VIOLATION|KNOWN-FINDING|C[0-9]+ quick)" | cut -c1-150 | tr '\n' ';')"
done
