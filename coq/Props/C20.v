(* C20 — property theorems only.  Proofs: C20/Proofs.v (locking and isolation model), C20/SitesOk.v (hypotheses
   decided on the site inventory regenerated from the source by translators/syncsites2coq.py on every run). *)
From Coq Require Import List NArith Bool Arith.
From DV Require Import C20.Conc C20.Proofs C20.Sites Gen.SyncSites C20.SitesOk.
Import ListNotations.

(* nested read acquisitions never block when no write acquisition exists: every unfinished thread can take its next step
   in every state reachable under any schedule, for any number of threads *)
Theorem C20_no_block : forall (Sg Pv : Type) (sg : Sg) (ths : list (thread Sg Pv)) (sched : list tid) (t : tid),
  all_read_only ths = true ->
  finishedb t (run sched (init sg ths)) = false ->
  exists s', step t (run sched (init sg ths)) = Some s' /\
             remaining t s' = tl (remaining t (run sched (init sg ths))).
Proof. intros Sg Pv. exact (@no_block Sg Pv). Qed.

Theorem C20_no_deadlock : forall (Sg Pv : Type) (sg : Sg) (ths : list (thread Sg Pv)) (sched : list tid),
  all_read_only ths = true -> ~ stuck (run sched (init sg ths)).
Proof. intros Sg Pv. exact (@no_deadlock Sg Pv). Qed.

Theorem C20_all_finish : forall (Sg Pv : Type) (sg : Sg) (ths : list (thread Sg Pv)) (sched : list tid),
  all_read_only ths = true ->
  (forall t, t < length ths -> length (remaining t (init sg ths)) <= count t sched) ->
  forall t, finishedb t (run sched (init sg ths)) = true.
Proof. intros Sg Pv. exact (@all_finish Sg Pv). Qed.

(* what a thread computed depends only on its own steps: its result under any schedule is its solo result *)
Theorem C20_isolation : forall (Sg Pv : Type) (sg : Sg) (ths : list (thread Sg Pv)) (sched : list tid) (t : tid),
  all_read_only ths = true ->
  result t (run sched (init sg ths)) = result t (run (filter (fun u => u =? t) sched) (init sg ths)) /\
  (finishedb t (run sched (init sg ths)) = true ->
   result t (run sched (init sg ths)) = result t (solo t (init sg ths))).
Proof.
  intros Sg Pv sg ths sched t H. split; [exact (@isolation Sg Pv sg ths sched t H)|exact (@isolation_solo Sg Pv sg ths sched t H)].
Qed.

(* one call never observes another call's inputs or intermediate results: other threads, their programs, their private
   states and the two schedules are arbitrary *)
Theorem C20_non_interference : forall (Sg Pv : Type) (sg : Sg) (ths1 ths2 : list (thread Sg Pv)) (sched1 sched2 : list tid) (t1 t2 : tid),
  all_read_only ths1 = true -> all_read_only ths2 = true ->
  nth_error ths1 t1 = nth_error ths2 t2 ->
  finishedb t1 (run sched1 (init sg ths1)) = true ->
  finishedb t2 (run sched2 (init sg ths2)) = true ->
  result t1 (run sched1 (init sg ths1)) = result t2 (run sched2 (init sg ths2)).
Proof. intros Sg Pv. exact (@non_interference Sg Pv). Qed.

Theorem C20_lock_poison_free : forall (Sg Pv : Type) (sg : Sg) (ths : list (thread Sg Pv)) (sched : list tid),
  all_read_only ths = true -> all_well_bracketed ths = true ->
  (forall t, finishedb t (run sched (init sg ths)) = true) ->
  all_free (run sched (init sg ths)).
Proof. intros Sg Pv. exact (@lock_poison_free Sg Pv). Qed.

(* the hypothesis is necessary: a write acquisition in the evaluation path deadlocks under some schedule
   (a thread upgrading its own read lock; a nested reader against a waiting writer) and stays stuck *)
Theorem C20_writer_deadlocks :
  (exists (p : list (instr unit nat)) (sched : list tid),
     well_bracketed p = true /\
     stuck (run sched (init tt [ {| prog := p; priv := 0 |} ]))) /\
  (exists (p0 p1 : list (instr unit nat)) (sched : list tid),
     read_only p0 = true /\ well_bracketed p0 = true /\ well_bracketed p1 = true /\
     stuck (run sched (init tt [ {| prog := p0; priv := 0 |}; {| prog := p1; priv := 0 |} ]))).
Proof. exact writer_deadlocks. Qed.

Theorem C20_stuck_forever : forall (Sg Pv : Type) (sched : list tid) (s : state Sg Pv), stuck s -> stuck (run sched s).
Proof. intros Sg Pv. exact (@stuck_forever Sg Pv). Qed.

(* the hypotheses about the code, decided on the inventory of the current working tree *)
Theorem C20_sites_ok : forallb eval_site_ok sites = true.
Proof. exact sites_ok. Qed.

Example C20_sites_nonvacuous :
  Nat.leb 9 (count_kind is_eval_read sites) = true /\ Nat.leb 9 (count_kind is_build_write sites) = true /\
  Nat.leb 20 (count_kind is_ctx_use sites) = true /\ Nat.leb 10 (count_kind is_static sites) = true.
Proof. exact sites_nonvacuous. Qed.

Theorem C20_call_path_ok :
  Nat.leb 8 (List.length call_path) = true /\ forallb (fun x : bool * lockid => negb (fst x)) call_path = true /\ find_stuck call_path = None.
Proof. exact call_path_ok. Qed.

Example C20_find_stuck_finds :
  find_stuck [(false, 8); (true, 6); (false, 5); (false, 6)] = Some [0; 0; 0; 0; 0; 0; 0; 0; 0] /\
  (exists sched, find_stuck2 [(false, 6); (false, 5); (false, 6)] [(true, 6)] = Some sched).
Proof. exact find_stuck_finds. Qed.

(* the theorems for the program the inventory describes: any number of concurrent calls, any schedule *)
Theorem C20_code_no_deadlock : forall (Sg Pv : Type) (sg : Sg) (fps : list ((Sg -> Pv -> Pv) * Pv)) (sched : list tid),
  ~ stuck (run sched (init sg (callers fps))).
Proof. intros Sg Pv. exact (@code_no_deadlock Sg Pv). Qed.

Theorem C20_code_isolation : forall (Sg Pv : Type) (sg : Sg) (fps : list ((Sg -> Pv -> Pv) * Pv)) (sched : list tid) (t : tid),
  finishedb t (run sched (init sg (callers fps))) = true ->
  result t (run sched (init sg (callers fps))) = result t (solo t (init sg (callers fps))).
Proof. intros Sg Pv. exact (@code_isolation Sg Pv). Qed.

Theorem C20_code_locks_free : forall (Sg Pv : Type) (sg : Sg) (fps : list ((Sg -> Pv -> Pv) * Pv)) (sched : list tid),
  (forall t, finishedb t (run sched (init sg (callers fps))) = true) ->
  all_free (run sched (init sg (callers fps))).
Proof. intros Sg Pv. exact (@code_locks_free Sg Pv). Qed.

Print Assumptions C20_no_block.
Print Assumptions C20_no_deadlock.
Print Assumptions C20_all_finish.
Print Assumptions C20_isolation.
Print Assumptions C20_non_interference.
Print Assumptions C20_lock_poison_free.
Print Assumptions C20_writer_deadlocks.
Print Assumptions C20_stuck_forever.
Print Assumptions C20_sites_ok.
Print Assumptions C20_sites_nonvacuous.
Print Assumptions C20_call_path_ok.
Print Assumptions C20_find_stuck_finds.
Print Assumptions C20_code_no_deadlock.
Print Assumptions C20_code_isolation.
Print Assumptions C20_code_locks_free.
