#!/usr/bin/env python3
"""Regenerates the generated tables of DESIGN.md (status per property, seeded changes)."""
import os, re, subprocess, sys
root = os.path.dirname(os.path.dirname(os.path.abspath(__file__)))
p = os.path.join(root, 'DESIGN.md')
s = open(p).read()
status = subprocess.run([sys.executable, os.path.join(root, 'tools', 'status.py')], capture_output=True, text=True).stdout
seeds = subprocess.run([sys.executable, os.path.join(root, 'seeded', 'summary.py')], capture_output=True, text=True).stdout
s = re.sub(r'<!-- STATUS-TABLE-BEGIN -->.*?<!-- STATUS-TABLE-END -->', lambda m: '<!-- STATUS-TABLE-BEGIN -->\n' + status + '<!-- STATUS-TABLE-END -->', s, flags=re.S)
s = re.sub(r'<!-- SEED-TABLE-BEGIN -->.*?<!-- SEED-TABLE-END -->', lambda m: '<!-- SEED-TABLE-BEGIN -->\n' + seeds + '<!-- SEED-TABLE-END -->', s, flags=re.S)
open(p, 'w').write(s)
