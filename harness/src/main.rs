//! Verification harness: runs the working tree of /repo on cases written by the /verif checks.
mod canon;
mod cmd_ast;
mod cmd_canvas;
mod cmd_feel;
mod cmd_json;
mod cmd_model;
mod cmd_num;
mod cmd_serve;
mod cmd_threads;
mod cmd_tokens;
mod cmd_ptrace;
mod cmd_pure;
mod cmd_recognize;
mod cmd_types;
mod cmd_ws;
mod guard;

fn main() {
  std::panic::set_hook(Box::new(|_| {}));
  let cmd = std::env::args().nth(1).unwrap_or_default();
  match cmd.as_str() {
    "ast" => cmd_ast::main(),
    "feel" => cmd_feel::main(),
    "json" => cmd_json::main(),
    "serve" => cmd_serve::main(),
    "threads" => cmd_threads::main(),
    "tokens" => cmd_tokens::main(),
    "ws" => cmd_ws::main(),
    "guard" => guard::main(),
    "model" => cmd_model::main(),
    "recognize" => cmd_recognize::main(),
    "canvas" => cmd_canvas::main(),
    "num" => cmd_num::main(),
    "types" => cmd_types::main(),
    "pure" => cmd_pure::main(),
    "ptrace" => cmd_ptrace::main(),
    _ => {
      eprintln!("usage: dv feel|ws|types");
      std::process::exit(2);
    }
  }
}
