//! `dv feel`: one JSON request per line: {"ctx": text, "e": text, "mode": "expr"|"unary"|"textual"|"boxed"|"context"|"name", "scope": bool}
use crate::canon::{canon, panic_text};
use dmntk_feel::Scope;
use serde_json::{json, Value as J};
use std::io::{BufRead, Write};

pub fn one(req: &J) -> J {
  let ctx_text = req["ctx"].as_str().unwrap_or("");
  let e = req["e"].as_str().unwrap_or("");
  let mode = req["mode"].as_str().unwrap_or("expr");
  let want_scope = req["scope"].as_bool().unwrap_or(false);
  let scope: Scope = if ctx_text.is_empty() {
    Scope::default()
  } else {
    match dmntk_feel_evaluator::evaluate_context(&Scope::default(), ctx_text) {
      Ok(c) => c.into(),
      Err(_) => return json!({"err": "ctx"}),
    }
  };
  let s0 = scope.to_string();
  let node = match mode {
    "expr" => dmntk_feel_parser::parse_expression(&scope, e, false),
    "unary" => dmntk_feel_parser::parse_unary_tests(&scope, e, false),
    "textual" => dmntk_feel_parser::parse_textual_expression(&scope, e, false),
    "textuals" => dmntk_feel_parser::parse_textual_expressions(&scope, e, false),
    "boxed" => dmntk_feel_parser::parse_boxed_expression(&scope, e, false),
    "context" => dmntk_feel_parser::parse_context(&scope, e, false),
    "name" => {
      return match dmntk_feel_parser::parse_name(&scope, e, false) {
        Ok(n) => json!({"name": n.to_string()}),
        Err(_) => json!({"err": "parse"}),
      }
    }
    _ => return json!({"err": "mode"}),
  };
  let s1 = scope.to_string();
  let node = match node {
    Ok(n) => n,
    Err(_) => return if want_scope { json!({"err": "parse", "s0": s0, "s1": s1}) } else { json!({"err": "parse"}) },
  };
  if req["parse_only"].as_bool().unwrap_or(false) {
    return json!({"ast": format!("{:?}", node), "s0": s0, "s1": s1});
  }
  let v = match dmntk_feel_evaluator::evaluate(&scope, &node) {
    Ok(v) => v,
    Err(_) => return json!({"err": "build"}),
  };
  let s2 = scope.to_string();
  if want_scope {
    json!({"v": canon(&v), "s0": s0, "s1": s1, "s2": s2})
  } else {
    json!({"v": canon(&v)})
  }
}

pub fn main() {
  let stdin = std::io::stdin();
  let stdout = std::io::stdout();
  let mut out = std::io::BufWriter::new(stdout.lock());
  for line in stdin.lock().lines() {
    let line = line.unwrap();
    if line.trim().is_empty() {
      continue;
    }
    let req: J = serde_json::from_str(&line).unwrap_or(J::Null);
    let r = std::panic::catch_unwind(|| one(&req)).unwrap_or_else(|e| json!({"panic": panic_text(e)}));
    writeln!(out, "{}", r).unwrap();
  }
  out.flush().unwrap();
}
