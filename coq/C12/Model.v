(* C12 — loading any model text yields a usable model or an error.  (owner: builder-total)
   Abstract model of what ModelEvaluator::new and evaluate_invocable do with the shape of a `Definitions` value, at the places
   where the anchored code indexes a vector by a clause count or follows references recursively:

     model-evaluator/src/builders/decision_table.rs   rule.input_entries[i], rule.output_entries[i] (build), output_entry_values[0] (evaluation)
     model-evaluator/src/builders/decision.rs         bring_knowledge_requirements_into_context (build), required decisions (evaluation)
     model-evaluator/src/builders/item_definition*.rs type references followed recursively
     model-evaluator/src/model_evaluator.rs           check_cyclic_dependencies (depth-first search with an explicit stack; added by the fix 285ae4c)

   Outcomes: Ok | Err | Crash site | Diverge (a recursion that does not end: in the process, a stack overflow and abort).
   `xxx_orig` is the behaviour of the pinned commit f2b7a1b.  No proofs in this file. *)
From Coq Require Import List Arith Bool PeanoNat.
Import ListNotations.

Inductive outcome := Ok | Err | Crash (site : nat) | Diverge.

(* sites *)
Definition site_input_entry := 297.
Definition site_output_entry := 314.
Definition site_output_value0 := 119.

(* ------------------------------------------------------------------ decision tables: only the counts matter *)
Record rule := mk_rule { in_entries : nat; out_entries : nat }.
Record table := mk_table { in_clauses : nat; out_clauses : nat; rules : list rule }.

(* pinned commit: `for i in 0..in_clauses { rule.input_entries[i] }` then the same for the output clauses, rule by rule *)
Fixpoint table_build_rules_orig (ic oc : nat) (rs : list rule) : outcome :=
  match rs with
  | [] => Ok
  | r :: rest =>
    if in_entries r <? ic then Crash site_input_entry
    else if out_entries r <? oc then Crash site_output_entry
    else table_build_rules_orig ic oc rest
  end.
Definition table_build_orig (t : table) : outcome := table_build_rules_orig (in_clauses t) (out_clauses t) (rules t).

(* now: the numbers are compared first *)
Fixpoint table_build_rules (ic oc : nat) (rs : list rule) : outcome :=
  match rs with
  | [] => Ok
  | r :: rest =>
    if negb (in_entries r =? ic) then Err
    else if negb (out_entries r =? oc) then Err
    else table_build_rules ic oc rest
  end.
Definition table_build (t : table) : outcome := table_build_rules (in_clauses t) (out_clauses t) (rules t).

(* evaluation of a matching rule: get_result looks at output_entry_values (one per output clause) *)
Definition table_eval_orig (t : table) : outcome := if 1 <? out_clauses t then Ok else if out_clauses t =? 0 then Crash site_output_value0 else Ok.
Definition table_eval (t : table) : outcome := Ok.

(* ------------------------------------------------------------------ the dependency graph: node -> required nodes.
   Nodes are decisions, knowledge models, decision services and item definitions (all in one id space); a reference to an id that
   is not a node is dangling (an error for knowledge requirements, ignored for required decisions: never a recursion). *)
Definition graph := list (nat * list nat).

Fixpoint targets (g : graph) (n : nat) : option (list nat) :=
  match g with
  | [] => None
  | (m, ts) :: rest => if m =? n then Some ts else targets rest n
  end.

(* the recursion of the builders / evaluators: follow every requirement of n, then theirs, ...  (fuel = stack) *)
Fixpoint follow (fuel : nat) (g : graph) (n : nat) : outcome :=
  match fuel with
  | O => Diverge
  | S f =>
    match targets g n with
    | None => Ok
    | Some ts => fold_left (fun acc m => match acc with
                                         | Ok => match targets g m with Some _ => follow f g m | None => Ok end   (* a dangling id is looked up and skipped *)
                                         | other => other
                                         end) ts Ok
    end
  end.

(* check_cyclic_dependencies: iterative depth-first search; colour: None = unvisited, Some false = on the current path, Some true = done *)
Definition colours := list (nat * bool).
Fixpoint colour (c : colours) (n : nat) : option bool :=
  match c with [] => None | (m, b) :: rest => if m =? n then Some b else colour rest n end.

Inductive dfsres := Cycle | NoCycle (c : colours) | DfsFuel.

Fixpoint dfs_loop (fuel : nat) (g : graph) (stack : list (nat * nat)) (c : colours) : dfsres :=
  match fuel with
  | O => DfsFuel
  | S f =>
    match stack with
    | [] => NoCycle c
    | (node, next) :: rest =>
      match targets g node with
      | None => dfs_loop f g rest ((node, true) :: c)
      | Some ts =>
        match nth_error ts next with
        | None => dfs_loop f g rest ((node, true) :: c)
        | Some t =>
          let stack' := (node, S next) :: rest in
          match colour c t with
          | Some false => Cycle
          | Some true => dfs_loop f g stack' c
          | None => match targets g t with
                    | Some _ => dfs_loop f g ((t, 0) :: stack') ((t, false) :: c)
                    | None => dfs_loop f g stack' c
                    end
          end
        end
      end
    end
  end.

Definition edge_count (g : graph) : nat := fold_right (fun e acc => length (snd e) + acc) 0 g.
Definition dfs_fuel (g : graph) : nat := 2 * (length g + edge_count g) + 2.

Fixpoint dfs_all (g : graph) (starts : list nat) (c : colours) : dfsres :=
  match starts with
  | [] => NoCycle c
  | s :: rest =>
    match colour c s with
    | Some _ => dfs_all g rest c
    | None => match dfs_loop (dfs_fuel g) g [(s, 0)] ((s, false) :: c) with
              | NoCycle c' => dfs_all g rest c'
              | other => other
              end
    end
  end.

Definition has_cycle (g : graph) : dfsres := dfs_all g (map fst g) [].

(* ------------------------------------------------------------------ a model = tables + dependency graph; the invocables are the nodes *)
Record definitions := mk_defs { tables : list table; deps : graph }.

Fixpoint first_not_ok (os : list outcome) : outcome :=
  match os with [] => Ok | Ok :: rest => first_not_ok rest | o :: _ => o end.

(* pinned commit: no cycle check, recursion limited only by the stack *)
Definition build_orig (fuel : nat) (d : definitions) : outcome :=
  first_not_ok (map table_build_orig (tables d) ++ map (follow fuel (deps d)) (map fst (deps d))).
Definition evaluate_orig (fuel : nat) (d : definitions) (n : nat) : outcome :=
  first_not_ok (follow fuel (deps d) n :: map table_eval_orig (tables d)).

Definition build (fuel : nat) (d : definitions) : outcome :=
  match has_cycle (deps d) with
  | Cycle => Err
  | DfsFuel => Diverge
  | NoCycle _ => first_not_ok (map table_build (tables d) ++ map (follow fuel (deps d)) (map fst (deps d)))
  end.
Definition evaluate (fuel : nat) (d : definitions) (n : nat) : outcome :=
  first_not_ok (follow fuel (deps d) n :: map table_eval (tables d)).

(* reachability in at least one step through nodes of the graph *)
Inductive path (g : graph) : nat -> nat -> Prop :=
| path_one : forall n m ts, targets g n = Some ts -> In m ts -> path g n m
| path_step : forall n m k ts, targets g n = Some ts -> In m ts -> path g m k -> path g n k.
Definition on_cycle (g : graph) (n : nat) : Prop := path g n n.

(* all graphs over the nodes 0..k-1 in which every node is defined: a row of target lists per node (used by the finite sweep) *)
Fixpoint sublists (l : list nat) : list (list nat) :=
  match l with [] => [[]] | x :: r => let s := sublists r in s ++ map (cons x) s end.
Fixpoint all_rows (k : nat) (choices : list (list nat)) : list (list (list nat)) :=
  match k with O => [[]] | S j => flat_map (fun row => map (cons row) (all_rows j choices)) choices end.
Definition graphs_upto (k : nat) : list graph :=
  map (fun rows => combine (seq 0 k) rows) (all_rows k (sublists (seq 0 (S k)))).

(* reference notion of a cycle for the sweep: some node reaches itself within `length g` steps (boolean transitive closure) *)
Fixpoint reach (fuel : nat) (g : graph) (n target : nat) : bool :=
  match fuel with
  | O => false
  | S f => match targets g n with
           | None => false
           | Some ts => existsb (fun m => (m =? target) && (match targets g m with Some _ => true | None => false end) || reach f g m target) ts
           end
  end.
Definition cyclic_ref (g : graph) : bool := existsb (fun n => reach (length g) g n n) (map fst g).
Definition dfs_says_cycle (g : graph) : bool := match has_cycle g with Cycle => true | _ => false end.
Definition dfs_in_fuel (g : graph) : bool := match has_cycle g with DfsFuel => false | _ => true end.

(* ------------------------------------------------------------------ item definitions are trees: a type reference may sit in a component of a component ...
   check_cyclic_dependencies collects the references of the WHOLE tree of an item definition (collect_type_references, recursive) *)
Inductive itemdef := ItemDef (name : nat) (type_ref : option nat) (components : list itemdef).
Definition item_name (t : itemdef) : nat := match t with ItemDef n _ _ => n end.
Definition own_ref (t : itemdef) : list nat := match t with ItemDef _ (Some x) _ => [x] | _ => [] end.
Fixpoint collect_refs (t : itemdef) : list nat :=
  match t with ItemDef _ r cs => (match r with Some x => [x] | None => [] end) ++ flat_map collect_refs cs end.
(* a flat variant (the definition and its direct components only) — NOT what the code does; kept to state what it would miss *)
Definition flat_refs (t : itemdef) : list nat :=
  match t with ItemDef _ r cs => (match r with Some x => [x] | None => [] end) ++ flat_map own_ref cs end.
Definition item_graph (defs : list itemdef) : graph := map (fun t => (item_name t, collect_refs t)) defs.

(* x is the type reference of the definition or of a component at any depth *)
Inductive occurs (x : nat) : itemdef -> Prop :=
| occ_here : forall n cs, occurs x (ItemDef n (Some x) cs)
| occ_deep : forall n r cs c, In c cs -> occurs x c -> occurs x (ItemDef n r cs).

(* a chain of components of the given depth whose innermost component refers to x *)
Fixpoint nested (depth : nat) (x : nat) : itemdef :=
  match depth with O => ItemDef 0 (Some x) [] | S d => ItemDef 0 None [nested d x; ItemDef 0 (Some 99) []] end.
