//! `dv serve <port>`: starts the real HTTP service of the working tree (dmntk_server::start_server) on 127.0.0.1:<port>
//! with an empty workspace and runs until the process is killed (C18).
pub fn main() {
  let port = std::env::args().nth(2).unwrap_or_else(|| "22122".to_string());
  let mut sys = actix_web::rt::System::new("dv-serve");
  let r = sys.block_on(dmntk_server::start_server(Some("127.0.0.1".to_string()), Some(port), None));
  if let Err(e) = r {
    eprintln!("dv serve: {}", e);
    std::process::exit(3);
  }
}
