"""C14 — temporal literals denote exactly what is written and print back losslessly.
Proof: coq/Props/C14.v (recognisers for the literal grammars, parse/print transliterations, print-then-parse = identity
per kind, duration normal form, rejection of invalid components).
Correspondence: date() / time() / date and time() / duration() / @"..." / string() of the working tree vs
coq/C14/Model.v; an independent Python reading of the literal grammar cross-checks the model."""
import glob
import json
import os
import re

from vlib import core
from props import c15 as cal

os.environ['TZ'] = 'UTC'

NS = 10 ** 9
U64 = 2 ** 64 - 1
FEEL_MAX = 999999999


def zone_ids():
    """every identifier of chrono-tz's database, read from the file its build script generated for the harness build"""
    files = sorted(glob.glob(os.path.join(core.TARGET, 'debug', 'build', 'chrono-tz-*', 'out', 'timezones.rs')), key=os.path.getmtime)
    ids = []
    for f in files[-1:]:
        ids = re.findall(r'Tz::\w+ => "([^"]+)"', open(f).read())
    return sorted(set(ids))


def header(ids):
    return ('From Coq Require Import ZArith List Bool String Ascii.\nFrom DV Require Import Base.Calendar C15.Model C14.Model.\n'
            'Import ListNotations.\nOpen Scope string_scope.\nOpen Scope Z_scope.\n'
            'Definition db (s : string) : bool := existsb (String.eqb s) [%s].\n' % '; '.join('"%s"' % i for i in ids) +
            'Definition show_date (s : string) := option_map print_date (parse_date s).\n'
            'Definition show_time (s : string) := option_map print_time (parse_time db s).\n'
            'Definition show_dt (s : string) := option_map print_datetime (bif_date_and_time db s).\n'
            'Definition show_dur (s : string) := match parse_duration s with Some (DYm n) => Some ("ymd", print_ymd n) | Some (DDt n) => Some ("dtd", print_dtd n) | None => None end.\n')


# ---------------------------------------------------------------- independent reading of the grammar (Python re)
RE_DATE = r'(?P<sign>-)?(?P<year>[1-9][0-9]{3,8}|0[0-9]{3})-(?P<month>[0-9]{2})-(?P<day>[0-9]{2})'
RE_TIME = r'(?P<h>[0-9]{2}):(?P<mi>[0-9]{2}):(?P<s>[0-9]{2})(?:\.(?P<f>[0-9]+))?'
RE_ZONE = r'(?:(?P<zulu>[zZ])|@(?P<zone>[a-zA-Z0-9_/+-]+)|(?P<os>[+-])(?P<oh>[0-9]{2}):(?P<om>[0-9]{2})(?::(?P<osec>[0-9]{2}))?)?'
P_DATE = re.compile('^' + RE_DATE + '$')
P_TIME = re.compile('^' + RE_TIME + RE_ZONE + '$')
P_DT = re.compile('^' + RE_DATE + 'T' + RE_TIME + RE_ZONE + '$')
P_YMD = re.compile(r'^(-)?P(?:([0-9]+)Y)?(?:([0-9]+)M)?$')
P_DTD = re.compile(r'^(-)?P(?:([0-9]+)D)?(?:T(?:([0-9]+)H)?(?:([0-9]+)M)?(?:([0-9]+)(?:\.([0-9]*))?S)?)?$')


def py_date(m):
    y = int(m.group('year')) * (-1 if m.group('sign') else 1)
    mo, d = int(m.group('month')), int(m.group('day'))
    return (y, mo, d) if cal.valid(y, mo, d) else None


def py_print_date(a):
    y, m, d = a
    return '%s%04d-%02d-%02d' % ('-' if y < 0 else '', abs(y), m, d)


def py_time(m, ids):
    h, mi, s = int(m.group('h')), int(m.group('mi')), int(m.group('s'))
    if h > 23 or mi > 59 or s > 59:
        return None
    f = m.group('f')
    ns = int((f + '000000000')[:9]) if f else 0
    if m.group('zulu'):
        z = 'Z'
    elif m.group('zone') is not None:
        if m.group('zone') not in ids:
            return None
        z = '@' + m.group('zone')
    elif m.group('os'):
        oh, om, osec = int(m.group('oh')), int(m.group('om')), int(m.group('osec') or 0)
        if oh > 14 or om > 59 or osec > 59:
            return None
        off = (oh * 3600 + om * 60 + osec) * (-1 if m.group('os') == '-' else 1)
        z = 'Z' if off == 0 else cal.off_text(off)
    else:
        z = ''
    return '%02d:%02d:%02d%s%s' % (h, mi, s, cal.frac_text(ns), z)


def py_show(kind, text, ids, bif=False):
    """the canonical text the literal must print as, or None when it is not a valid literal"""
    if kind == 'date':
        m = P_DATE.match(text)
        a = py_date(m) if m else None
        return py_print_date(a) if a else None
    if kind == 'time':
        m = P_TIME.match(text)
        return py_time(m, ids) if m else None
    if kind == 'dt':
        m = P_DT.match(text)
        if not m:
            if bif:     # date and time("2021-01-01") is midnight of that date, no zone
                a = py_show('date', text, ids)
                return a + 'T00:00:00' if a else None
            return None
        a, t = py_date(m), py_time(m, ids)
        return py_print_date(a) + 'T' + t if a and t is not None else None
    m = P_YMD.match(text)
    if m and (m.group(2) or m.group(3)):
        ys, ms = m.group(2), m.group(3)
        ok = [x for x in (ys, ms) if x is not None and int(x) <= U64]
        if ok:
            n = (int(ys) * 12 if ys and int(ys) <= U64 else 0) + (int(ms) if ms and int(ms) <= U64 else 0)
            return ('ymd', cal.ymd_text(-n if m.group(1) else n))
    m = P_DTD.match(text)
    if m and not text.endswith('T'):
        sg, d, h, mi, s, f = m.groups()
        comps = [d, h, mi, s]
        if any(x is not None and int(x) <= U64 for x in comps):
            n = sum(int(x) * u for x, u in zip(comps, (86400 * NS, 3600 * NS, 60 * NS, NS)) if x is not None and int(x) <= U64)
            if f:
                n += int((f + '000000000')[:9])
            return ('dtd', cal.dtd_text(-n if sg else n))
    return None


BARE_POINT = re.compile(r'[0-9]\.S$')


def at_expected(t, ids):
    """@"text" tries date, date and time, time, years-and-months, days-and-time in this order"""
    for k2 in ('date', 'dt', 'time'):
        w = py_show(k2, t, ids)
        if w is not None:
            return {TAG[k2]: w}
    w = py_show('dur', t, ids)
    return {w[0]: w[1]} if w else None


FUN = {'date': 'date', 'time': 'time', 'dt': 'date and time', 'dur': 'duration'}
TAG = {'date': 'd', 'time': 't', 'dt': 'dt'}
SHOW = {'date': 'show_date', 'time': 'show_time', 'dt': 'show_dt', 'dur': 'show_dur'}


# ---------------------------------------------------------------- generators
YEARS = [-FEEL_MAX, -100000, -10000, -9999, -1000, -999, -5, -1, 0, 1, 5, 999, 1000, 1582, 1900, 1970, 2000, 2020, 2021, 2024, 9999, 10000, 99999, 262142, 262143, 262144, 1000000, FEEL_MAX]
FRACS = ['', '0', '5', '57', '1', '000000001', '999999999', '509083', '123456789', '1234567891', '9999999999', '000000000', '0000000009', '100', '001', '29', '3', '7', '07',
         '58', '015', '285', '999', '4503599627', '123123123123', '999999999999', '35', '65', '95', '005', '145', '0000001', '00000001']


def year_text(y, width=4):
    return ('-' if y < 0 else '') + ('%0' + str(width) + 'd') % abs(y)


def gen_dates(rng, n):
    out = []
    for y in YEARS:
        for m, d in ((1, 1), (2, 28), (2, 29), (2, 30), (12, 31), (4, 30), (4, 31), (1, 0), (0, 1), (13, 1), (1, 32), (6, 15)):
            out.append('%s-%02d-%02d' % (year_text(y), m, d))
    out += ['02021-01-01', '01000-01-01', '00999-01-01', '0000-01-01', '-0000-01-01', '0999-01-01', '999-01-01', '1000000000-01-01', '+2021-01-01', '2021-1-01', '2021-01-1', '2021/01/01',
            ' 2021-01-01', '2021-01-01 ', '2021-01-01T', '20210101', '2021-001-01', '2021-01-001', '--2021-01-01', '2021-01-01Z', '']
    for _ in range(n):
        y = rng.choice(YEARS) if rng.random() < 0.3 else rng.randint(-3000, 3000)
        m = rng.randint(1, 12)
        d = rng.choice([28, 29, 30, 31, rng.randint(1, 28)])
        out.append('%s-%02d-%02d' % (year_text(y), m, d))
    return out


def all_offsets():
    offs = []
    for minutes in range(0, 15 * 60):
        for sg in '+-':
            offs.append('%s%02d:%02d' % (sg, minutes // 60, minutes % 60))
    return offs


def gen_zone_texts(rng, ids, n_zones):
    zs = ['', 'Z', 'z', '+00:00', '-00:00', '+15:00', '-15:00', '+14:60', '+14:59:59', '-14:59:59', '+14:59:60', '+01:75', '+01:00:75', '-00:30', '+00:30', '-00:00:01', '+00:00:01',
          '+1:00', '+01:0', '+0100', '+01', '+01:00:0', '+01:00:00', '-05:00:01', '+99:00', '@', '@Nowhere/City', '@europe/warsaw', '@Europe/Warsaw ', '@Etc/GMT+1', '@Etc/GMT-14',
          '@America/Port-au-Prince', '@EST5EDT', '@UTC', 'ZZ', 'Z@Etc/UTC', '+01:00Z', '@Europe/Warsaw+01:00', '@Europe/Zürich']
    zs += ['@' + i for i in (ids if n_zones is None else rng.sample(ids, min(n_zones, len(ids))))]
    return zs


def gen_times(rng, ids, n, n_zones):
    out = []
    for off in all_offsets():
        out.append('%02d:%02d:%02d%s' % (rng.randint(0, 23), rng.randint(0, 59), rng.randint(0, 59), off))
    for z in gen_zone_texts(rng, ids, n_zones):
        h = rng.randint(4, 22) if z.startswith('@') else rng.randint(0, 23)   # named zones: away from the hours where zone changes happen
        out.append('%02d:%02d:%02d%s%s' % (h, rng.randint(0, 59), rng.randint(0, 59), rng.choice(['', '', '.5', '.000000001']), z))
    for f in FRACS:
        for z in ('', 'Z', '+05:30', '@Europe/Warsaw'):
            out.append('10:00:00%s%s' % ('.' + f if f else '', z))
    for h, m, s in ((24, 0, 0), (23, 60, 0), (23, 59, 60), (0, 0, 0), (23, 59, 59), (99, 0, 0), (12, 99, 0), (12, 0, 99)):
        out.append('%02d:%02d:%02d' % (h, m, s))
    out += ['10:00:00.', '10:00', '1:00:00', '10:0:00', '10:00:0', '100000', '10:00:00,5', '10:00:00.5.5', 'T10:00:00', '10:00:00 Z', '10-00-00', '']
    for _ in range(n):
        f = ''.join(rng.choice('0123456789') for _ in range(rng.randint(1, 11)))
        off = rng.randint(-53999, 53999)
        out.append('%02d:%02d:%02d.%s%s' % (rng.randint(0, 23), rng.randint(0, 59), rng.randint(0, 59), f, rng.choice(['', 'Z', cal.off_text(off) if off else 'Z'])))
    return out


def gen_datetimes(rng, ids, n):
    out = []
    zts = ['', 'Z', '+01:00', '-00:30', '+14:59:59', '-14:59', '+15:00', '@Europe/Warsaw', '@Etc/GMT+1', '@Nowhere/City', '+00:00', '+01:75']
    for y in YEARS:
        for md in ('01-01', '02-29', '12-31', '02-30', '01-00'):
            out.append('%s-%sT%02d:%02d:%02d%s%s' % (year_text(y), md, rng.choice([0, 12, 23]), rng.choice([0, 59]), rng.choice([0, 59]), rng.choice(['', '.999999999', '.1']), rng.choice(zts)))
    out += ['2021-01-01T24:00:00', '2021-01-01T23:60:00', '2021-01-01T23:59:60', '2021-01-01 10:00:00', '2021-01-01t10:00:00', '2021-01-01T10:00', '2021-01-01TT10:00:00', '2021-01-01T10:00:00.',
            '0999-06-15T10:00:00Z', '-0005-01-01T00:00:00', '2021-01-01', '2021-01-01T', 'T10:00:00', '2021-01-01T10:00:00.0001+05:00:01', '999999999-12-31T23:59:59.999999999@Europe/Paris']
    for _ in range(n):
        y = rng.choice(YEARS) if rng.random() < 0.3 else rng.randint(1800, 2200)
        m = rng.randint(1, 12)
        d = rng.randint(1, cal.last_day(y, m))
        z = rng.choice(zts + ['@' + rng.choice(ids)] * 4)
        h = rng.randint(4, 22)
        f = rng.choice(['', '', '.' + rng.choice(FRACS[1:])])
        out.append('%s-%02d-%02dT%02d:%02d:%02d%s%s' % (year_text(y), m, d, h, rng.randint(0, 59), rng.randint(0, 59), f, z))
    return out


def gen_durations(rng, n):
    out = ['PT36H', 'P14M', 'P1Y', 'P0Y', 'P0M', 'P0D', 'PT0S', '-PT0S', '-P0M', 'P1Y0M', 'P0Y14M', 'P1Y2M', '-P1Y2M', 'P12M', 'P1DT12H', 'PT90M', 'PT3600S', 'PT86400S', 'PT0.5S', 'PT0.000000001S',
           'PT59M59.999999999S', 'PT999.999999999999S', 'P1D', 'P1DT', 'PT', 'P', '-P', '-PT', 'T', '', 'P1', 'P1Y2M3D', 'P1M1Y', 'PT1M1H', 'P1DT2H3M4S', 'P1DT2H3M4.5S', 'PT1.S', 'PT.5S', 'PT1.5', 'P1.5D',
           'PT1H2', 'P-1D', 'P1D-', '+P1D', 'p1d', 'P1d', ' P1D', 'P1D ', 'P1DT1H1D', 'PT1S1M', 'P1Y1D', 'P1MT1M', 'P18446744073709551615D', 'P18446744073709551616D', 'PT18446744073709551615S',
           'P1DT18446744073709551616H', 'P99999999999999999999Y1M', 'P768614336404564650Y', 'P9223372036854775807M', '-P9223372036854775807M', 'P00001Y', 'PT001S', 'PT1.50S', 'P0DT0H0M0.0S']
    for f in FRACS[1:]:
        out.append('PT7.%sS' % f)
        out.append('-P3DT0.%sS' % f)
    for _ in range(n):
        r = rng.random()
        sg = rng.choice(['', '', '-'])
        if r < 0.35:
            y, m = rng.choice([0, 1, 11, 12, 100, rng.randint(0, 10 ** 6)]), rng.choice([0, 1, 11, 12, 13, 25, rng.randint(0, 10 ** 6)])
            t = rng.choice(['%dY%dM' % (y, m), '%dY' % y, '%dM' % m])
            out.append('%sP%s' % (sg, t))
        else:
            big = rng.random() < 0.15
            def c(limit):
                return rng.choice([0, 1, limit - 1, limit, limit + 1, rng.randint(0, 10 ** 15 if big else 200)])
            parts = ''
            if rng.random() < 0.6:
                parts += '%dD' % c(400)
            tp = ''
            if rng.random() < 0.6:
                tp += '%dH' % c(24)
            if rng.random() < 0.6:
                tp += '%dM' % c(60)
            if rng.random() < 0.6:
                tp += '%d%sS' % (c(60), rng.choice(['', '', '.' + rng.choice(FRACS[1:])]))
            if tp:
                parts += 'T' + tp
            out.append('%sP%s' % (sg, parts or '0D'))
    return out


def corruptions(rng, text, per_pos):
    out = []
    alphabet = '09:-+.TZPYMDHS@/ x'
    for i in range(len(text) + 1):
        if i < len(text):
            out.append(text[:i] + text[i + 1:])                       # deletion
            out.append(text[:i] + text[i] + text[i:])                 # duplication
        for ch in rng.sample(alphabet, per_pos):
            out.append(text[:i] + ch + text[i:])                      # insertion
            if i < len(text) and ch != text[i]:
                out.append(text[:i] + ch + text[i + 1:])              # replacement
    return out


def esc(t):
    return t.replace('\\', '\\\\').replace('"', '\\"')


def coq_str(t):
    return '"%s"' % t.replace('"', '""')


def run(ctx):
    ctx.proof_gate()
    ctx.build_harness()
    rng = ctx.rng
    ids = zone_ids()
    if len(ids) < 300:
        raise RuntimeError('could not read the zone list of chrono-tz from the harness build directory (%d ids)' % len(ids))
    H = header(ids)
    # the identifiers the implementation links (chrono-tz) against an independent copy of the IANA database (Python zoneinfo / system tzdata)
    try:
        import zoneinfo
        sysids = set(zoneinfo.available_timezones())
    except Exception:
        sysids = set()
    zone_cov = {'chrono_tz_ids': len(ids), 'system_tzdata_ids': len(sysids), 'in_both': len(sysids & set(ids)),
                'only_chrono_tz': sorted(set(ids) - sysids)[:20], 'only_system': sorted(sysids - set(ids))[:20]}
    if sysids and len(sysids & set(ids)) < 0.9 * len(ids):
        ctx.notes.append('less than 90%% of chrono-tz zone ids are known to the system tzdata: %s' % zone_cov)
    cases = []
    cases += [('date', t) for t in gen_dates(rng, ctx.pick(400, 6000))]
    cases += [('time', t) for t in gen_times(rng, ids, ctx.pick(600, 8000), None)]
    cases += [('dt', t) for t in gen_datetimes(rng, ids, ctx.pick(600, 8000))]
    cases += [('dur', t) for t in gen_durations(rng, ctx.pick(800, 10000))]
    n_valid_stream = len(cases)
    seeds = [('date', '2021-02-28'), ('date', '-0005-12-31'), ('date', '123456-01-01'), ('time', '10:20:30'), ('time', '10:20:30.123Z'), ('time', '10:20:30-00:30'), ('time', '23:59:59+14:59:59'),
             ('time', '10:20:30@Europe/Warsaw'), ('dt', '2021-02-28T10:20:30'), ('dt', '2021-02-28T10:20:30.5+01:00'), ('dt', '-0005-01-01T00:00:00Z'), ('dt', '2021-02-28T10:20:30@Etc/GMT+1'),
             ('dur', 'P1DT2H3M4.5S'), ('dur', '-P1Y2M'), ('dur', 'PT36H'), ('dur', 'P14M'), ('dur', '-PT0.000000001S')]
    for kind, t in seeds:
        cs = corruptions(rng, t, ctx.pick(3, 8))
        cases += [(kind, x) for x in cs]
    cases = [c for c in dict.fromkeys(cases) if all(32 <= ord(ch) < 127 for ch in c[1])] + [('time', '10:00:00@Europe/Zürich'), ('date', '２０２１-01-01')]
    # ---- implementation
    reqs = []
    for kind, t in cases:
        f = FUN[kind]
        reqs.append({'e': '{x: %s("%s"), s: string(x), y: %s(s), r: [x, s, y, @"%s"]}.r' % (f, esc(t), f, esc(t))})
    impl = ctx.run_impl('feel', reqs)
    # ---- model (ASCII cases only; the two non-ASCII texts cannot match any of the patterns)
    ascii_ix = [i for i, (k, t) in enumerate(cases) if all(32 <= ord(ch) < 127 for ch in t)]
    B = 100
    terms = []
    for k in range(0, len(ascii_ix), B):
        by_kind = {}
        terms.append('[%s]' % '; '.join('match %s %s with Some x => %s | None => None end' % (
            SHOW[cases[i][0]], coq_str(cases[i][1]), 'Some ("", x)' if cases[i][0] != 'dur' else 'Some x') for i in ascii_ix[k:k + B]))
    mres = [x for part in ctx.run_model(H, terms, shard_size=4, tag='L') for x in part]
    model = {i: r for i, r in zip(ascii_ix, mres)}
    kinds = {}
    for i, ((kind, t), rq, r) in enumerate(zip(cases, reqs, impl)):
        ctx.evaluations += 1
        want = py_show(kind, t, ids, bif=True)
        if kind != 'dur' and want is not None:
            want = (TAG[kind], want)
        if i in model:
            mo = cal.opt(model[i])
            mo = None if mo is None else ((TAG[kind] if kind != 'dur' else mo[0]), mo[1])
            if mo != want:
                raise RuntimeError('C14 model and the independent Python grammar disagree on %s %r: model %s, Python %s' % (kind, t, mo, want))
        v = cal.val(r)
        case = {'kind': kind, 'text': t, 'expr': rq['e']}
        key = (kind, 'valid' if want else 'invalid')
        kinds[key[0] + '/' + key[1]] = kinds.get(key[0] + '/' + key[1], 0) + 1
        ctx.corr_checked += 1
        if want is None or i >= n_valid_stream or any(ch in t for ch in '.@+') or t.startswith('-'):
            ctx.nontrivial.add((kind, t))
        if not isinstance(v, list) or len(v) != 4:
            if isinstance(r, dict) and 'panic' in r and kind == 'time' and '@' in t:
                continue    # time(..@zone) is validated against today's date in that zone: a local time that does not exist today panics (totality is C05's subject)
            if isinstance(r, dict) and r.get('err') == 'parse' and want is None:
                continue
            ctx.violation('%s("%s") did not evaluate to a value: %s' % (FUN[kind], t, json.dumps(r)[:200]), case, impl=r)
            continue
        x, s, y, at = v
        exp_at = at_expected(t, ids)
        if at != exp_at:
            ctx.violation('@"%s" evaluates to %s, expected %s' % (t, json.dumps(at), json.dumps(exp_at)), case, impl=at, model=exp_at)
            continue
        if want is None:
            if x is not None:
                ctx.violation('%s("%s") is not a valid literal but the implementation accepts it as %s' % (FUN[kind], t, json.dumps(x)), case, impl=x, model=None)
            continue
        exp = {want[0]: want[1]}
        if x != exp:
            ctx.violation('%s("%s") denotes %s and must print as that; the implementation gives %s' % (FUN[kind], t, want[1], json.dumps(x)), case, impl=x, model=exp)
            continue
        if s != want[1] or y != exp:
            ctx.violation('the text form of %s("%s") does not read back as an equal value: string() = %s, read back = %s' % (FUN[kind], t, json.dumps(s), json.dumps(y)), case, impl=[s, y], model=[want[1], exp])
            continue
        if kind == 'dur' and BARE_POINT.search(t):
            # XSD requires a digit after the decimal point; the repository's tests pin PT0.S as valid
            ctx.known('duration-bare-point', case)
        if len(ctx.samples) < 5 and i % 977 == 0:
            ctx.sample({'expr': rq['e'], 'impl': v})
    return ctx.finish(
        rule='literal texts of the five kinds: dates over a year grid (-999999999..999999999, 4..9 digits, leading zeros, negative) x month/day boundaries incl. 00, 30 February, 13, 32; '
             'times with EVERY whole-minute offset -14:59..+14:59 (1798 texts), second offsets, Z/z, out-of-range offsets, EVERY zone id of chrono-tz (%d ids) plus unknown/mis-cased ids, '
             'fraction digit strings of 1..12 digits chosen to be awkward for binary floating point; date-times combining these; durations (normalised and not, zero, negative, 0..12 fraction digits, '
             'components up to 2^64-1, wrong order, missing T); systematic single-character deletions/duplications/insertions/replacements of 17 valid literals; each through F("text"), string(), '
             'F(string()) and @"text"; non-trivial = invalid, corrupted, signed, fractional, zoned' % len(ids),
        extra_cov={'exhaustive': False, 'whole_minute_offsets': len(all_offsets()), 'zone_ids': len(ids), 'zone_ids_vs_independent_copy': zone_cov, 'cases_by_kind': kinds},
        assumptions=['zone database membership is taken from chrono-tz\'s generated table (the identifiers the implementation links)',
                     'a zero offset (+00:00, -00:00) denotes UTC and prints as Z (as the code does; named interpretive choice)',
                     'fraction digits after the ninth are dropped (pinned by the repository\'s tests)',
                     'duration components above 2^64-1 and totals beyond i64 months are outside "the representable maximum" (overflow there is C05\'s subject)'],
        trusted=['independent Python regular expressions for the literal grammars cross-check every model answer', 'chrono-tz zone table (membership only)'])


def replay(ctx, path):
    obj = json.load(open(path))
    ctx.build_harness()
    c = obj['case']
    r = ctx.run_impl('feel', [{'e': c['expr']}])[0]
    print('expression    :', c['expr'])
    print('implementation:', json.dumps(r))
    print('expected      :', json.dumps(obj.get('model')))
    print('what          :', obj.get('what'))
    ids = zone_ids()
    want = py_show(c['kind'], c['text'], ids)
    v = cal.val(r)
    ok = isinstance(v, list) and len(v) == 4 and ((want is None and v[0] is None) or (want is not None and list(v[0].values()) == [want[1] if c['kind'] == 'dur' else want] and v[1] == (want[1] if c['kind'] == 'dur' else want) and v[2] == v[0])) if isinstance(v, list) else False
    print('not reproduced (the implementation now satisfies the property at this input)' if ok else 'REPRODUCED')
    return 0 if ok else 1


MANIFEST = dict(
    technique='Coq proof (hand-written recognisers for the literal regular expressions, parse/print transliterations of the five temporal kinds; print-then-parse identity, normal form, rejection) with model/code correspondence',
    text='Theorems (coq/Props/C14.v, 19, closed under the global context; all for ALL values, no finite grids): parsing the printed text gives the value back for every date (any year -999999999..999999999), '
         'every time (any hour/minute/second, every nanosecond count 0..999999999: the nine digits with trailing zeros stripped read back as the same number; every offset -14:59:59..+14:59:59, Z, no zone, named zones of the database), '
         'every date and time (also through the built-in function), every days-and-time duration of either sign with days <= 2^64-1 (bound shown tight) and every years-and-months duration with years <= 2^64-1, '
         'also through duration() which tries years-and-months first; printed durations are in normal form; a parsed value has in-range components (fraction below one second). '
         'Tied to feel/src/temporal/*.rs through date()/time()/date and time()/duration()/@"..."/string() on every whole-minute offset, every chrono-tz zone id, year and fraction grids and single-character corruptions.',
    note='Trusted: Coq kernel + vm_compute, hand-written model (correspondence-checked, not verified), regex crate and chrono-tz membership (modelled), harness, Python driver. '
         'Known finding: a decimal point without digits is accepted in a duration (PT0.S), pinned by the repository\'s tests.')
