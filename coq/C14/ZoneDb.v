(* C14 — the zone database of the CURRENT build: coq/Gen/ZoneIds.v is regenerated on every run from the table of the pinned
   chrono-tz crate (translators/zoneids2coq.py).  Every identifier of it is non-empty and consists of characters of the
   zone pattern (the condition of fix 7889c30), decided by computation over the whole list; so the zone / time /
   date-and-time theorems, stated for any database under `zone_ok`, hold for the real database without a side condition. *)
From Coq Require Import ZArith Bool List String Ascii Lia.
From DV Require Import Base.Calendar C15.Model C14.Model C14.Proofs C14.Frac Gen.ZoneIds.
Import ListNotations.
Open Scope string_scope.
Open Scope Z_scope.

Definition tzdb (s : string) : bool := existsb (String.eqb s) chrono_tz_zone_ids.
Definition zone_id_ok (id : string) : bool := negb (String.eqb id "") && all_chars zone_char id.

Lemma zone_ids_sweep : forallb zone_id_ok chrono_tz_zone_ids = true.
Proof. vm_compute. reflexivity. Qed.

Lemma tzdb_in : forall id, tzdb id = true -> In id chrono_tz_zone_ids.
Proof.
  intros id H. unfold tzdb in H. apply existsb_exists in H. destruct H as [x [I E]].
  apply String.eqb_eq in E. subst x. exact I.
Qed.

Lemma tzdb_zone_ok : forall id, tzdb id = true -> zone_ok tzdb (ZNamed id).
Proof.
  intros id H. pose proof (proj1 (forallb_forall zone_id_ok chrono_tz_zone_ids) zone_ids_sweep id (tzdb_in id H)) as K.
  unfold zone_id_ok in K. apply andb_true_iff in K. destruct K as [N C].
  cbn [zone_ok]. repeat split; [exact H| |exact C].
  intros ->. discriminate.
Qed.

Theorem zone_db_ok :
  chrono_tz_zone_ids <> [] /\
  (forall id, tzdb id = true -> id <> "" /\ all_chars zone_char id = true) /\
  (forall id, tzdb id = true -> parse_zone tzdb (print_zone (ZNamed id)) = Some (ZNamed id)) /\
  (forall h mi s ns id, 0 <= h < 24 -> 0 <= mi < 60 -> 0 <= s < 60 -> 0 <= ns <= 999999999 -> tzdb id = true ->
     let t := {| t_h := h; t_mi := mi; t_s := s; t_ns := ns; t_zone := ZNamed id |} in
     parse_time tzdb (print_time t) = Some t /\
     forall y m d, feel_date y m d = true ->
       parse_datetime tzdb (print_datetime ((y, m, d), t)) = Some ((y, m, d), t) /\
       bif_date_and_time tzdb (print_datetime ((y, m, d), t)) = Some ((y, m, d), t)).
Proof.
  split; [|split; [|split]].
  - intros E. assert (L : List.length chrono_tz_zone_ids = O) by (rewrite E; reflexivity). vm_compute in L. discriminate.
  - intros id H. pose proof (tzdb_zone_ok id H) as K. cbn [zone_ok] in K. tauto.
  - intros id H. apply print_parse_zone. apply tzdb_zone_ok. exact H.
  - intros h mi s ns id Hh Hm Hs Hn H t. pose proof (tzdb_zone_ok id H) as K. split.
    + apply print_parse_time_all; cbn [t t_h t_mi t_s t_ns t_zone]; assumption.
    + intros y m d Hd. apply print_parse_datetime_all; cbn [t t_h t_mi t_s t_ns t_zone]; assumption.
Qed.

Example zone_db_nonvacuous :
  tzdb "Europe/Warsaw" = true /\ tzdb "Etc/GMT+1" = true /\ tzdb "America/Port-au-Prince" = true /\ tzdb "EST5EDT" = true /\
  tzdb "Nowhere/City" = false /\ tzdb "europe/warsaw" = false /\
  option_map print_time (parse_time tzdb "10:00:00.5@America/Port-au-Prince") = Some "10:00:00.5@America/Port-au-Prince" /\
  parse_time tzdb "10:00:00@Nowhere/City" = None.
Proof. vm_compute. repeat split; reflexivity. Qed.
