(* C06 — the lexer model with the binder policy (C06.LexBind) reads back what the printer writes, binders and function definitions
   included: per-token lemmas for the tokens that C06.LexerProofs leaves out (for / some / every, `function` in front of `(`, the
   variable of an iteration context while till_in is set) and the theorem lex_b_unlex[_layout] by induction on the token list.
   Owner: prover-C06-binders. *)
From Coq Require Import List NArith Bool Arith Lia.
From DV Require Import C06.Model C06.Lexer C06.LayoutProofs C06.LexerProofs C06.LexBind.
From DV Require C10.Model C10.Trim.
Import ListNotations.

(* ------------------------------------------------------------------ the two white space predicates are one *)

Lemma is_ws_nm : forall c, NM.is_ws c = is_ws c.
Proof. intros c. reflexivity. Qed.

(* ------------------------------------------------------------------ the part collector on `word  in` *)

Local Open Scope nat_scope.

Lemma run_word : forall s, s = NM.S1 \/ s = NM.S3 -> forall w2 x w1 rest fuel P C cur,
  forallb NM.is_name_part w2 = true -> stops_name rest = true ->
  NM.machine (S (length w2) + fuel) (x :: w1 ++ w2 ++ rest) s (length w1) {| NM.a_parts := P; NM.a_cps := C; NM.a_cur := cur |}
  = NM.machine fuel (x :: w1 ++ w2 ++ rest) NM.S2 (length w1 + length w2)
      {| NM.a_parts := (rev cur ++ w2) :: P; NM.a_cps := (length w1 + length w2) :: C; NM.a_cur := [] |}.
Proof.
  intros s Hs. induction w2 as [|c w2 IH]; intros x w1 rest fuel P C cur Hw Hr.
  - change ([] ++ rest) with rest. change (S (length (@nil N)) + fuel) with (S fuel). rewrite machine_S.
    assert (E : NM.step (x :: w1 ++ rest) s (length w1) {| NM.a_parts := P; NM.a_cps := C; NM.a_cur := cur |}
                = Some (NM.S2, length w1, {| NM.a_parts := rev cur :: P; NM.a_cps := length w1 :: C; NM.a_cur := [] |})).
    { unfold NM.step. rewrite next_is_at.
      replace (match rest with [] => false | d :: _ => NM.is_name_part d end) with false
        by (destruct rest; [reflexivity|cbn [stops_name] in Hr; apply negb_true_iff in Hr; symmetry; exact Hr]).
      destruct Hs as [-> | ->]; reflexivity. }
    rewrite E. rewrite app_nil_r. cbn [length]. rewrite Nat.add_0_r. reflexivity.
  - cbn [forallb] in Hw. apply andb_true_iff in Hw. destruct Hw as [Hc Hw].
    change ((c :: w2) ++ rest) with (c :: w2 ++ rest).
    change (S (length (c :: w2)) + fuel) with (S (S (length w2) + fuel)). rewrite machine_S.
    assert (E : NM.step (x :: w1 ++ c :: w2 ++ rest) s (length w1) {| NM.a_parts := P; NM.a_cps := C; NM.a_cur := cur |}
                = Some (s, S (length w1), {| NM.a_parts := P; NM.a_cps := C; NM.a_cur := c :: cur |})).
    { unfold NM.step. rewrite next_is_at. rewrite Hc. cbn [NM.a_parts NM.a_cps NM.a_cur]. rewrite (ch_at x w1 c (w2 ++ rest)).
      destruct Hs as [-> | ->]; reflexivity. }
    rewrite E.
    specialize (IH x (w1 ++ [c]) rest fuel P C (c :: cur) Hw Hr).
    rewrite app_length in IH. cbn [length] in IH. replace (length w1 + 1) with (S (length w1)) in IH by lia.
    rewrite <- !app_assoc in IH. change ([c] ++ w2 ++ rest) with (c :: w2 ++ rest) in IH.
    rewrite IH. cbn [rev length]. rewrite <- app_assoc. cbn [app].
    replace (S (length w1) + length w2) with (length w1 + S (length w2)) by lia. reflexivity.
Qed.

Definition stops_ws (rest : str) : bool := match rest with [] => true | d :: _ => negb (NM.is_ws d) end.

Lemma run_ws : forall g x l rest fuel a, forallb NM.is_ws g = true -> stops_ws rest = true ->
  NM.machine (S (length g) + fuel) (x :: l ++ g ++ rest) NM.S5 (length l) a
  = NM.machine fuel (x :: l ++ g ++ rest) NM.S2 (length l + length g) a.
Proof.
  induction g as [|c g IH]; intros x l rest fuel a Hg Hr.
  - change ([] ++ rest) with rest. change (S (length (@nil N)) + fuel) with (S fuel). rewrite machine_S. unfold NM.step. rewrite next_is_at.
    replace (match rest with [] => false | d :: _ => NM.is_ws d end) with false
      by (destruct rest; [reflexivity|cbn [stops_ws] in Hr; apply negb_true_iff in Hr; symmetry; exact Hr]).
    cbn [length]. rewrite Nat.add_0_r. reflexivity.
  - cbn [forallb] in Hg. apply andb_true_iff in Hg. destruct Hg as [Hc Hg].
    change ((c :: g) ++ rest) with (c :: g ++ rest).
    change (S (length (c :: g)) + fuel) with (S (S (length g) + fuel)). rewrite machine_S. unfold NM.step. rewrite next_is_at. rewrite Hc.
    specialize (IH x (l ++ [c]) rest fuel a Hg Hr).
    rewrite app_length in IH. cbn [length] in IH. replace (length l + 1) with (S (length l)) in IH by lia.
    rewrite <- !app_assoc in IH. change ([c] ++ g ++ rest) with (c :: g ++ rest) in IH.
    rewrite IH. cbn [length]. replace (S (length l) + length g) with (length l + S (length g)) by lia. reflexivity.
Qed.

(* white space that is no name character (every white space character, since the repair of is_name_start_char) *)
Definition pure_ws (c : N) : bool := NM.is_ws c && negb (NM.is_name_part c).

Lemma pure_ws_facts : forall c, pure_ws c = true -> NM.is_ws c = true /\ NM.is_name_part c = false /\ NM.is_add_sym c = false.
Proof.
  intros c H. unfold pure_ws in H. apply andb_true_iff in H. destruct H as [H1 H2]. apply negb_true_iff in H2.
  split; [exact H1|]. split; [exact H2|].
  pose proof (ws_values c H1) as R. unfold NM.is_add_sym. rewrite !eqb_false_of by lia. reflexivity.
Qed.

Lemma pure_ws_all : forall g, forallb pure_ws g = true -> forallb NM.is_ws g = true.
Proof.
  induction g as [|c g IH]; intros H; [reflexivity|]. cbn [forallb] in *. apply andb_true_iff in H. destruct H as [Hc Hg].
  destruct (pure_ws_facts c Hc) as [H1 _]. rewrite H1, (IH Hg). reflexivity.
Qed.

(* the word, white space, the word `in`, something that is no name character: the first two parts are the word and `in` *)
Lemma collect_bind : forall x w g0 g rest, forallb NM.is_name_part w = true -> forallb pure_ws (g0 :: g) = true -> stops_name rest = true ->
  exists ps cs e, NM.collect (x :: w ++ (g0 :: g) ++ 105%N :: 110%N :: rest) 0 =
    ((x :: w) :: [105%N; 110%N] :: ps, length w :: (length w + length (g0 :: g) + 2) :: cs, e).
Proof.
  intros x w g0 g rest Hw HG Hr. set (G := g0 :: g) in *. unfold NM.collect.
  change (NM.ch (x :: w ++ G ++ 105%N :: 110%N :: rest) 0) with x.
  set (inp := x :: w ++ G ++ 105%N :: 110%N :: rest).
  assert (Hfuel : exists fuel, 4 * S (length inp) = S (length w) + S (S (length G) + S (S 2 + fuel))).
  { exists (4 * S (length inp) - (S (length w) + S (S (length G) + S (S 2)))). unfold inp. cbn [length]. rewrite !app_length. cbn [length]. lia. }
  destruct Hfuel as [fuel Hfuel]. rewrite Hfuel. unfold inp. clear Hfuel inp.
  remember (S 2 + fuel) as f3 eqn:Ef3. remember (S (length G) + S f3) as f2 eqn:Ef2. remember (S f2) as f1 eqn:Ef1.
  (* the word *)
  pose proof (run_word NM.S1 (or_introl eq_refl) w x [] (G ++ 105%N :: 110%N :: rest) f1 [] [] [x] Hw) as R1.
  change (length (@nil N) + length w) with (length w) in R1. change (length (@nil N)) with 0 in R1. cbn [app rev] in R1. rewrite R1; clear R1.
  2:{ unfold G. cbn [app stops_name]. cbn [forallb] in HG. apply andb_true_iff in HG. destruct HG as [H0 _].
      destruct (pure_ws_facts g0 H0) as [_ [H2 _]]. rewrite H2. reflexivity. }
  (* state 2 sees white space *)
  subst f1. rewrite machine_S.
  assert (E2 : forall a, NM.step (x :: w ++ G ++ 105%N :: 110%N :: rest) NM.S2 (length w) a = Some (NM.S5, length w, a)).
  { intros a. unfold NM.step. rewrite !next_is_at. unfold G. cbn [app]. cbn [forallb] in HG. apply andb_true_iff in HG. destruct HG as [H0 _].
    destruct (pure_ws_facts g0 H0) as [H1 [H2 H3]]. rewrite H1, H2, H3. reflexivity. }
  rewrite E2; clear E2.
  (* the white space *)
  subst f2. rewrite (run_ws G x w (105%N :: 110%N :: rest)); [|apply pure_ws_all; exact HG|reflexivity].
  (* state 2 sees the word in *)
  rewrite machine_S.
  assert (E3 : forall a, NM.step (x :: w ++ G ++ 105%N :: 110%N :: rest) NM.S2 (length w + length G) a = Some (NM.S3, length w + length G, a)).
  { intros a. unfold NM.step. rewrite app_assoc. rewrite <- app_length. rewrite next_is_at. reflexivity. }
  rewrite E3; clear E3.
  subst f3.
  pose proof (run_word NM.S3 (or_intror eq_refl) [105%N; 110%N] x (w ++ G) rest fuel [x :: w] [length w] []) as R3.
  rewrite <- app_assoc in R3. rewrite app_length in R3. cbn [app rev] in R3. change (length [105%N; 110%N]) with 2 in R3.
  unfold NM.str in *. rewrite R3; [|reflexivity|exact Hr]. clear R3.
  destruct (NM.machine fuel (x :: w ++ G ++ 105%N :: 110%N :: rest) NM.S2 (length w + length G + 2)
              {| NM.a_parts := [[105%N; 110%N]; x :: w]; NM.a_cps := [length w + length G + 2; length w]; NM.a_cur := [] |}) as [[s p] a] eqn:E.
  destruct (machine_extends _ _ _ _ _ _ _ _ E) as [lp [lc [H1 [H2 H3]]]]. cbn [NM.a_parts NM.a_cps] in H1, H2.
  exists (rev lp), (rev lc), (S p). rewrite H1, H2, !rev_app_distr. cbn [rev app]. reflexivity.
Qed.

(* ------------------------------------------------------------------ the variable of an iteration context *)

Lemma not_kw_not_in : forall n, existsb (NM.str_eqb n) kw_words = false -> NM.str_eqb n NM.str_in = false.
Proof.
  intros n H. unfold kw_words in H. cbn [existsb] in H. rewrite !orb_false_iff in H. decompose [and] H. assumption.
Qed.

Lemma name_of_word : forall n, forallb plain_char n = true -> name_of [n] = n.
Proof.
  intros n H. unfold name_of, NM.name_new. cbn [map]. rewrite DV.C10.Trim.trim_id; [apply name_new_one|].
  apply Forall_forall. intros c Hc. rewrite forallb_forall in H. destruct (plain_facts c (H c Hc)) as [Hws Hnp].
  apply name_nws. exact Hnp.
Qed.

Lemma plain_name_parts : forall w, forallb plain_char w = true -> forallb NM.is_name_part w = true.
Proof.
  intros w H. rewrite forallb_forall in *. intros c Hc. destruct (plain_facts c (H c Hc)) as [_ Hnp]. exact Hnp.
Qed.

Local Open Scope N_scope.

Lemma scan_bind : forall keys fl n g rest, word_ok n = true -> f_tillin fl = true ->
  forallb pure_ws g = true -> stops_name rest = true ->
  scan keys fl (n ++ 32 :: g ++ 105 :: 110 :: rest) = RTok (LName n) (set_tillin false (clr_unary fl)) (32 :: g ++ 105 :: 110 :: rest).
Proof.
  intros keys fl n g rest Hword Htill Hg Hr.
  destruct n as [|x w]; [discriminate Hword|]. pose proof (word_ok_plain _ Hword) as Hplain.
  unfold word_ok in Hword. rewrite !andb_true_iff in Hword. destruct Hword as [[Hx _] Hkw]. apply negb_true_iff in Hkw.
  cbn [app]. rewrite scan_word by assumption.
  assert (Hw : forallb NM.is_name_part w = true).
  { apply plain_name_parts. cbn [forallb] in Hplain. apply andb_true_iff in Hplain. tauto. }
  assert (HG : forallb pure_ws (32 :: g) = true) by (cbn [forallb]; rewrite Hg; reflexivity).
  destruct (collect_bind x w 32 g rest Hw HG Hr) as [ps [cs [e Hc]]].
  unfold name_token. cbn [app] in Hc. rewrite Hc. cbv beta iota.
  destruct (NM.str_eqb (x :: w) NM.str_item) eqn:Hitem.
  { (* `item`: the branch in front of the till_in test gives the same token and clears the flag as well *)
    apply str_eqb_eq in Hitem. cbn [nth skipn]. rewrite skipn_exact. rewrite <- Hitem. reflexivity. }
  assert (Ht : f_tillin (clr_unary fl) = true) by (destruct fl; exact Htill). rewrite Ht.
  cbn [NM.index_of]. rewrite (not_kw_not_in _ Hkw). change (NM.str_eqb [105; 110] NM.str_in) with true. cbv iota.
  cbn [firstn nth]. pose proof (name_of_word _ Hplain) as En. unfold NM.str, str in *. rewrite En. cbn [skipn]. rewrite skipn_exact. reflexivity.
Qed.

(* ------------------------------------------------------------------ for, some, every, function *)

Lemma scan_hdr : forall keys fl k rest, k = KFor \/ k = KSome \/ k = KEvery ->
  scan keys fl (kw_text k ++ 32 :: rest) = RTok (LKw k) (clr_unary fl) (32 :: rest).
Proof. intros keys fl k rest [-> | [-> | ->]]; reflexivity. Qed.

Lemma next_char_in_ws : forall chars g d rest, forallb is_ws g = true -> existsb (N.eqb d) chars = true ->
  next_char_in chars (g ++ d :: rest) = true.
Proof.
  intros chars g d rest Hg Hd. induction g as [|c g IH]; cbn [app next_char_in].
  - rewrite Hd. reflexivity.
  - cbn [forallb] in Hg. apply andb_true_iff in Hg. destruct Hg as [Hc Hg]. rewrite Hc, (IH Hg). destruct (existsb (N.eqb c) chars); reflexivity.
Qed.

Lemma kw_scan_function : forall un r,
  kw_scan kwtable un (s_function ++ r) = if next_char_in [40; 60] r then Some (OKw KFunction, r) else kw_scan (skipn 3 kwtable) un (s_function ++ r).
Proof. intros un r. reflexivity. Qed.

Lemma scan_function : forall keys fl g rest, forallb is_ws g = true ->
  scan keys fl (s_function ++ 32 :: g ++ 40 :: rest) = RTok (LKw KFunction) (clr_unary fl) (32 :: g ++ 40 :: rest).
Proof.
  intros keys fl g rest Hg. unfold scan. change (s_function ++ 32 :: g ++ 40 :: rest) with (102 :: tl s_function ++ 32 :: g ++ 40 :: rest).
  cbv iota. change (102 :: tl s_function ++ 32 :: g ++ 40 :: rest) with (s_function ++ 32 :: g ++ 40 :: rest).
  rewrite kw_scan_function.
  change (32 :: g ++ 40 :: rest) with ((32 :: g) ++ 40 :: rest).
  rewrite (next_char_in_ws [40; 60] (32 :: g) 40 rest); [reflexivity| |reflexivity].
  cbn [forallb]. rewrite Hg. reflexivity.
Qed.

(* ------------------------------------------------------------------ every printable token of the extended notion *)

Inductive tcase (keys : list str) (fl : flags) (t : ltoken) (r : list ltoken) : Prop :=
| TcOld : f_tillin fl = false -> tok_ok keys fl t = true -> tcase keys fl t r
| TcHdr : f_tillin fl = false -> (exists k, t = LKw k /\ (k = KFor \/ k = KSome \/ k = KEvery)) -> tcase keys fl t r
| TcFun : f_tillin fl = false -> t = LKw KFunction -> (exists r', r = LSym SLp :: r') -> tcase keys fl t r
| TcBind : f_tillin fl = true -> (exists n r', t = LName n /\ word_ok n = true /\ r = LKw KIn :: r') -> tcase keys fl t r.

Lemma tok_ok_b_cases : forall keys fl t r, tok_ok_b keys fl t r = true -> tcase keys fl t r.
Proof.
  intros keys fl t r H. unfold tok_ok_b in H. destruct (f_tillin fl) eqn:Et.
  - destruct t as [k|s|b| |b a|s|n|n|n]; try discriminate H. rewrite !andb_true_iff in H. destruct H as [H1 H3].
    destruct r as [|t2 r']; [discriminate H3|]. destruct t2 as [k| | | | | | | |]; try discriminate H3. destruct k; try discriminate H3.
    apply TcBind; [exact Et|]. exists n, r'. auto.
  - destruct t as [k|s|b| |b a|s|n|n|n]; try (apply TcOld; [exact Et|exact H]).
    destruct k; try (apply TcOld; [exact Et|exact H]).
    + destruct r as [|t2 r']; [discriminate H|]. destruct t2 as [|s| | | | | | |]; try discriminate H. destruct s; try discriminate H.
      apply TcFun; [exact Et|reflexivity|]. exists r'. reflexivity.
    + apply TcHdr; [exact Et|]. eexists; split; [reflexivity|]. right. right. reflexivity.
    + apply TcHdr; [exact Et|]. eexists; split; [reflexivity|]. right. left. reflexivity.
    + apply TcHdr; [exact Et|]. eexists; split; [reflexivity|]. left. reflexivity.
Qed.

Lemma after_b_old : forall fl t, f_tillin fl = false -> after_b fl t = after_tok fl t.
Proof. intros fl t H. unfold after_b, after_tok. rewrite H. destruct t as [k| | | | | | | |]; try reflexivity. Qed.

Lemma word_text_start : forall n rest, word_ok n = true -> token_start (n ++ rest) = true.
Proof.
  intros n rest H. destruct (word_start n H) as [x [w [-> [H1 H2]]]]. cbn [app]. apply token_start_first; assumption.
Qed.

Lemma tok_start_b : forall keys fl t r rest, keys_ok keys = true -> tok_ok_b keys fl t r = true -> token_start (tok_text t ++ 32 :: rest) = true.
Proof.
  intros keys fl t r rest Hkeys H. destruct (tok_ok_b_cases _ _ _ _ H) as [_ Ho|_ [k [-> Hk]]|_ -> _|_ [n [r' [-> [Hw _]]]]].
  - eapply tok_start; eauto.
  - destruct Hk as [-> | [-> | ->]]; reflexivity.
  - reflexivity.
  - cbn [tok_text]. apply word_text_start. exact Hw.
Qed.

(* a gap of white space pieces is a run of white space characters that are no name characters *)
Lemma ws_gap_chars : forall g, forallb ws_piece g = true -> forallb pure_ws (render_layout g) = true /\ forallb is_ws (render_layout g) = true.
Proof.
  induction g as [|p g IH]; intros H; [split; reflexivity|]. cbn [forallb] in H. apply andb_true_iff in H. destruct H as [Hp Hg].
  destruct (IH Hg) as [I1 I2]. destruct p as [c|b|b]; try discriminate Hp. cbn [ws_piece] in Hp.
  unfold render_layout. cbn [flat_map render_piece app forallb]. fold (render_layout g). rewrite I1, I2.
  unfold pure_ws. rewrite is_ws_nm, Hp. apply andb_true_iff in Hp. destruct Hp as [Hp _]. rewrite Hp. split; reflexivity.
Qed.

(* ------------------------------------------------------------------ the theorem *)

Local Open Scope nat_scope.

Lemma lex_go_b_lay : forall keys, keys_ok keys = true -> forall ts gaps ps st fl fuel,
  printable_b keys st fl ts = true -> gaps_ok_b st fl ts gaps = true ->
  forallb piece_ok ps = true -> forallb gap_ok gaps = true -> length ts < fuel ->
  lex_go_b fuel keys st fl (render_layout ps ++ unlex_lay gaps ts) = Some ts.
Proof.
  intros keys Hkeys. induction ts as [|t r IH]; intros gaps ps st fl fuel Hp Hgb Hps Hg Hf.
  - destruct fuel as [|f]; [inversion Hf|]. cbn [unlex_lay lex_go_b]. rewrite next_token_lay by (exact Hps || reflexivity). reflexivity.
  - destruct fuel as [|f]; [inversion Hf|]. cbn [length] in Hf.
    cbn [printable_b] in Hp. apply andb_true_iff in Hp. destruct Hp as [Ht Hr].
    cbn [gaps_ok_b] in Hgb. apply andb_true_iff in Hgb. destruct Hgb as [Htight Hgb].
    cbn [unlex_lay lex_go_b].
    rewrite next_token_lay by (exact Hps || (eapply tok_start_b; eauto)).
    assert (Hgs : gap_ok (hd [] gaps) = true /\ forallb gap_ok (tl gaps) = true).
    { destruct gaps as [|g gaps]; [split; reflexivity|]. cbn [forallb] in Hg. apply andb_true_iff in Hg. exact Hg. }
    destruct Hgs as [Hg1 Hg2]. unfold gap_ok in Hg1.
    assert (Hscan : scan keys fl (tok_text t ++ 32%N :: render_layout (hd [] gaps) ++ unlex_lay (tl gaps) r)
                    = RTok t (after_b fl t) (32%N :: render_layout (hd [] gaps) ++ unlex_lay (tl gaps) r)).
    { destruct (tok_ok_b_cases _ _ _ _ Ht) as [Htill Ho|Htill [k [-> Hk]]|Htill -> [r' ->]|Htill [n [r' [-> [Hw ->]]]]].
      - rewrite (after_b_old fl t Htill). apply scan_tok; assumption.
      - rewrite (after_b_old _ _ Htill). cbn [tok_text]. rewrite scan_hdr by exact Hk. destruct Hk as [-> | [-> | ->]]; reflexivity.
      - rewrite (after_b_old _ _ Htill). cbn [tight_after] in Htight. destruct (ws_gap_chars _ Htight) as [_ Hws].
        cbn [unlex_lay tok_text sym_text]. cbn [tok_text kw_text].
        change ([40%N] ++ 32%N :: render_layout (hd [] (tl gaps)) ++ unlex_lay (tl (tl gaps)) r')
          with (40%N :: 32%N :: render_layout (hd [] (tl gaps)) ++ unlex_lay (tl (tl gaps)) r').
        rewrite scan_function by exact Hws. reflexivity.
      - cbn [tight_after] in Htight. rewrite Htill in Htight. destruct (ws_gap_chars _ Htight) as [Hpw _].
        cbn [unlex_lay tok_text kw_text]. unfold after_b. rewrite Htill.
        change (s_in ++ 32%N :: render_layout (hd [] (tl gaps)) ++ unlex_lay (tl (tl gaps)) r')
          with (105%N :: 110%N :: 32%N :: render_layout (hd [] (tl gaps)) ++ unlex_lay (tl (tl gaps)) r').
        apply scan_bind; try assumption. reflexivity. }
    rewrite Hscan.
    change (32%N :: render_layout (hd [] gaps) ++ unlex_lay (tl gaps) r) with (render_layout (PWs 32 :: hd [] gaps) ++ unlex_lay (tl gaps) r).
    rewrite (IH (tl gaps) (PWs 32 :: hd [] gaps) (lstep st t) (policy_b (lstep st t) t (after_b fl t)) f); try assumption; try lia; reflexivity.
Qed.

Theorem lex_b_unlex_layout : forall keys ts lead gaps, keys_ok keys = true ->
  printable_b keys tstate0 flags0 ts = true -> gaps_ok_b tstate0 flags0 ts gaps = true ->
  forallb piece_ok lead = true -> forallb gap_ok gaps = true ->
  lex_b keys (render_layout lead ++ unlex_lay gaps ts) = Some ts.
Proof.
  intros keys ts lead gaps Hkeys Hp Hgb Hl Hg. unfold lex_b.
  apply (lex_go_b_lay keys Hkeys ts gaps lead tstate0 flags0); try assumption.
  rewrite app_length. pose proof (unlex_lay_length ts gaps). lia.
Qed.

Lemma gaps_ok_b_nil : forall ts st fl, gaps_ok_b st fl ts [] = true.
Proof.
  induction ts as [|t r IH]; intros st fl; [reflexivity|]. cbn [gaps_ok_b hd tl forallb]. rewrite IH. destruct (tight_after fl t); reflexivity.
Qed.

Theorem lex_b_unlex : forall keys ts, keys_ok keys = true -> printable_b keys tstate0 flags0 ts = true -> lex_b keys (unlex ts) = Some ts.
Proof.
  intros keys ts Hkeys Hp. rewrite <- unlex_lay_nil. change (unlex_lay [] ts) with (render_layout [] ++ unlex_lay [] ts).
  apply lex_b_unlex_layout; try assumption; try reflexivity. apply gaps_ok_b_nil.
Qed.
