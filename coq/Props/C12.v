(* C12 — loading any model text yields a usable model or an error: property theorems only.  Proofs: C12/Proofs.v.
   PARTIAL: the model (C12/Model.v) is the shape of a Definitions value — decision tables (clauses, entries, hit policy, which rules match)
   with every vector index of decision_table.rs as a bounds test, and the requirement / type-reference graph — with the outcomes
   Ok | Err | Panic site | Diverge.  The XML parser (roxmltree), the
   real stack size, FEEL parsing of the texts inside the model and the evaluation of expressions are not in it; they are covered by
   the fault-injection run of props/c12.py.  `rank` = any numbering of the nodes that decreases along every requirement between
   nodes (it exists iff the graph is acyclic: C12_ranked_no_cycle / C12_acyclic_has_numbering); `fuel` = number of stack frames available.
   The cycle search is proved exact for every graph (C12/DfsProofs.v); `deps d` is the graph check_cyclic_dependencies collects. *)
From Coq Require Import List Arith Bool PeanoNat.
From DV Require Import C12.Model C12.Proofs C12.DfsProofs C12.Relation.
Import ListNotations.

(* ---- decision tables (C12/Model.v transliterates parse_decision_table and the evaluation closure of builders/decision_table.rs over an abstract
        table: hit policy, number of input clauses, per output clause name / output values / default entry, per rule the number of input entries
        and the output entry values; which rules match is an argument).  Every vector index of the Rust code (rule.input_entries[i],
        rule.output_entries[i], component_names[i], default_output_values[0], matching_rules[0], output_entry_values[0]) is a bounds test with its
        own Panic / EvalPanic arm in the model; the theorems say those arms are unreachable in the current code, and reachable in the code before
        the repairs (..._orig = pinned commit f2b7a1b, ..._orig2 = after 012211c and before d6b0858). *)
(* building never panics: the two entry loops index below the counts compared just before *)
Theorem C12_table_build_total : forall t, table_build t = Ok \/ table_build t = Err.
Proof. exact table_build_total. Qed.
Theorem C12_table_build_ok_iff : forall t, table_build t = Ok <-> Forall (fun r => in_entries r = in_clauses t /\ out_entries r = out_clauses t) (rules t).
Proof. exact table_build_ok_iff. Qed.
(* evaluation never panics: for every table (built or not; a table that does not build is never evaluated), every hit policy, every pattern of
   matching rules.  No hypothesis `table_build t = Ok` is needed because each index of the current code is guarded where it stands. *)
Theorem C12_table_eval_total : forall t matches site, table_eval t matches <> EvalPanic site.
Proof. exact table_eval_total. Qed.
Theorem C12_table_eval_value : forall t matches, exists v, table_eval t matches = Got v.
Proof. exact table_eval_got. Qed.
(* the code between 012211c and d6b0858 panicked EXACTLY on: COLLECT with SUM / MIN / MAX, at most one named output clause,
   some matching rule without output entry (a table that builds has such a rule iff it has no output clause and a rule matches) *)
Theorem C12_table_eval_orig2_panic_iff : forall t matches,
  (exists site, table_eval_orig2 t matches = EvalPanic site) <->
  is_aggregate (policy t) = true /\ names t <= 1 /\ Exists (fun r => outv r = []) (matching_rules (rules t) matches).
Proof. exact table_eval_orig2_panic_iff. Qed.
Theorem C12_table_build_orig_refuted :
  table_build_orig t_short_rule = Panic site_input_entry /\ table_build t_short_rule = Err /\
  table_build_orig t_short_rule_out = Panic site_output_entry /\ table_build t_short_rule_out = Err.
Proof. exact table_build_orig_refuted. Qed.
(* tables that BUILD and whose evaluation panicked: pinned commit (hit policy FIRST, no output clause); after 012211c still COLLECT SUM / MIN / MAX *)
Theorem C12_table_eval_orig_refuted :
  table_build t_no_output = Ok /\ table_eval_orig t_no_output [true] = EvalPanic site_output_value0 /\ table_eval t_no_output [true] = Got (One RNull) /\
  (forall a, table_build (t_no_output_agg a) = Ok) /\
  table_eval_orig2 (t_no_output_agg ASum) [true] = EvalPanic site_aggregate_value0 /\
  table_eval_orig2 (t_no_output_agg AMin) [true] = EvalPanic site_aggregate_value0 /\
  table_eval_orig2 (t_no_output_agg AMax) [true] = EvalPanic site_aggregate_value0 /\
  (forall a, table_eval (t_no_output_agg a) [false] = Got (One RNull)) /\
  table_eval (t_no_output_agg ASum) [true] = Got (One RNull) /\ table_eval (t_no_output_agg AMin) [true] = Got (One RNull) /\
  table_eval (t_no_output_agg AMax) [true] = Got (One RNull).
Proof. exact table_eval_orig_refuted. Qed.
Example C12_table_examples :
  (forall p, table_build (t_sample p) = Ok) /\
  table_eval (t_sample Priority) [true; false; true] = Got (One (RCtx [Some 3; Some 7])) /\
  table_eval (t_sample OutputOrder) [true; true; true] = Got (Many [RCtx [Some 3; Some 7]; RCtx [Some 2; Some 6]; RCtx [Some 1; Some 5]]) /\
  table_eval (t_sample RuleOrder) [true; true; false] = Got (Many [RCtx [Some 1; Some 5]; RCtx [Some 2; Some 6]]) /\
  table_eval (t_sample Unique) [true; true; false] = Got (One RNull) /\
  table_eval (t_sample Unique) [false; false; false] = Got (One (RCtx [None; Some 4])) /\
  table_eval (t_sample (Collect ACount)) [true; true; false] = Got (One (RNum 2)) /\
  table_eval (t_sample (Collect ASum)) [true; true; true] = Got (One RNull) /\
  table_eval (mk_table (Collect ASum) 1 [o_plain] [mk_rule 1 [4]; mk_rule 1 [5]]) [true; true] = Got (One (RNum 9)) /\
  table_eval (mk_table (Collect AMin) 1 [o_plain] [mk_rule 1 [4]; mk_rule 1 [5]]) [true; true] = Got (One (RNum 4)) /\
  table_eval (mk_table Any 1 [o_plain] [mk_rule 1 [4]; mk_rule 1 [5]]) [true; true] = Got (One RNull) /\
  table_eval (mk_table Any 1 [o_plain] [mk_rule 1 [4]; mk_rule 1 [4]]) [true; true] = Got (One (RNum 4)).
Proof. exact table_examples. Qed.

(* ---- the whole build / evaluation: a model or an error, never a crash, for EVERY model (no numbering given: a model that passes the
        check has one, see C12_passed_check_numbering), with a stack of more frames than the graph has rows; depth bound = rank + 1 frames *)
Theorem C12_total : forall fuel d, length (deps d) < fuel ->
  (build fuel d = Ok \/ build fuel d = Err) /\
  ((exists n, on_cycle (deps d) n) -> build fuel d = Err) /\
  ((forall n, ~ on_cycle (deps d) n) -> build fuel d = first_not_ok (map table_build (tables d))).
Proof. exact total. Qed.
(* a model with a cycle is rejected before any recursion: for every fuel, 0 included *)
Theorem C12_cyclic_rejected : forall d, (exists n, on_cycle (deps d) n) -> forall fuel, build fuel d = Err.
Proof. exact cyclic_rejected. Qed.
(* `evaluate` = the recursion over the requirements of the invocable (depth) and the evaluation of every table of the model under the match
   patterns ms (one per table; they depend on the input context): no panic, no unbounded recursion.  FEEL values are not in this model. *)
Theorem C12_built_model_evaluates : forall fuel d ms n, length (deps d) < fuel -> build fuel d = Ok -> evaluate fuel d ms n = Ok.
Proof. exact built_evaluates. Qed.
Theorem C12_evaluate_total : forall fuel d (rank : nat -> nat) ms n,
  (forall n ts m, targets (deps d) n = Some ts -> In m ts -> targets (deps d) m <> None -> rank m < rank n) ->
  rank n < fuel -> evaluate fuel d ms n = Ok.
Proof. exact evaluate_total. Qed.
Theorem C12_depth_bound : forall g (rank : nat -> nat),
  (forall n ts m, targets g n = Some ts -> In m ts -> targets g m <> None -> rank m < rank n) ->
  forall fuel n, rank n < fuel -> follow fuel g n = Ok.
Proof. exact ranked_follow_ok. Qed.
Theorem C12_ranked_no_cycle : forall g (rank : nat -> nat),
  (forall n ts m, targets g n = Some ts -> In m ts -> targets g m <> None -> rank m < rank n) -> forall n, ~ on_cycle g n.
Proof. exact ranked_no_cycle. Qed.

(* ---- cycles: the recursion of the builders / evaluators cannot end on ANY cyclic graph, for any stack size — so the pinned code
        (no check) aborts on every cyclic model; the check added in front of it is exact on all graphs (C12_cycle_check_exact) *)
Theorem C12_cycle_diverges_without_check : forall g n, on_cycle g n -> forall fuel, follow fuel g n = Diverge.
Proof. exact cycle_diverges. Qed.
Theorem C12_build_orig_cycle_diverges : forall fuel d n, on_cycle (deps d) n -> Forall (fun t => table_build_orig t = Ok) (tables d) ->
  build_orig fuel d = Diverge.
Proof. exact build_orig_cycle_diverges. Qed.
(* the search is EXACT on every graph (any size, any order of rows, duplicate rows or targets, self references, dangling targets):
   it ends within its fuel, answers Cycle iff some node is on a cycle, and otherwise returns colours *)
Theorem C12_cycle_check_exact : forall g,
  has_cycle g <> DfsFuel /\
  (has_cycle g = Cycle <-> exists n, on_cycle g n) /\
  ((exists c, has_cycle g = NoCycle c) <-> forall n, ~ on_cycle g n).
Proof. exact cycle_check_exact. Qed.
(* the colours of a passed check give a topological numbering (finishing order), at most the number of rows *)
Theorem C12_passed_check_numbering : forall g c, has_cycle g = NoCycle c ->
  (forall n ts m, targets g n = Some ts -> In m ts -> targets g m <> None -> finish_rank c m < finish_rank c n) /\
  (forall n, finish_rank c n <= length g).
Proof. exact passed_numbering. Qed.
Theorem C12_acyclic_has_numbering : forall g, (forall n, ~ on_cycle g n) ->
  exists rank : nat -> nat, (forall n ts m, targets g n = Some ts -> In m ts -> targets g m <> None -> rank m < rank n) /\ (forall n, rank n <= length g).
Proof. exact passed_check_topological. Qed.
(* kept as an independent cross-check against a second notion of cycle (boolean closure), finite sweep over 4164 graphs *)
Theorem C12_cycle_detected_upto_3 : forall g, In g (graphs_upto 1 ++ graphs_upto 2 ++ graphs_upto 3) ->
  has_cycle g <> DfsFuel /\ (has_cycle g = Cycle <-> cyclic_ref g = true).
Proof. exact dfs_correct_upto_3. Qed.

Example C12_dfs_nonvacuous :
  has_cycle g_ring3_tail = Cycle /\ on_cycle g_ring3_tail 0 /\ build 0 (mk_defs [] g_ring3_tail) = Err /\
  has_cycle g_diamond = NoCycle diamond_colours /\
  map (finish_rank diamond_colours) [0; 1; 2; 3; 5] = [4; 2; 3; 1; 0] /\
  build 5 (mk_defs [mk_table First 1 [o_plain] [mk_rule 1 [1]]] g_diamond) = Ok /\
  has_cycle [(4, [4])] = Cycle /\ has_cycle [(0, [1]); (1, []); (0, [0])] = NoCycle [(0, true); (1, true); (1, false); (0, false)].
Proof. exact examples. Qed.
Example C12_nonvacuous :
  build 10 (mk_defs [mk_table (Collect ASum) 2 [o_plain] [mk_rule 2 [1]; mk_rule 2 [2]]] [(0, [1; 2]); (1, [2]); (2, [7])]) = Ok /\
  evaluate 10 (mk_defs [mk_table (Collect ASum) 2 [o_plain] [mk_rule 2 [1]; mk_rule 2 [2]]] [(0, [1; 2]); (1, [2]); (2, [7])]) [[true; true]] 0 = Ok /\
  table_eval (mk_table (Collect ASum) 2 [o_plain] [mk_rule 2 [1]; mk_rule 2 [2]]) [true; true] = Got (One (RNum 3)) /\
  length (graphs_upto 1 ++ graphs_upto 2 ++ graphs_upto 3) = 4164 /\
  cyclic_ref [(0, [1]); (1, [2]); (2, [0])] = true /\ has_cycle [(0, [1]); (1, [2]); (2, [0])] = Cycle.
Proof. repeat split; vm_compute; reflexivity. Qed.

(* ---- the confirmed defects of the pinned commit (short rule, no output clause, cyclic requirements) and the one left by 012211c (aggregators) *)
Theorem C12_table_build_orig_crash_iff : forall t,
  (exists s, table_build_orig t = Panic s) <-> Exists (fun r => in_entries r < in_clauses t \/ out_entries r < out_clauses t) (rules t).
Proof. exact table_build_orig_crash_iff. Qed.
Theorem C12_orig_refuted_short_rule : build_orig 100 (mk_defs [t_short_rule] []) = Panic site_input_entry /\ build 100 (mk_defs [t_short_rule] []) = Err.
Proof. exact orig_refuted_short_rule. Qed.
Theorem C12_orig_refuted_no_output : build_orig 100 (mk_defs [t_no_output] [(0, [])]) = Ok /\ evaluate_orig 100 (mk_defs [t_no_output] [(0, [])]) [[true]] 0 = Panic site_output_value0
  /\ evaluate 100 (mk_defs [t_no_output] [(0, [])]) [[true]] 0 = Ok.
Proof. exact orig_refuted_no_output. Qed.
(* C12_built_model_evaluates was FALSE of the code before d6b0858: the model builds, its evaluation panics *)
Theorem C12_orig2_refuted_no_output_aggregate :
  build 100 (mk_defs [t_no_output_agg ASum] [(0, [])]) = Ok /\
  evaluate_orig2 100 (mk_defs [t_no_output_agg ASum] [(0, [])]) [[true]] 0 = Panic site_aggregate_value0 /\
  evaluate 100 (mk_defs [t_no_output_agg ASum] [(0, [])]) [[true]] 0 = Ok.
Proof. exact orig2_refuted_no_output_aggregate. Qed.
Theorem C12_orig_refuted_cycle : on_cycle g_two_cycle 0 /\ (forall fuel, build_orig fuel (mk_defs [] g_two_cycle) = Diverge) /\ (forall fuel ms, evaluate_orig fuel (mk_defs [] g_two_cycle) ms 0 = Diverge)
  /\ (forall fuel, build fuel (mk_defs [] g_two_cycle) = Err).
Proof. exact orig_refuted_cycle. Qed.
(* ---- item definitions are trees: the collection of type references reaches a reference at ANY nesting depth (and nothing else), so such a
        reference is an edge of the graph the cycle search runs on; a self reference through a chain of components of any depth is a cycle of it;
        a flat collection (definition + direct components) is refuted; the search finds the cycle for chains of EVERY depth (and, as a run, for depth 0..6) *)
Theorem C12_collect_refs_complete : forall t x, occurs x t <-> In x (collect_refs t).
Proof. exact collect_refs_complete. Qed.
Theorem C12_nested_reference_is_edge : forall t rest x, occurs x t ->
  exists ts, targets (item_graph (t :: rest)) (item_name t) = Some ts /\ In x ts.
Proof. exact nested_reference_is_edge. Qed.
Theorem C12_nested_self_reference_cycle : forall d n cs rest, on_cycle (item_graph (ItemDef n None (nested d n :: cs) :: rest)) n.
Proof. exact nested_self_reference_cycle. Qed.
Theorem C12_flat_refs_refuted : exists t x, occurs x t /\ ~ In x (flat_refs t) /\ In x (collect_refs t).
Proof. exact flat_refs_refuted. Qed.
Theorem C12_nested_cycle_found : forall d n cs rest, has_cycle (item_graph (ItemDef n None (nested d n :: cs) :: rest)) = Cycle.
Proof. exact nested_cycle_found. Qed.
Theorem C12_nested_cycle_found_upto_6 :
  forallb (fun d => match has_cycle (item_graph [ItemDef 5 None [nested d 5]]) with Cycle => true | _ => false end) (seq 0 7) = true.
Proof. exact nested_cycle_found_upto_6. Qed.

(* ---- boxed relations (C12/Relation.v): <column> and <row> children in any document order, rows of any width.  Loading never panics, a relation
   is accepted exactly when every row is as wide as the relation has columns, and where the columns stand among the rows is irrelevant.  The
   two-site change of the ninth round of seeded changes (rows compared with the columns read so far + elements indexed per column) is kept as a
   variant: either site alone cannot panic, both together do. *)
Theorem C12_relation_total : forall doc, load doc = Ok \/ load doc = Err.
Proof. exact load_total. Qed.
Theorem C12_relation_ok_iff : forall doc, load doc = Ok <-> (forall w, In w (row_widths doc) -> w = n_cols doc).
Proof. exact load_ok_iff. Qed.
Theorem C12_relation_order_irrelevant : forall doc, load (cols_first doc) = load doc.
Proof. exact load_order_irrelevant. Qed.
Theorem C12_relation_single_site_safe : forall doc,
  (load_with parse build_indexed doc = Ok \/ load_with parse build_indexed doc = Err) /\
  (load_with parse_seq build_get doc = Ok \/ load_with parse_seq build_get doc = Err).
Proof. intro doc. split; [apply indexed_after_parse_safe | apply get_after_parse_seq_safe]. Qed.
Theorem C12_relation_two_sites_refuted :
  load_with parse_seq build_indexed [CCol; CRow 1; CCol] = Panic site_row_element /\ load [CCol; CRow 1; CCol] = Err /\
  load [CCol; CCol; CRow 2] = Ok /\ load [CRow 2; CCol; CCol] = Ok /\ load [CCol; CRow 2; CCol] = Ok.
Proof. exact seeded_pair_panics. Qed.

Print Assumptions C12_table_build_total.
Print Assumptions C12_table_build_ok_iff.
Print Assumptions C12_table_eval_total.
Print Assumptions C12_table_eval_value.
Print Assumptions C12_table_eval_orig2_panic_iff.
Print Assumptions C12_table_build_orig_refuted.
Print Assumptions C12_table_eval_orig_refuted.
Print Assumptions C12_table_examples.
Print Assumptions C12_orig2_refuted_no_output_aggregate.
Print Assumptions C12_total.
Print Assumptions C12_cyclic_rejected.
Print Assumptions C12_built_model_evaluates.
Print Assumptions C12_evaluate_total.
Print Assumptions C12_depth_bound.
Print Assumptions C12_ranked_no_cycle.
Print Assumptions C12_cycle_diverges_without_check.
Print Assumptions C12_build_orig_cycle_diverges.
Print Assumptions C12_cycle_check_exact.
Print Assumptions C12_passed_check_numbering.
Print Assumptions C12_acyclic_has_numbering.
Print Assumptions C12_cycle_detected_upto_3.
Print Assumptions C12_dfs_nonvacuous.
Print Assumptions C12_nonvacuous.
Print Assumptions C12_table_build_orig_crash_iff.
Print Assumptions C12_orig_refuted_short_rule.
Print Assumptions C12_orig_refuted_no_output.
Print Assumptions C12_orig_refuted_cycle.
Print Assumptions C12_collect_refs_complete.
Print Assumptions C12_nested_reference_is_edge.
Print Assumptions C12_nested_self_reference_cycle.
Print Assumptions C12_flat_refs_refuted.
Print Assumptions C12_nested_cycle_found.
Print Assumptions C12_nested_cycle_found_upto_6.
Print Assumptions C12_relation_total.
Print Assumptions C12_relation_ok_iff.
Print Assumptions C12_relation_order_irrelevant.
Print Assumptions C12_relation_single_site_safe.
Print Assumptions C12_relation_two_sites_refuted.
