"""Fault injection for C12 (owner: builder-total): single structural faults at every position of a DMN model text.
Works on a light-weight node list obtained from xml.etree (namespaces re-registered so the text keeps its prefixes)."""
import copy
import glob
import io
import os
import re
import xml.etree.ElementTree as ET


def example_files(repo):
    return sorted(glob.glob(os.path.join(repo, 'examples', 'src', '**', '*.dmn'), recursive=True))


def parse(text):
    """-> (root, [(prefix, uri)]) or None when python cannot parse the text (such files are only byte-corrupted)"""
    try:
        ns = []
        for ev, x in ET.iterparse(io.BytesIO(text.encode('utf-8')), events=('start-ns',)):
            ns.append(x)
        root = ET.fromstring(text.encode('utf-8'))
        return root, ns
    except Exception:
        return None


def serialize(root, ns):
    for p, u in ns:
        try:
            ET.register_namespace(p, u)
        except ValueError:
            pass
    return '<?xml version="1.0" encoding="UTF-8"?>\n' + ET.tostring(root, encoding='unicode')


def local(tag):
    return tag.split('}')[-1] if isinstance(tag, str) else ''


def walk(root):
    """[(parent, index, element)] in document order, the root has parent None"""
    out = [(None, 0, root)]
    stack = [root]
    while stack:
        e = stack.pop()
        kids = list(e)
        for i, k in enumerate(kids):
            out.append((e, i, k))
        stack.extend(reversed(kids))
    return out


def positions(root):
    """all fault sites: ('elem', n) element number n; ('attr', n, name); ('text', n); ('href', n)"""
    sites = []
    for n, (p, i, e) in enumerate(walk(root)):
        if p is not None:
            sites.append(('elem', n))
        for a in e.attrib:
            sites.append(('attr', n, a))
            if local(a) == 'href':
                sites.append(('href', n, a))
        if e.text and e.text.strip():
            sites.append(('text', n))
    return sites


ELEM_FAULTS = ['delete', 'duplicate', 'empty', 'swap']
ATTR_FAULTS = ['delete', 'empty', 'junk']
TEXT_FAULTS = ['delete', 'junk', 'unbalanced', 'typeref-ancestor', 'typeref-self']
HREF_FAULTS = ['missing', 'self', 'ancestor', 'nohash', 'bad-scheme', 'colon-first', 'double-hash', 'blank-inside', 'percent']


def faults_of(site):
    return {'elem': ELEM_FAULTS, 'attr': ATTR_FAULTS, 'text': TEXT_FAULTS, 'href': HREF_FAULTS}[site[0]]


def drg_ancestor_id(root, target):
    """id of the closest enclosing element that has an id (decision, bkm, ...), and the id of the outermost such below the root"""
    path = []

    def rec(e, acc):
        acc = acc + [e]
        if e is target:
            path.extend(acc)
            return True
        return any(rec(k, acc) for k in e)
    rec(root, [])
    ids = [e.attrib.get('id') for e in path if e.attrib.get('id') and e is not root]
    return (ids[-1] if ids else None), (ids[0] if ids else None)


def enclosing_type_names(root, target):
    """names of the itemDefinition / itemComponent elements that enclose `target`, outermost first"""
    path = []

    def rec(e, acc):
        acc = acc + [e]
        if e is target:
            path.extend(acc)
            return True
        return any(rec(k, acc) for k in e)
    rec(root, [])
    return [e.attrib['name'] for e in path if local(e.tag) in ('itemDefinition',) and e.attrib.get('name')]


def apply_fault(root, site, fault):
    """returns a mutated deep copy of the tree (or None when the fault does not apply at this site)"""
    r = copy.deepcopy(root)
    nodes = walk(r)
    p, i, e = nodes[site[1]]
    kind = site[0]
    if kind == 'elem':
        if fault == 'delete':
            p.remove(e)
        elif fault == 'duplicate':
            p.insert(i, copy.deepcopy(e))
        elif fault == 'empty':
            for k in list(e):
                e.remove(k)
            e.text = None
        elif fault == 'swap':
            kids = list(p)
            if i + 1 >= len(kids):
                return None
            p.remove(kids[i + 1])
            p.insert(i, kids[i + 1])
    elif kind == 'attr':
        a = site[2]
        if fault == 'delete':
            del e.attrib[a]
        elif fault == 'empty':
            e.attrib[a] = ''
        else:
            e.attrib[a] = '§ in for (( "'
    elif kind == 'text':
        if fault in ('typeref-ancestor', 'typeref-self'):
            # the text of a (nested) itemComponent/typeRef becomes the name of the outermost / the closest enclosing item definition or component
            if local(e.tag) != 'typeRef':
                return None
            names = enclosing_type_names(r, e)
            if not names:
                return None
            e.text = names[0] if fault == 'typeref-ancestor' else names[-1]
        elif fault == 'delete':
            e.text = None
        elif fault == 'junk':
            e.text = 'for in in )) {{ "'
        else:
            e.text = (e.text or '') + ' ((('
    elif kind == 'href':
        a = site[2]
        own, outer = drg_ancestor_id(r, e)
        if fault == 'missing':
            e.attrib[a] = '#_no_such_element_'
        elif fault == 'self':
            if not own:
                return None
            e.attrib[a] = '#' + own
        elif fault == 'ancestor':
            if not outer:
                return None
            e.attrib[a] = '#' + outer
        elif fault == 'nohash':
            e.attrib[a] = e.attrib[a].lstrip('#')
        else:
            # texts that are not references at all (a first segment that looks like a scheme with a character no scheme may hold made the
            # uriparse crate panic: fixed in /repo 7fa1d0d), a colon in the first segment, two fragments, a blank, a broken percent escape
            cur = e.attrib[a]
            e.attrib[a] = {'bad-scheme': "htt'p://example.com/x" + cur, 'colon-first': ':' + cur.lstrip('#'), 'double-hash': cur + '#again',
                           'blank-inside': cur[:2] + ' ' + cur[2:], 'percent': cur + '%zz'}[fault]
    return r


def invocables(root):
    """(names of decisions / knowledge models / decision services, names of input data) of a (mutated) tree"""
    inv, inputs = [], []
    for p, i, e in walk(root):
        t = local(e.tag)
        n = e.attrib.get('name')
        if n is None:
            continue
        if t in ('decision', 'businessKnowledgeModel', 'decisionService'):
            inv.append(n)
        elif t == 'inputData':
            inputs.append(n)
    return inv, inputs


def ctx_texts(inputs):
    ok = [n for n in inputs if re.match(r'^[A-Za-z_][A-Za-z0-9_ ]*$', n)]
    out = ['{}']
    if ok:
        out.append('{' + ', '.join('%s: 10' % n for n in ok) + '}')
        out.append('{' + ', '.join('%s: "a"' % n for n in ok) + '}')
    return out


def corrupt_bytes(rng, text):
    b = bytearray(text.encode('utf-8'))
    if not b:
        return text
    k = rng.random()
    for _ in range(rng.choice([1, 1, 2, 5])):
        if not b:
            break                      # everything was deleted
        i = rng.randrange(len(b))
        if k < 0.3:
            b[i] = rng.randrange(256)
        elif k < 0.5:
            del b[i]
        elif k < 0.65:
            b.insert(i, rng.choice(b'<>&"\'/=?![]- \x00\xff'))
        elif k < 0.8:
            del b[i:i + rng.randrange(1, 200)]
        else:
            j = rng.randrange(len(b))
            b[i:i] = b[j:j + rng.randrange(1, 100)]
    return b.decode('utf-8', 'replace')


# ------------------------------------------------------------------ small generated models (graph shapes, incl. cycles)
HDR = '<?xml version="1.0" encoding="UTF-8"?>\n<definitions namespace="https://dmntk.io/verif/c12" name="m" id="_m" xmlns="https://www.omg.org/spec/DMN/20191111/MODEL/">\n'


def gen_decision(i, reqs, text, table=None):
    s = '  <decision name="d%d" id="_d%d">\n    <variable name="d%d"/>\n' % (i, i, i)
    for kind, j in reqs:
        if kind == 'd':
            s += '    <informationRequirement id="_ir_%d_%d"><requiredDecision href="#_d%d"/></informationRequirement>\n' % (i, j, j)
        elif kind == 'i':
            s += '    <informationRequirement id="_ii_%d_%d"><requiredInput href="#_i%d"/></informationRequirement>\n' % (i, j, j)
        else:
            s += '    <knowledgeRequirement id="_kr_%d_%d"><requiredKnowledge href="#_b%d"/></knowledgeRequirement>\n' % (i, j, j)
    s += table if table is not None else '    <literalExpression><text>%s</text></literalExpression>\n' % text
    return s + '  </decision>\n'


def gen_bkm(i, reqs, text):
    s = '  <businessKnowledgeModel name="b%d" id="_b%d">\n    <variable name="b%d"/>\n' % (i, i, i)
    s += '    <encapsulatedLogic><formalParameter name="x"/><literalExpression><text>%s</text></literalExpression></encapsulatedLogic>\n' % text
    for j in reqs:
        s += '    <knowledgeRequirement id="_bk_%d_%d"><requiredKnowledge href="#_b%d"/></knowledgeRequirement>\n' % (i, j, j)
    return s + '  </businessKnowledgeModel>\n'


def gen_table(n_in, n_out, rules):
    """rules: list of (n_input_entries, n_output_entries)"""
    s = '    <decisionTable hitPolicy="FIRST">\n'
    for k in range(n_in):
        s += '      <input><inputExpression typeRef="number"><text>i0</text></inputExpression></input>\n'
    for k in range(n_out):
        s += '      <output name="o%d"/>\n' % k if n_out > 1 else '      <output/>\n'
    for a, b in rules:
        s += '      <rule>' + '<inputEntry><text>-</text></inputEntry>' * a + '<outputEntry><text>1</text></outputEntry>' * b + '</rule>\n'
    return s + '    </decisionTable>\n'


def gen_item_defs(shape):
    """shape: list of (name, typeRef or None, component refs)"""
    s = ''
    for name, ref, comps in shape:
        s += '  <itemDefinition name="%s" id="_t_%s">\n' % (name, name)
        if ref:
            s += '    <typeRef>%s</typeRef>\n' % ref
        for c, cref in comps:
            s += '    <itemComponent name="%s" id="_tc_%s_%s"><typeRef>%s</typeRef></itemComponent>\n' % (c, name, c, cref)
        s += '  </itemDefinition>\n'
    return s


def generated_models():
    """[(label, xml, [invocable names], [input names])]: requirement graphs (chains, diamonds, self loops, 2- and 3-cycles between decisions,
    between knowledge models, mixed), tables whose rules disagree with the clauses, cyclic item definitions"""
    out = []
    inp = '  <inputData name="i0" id="_i0"><variable name="i0" typeRef="number"/></inputData>\n'

    def model(label, body, inv, inputs=('i0',)):
        out.append((label, HDR + inp + body + '</definitions>\n', list(inv), list(inputs)))
    # decision graphs: edges i -> j means i requires j
    graphs = {
        'chain3': {0: [1], 1: [2], 2: []}, 'diamond': {0: [1, 2], 1: [3], 2: [3], 3: []}, 'self': {0: [0]}, 'cycle2': {0: [1], 1: [0]}, 'cycle3': {0: [1], 1: [2], 2: [0]},
        'tail-into-cycle': {0: [1], 1: [2], 2: [1]}, 'two-cycles': {0: [1, 2], 1: [0], 2: [0]}, 'chain40': {i: ([i + 1] if i < 39 else []) for i in range(40)},
        'chain400': {i: ([i + 1] if i < 399 else []) for i in range(400)},
    }
    # a ladder: 30 layers of two decisions, each requiring both decisions of the next layer: 60 nodes, 116 requirements, 2^30 paths (a cycle
    # search that does not remember finished nodes never ends here; seeded change C12_g); the logic reads one requirement only, so that the
    # evaluation itself stays linear
    ladder = {}
    for k in range(30):
        for side in (0, 1):
            ladder[2 * k + side] = [2 * k + 2, 2 * k + 3] if k < 29 else []
    body = ''.join(gen_decision(i, [('d', j) for j in js] + [('i', 0)], 'i0' if not js else 'i0') for i, js in ladder.items())
    # only the bottom layer is invoked: the evaluator of a decision evaluates every required decision again for each requirement (no memo within one
    # evaluation), so invoking the top of a ladder is exponential on the unchanged tree too (it terminates; noted in NOTES-C12); the BUILD is linear
    model('decisions-ladder30', body, ['d58', 'd59'])
    for name, g in graphs.items():
        body = ''.join(gen_decision(i, [('d', j) for j in js] + [('i', 0)], ' + '.join(['i0'] + ['d%d' % j for j in js])) for i, js in g.items())
        model('decisions-' + name, body, ['d%d' % i for i in list(g)[:4]])
        body = ''.join(gen_bkm(i, js, ' + '.join(['x'] + ['b%d(x)' % j for j in js])) for i, js in g.items())
        body += gen_decision(0, [('b', 0), ('i', 0)], 'b0(i0)')
        model('knowledge-' + name, body, ['d0'] + ['b%d' % i for i in list(g)[:3]])
    # decision services: a decision that requires and invokes a service of which it is itself an input / encapsulated / output decision,
    # with the right and the wrong number of arguments; two services that reach each other through their decisions
    def svc(i, outs, encs, ins, inputs=()):
        s = '  <decisionService name="s%d" id="_s%d"><variable name="s%d"/>' % (i, i, i)
        s += ''.join('<outputDecision href="#_d%d"/>' % j for j in outs) + ''.join('<encapsulatedDecision href="#_d%d"/>' % j for j in encs)
        s += ''.join('<inputDecision href="#_d%d"/>' % j for j in ins) + ''.join('<inputData href="#_i%d"/>' % j for j in inputs)
        return s + '</decisionService>\n'

    def dec_svc(i, svcs, text, extra=()):
        s = '  <decision name="d%d" id="_d%d">\n    <variable name="d%d"/>\n' % (i, i, i)
        s += ''.join('    <knowledgeRequirement id="_ks_%d_%d"><requiredKnowledge href="#_s%d"/></knowledgeRequirement>\n' % (i, j, j) for j in svcs)
        s += ''.join('    <informationRequirement id="_ir_%d_%d"><requiredDecision href="#_d%d"/></informationRequirement>\n' % (i, j, j) for j in extra)
        return s + '    <literalExpression><text>%s</text></literalExpression>\n  </decision>\n' % text
    leaf = gen_decision(1, [('i', 0)], 'i0')
    for role in ('input', 'encapsulated', 'output'):
        for text in ('s0(1)', 's0()', 's0(1, 2)', 's0(d0: 1)', '1'):
            outs, encs, ins = ([0] if role == 'output' else [1]), ([0] if role == 'encapsulated' else []), ([0] if role == 'input' else [])
            model('service-%s-decision-invokes-it-%s' % (role, text), dec_svc(0, [0], text) + leaf + svc(0, outs, encs, ins), ['d0', 's0', 'd1'])
    # s0 -> d0 (output) -> invokes s1 -> d2 (output) -> invokes s0 ; and the same through input decisions
    for role in ('input', 'output'):
        a = svc(0, [0] if role == 'output' else [1], [], [0] if role == 'input' else [])
        b = svc(1, [2] if role == 'output' else [1], [], [2] if role == 'input' else [])
        model('services-mutual-%s' % role, dec_svc(0, [1], 's1(1)') + dec_svc(2, [0], 's0(1)') + leaf + a + b, ['d0', 'd2', 's0', 's1'])
    # dangling references of a decision service: an output / encapsulated / input decision or input data href that points to a missing id, to the
    # definitions element, to an element of another kind (input data, the service itself is covered by the cycle shapes), with one and two outputs
    # (seeded change C12_d: the single-result case indexed the list of RESOLVED output names)
    for role in ('output', 'encapsulated', 'input', 'inputdata'):
        for target in ('#_nowhere', '#_m', '#_i0', '#_d9', ''):
            for n_out in (1, 2):
                outs = ''.join('<outputDecision href="%s"/>' % (target if (role == 'output' and k == 0) else '#_d1') for k in range(n_out))
                extra = {'output': '', 'encapsulated': '<encapsulatedDecision href="%s"/>' % target, 'input': '<inputDecision href="%s"/>' % target,
                         'inputdata': '<inputData href="%s"/>' % target}[role]
                sv = '  <decisionService name="s0" id="_s0"><variable name="s0"/>%s%s</decisionService>\n' % (outs, extra)
                caller = dec_svc(0, [0], 's0()')
                model('service-dangling-%s-%s-out%d' % (role, target or 'empty', n_out), caller + leaf + sv, ['s0', 'd0', 'd1'])
    # an input decision that is also required by the output decision, and a service whose input decision requires its output decision
    model('service-input-requires-output', dec_svc(0, [], 'd1 + 1', extra=[1]) + leaf + svc(0, [1], [], [0]), ['d0', 's0'])
    model('service-output-requires-input', dec_svc(0, [], 'd1 + 1', extra=[1]) + leaf + svc(0, [0], [], [1]), ['d0', 's0'])
    # two elements with one id (the XML parser accepts them): the requirement graph must contain the requirements of BOTH copies, whichever
    # copy the evaluators resolve the id to (seeded change C12_c: only the last copy's requirements were checked)
    for cyc in ('first', 'second', 'both', 'none'):
        for kind in ('bkm', 'decision'):
            a, b = ([0] if cyc in ('first', 'both') else []), ([0] if cyc in ('second', 'both') else [])
            if kind == 'bkm':
                body = gen_bkm(0, a, 'x' + ''.join(' + b%d(x)' % j for j in a)) + gen_bkm(0, b, 'x' + ''.join(' + b%d(x)' % j for j in b))
                body += gen_decision(1, [('b', 0), ('i', 0)], 'b0(i0)')
                model('duplicate-id-bkm-cycle-in-%s' % cyc, body, ['d1', 'b0'])
            else:
                body = gen_decision(0, [('d', j) for j in a] + [('i', 0)], 'i0' + ''.join(' + d%d' % j for j in a))
                body += gen_decision(0, [('d', j) for j in b] + [('i', 0)], 'i0' + ''.join(' + d%d' % j for j in b))
                body += gen_decision(1, [('d', 0), ('i', 0)], 'd0 + i0')
                model('duplicate-id-decision-cycle-in-%s' % cyc, body, ['d1', 'd0'])
    # tables: clauses vs entries
    for n_in in (0, 1, 2):
        for n_out in (0, 1, 2):
            for rule in [(n_in, n_out), (max(0, n_in - 1), n_out), (n_in + 1, n_out), (n_in, max(0, n_out - 1)), (n_in, n_out + 1), (0, 0)]:
                body = gen_decision(0, [('i', 0)], '', table=gen_table(n_in, n_out, [rule, (n_in, n_out)]))
                model('table-in%d-out%d-rule%d/%d' % (n_in, n_out, rule[0], rule[1]), body, ['d0'])
    body = gen_decision(0, [('i', 0)], '', table=gen_table(1, 1, []))
    model('table-no-rules', body, ['d0'])
    # tables in which MANY rules match at once (the sorts behind PRIORITY and OUTPUT ORDER are library sorts that check their comparison function only
    # on longer inputs: 21 and more elements), with outputs that are listed among the output values, listed twice, and not listed at all (seeded change
    # C12_k: a comparison that is not a total order when an unlisted output meets listed ones made the sort panic)
    for policy in ('PRIORITY', 'OUTPUT ORDER', 'RULE ORDER', 'COLLECT', 'ANY', 'UNIQUE', 'FIRST'):
        for n_rules in (24, 48, 70):
            for n_out in (1, 2):
                t = '    <decisionTable hitPolicy="%s">\n      <input><inputExpression typeRef="number"><text>i0</text></inputExpression></input>\n' % policy
                for k in range(n_out):
                    t += '      <output name="o%d"><outputValues><text>"a", "b", "c"</text></outputValues></output>\n' % k
                for q in range(n_rules):
                    outs = ''.join('<outputEntry><text>%s</text></outputEntry>' % ['"a"', '"zz"', '"b"', '"c"', '"yy"', '"b"', 'null'][(q * (k + 1) + k) % 7] for k in range(n_out))
                    t += '      <rule><inputEntry><text>%s</text></inputEntry>%s</rule>\n' % ('-' if q % 5 else '>= %d' % (q % 9), outs)
                t += '    </decisionTable>\n'
                model('table-many-matches-%s-%d-out%d' % (policy.replace(' ', ''), n_rules, n_out), gen_decision(0, [('i', 0)], '', table=t), ['d0'])
    # relations: 0..3 columns and rows of every width, the <column> and <row> children in every order (the schema wants columns first, the XML
    # parser takes them as they come): a row that is narrower or wider than the columns, columns behind rows (seeded change C12_i: rows were judged
    # against the columns read so far and indexed per column afterwards), as a decision's logic, a context entry and a knowledge-model body
    import itertools
    lit = lambda k: '<literalExpression><text>i0 + %d</text></literalExpression>' % k
    for n_col in (0, 1, 2, 3):
        for widths in ([], [n_col], [max(0, n_col - 1)], [n_col + 1], [n_col, max(0, n_col - 1)], [max(0, n_col - 1), n_col], [0]):
            kids = [('c', j) for j in range(n_col)] + [('r', w) for w in widths]
            orders = set(itertools.permutations(range(len(kids)))) if len(kids) <= 4 else {tuple(range(len(kids))), tuple(reversed(range(len(kids))))}
            for oi, order in enumerate(sorted(orders)):
                rel = '    <relation>' + ''.join('<column name="c%d"/>' % kids[k][1] if kids[k][0] == 'c' else '<row>' + ''.join(lit(q) for q in range(kids[k][1])) + '</row>'
                                                 for k in order) + '</relation>\n'
                label = 'relation-cols%d-rows%s-order%d' % (n_col, '.'.join(map(str, widths)) or 'none', oi)
                model(label, gen_decision(0, [('i', 0)], '', table=rel), ['d0'])
                if oi % 3 == 0:
                    model(label + '-in-context', gen_decision(0, [('i', 0)], '', table='    <context><contextEntry><variable name="e"/>\n' + rel + '</contextEntry></context>\n'), ['d0'])
                if oi % 3 == 1:
                    bkm = ('  <businessKnowledgeModel name="b0" id="_b0"><variable name="b0"/><encapsulatedLogic><formalParameter name="i0"/>\n' + rel +
                           '</encapsulatedLogic></businessKnowledgeModel>\n')
                    model(label + '-in-bkm', bkm + gen_decision(0, [('b', 0), ('i', 0)], 'b0(i0)'), ['d0', 'b0'])
    # item definitions: reference cycles
    shapes = {
        'self-ref': [('tA', 'tA', [])], 'ref-cycle2': [('tA', 'tB', []), ('tB', 'tA', [])], 'component-cycle': [('tA', None, [('c', 'tA')])],
        'component-cycle2': [('tA', None, [('c', 'tB')]), ('tB', None, [('c', 'tA')])], 'missing-ref': [('tA', 'tNowhere', [])], 'ok-ref': [('tA', 'number', []), ('tB', 'tA', [])],
    }
    # the same references written with white space around the name (the text of <typeRef> on its own line): whatever the builders make of the padded
    # text, the cycle search must make the same of it (seeded change C12_h: the builders trimmed it, the cycle search did not)
    for k in ('self-ref', 'ref-cycle2', 'component-cycle', 'component-cycle2', 'ok-ref'):
        pad = lambda r, i: r if r in (None, 'number') else [' %s', '%s ', '\n      %s\n    ', '\t%s'][i % 4] % r
        for v in (0, 1, 2):
            shapes['%s-padded%d' % (k, v)] = [(n, pad(r, v + j) if (v < 2 or j == 0) else r, [(c, pad(cr, v + j)) for c, cr in comps]) for j, (n, r, comps) in enumerate(shapes[k])]
    for name, shape in shapes.items():
        body = gen_item_defs(shape) + '  <inputData name="i1" id="_i1"><variable name="i1" typeRef="tA"/></inputData>\n'
        body += '  <decision name="d0" id="_d0"><variable name="d0" typeRef="tA"/><informationRequirement id="_r"><requiredInput href="#_i1"/></informationRequirement><literalExpression><text>i1</text></literalExpression></decision>\n'
        model('items-' + name, body, ['d0'], ['i1'])
    return out


_IDS = [0]


def gen_item_tree(name, ref, comps, depth=0, collection=False):
    """comps: [(component name, typeRef or None, sub-components, is collection)]"""
    tag = 'itemDefinition' if depth == 0 else 'itemComponent'
    ind = '  ' * (depth + 1)
    _IDS[0] += 1
    s = '%s<%s name="%s" id="_t%d_%s_%d"%s>\n' % (ind, tag, name, depth, name, _IDS[0], ' isCollection="true"' if collection else '')
    if ref:
        s += '%s  <typeRef>%s</typeRef>\n' % (ind, ref)
    for c in comps:
        s += gen_item_tree(c[0], c[1], c[2], depth + 1, c[3] if len(c) > 3 else False)
    return s + '%s</%s>\n' % (ind, tag)


def nest(depth, leaf_ref, collection_at=None):
    """a chain of components c1 { c2 { .. c<depth>: typeRef leaf_ref } } (with a sibling leaf of type number at every level)"""
    comps = [('c%d' % depth, leaf_ref, [], collection_at == depth)]
    for d in range(depth - 1, 0, -1):
        comps = [('c%d' % d, None, comps + [('n%d' % d, 'number', [])], collection_at == d)]
    return comps


def nested_item_models():
    """[(label, xml, invocables, inputs, coq graph term, cyclic?)]: type-reference cycles through components at nesting depth 1..4,
    through collections, through a reference followed by nested components; and the same shapes without a cycle"""
    out = []
    use = ('  <inputData name="i1" id="_i1"><variable name="i1" typeRef="tA"/></inputData>\n'
           '  <decision name="d0" id="_d0"><variable name="d0"/><informationRequirement id="_r"><requiredInput href="#_i1"/></informationRequirement><literalExpression><text>i1</text></literalExpression></decision>\n')
    for depth in (1, 2, 3, 4):
        for coll in (None, 1, depth):
            out.append(('items-nested-self-depth%d-coll%s' % (depth, coll), HDR + gen_item_tree('tA', None, nest(depth, 'tA', coll)) + use + '</definitions>\n', ['d0'], ['i1'], '[(0, [0])]', True))
            out.append(('items-nested-mutual-depth%d-coll%s' % (depth, coll), HDR + gen_item_tree('tA', None, nest(depth, 'tB', coll)) + gen_item_tree('tB', None, nest(depth, 'tA', coll)) + use + '</definitions>\n',
                        ['d0'], ['i1'], '[(0, [1]); (1, [0])]', True))
            out.append(('items-nested-ref-then-depth%d-coll%s' % (depth, coll), HDR + gen_item_tree('tA', 'tB', []) + gen_item_tree('tB', None, nest(depth, 'tA', coll)) + use + '</definitions>\n',
                        ['d0'], ['i1'], '[(0, [1]); (1, [0])]', True))
            out.append(('items-nested-acyclic-depth%d-coll%s' % (depth, coll), HDR + gen_item_tree('tA', None, nest(depth, 'tB', coll)) + gen_item_tree('tB', None, nest(depth, 'number', coll)) + use + '</definitions>\n',
                        ['d0'], ['i1'], '[(0, [1]); (1, [9])]', False))
    return out


def long_cycle_graphs():
    """requirement graphs with a cycle of path length 1..5, entered directly or through a tail of 1..2 nodes"""
    out = {}
    for k in (1, 2, 3, 4, 5):
        ring = {i: [(i + 1) % k] for i in range(k)}
        out['ring%d' % k] = dict(ring)
        g = dict(ring)
        g[k] = [0]
        out['tail1-ring%d' % k] = g
        g = dict(ring)
        g[k] = [k + 1]
        g[k + 1] = [k - 1]
        out['tail2-ring%d' % k] = g
        g = {i: [(i + 1) % k, k] for i in range(k)}
        g[k] = []
        out['ring%d-with-exit' % k] = g
    out['path5'] = {i: ([i + 1] if i < 4 else []) for i in range(5)}
    return out


# ------------------------------------------------------------------ the decision table family (coq/C12/Model.v: table_build / table_eval)
POLICIES = [('UNIQUE', None, 'Unique'), ('ANY', None, 'Any'), ('PRIORITY', None, 'Priority'), ('FIRST', None, 'First'), ('RULE ORDER', None, 'RuleOrder'),
            ('OUTPUT ORDER', None, 'OutputOrder'), ('COLLECT', None, 'Collect AList'), ('COLLECT', 'COUNT', 'Collect ACount'), ('COLLECT', 'SUM', 'Collect ASum'),
            ('COLLECT', 'MIN', 'Collect AMin'), ('COLLECT', 'MAX', 'Collect AMax')]
# the first input entry of a rule decides whether the rule matches under the three contexts {i0: 10}, {i0: 20}, {} (i0 = null)
ENTRY_KINDS = {'-': (True, True, True), '10': (True, False, False), '20': (False, True, False), '999': (False, False, False)}
TABLE_CONTEXTS = ['{i0: 10}', '{i0: 20}', '{}']


def table_xml(t):
    """t = dict(policy=index into POLICIES, n_in, outs=[(has_name, [output values], default or None)], rules=[(n_input_entries, kind, [output entry values])])"""
    pol, agg, _ = POLICIES[t['policy']]
    s = '    <decisionTable hitPolicy="%s"%s>\n' % (pol, ' aggregation="%s"' % agg if agg else '')
    for k in range(t['n_in']):
        s += '      <input><inputExpression typeRef="number"><text>i0</text></inputExpression></input>\n'
    for k, (named, ovs, dflt) in enumerate(t['outs']):
        s += '      <output%s>' % (' name="o%d"' % k if named else '')
        if ovs:
            s += '<outputValues><text>%s</text></outputValues>' % ','.join(str(v) for v in ovs)
        if dflt is not None:
            s += '<defaultOutputEntry><text>%d</text></defaultOutputEntry>' % dflt
        s += '</output>\n'
    for a, kind, vs in t['rules']:
        s += '      <rule>' + ''.join('<inputEntry><text>%s</text></inputEntry>' % (kind if i == 0 else '-') for i in range(a))
        s += ''.join('<outputEntry><text>%d</text></outputEntry>' % v for v in vs) + '</rule>\n'
    return s + '    </decisionTable>\n'


def table_term(t):
    def lst(xs):
        return '[' + '; '.join(xs) + ']'
    outs = lst('mk_out %s %s %s' % ('true' if n else 'false', lst(str(v) for v in ovs), '(Some %d)' % d if d is not None else 'None') for n, ovs, d in t['outs'])
    rules = lst('mk_rule %d %s' % (a, lst(str(v) for v in vs)) for a, _, vs in t['rules'])
    return '(mk_table (%s) %d %s %s)' % (POLICIES[t['policy']][2], t['n_in'], outs, rules)


def table_matches(t, c):
    """which rules match under context number c: a rule without input entries always matches"""
    return [True if a == 0 else ENTRY_KINDS[kind][c] for a, kind, _ in t['rules']]


def table_case(t, label):
    """(label, xml, coq term: (table_build t, [table_eval t m for the three contexts]), table)"""
    inp = '  <inputData name="i0" id="_i0"><variable name="i0" typeRef="number"/></inputData>\n'
    xml = HDR + inp + gen_decision(0, [('i', 0)], '', table=table_xml(t)) + '</definitions>\n'
    tt = table_term(t)
    evs = '; '.join('table_eval %s [%s]' % (tt, '; '.join('true' if b else 'false' for b in table_matches(t, c))) for c in range(3))
    return label, xml, '(table_build %s, [%s])' % (tt, evs), t


def table_family(rng, n_pairs, n_random):
    """all hit policies x {0,1} input clauses x {0,1,2} output clauses x ONE rule with {0,1,2} output entries x {matches, does not match} (exhaustive);
    the same with TWO rules (every combination of entry counts and match kinds): n_pairs sampled (None = all);
    n_random tables with 1..4 rules, 0..2 input and 0..3 output clauses, names on some clauses only, output values, default output entries,
    rules with one input entry less / more"""
    out = []

    def outs_for(n_out):
        return [(n_out > 1, [], None) for _ in range(n_out)]
    for p in range(len(POLICIES)):
        for n_in in (0, 1):
            for n_out in (0, 1, 2):
                for e in (0, 1, 2):
                    for kind in (('-', '999') if n_in else ('-',)):
                        t = dict(policy=p, n_in=n_in, outs=outs_for(n_out), rules=[(n_in, kind, [e + 1 + k for k in range(e)])])
                        out.append(table_case(t, 'table %s in%d out%d one rule with %d output entries %s' % (POLICIES[p][2], n_in, n_out, e, kind)))
    pairs = []
    for p in range(len(POLICIES)):
        for n_out in (0, 1, 2):
            for e1 in (0, 1, 2):
                for k1 in ENTRY_KINDS:
                    for e2 in (0, 1, 2):
                        for k2 in ENTRY_KINDS:
                            pairs.append((p, n_out, e1, k1, e2, k2))
    if n_pairs is not None and n_pairs < len(pairs):
        pairs = rng.sample(pairs, n_pairs)
    for p, n_out, e1, k1, e2, k2 in pairs:
        t = dict(policy=p, n_in=1, outs=outs_for(n_out), rules=[(1, k1, [1 + k for k in range(e1)]), (1, k2, [1 + (k + e1) % 2 for k in range(e2)])])
        out.append(table_case(t, 'table %s in1 out%d two rules with %d/%d output entries %s/%s' % (POLICIES[p][2], n_out, e1, e2, k1, k2)))
    for i in range(n_random):
        p = rng.randrange(len(POLICIES))
        n_in, n_out = rng.choice([0, 1, 1, 2]), rng.choice([0, 0, 1, 1, 2, 2, 3])
        outs = []
        naming = rng.choice(['all', 'all', 'none', 'some'])
        for k in range(n_out):
            ovs = rng.sample([1, 2, 3, 4], rng.choice([2, 3, 4])) if rng.random() < 0.4 else []
            dflt = (rng.choice(ovs) if ovs else rng.choice([1, 2, 3, 4])) if rng.random() < 0.4 else None
            outs.append((naming == 'all' or (naming == 'some' and rng.random() < 0.5), ovs, dflt))
        rules = []
        odd = rng.random() < 0.25       # some rule disagrees with the clauses
        for r in range(rng.choice([1, 2, 2, 3, 4])):
            a, b = n_in, n_out
            if odd and rng.random() < 0.5:
                a = max(0, a + rng.choice([-1, 1]))
            if odd and rng.random() < 0.5:
                b = max(0, b + rng.choice([-1, 1, -2]))
            vs = [rng.choice(outs[k][1]) if k < n_out and outs[k][1] else rng.choice([1, 1, 2, 3]) for k in range(b)]
            rules.append((a, rng.choice(list(ENTRY_KINDS)), vs))
        t = dict(policy=p, n_in=n_in, outs=outs, rules=rules)
        out.append(table_case(t, 'table %s random #%d: %s' % (POLICIES[p][2], i, table_term(t))))
    return out


def table_expected(term, t):
    """the value of the Coq model (parsed `Got (One r)` / `Got (Many rs)` / `EvalPanic s`) as the canonical value of the harness; ('panic', site) for a panic"""
    def name_of(x):
        return getattr(x, 'name', None)

    def res(r):
        n = name_of(r)
        if n == 'RNull':
            return None
        if n == 'RNum':
            return ('num', r.args[0])
        if n == 'RCtx':
            names = ['o%d' % k for k, o in enumerate(t['outs']) if o[0]]
            es = r.args[0]
            if len(es) != len(names):
                return ('bad-context', len(es), len(names))
            return ('ctx', sorted((nm, (('num', e.args[0]) if name_of(e) == 'Some' else None)) for nm, e in zip(names, es)))
        return ('?', str(r))
    if name_of(term) == 'EvalPanic':
        return ('panic', term.args[0])
    v = term.args[0]
    if name_of(v) == 'One':
        return res(v.args[0])
    return ('list', [res(x) for x in v.args[0]])


def table_observed(v):
    """the canonical value of the harness in the same form"""
    from decimal import Decimal
    if v is None:
        return None
    if isinstance(v, dict) and 'p' in v:
        d = Decimal(v['p'])
        return ('num', int(d)) if d == d.to_integral_value() else ('num', str(d))
    if isinstance(v, dict) and 'c' in v:
        return ('ctx', sorted((k, table_observed(x)) for k, x in v['c']))
    if isinstance(v, list):
        return ('list', [table_observed(x) for x in v])
    return ('?', str(v))
